"""B-cfi_unwind: call frame instruction decode, unwind table evaluation, unwind context (DESIGN.md 6 C06 / C20 / C01).

Source: /repo/src/read/cfi.rs (+ constants.rs, arch.rs, read/mod.rs).  Oracle: vx/specs/cfi_unwind.rs (`cfa_step`, written from
DWARF 5 section 6.4.2 on an abstract context: stack of rows (start, end, cfa, rules: Map<Register, RegisterRule>, args_size),
initial rules Option<Map>, CIE factors, storage limits) and the decode table CFA below (DWARF 5 table 7.29 / section 7.24).

FUNCTIONS UNDER CONTRACT, VERIFIED FROM THEIR REAL TEXT (owners C01 + C06; UnwindContext also C20)
  CallFrameInstruction::parse        per-opcode decode clause for every DW_CFA opcode (high-2-bit forms, extended opcodes, GNU_args_size),
                                     exact consumption, operands (ULEB/SLEB/fixed), registers wider than 16 bits rejected, expression
                                     operands as (offset, length) views of the section, vendor gate on AARCH64_negate_ra_state,
                                     unknown opcode => UnknownCallFrameInstruction(opcode), acceptance of well-formed input, frame, progress
  CallFrameInstructionIter::next     iterator protocol (Err empties the input, Ok(Some) consumes, Ok(None) only at the end)
  UnwindTable::evaluate              == cfa_step for each of the 23 instruction kinds (result incl. the specific error, the whole
                                     abstract context, next row start), errors leave the context unchanged, table fields framed
  UnwindTable::next_row              rows contiguous (start == previous end), starts non-decreasing, last row ends at the FDE end
                                     address, returned row is the current row, iterator protocol with the lexicographic measure
                                     (remaining instruction bytes, last row not yet returned); termination of the loop
  UnwindTable::into_current_row, UnwindTableRow::{start_address,end_address,contains,saved_args_size,cfa,register},
  UnwindContext::{start_address,set_start_address,set_register_rule,clear_register_rule,set_cfa,cfa_mut}, Pointer::direct

ASSUMED (TRUSTED beyond core's ledger) -- each with the reason it is outside Verus and the Kani harness that checks the same sentence
  parse_encoded_pointer              verified by the C05 batch; here only its frame `within(old, final)` is assumed (no value clause)
  Wrapping<u64|i64>::mul (`mul`)     model of core::num::Wrapping (type unsupported by Verus); dependency, no partner
  ArrayVec (struct), is_empty        model of read/util.rs (unsafe, MaybeUninit, raw pointers): a sequence bounded by ArrayLike::cap();
                                     K-AVEC k_avec_sequence_model_cap4 / k_avec_boxed_push_pop_cap4 (bounded)
  RegisterRuleMap::{get,set,clear}   bodies use iterator adapters (`iter().find`, `enumerate`) and `for &mut (..) in &mut *slice`; assumed
                                     as a finite map with capacity; K-RRMAP harnesses are written (kani/src/uctx.rs, public API route)
                                     but time out under CBMC -> NOT discharged, not registered
  UnwindContext::{new_in,reset,row,row_mut,save_initial_rules,get_initial_rule,push_row,pop_row}
                                     bodies lean on ArrayVec's Deref<[T]> (`last_mut().unwrap()`, `self.stack[0]`, slice patterns on
                                     `registers.rules`, match guard with `ref` binding, `Default::default()`); assumed over the abstract
                                     context `abs()` which is DEFINED from the real fields (0 / 1 / many initial rules representation,
                                     hidden bottom row); K-UCTX harnesses k_uctx_state_stack_cap4 / k_uctx_reuse_equals_fresh are written
                                     but time out under CBMC (decoder inside nested loops) -> NOT discharged, not registered; the
                                     extraction-to-Kani route (DESIGN P24) is the way to discharge them
  `unsafe impl Structural for Vendor / Register` (prelude text in `common`): derived PartialEq on these two types is structural
                                     equality (needed for `vendor == Vendor::AArch64`); `#[derive(Structural)]` crashes this Verus build
  model text: ArrayLike::cap() for [T; N] and Box<[T; N]>, crate::AArch64::RA_SIGN_STATE (value read from arch.rs; the oracle uses
                                     the literal 34 from the AArch64 DWARF ABI), DW_CFA_{advance_loc,offset,restore} (shifted constants)

LOGGED REWRITES: R-GUARD on the `negate_ra_state if vendor == ..` match arm (Verus loses the &mut parameter across a guarded arm, see
  populate); with_attrs=False on RegisterRuleMap / UnwindTableRow / UnwindContext / UnwindTable (derives over the model ArrayVec);
  `impl UnwindContextStorage for StoreOnHeap` not emitted (Verus rejects the impl/associated-type cycle) -- all proofs are for every S.

NOT DECIDED HERE
  * UnwindContext::initialize / UnwindTable::{new, new_for_cie, new_for_fde} are not extracted (CommonInformationEntry /
    FrameDescriptionEntry / UnwindSection belong to the C05 batch; a struct holding `&'ctx mut UnwindContext` built inside the
    function is untested in this Verus build).  C20 for the context is carried only by the ASSUMED [C20:reset-fresh] / [C20:new-fresh];
    the harness k_uctx_reuse_equals_fresh (real `UnwindTable::new` on a dirty context vs a fresh one) does not terminate under CBMC.
  * next_row == iterated cfa_step over the *decoded* stream (needs a spec-level decoder; the loop body is the composition of the two
    verified contracts); SetLoc under an .eh_frame pointer encoding (value owned by C05); acceptance clauses for SLEB128 operands and
    DW_CFA_set_loc (the reader layer has no acceptance clause for read_sleb128 / read_address).
  * after an *evaluation* error next_row does not stop the table: a caller that ignores the error gets further rows computed from the
    remaining instructions (progress is still guaranteed, [C01:iter-progress]); not documented either way by gimli.
  * preconditions stated, not proved at the API boundary: address_size in {1,2,4,8} (for .debug_frame it is established by the FDE
    parser's read_address; under .eh_frame pointer encodings it is the C05 batch's obligation), storage with at least one row
    ([C06:storage-nonempty]: `[UnwindTableRow; 0]` makes `new_in()` panic on `try_push(..).unwrap()`, native/src/bin/f_cfi_unwind_1.rs).
"""
import re
from lib import *
from batches import core

TRUSTED = list(core.TRUSTED) + ['parse_encoded_pointer', 'mul', 'ArrayVec', 'is_empty', 'get', 'set', 'clear',
                                'new_in', 'reset', 'row', 'row_mut', 'save_initial_rules', 'get_initial_rule', 'push_row', 'pop_row']
VERUS_ARGS = ['--rlimit', '40']
RETRY_RLIMIT = 120

OWN = ['C01', 'C06']

# ----------------------------------------------------------------------------------------------------------------------
# 1. CallFrameInstruction::parse : decode table written from DWARF 5 section 6.4.2 and table 7.29 (section 7.24),
#    plus the two vendor extensions gimli documents (DW_CFA_GNU_args_size 0x2e, DW_CFA_AARCH64_negate_ra_state 0x2d).
#    (name, primary opcode condition over the first byte `b`, operand kinds, decoded instruction pattern, constraints)
#    operand kinds: low6 = low six bits of the opcode byte (consumes nothing); u1 u2 u4 = fixed-size unsigned;
#                   addr = target address (address_size bytes, when no pointer encoding applies);
#                   reg = ULEB128 register number (must fit 16 bits, gimli's Register); uleb / sleb; blk = ULEB128 length + bytes
# ----------------------------------------------------------------------------------------------------------------------
CFA = [
    # high-2-bit forms (6.4.2: "primary opcode" in the high 2 bits, operand in the low 6 bits)
    ('advance_loc', 'hi == 0x1', ['low6'], 'CallFrameInstruction::AdvanceLoc { delta }', 'delta == o0'),
    ('offset', 'hi == 0x2', ['low6', 'uleb'], 'CallFrameInstruction::Offset { register, factored_offset }', 'register.0 == o0 && factored_offset == o1'),
    ('restore', 'hi == 0x3', ['low6'], 'CallFrameInstruction::Restore { register }', 'register.0 == o0'),
    # extended opcodes (high 2 bits zero)
    ('nop', 'b == 0x00', [], 'CallFrameInstruction::Nop', 'true'),
    ('advance_loc1', 'b == 0x02', ['u1'], 'CallFrameInstruction::AdvanceLoc { delta }', 'delta == o0'),
    ('advance_loc2', 'b == 0x03', ['u2'], 'CallFrameInstruction::AdvanceLoc { delta }', 'delta == o0'),
    ('advance_loc4', 'b == 0x04', ['u4'], 'CallFrameInstruction::AdvanceLoc { delta }', 'delta == o0'),
    ('offset_extended', 'b == 0x05', ['reg', 'uleb'], 'CallFrameInstruction::Offset { register, factored_offset }', 'register.0 == o0 && factored_offset == o1'),
    ('restore_extended', 'b == 0x06', ['reg'], 'CallFrameInstruction::Restore { register }', 'register.0 == o0'),
    ('undefined', 'b == 0x07', ['reg'], 'CallFrameInstruction::Undefined { register }', 'register.0 == o0'),
    ('same_value', 'b == 0x08', ['reg'], 'CallFrameInstruction::SameValue { register }', 'register.0 == o0'),
    ('register', 'b == 0x09', ['reg', 'reg'], 'CallFrameInstruction::Register { dest_register, src_register }', 'dest_register.0 == o0 && src_register.0 == o1'),
    ('remember_state', 'b == 0x0a', [], 'CallFrameInstruction::RememberState', 'true'),
    ('restore_state', 'b == 0x0b', [], 'CallFrameInstruction::RestoreState', 'true'),
    ('def_cfa', 'b == 0x0c', ['reg', 'uleb'], 'CallFrameInstruction::DefCfa { register, offset }', 'register.0 == o0 && offset == o1'),
    ('def_cfa_register', 'b == 0x0d', ['reg'], 'CallFrameInstruction::DefCfaRegister { register }', 'register.0 == o0'),
    ('def_cfa_offset', 'b == 0x0e', ['uleb'], 'CallFrameInstruction::DefCfaOffset { offset }', 'offset == o0'),
    ('def_cfa_expression', 'b == 0x0f', ['blk'], 'CallFrameInstruction::DefCfaExpression { expression }', 'EXPR(expression, 0)'),
    ('expression', 'b == 0x10', ['reg', 'blk'], 'CallFrameInstruction::Expression { register, expression }', 'register.0 == o0 && EXPR(expression, 1)'),
    ('offset_extended_sf', 'b == 0x11', ['reg', 'sleb'], 'CallFrameInstruction::OffsetExtendedSf { register, factored_offset }', 'register.0 == o0 && factored_offset == o1'),
    ('def_cfa_sf', 'b == 0x12', ['reg', 'sleb'], 'CallFrameInstruction::DefCfaSf { register, factored_offset }', 'register.0 == o0 && factored_offset == o1'),
    ('def_cfa_offset_sf', 'b == 0x13', ['sleb'], 'CallFrameInstruction::DefCfaOffsetSf { factored_offset }', 'factored_offset == o0'),
    ('val_offset', 'b == 0x14', ['reg', 'uleb'], 'CallFrameInstruction::ValOffset { register, factored_offset }', 'register.0 == o0 && factored_offset == o1'),
    ('val_offset_sf', 'b == 0x15', ['reg', 'sleb'], 'CallFrameInstruction::ValOffsetSf { register, factored_offset }', 'register.0 == o0 && factored_offset == o1'),
    ('val_expression', 'b == 0x16', ['reg', 'blk'], 'CallFrameInstruction::ValExpression { register, expression }', 'register.0 == o0 && EXPR(expression, 1)'),
    ('GNU_args_size', 'b == 0x2e', ['uleb'], 'CallFrameInstruction::ArgsSize { size }', 'size == o0'),
]
# DW_CFA_set_loc (0x01) and DW_CFA_AARCH64_negate_ra_state (0x2d, vendor gated) are written out by hand below.
KNOWN_EXT = [0x00, 0x01, 0x02, 0x03, 0x04, 0x05, 0x06, 0x07, 0x08, 0x09, 0x0a, 0x0b, 0x0c, 0x0d, 0x0e, 0x0f, 0x10, 0x11, 0x12,
             0x13, 0x14, 0x15, 0x16, 0x2e]

B0 = 'old(input).rv()'
FIN = 'final(input).rv()'
HEAD = f'let b0 = {B0}; let b = b0.at(0) as int; let hi = b / 64; '


def operand_lets(kinds):
    """spec let-chain: operand values o_i, positions p_i (p0 = 1: after the opcode byte), total size, well-formedness"""
    s = 'let p0 = 1int; '
    wf = []
    for i, k in enumerate(kinds):
        p = f'p{i}'
        if k == 'low6':
            s += f'let o{i} = b % 64; let p{i + 1} = {p}; '
        elif k in ('u1', 'u2', 'u4'):
            n = int(k[1])
            s += (f'let o{i} = b0.at({p}) as int; ' if n == 1 else f'let o{i} = b0.u({p}, {n}) as int; ') + f'let p{i + 1} = {p} + {n}; '
            wf.append(f'p{i + 1} <= b0.len')
        elif k in ('uleb', 'reg'):
            s += f'let o{i} = b0.uleb({p}) as int; let p{i + 1} = {p} + b0.leb_len({p}) as int; '
            wf.append(f'b0.leb_ok({p}) && b0.leb_len({p}) <= 10 && o{i} <= ' + ('0xffff' if k == 'reg' else 'u64::MAX'))
        elif k == 'sleb':
            s += f'let o{i} = b0.sleb({p}); let p{i + 1} = {p} + b0.leb_len({p}) as int; '
            wf.append('false')       # the reader layer has no acceptance clause for SLEB128
        elif k == 'blk':
            # o_i = block length, q_i = offset of the first block byte
            s += f'let o{i} = b0.uleb({p}) as int; let q{i} = {p} + b0.leb_len({p}) as int; let p{i + 1} = q{i} + o{i}; '
            wf.append(f'b0.leb_ok({p}) && b0.leb_len({p}) <= 10 && o{i} <= 0xffff_ffff && p{i + 1} <= b0.len')
    s += f'let total = p{len(kinds)}; '
    return s, wf


def expr_view(cons):
    """EXPR(e, i): the UnwindExpression e is the (offset, length) view of block operand i: offset counted from the start of the
    section reader, the bytes are the window [q_i, q_i + o_i) of the instruction input"""
    return re.sub(r'EXPR\((\w+), (\d)\)',
                  r'(\1.length.as_nat() == o\2 && \1.offset.as_nat() + parameters.section.rv().start == b0.start + q\2 && q\2 + o\2 <= b0.len)', cons)


def parse_clauses():
    out = []
    for name, cond, kinds, pat, cons in CFA:
        lets, wf = operand_lets(kinds)
        tags = f'[C06:decode-{name}]' + ('[C10:view]' if 'EXPR' in cons else '')
        out.append(f'{tags} res matches Ok(op) ==> ({{ {HEAD} ({cond}) ==> ({{ {lets} '
                   f'(op matches {pat} && ({expr_view(cons)}) && adv(b0, {FIN}, total as nat)) }}) }})')
        if 'false' not in wf:
            w = ' && '.join(['b0.len >= 1'] + wf)
            out.append(f'[C06:accept-{name}] ({{ {HEAD} ({cond}) ==> ({{ {lets} ({w}) ==> res is Ok }}) }})')
        regs = [i for i, k in enumerate(kinds) if k == 'reg']
        if regs:
            # a register number that does not fit gimli's 16-bit Register is an error, never a truncated register
            i = regs[0]
            out.append(f'[C06:reject-wide-register-{name}] ({{ {HEAD} ({cond}) ==> ({{ {lets} b0.len >= 1 && b0.leb_ok(p{i}) && o{i} > 0xffff ==> res is Err }}) }})')
    # DW_CFA_set_loc: a target address (address_size bytes) unless an .eh_frame pointer encoding applies (then parse_encoded_pointer, owned by C05)
    out.append(f'[C06:decode-set_loc] res matches Ok(op) ==> ({{ {HEAD} b == 0x01 ==> (op matches CallFrameInstruction::SetLoc {{ address }} && '
               f'(address_encoding is None ==> address == b0.u(1, parameters.address_size as int) && valid_address_size(parameters.address_size) && adv(b0, {FIN}, 1 + parameters.address_size as nat))) }})')
    # vendor gate
    out.append(f'[C06:decode-AARCH64_negate_ra_state] ({{ {HEAD} b0.len >= 1 && b == 0x2d ==> '
               f'(if vendor == Vendor::AArch64 {{ res == Ok::<CallFrameInstruction<T>, Error>(CallFrameInstruction::NegateRaState) && adv(b0, {FIN}, 1) }} '
               f'else {{ res == Err::<CallFrameInstruction<T>, Error>(Error::UnknownCallFrameInstruction(constants::DwCfa(0x2d))) }}) }})')
    known = ' || '.join(f'b == {x:#04x}' for x in KNOWN_EXT)
    out.append(f'[C06:decode-unknown-opcode] ({{ {HEAD} b0.len >= 1 && hi == 0 && !({known} || b == 0x2d) ==> '
               f'res == Err::<CallFrameInstruction<T>, Error>(Error::UnknownCallFrameInstruction(constants::DwCfa(b0.at(0)))) }})')
    out.append(f'[C06:decode-empty] {B0}.len == 0 ==> res is Err')
    out.append(f'[C01:frame] within({B0}, {FIN})')
    out.append(f'[C01:progress] res is Ok ==> {FIN}.len < {B0}.len')
    return out


def shift_consts(ctx):
    """dw_consts (lib.py) only understands literal values; DW_CFA_{advance_loc,offset,restore} are written `0x0N << 6`.
    They are taken from the source text here (same mechanical emission)."""
    src = Source('constants.rs', ctx)
    out = []
    for name, val in re.findall(r'\b(DW_CFA_\w+)\s*=\s*(0x[0-9a-fA-F]+\s*<<\s*\d+)\s*,', src.text):
        out.append(f'pub const {name}: DwCfa = DwCfa({val});')
    if len(out) != 3:
        raise Lost('constants.rs: shifted DW_CFA constants')
    ctx.count('R-DW', len(out))
    return '\n'.join(out)


MASK_BV = ('proof { let i = instruction; assert((i & 0b1100_0000u8) == 0x40u8 <==> i / 64 == 1) by (bit_vector); '
           'assert((i & 0b1100_0000u8) == 0x80u8 <==> i / 64 == 2) by (bit_vector); '
           'assert((i & 0b1100_0000u8) == 0xc0u8 <==> i / 64 == 3) by (bit_vector); '
           'assert((i & 0b1100_0000u8) == 0u8 <==> i / 64 == 0) by (bit_vector); '
           'assert((i & !0b1100_0000u8) == i % 64) by (bit_vector); '
           'assert(0x01u8 << 6 == 0x40u8) by (bit_vector); assert(0x02u8 << 6 == 0x80u8) by (bit_vector); assert(0x03u8 << 6 == 0xc0u8) by (bit_vector); }')


def populate(ctx, sk):
    cfi = Source('read/cfi.rs', ctx)
    sk.mods['read']['uses'] += '\npub use self::cfi::*;'
    sk.add('constants', shift_consts(ctx), label='DwCfa-shifted')
    sk.module('read::cfi', '''use core::fmt::Debug;
use crate::common::{Format, Register, Vendor};
use crate::constants::{self, DwEhPe};
use crate::read::{Error, Reader, ReaderAddress, ReaderOffset, Result};
use crate::read::reader_clone;
use crate::vspec::*;''')
    sk.add('read::cfi', cfi.item(r'^pub struct SectionBaseAddresses').clean())
    sk.add('read::cfi', cfi.item(r'^pub struct UnwindExpression<').clean())
    sk.add('read::cfi', cfi.item(r'^pub enum CallFrameInstruction<').clean(rejrec=['T']))
    sk.add('read::cfi', cfi.item(r'^const CFI_INSTRUCTION_HIGH_BITS_MASK').clean())
    sk.add('read::cfi', cfi.item(r'^const CFI_INSTRUCTION_LOW_BITS_MASK').clean())
    sk.add('read::cfi', cfi.item(r'^pub enum Pointer \{').clean())
    ptr = cfi.item(r'^impl Pointer \{', label='Pointer').keep_only(['direct']).clean()
    ptr.splice('direct', ret='res', ensures=['res matches Ok(p) ==> self == Pointer::Direct(p)', 'res is Err <==> self is Indirect'])
    ptr.own(OWN)
    sk.add('read::cfi', ptr)
    sk.add('read::cfi', cfi.item(r'^struct PointerEncodingParameters<').clean(offset=False))
    # parse_encoded_pointer is verified by the C05 batch; here only its frame is assumed (no value clause)
    pep = cfi.item(r'^fn parse_encoded_pointer<').extbody(['parse_encoded_pointer']).clean(offset=False)
    pep.splice('parse_encoded_pointer', ret='res', ensures=['within(old(input).rv(), final(input).rv())'])
    sk.add('read::cfi', pep)

    imp = cfi.item(r'^impl<T: ReaderOffset> CallFrameInstruction<T> \{', label='CallFrameInstruction')
    # R-GUARD: Verus 0.2026.09.13 loses the final value of the `&mut` parameter across a match arm that carries an `if`
    # guard (found by bisection: every clause about final(input) fails at the end of the body as soon as the guarded arm is
    # present, and passes with the test moved inside the arm).  The guarded arm is rewritten to the equivalent unguarded arm;
    # its else-branch replicates the fall-through arm `otherwise => Err(UnknownCallFrameInstruction(otherwise))`, which is
    # anchored verbatim so that any edit of either arm is a lost anchor (exit 2), not a silent mismatch.
    imp.custom('R-GUARD', """            constants::DW_CFA_AARCH64_negate_ra_state if vendor == Vendor::AArch64 => {
                Ok(CallFrameInstruction::NegateRaState)
            }

            otherwise => Err(Error::UnknownCallFrameInstruction(otherwise)),""",
               """            constants::DW_CFA_AARCH64_negate_ra_state => {
                if vendor == Vendor::AArch64 { Ok(CallFrameInstruction::NegateRaState) } else { Err(Error::UnknownCallFrameInstruction(instruction)) }
            }

            otherwise => Err(Error::UnknownCallFrameInstruction(otherwise)),""")
    imp.clean()
    imp.splice('parse', ret='res',
               requires=['[C10:offset-from-pre] old(input).rv().root == parameters.section.rv().root && parameters.section.rv().start <= old(input).rv().start'],
               ensures=parse_clauses(),
               before=[('let high_bits = instruction & CFI_INSTRUCTION_HIGH_BITS_MASK;', MASK_BV)],
               owners=OWN, canary=True)
    sk.add('read::cfi', imp)

    populate_unwind(ctx, sk, cfi)
    return sk


# ----------------------------------------------------------------------------------------------------------------------
# 2./3. unwind table evaluation and the unwind context
# ----------------------------------------------------------------------------------------------------------------------
MODEL = r"""
// ---- R-WRAP: model of core::num::Wrapping<u64|i64> (multiplication only; trusted)
#[derive(Clone, Copy, PartialEq, Eq, Debug)]
pub struct Wrapping<T>(pub T);
impl vstd::std_specs::ops::MulSpecImpl<Wrapping<u64>> for Wrapping<u64> {
    open spec fn obeys_mul_spec() -> bool { true }
    open spec fn mul_req(self, rhs: Wrapping<u64>) -> bool { true }
    open spec fn mul_spec(self, rhs: Wrapping<u64>) -> Wrapping<u64> { Wrapping(wrap_u64(self.0 as int * rhs.0 as int)) }
}
impl core::ops::Mul for Wrapping<u64> { type Output = Wrapping<u64>;
    #[verifier::external_body] fn mul(self, rhs: Wrapping<u64>) -> Wrapping<u64> { Wrapping(self.0.wrapping_mul(rhs.0)) } }
impl vstd::std_specs::ops::MulSpecImpl<Wrapping<i64>> for Wrapping<i64> {
    open spec fn obeys_mul_spec() -> bool { true }
    open spec fn mul_req(self, rhs: Wrapping<i64>) -> bool { true }
    open spec fn mul_spec(self, rhs: Wrapping<i64>) -> Wrapping<i64> { Wrapping(wrap_i64(self.0 as int * rhs.0 as int)) }
}
impl core::ops::Mul for Wrapping<i64> { type Output = Wrapping<i64>;
    #[verifier::external_body] fn mul(self, rhs: Wrapping<i64>) -> Wrapping<i64> { Wrapping(self.0.wrapping_mul(rhs.0)) } }

// ---- model of read/util.rs: ArrayLike (capacity) and ArrayVec (a sequence bounded by the capacity). Trusted here;
//      the real unsafe code is checked against the same statements by Kani K-AVEC.
pub trait ArrayLike { type Item; spec fn cap() -> nat; }
impl<T, const N: usize> ArrayLike for [T; N] { type Item = T; open spec fn cap() -> nat { N as nat } }
impl<T, const N: usize> ArrayLike for Box<[T; N]> { type Item = T; open spec fn cap() -> nat { N as nat } }
#[verifier::external_body]
#[verifier::reject_recursive_types(A)]
pub struct ArrayVec<A: ArrayLike> { x: core::marker::PhantomData<A> }
impl<A: ArrayLike> ArrayVec<A> {
    pub uninterp spec fn view(&self) -> Seq<A::Item>;
    #[verifier::external_body] pub fn is_empty(&self) -> (r: bool) ensures r == (self.view().len() == 0) { unimplemented!() }
}
"""

ARCH = """
pub struct AArch64;
impl AArch64 { pub const RA_SIGN_STATE: Register = Register(%s); }
"""

CTX_GHOST = """
    /// capacity of the row stack / of the rule storage of one row
    pub open spec fn max_rows() -> nat { <S::Stack as ArrayLike>::cap() }
    pub open spec fn max_rules() -> nat { <S::Rules as ArrayLike>::cap() }
    /// representation: when the CIE left more than one initial rule, `stack[0]` holds them (hidden from the abstract stack)
    pub closed spec fn hidden(&self) -> bool { self.is_initialized && self.initial_rule is None }
    pub closed spec fn abs(&self) -> ACtx<T> {
        let rows = self.stack.view().map_values(|r: UnwindTableRow<T, S>| r.abs());
        ACtx {
            stack: if self.hidden() { rows.skip(1) } else { rows },
            initial: if !self.is_initialized { None } else { Some(match self.initial_rule {
                None => self.stack.view()[0].registers.view(),
                Some(None) => Map::empty(),
                Some(Some(p)) => Map::empty().insert(p.0, p.1),
            }) },
            reserved: if self.hidden() { 1 } else { 0 },
        }
    }
    /// representation invariant: never an empty stack; the hidden row exists when it is referred to
    pub closed spec fn repr_ok(&self) -> bool { self.stack.view().len() >= (if self.hidden() { 2nat } else { 1nat }) }
    pub open spec fn wf(&self) -> bool { self.repr_ok() && self.abs().wf() && self.abs().stack.len() + self.abs().reserved <= Self::max_rows() }
    pub open spec fn params(caf: u64, daf: i64, address_size: u8) -> CfaParams {
        CfaParams { caf: caf, daf: daf, address_size: address_size, max_rows: Self::max_rows(), max_rules: Self::max_rules() }
    }
"""

A0 = 'old(self).abs()'
A1 = 'final(self).abs()'

VARIANTS = ['SetLoc', 'AdvanceLoc', 'DefCfa', 'DefCfaSf', 'DefCfaRegister', 'DefCfaOffset', 'DefCfaOffsetSf', 'DefCfaExpression',
            'Undefined', 'SameValue', 'Offset', 'OffsetExtendedSf', 'ValOffset', 'ValOffsetSf', 'Register', 'Expression',
            'ValExpression', 'Restore', 'RememberState', 'RestoreState', 'ArgsSize', 'NegateRaState', 'Nop']


def camel_to_cfa(v):
    return re.sub(r'(?<!^)([A-Z])', r'_\1', v).lower()


def evaluate_clauses():
    st = ('let st = cfa_step(old(self).ctx.abs(), instruction, UnwindContext::<R::Offset, S>::params(old(self).code_alignment_factor.0, '
          'old(self).data_alignment_factor.0, old(self).address_size), old(self).next_start_address); ')
    out = []
    for v in VARIANTS:
        out.append(f'[C06:step-{camel_to_cfa(v)}] instruction is {v} ==> ({{ {st} res_is(res, st.res) && final(self).ctx.abs() == st.ctx '
                   f'&& final(self).next_start_address == st.next_start }})')
    out.append('[C06:step-error-leaves-context] res is Err ==> final(self).ctx.abs() == old(self).ctx.abs() && final(self).next_start_address == old(self).next_start_address')
    out.append('[C06:step-row-done] res == Ok::<bool, Error>(true) ==> final(self).ctx.abs().top().end == final(self).next_start_address '
               '&& final(self).next_start_address >= old(self).ctx.abs().top().start && final(self).ctx.abs().top().start == old(self).ctx.abs().top().start')
    out.append('[C06:step-row-open] res == Ok::<bool, Error>(false) ==> final(self).next_start_address == old(self).next_start_address '
               '&& final(self).ctx.abs().top().start == old(self).ctx.abs().top().start')
    out.append('final(self).ctx.wf()')
    out.append(TABLE_FRAME)
    return out


TABLE_FRAME = ('final(self).code_alignment_factor == old(self).code_alignment_factor && final(self).data_alignment_factor == old(self).data_alignment_factor '
               '&& final(self).address_size == old(self).address_size && final(self).last_end_address == old(self).last_end_address '
               '&& final(self).ctx.abs().initial == old(self).ctx.abs().initial && final(self).ctx.abs().reserved == old(self).ctx.abs().reserved '
               '&& final(self).instructions == old(self).instructions && final(self).returned_last_row == old(self).returned_last_row')


def populate_unwind(ctx, sk, cfi):
    rmod = Source('read/mod.rs', ctx)
    arch = Source('arch.rs', ctx)
    m = re.search(r'registers!\(AArch64, \{.*?\bRA_SIGN_STATE = \((\d+),', arch.text, re.S)
    if not m:
        raise Lost('arch.rs: AArch64::RA_SIGN_STATE')
    sk.module('arch', 'use crate::common::Register;')
    sk.add('arch', ARCH % m.group(1), label='AArch64')
    sk.add('read', rmod.item(r'^pub struct StoreOnHeap;').clean())
    # derived PartialEq of the field-less enum Vendor / the tuple struct Register(u16) is structural equality
    sk.add('common', 'unsafe impl Structural for Vendor {}\nunsafe impl Structural for Register {}', label='Structural')
    sk.mods['read::cfi']['uses'] += '\nuse crate::read::StoreOnHeap;\nuse vstd::std_specs::ops::*;'
    sk.add('read::cfi', MODEL, label='model')

    sk.add('read::cfi', cfi.item(r'^pub enum CfaRule<').clean(rejrec=['T']))
    sk.add('read::cfi', cfi.item(r'^pub enum RegisterRule<').clean(rejrec=['T']))
    sk.add('read::cfi', core.rd('specs/cfi_unwind.rs'), label='cfa_step')
    sk.add('read::cfi', cfi.item(r'^pub trait UnwindContextStorage<').clean())
    # `impl UnwindContextStorage for StoreOnHeap` is not emitted: Verus rejects the (benign) cycle impl -> associated type ->
    # UnwindTableRow<T, Self> -> bound on Self.  Every function below is verified for an arbitrary storage S.

    # ---- RegisterRuleMap: real struct over the model ArrayVec; its methods use iterator adapters / `for .. in &mut *slice`
    #      (outside Verus) -> contracts assumed (finite map with capacity), discharged by Kani K-RRMAP
    sk.add('read::cfi', cfi.item(r'^struct RegisterRuleMap<', with_attrs=False).clean(rejrec=['T', 'S']))
    rrm = cfi.item(r'^impl<T, S> RegisterRuleMap<T, S>', label='RegisterRuleMap').keep_only(['get', 'set', 'clear'])
    rrm.extbody(['get', 'set', 'clear']).clean()
    rrm.insert_members('    /// the finite map register -> rule held by this row (first pair with that register)\n'
                       '    pub uninterp spec fn view(&self) -> Map<Register, RegisterRule<T>>;\n'
                       '    pub open spec fn cap() -> nat { <S::Rules as ArrayLike>::cap() }')
    rrm.splice('get', ret='res', ensures=['[C06:rules-get] res == (if self.view().contains_key(register) { Some(self.view()[register]) } else { None::<RegisterRule<T>> })'])
    rrm.splice('set', ret='res', ensures=[
        '[C06:rules-set] res is Ok ==> final(self).view() == old(self).view().insert(register, rule)',
        '[C06:rules-capacity] res is Err <==> !old(self).view().contains_key(register) && rules_len(old(self).view()) >= Self::cap()',
        '[C06:rules-capacity] res matches Err(e) ==> e == Error::TooManyRegisterRules && final(self).view() == old(self).view()'])
    rrm.splice('clear', ret='res', ensures=['[C06:rules-clear] res is Ok && final(self).view() == old(self).view().remove(register)'])
    rrm.own(OWN)
    sk.add('read::cfi', rrm)

    # ---- UnwindTableRow
    sk.add('read::cfi', cfi.item(r'^pub struct UnwindTableRow<', with_attrs=False).clean(rejrec=['T', 'S']))
    row = cfi.item(r'^impl<T, S> UnwindTableRow<T, S>', label='UnwindTableRow')
    row.keep_only(['start_address', 'end_address', 'contains', 'saved_args_size', 'cfa', 'register']).clean()
    row.insert_members('    pub closed spec fn abs(&self) -> ARow<T> { ARow { start: self.start_address, end: self.end_address, cfa: self.cfa, '
                       'rules: self.registers.view(), args_size: self.saved_args_size } }')
    row.splice('start_address', ret='res', ensures=['[C06:row-observe] res == self.abs().start'])
    row.splice('end_address', ret='res', ensures=['[C06:row-observe] res == self.abs().end'])
    row.splice('contains', ret='res', ensures=['[C06:row-observe] res == (self.abs().start <= address < self.abs().end)'])
    row.splice('saved_args_size', ret='res', ensures=['[C06:row-observe] res == self.abs().args_size'])
    row.splice('cfa', ret='res', ensures=['[C06:row-observe] *res == self.abs().cfa'])
    row.splice('register', ret='res', ensures=['[C06:row-observe] res == (if self.abs().rules.contains_key(register) { Some(self.abs().rules[register]) } else { None::<RegisterRule<T>> })'])
    row.own(OWN)
    sk.add('read::cfi', row)

    # ---- UnwindContext
    sk.add('read::cfi', cfi.item(r'^pub struct UnwindContext<', with_attrs=False).clean(rejrec=['T', 'S']))
    uc = cfi.item(r'^impl<T, S> UnwindContext<T, S>', label='UnwindContext')
    uc.drop(['initialize'])
    ASSUMED_CTX = ['new_in', 'reset', 'row', 'row_mut', 'save_initial_rules', 'get_initial_rule', 'push_row', 'pop_row']
    uc.extbody(ASSUMED_CTX)
    uc.clean()
    uc.insert_members(CTX_GHOST)
    WF0 = 'old(self).wf()'
    SAME = f'{A1}.initial == {A0}.initial && {A1}.reserved == {A0}.reserved'
    uc.splice('new_in', ret='res', requires=['[C06:storage-nonempty] Self::max_rows() >= 1'],
              ensures=['[C20:new-fresh] res.abs() == ACtx::<T>::fresh()', 'res.wf()'])
    uc.splice('reset', requires=['[C06:storage-nonempty] Self::max_rows() >= 1'],
              ensures=[f'[C20:reset-fresh] {A1} == ACtx::<T>::fresh()', 'final(self).wf()'])
    uc.splice('row', ret='res', requires=['self.wf()'], ensures=['[C06:ctx-row] res.abs() == self.abs().top()'])
    uc.splice('row_mut', ret='res', requires=[WF0], ensures=[
        f'[C06:ctx-row] res.abs() == {A0}.top()',
        f'[C06:ctx-row] {A1} == {A0}.with_top(final(res).abs())', 'final(self).repr_ok()'])
    uc.splice('save_initial_rules', ret='res', requires=[WF0, f'[C06:initial-once] {A0}.initial is None'], ensures=[
        f'[C06:initial-capture] res is Ok ==> {A1}.initial == Some({A0}.top().rules) && {A1}.stack == {A0}.stack '
        f'&& {A1}.reserved == (if rules_len({A0}.top().rules) <= 1 {{ 0nat }} else {{ 1nat }})',
        f'[C06:initial-capture-limit] res is Err <==> rules_len({A0}.top().rules) > 1 && {A0}.stack.len() + {A0}.reserved >= Self::max_rows()',
        f'[C06:initial-capture-limit] res matches Err(e) ==> e == Error::StackFull && {A1} == {A0}',
        'final(self).wf()'])
    uc.splice('start_address', ret='res', requires=['self.wf()'], ensures=['res == self.abs().top().start'])
    uc.splice('set_start_address', requires=[WF0], ensures=[
        f'[C06:ctx-row] {A1} == {A0}.with_top(ARow {{ start: start_address, ..{A0}.top() }})', 'final(self).wf()'])
    uc.splice('set_register_rule', ret='res', requires=[WF0], ensures=[
        f'[C06:ctx-set-rule] res is Ok ==> {A1} == {A0}.with_top(ARow {{ rules: {A0}.top().rules.insert(register, rule), ..{A0}.top() }})',
        f'[C06:ctx-set-rule] res is Err <==> !{A0}.top().rules.contains_key(register) && rules_len({A0}.top().rules) >= Self::max_rules()',
        f'[C06:ctx-set-rule] res matches Err(e) ==> e == Error::TooManyRegisterRules && {A1} == {A0}',
        'final(self).wf()'], before=[('self.row_mut().registers.set(register, rule)', 'proof { broadcast use lemma_with_top_top; }')])
    uc.splice('clear_register_rule', ret='res', requires=[WF0], ensures=[
        f'[C06:ctx-clear-rule] res is Ok && {A1} == {A0}.with_top(ARow {{ rules: {A0}.top().rules.remove(register), ..{A0}.top() }})',
        'final(self).wf()'])
    uc.splice('get_initial_rule', ret='res', ensures=[
        '[C06:initial-rule] res == (match self.abs().initial { None => None::<Option<RegisterRule<T>>>, '
        'Some(m) => Some(if m.contains_key(register) { Some(m[register]) } else { None::<RegisterRule<T>> }) })'])
    uc.splice('set_cfa', requires=[WF0], ensures=[
        f'[C06:ctx-row] {A1} == {A0}.with_top(ARow {{ cfa: cfa, ..{A0}.top() }})', 'final(self).wf()'])
    uc.splice('cfa_mut', ret='res', requires=[WF0], ensures=[
        f'*res == {A0}.top().cfa', f'{A1} == {A0}.with_top(ARow {{ cfa: *final(res), ..{A0}.top() }})', 'final(self).wf()'])
    uc.splice('push_row', ret='res', requires=[WF0], ensures=[
        f'[C06:ctx-push] res is Ok ==> {A1} == (ACtx {{ stack: {A0}.stack.push({A0}.top()), ..{A0} }})',
        f'[C06:ctx-push-limit] res is Err <==> {A0}.stack.len() + {A0}.reserved >= Self::max_rows()',
        f'[C06:ctx-push-limit] res matches Err(e) ==> e == Error::StackFull && {A1} == {A0}',
        'final(self).wf()'])
    uc.splice('pop_row', ret='res', requires=[WF0], ensures=[
        f'[C06:ctx-pop] res is Ok ==> {A1} == (ACtx {{ stack: {A0}.stack.drop_last(), ..{A0} }})',
        f'[C06:ctx-pop-limit] res is Err <==> {A0}.stack.len() <= 1',
        f'[C06:ctx-pop-limit] res matches Err(e) ==> e == Error::PopWithEmptyStack && {A1} == {A0}',
        'final(self).wf()'])
    uc.own(OWN + ['C20'])
    sk.add('read::cfi', uc)

    # ---- CallFrameInstructionIter
    sk.add('read::cfi', cfi.item(r'^pub struct CallFrameInstructionIter<').clean(rejrec=['R']))
    it = cfi.item(r"^impl<'a, R: Reader> CallFrameInstructionIter<'a, R> \{", label='CallFrameInstructionIter').clean()
    it.insert_members('    pub closed spec fn inp(&self) -> RView { self.input.rv() }\n'
                      '    /// the instruction bytes lie inside the section the expression offsets are counted from\n'
                      '    pub closed spec fn wf(&self) -> bool { self.input.rv().len == 0 || (self.input.rv().root == self.parameters.section.rv().root && self.parameters.section.rv().start <= self.input.rv().start) }')
    it.splice('next', ret='res', requires=['old(self).wf()'], ensures=[
        '[C01:iter-done] old(self).inp().len == 0 ==> res == Ok::<Option<CallFrameInstruction<R::Offset>>, Error>(None) && final(self).inp() == old(self).inp()',
        '[C01:iter-error-empties] res is Err ==> final(self).inp().len == 0',
        '[C01:iter-progress] res matches Ok(Some(i)) ==> final(self).inp().len < old(self).inp().len',
        '[C01:iter-done] res matches Ok(None) ==> old(self).inp().len == 0',
        '[C01:frame] final(self).inp().root == old(self).inp().root && final(self).inp().be == old(self).inp().be && final(self).inp().len <= old(self).inp().len && (res is Ok ==> within(old(self).inp(), final(self).inp()))',
        'final(self).wf()'], owners=OWN, canary=True)
    sk.add('read::cfi', it)

    # ---- UnwindTable
    sk.add('read::cfi', cfi.item(r"^pub struct UnwindTable<'a, 'ctx, R, S = StoreOnHeap>", with_attrs=False).clean(rejrec=['R', 'S']))
    ut = cfi.item(r"^impl<'a, 'ctx, R, S> UnwindTable<'a, 'ctx, R, S>", label='UnwindTable')
    ut.keep_only(['next_row', 'into_current_row', 'evaluate'])
    ut.clean()
    ut.splice('evaluate', ret='res',
              requires=['old(self).ctx.wf()', '[C01:address-size-validated] valid_address_size(old(self).address_size)'],
              ensures=evaluate_clauses(),
              before=[('match instruction {', 'proof { broadcast use lemma_with_top_top; }'),
                      ('self.ctx.set_cfa(CfaRule::RegisterAndOffset {\n                    register,\n                    offset: offset as i64,', 'proof { lemma_u64_as_i64(offset); }'),
                      ('*off = offset as i64;', 'proof { lemma_u64_as_i64(offset); }'),
                      ('let value = match self.ctx.row().register(register) {', 'proof { assert(0u64 ^ 1 == 1u64) by (bit_vector); }')],
              owners=OWN, canary=True)
    ut.insert_members('''    // ghost accessors for the public contract of next_row
    pub closed spec fn g_ctx(&self) -> ACtx<R::Offset> { self.ctx.abs() }
    pub closed spec fn g_next(&self) -> u64 { self.next_start_address }
    pub closed spec fn g_last_end(&self) -> u64 { self.last_end_address }
    pub closed spec fn g_done(&self) -> bool { self.returned_last_row }
    pub closed spec fn g_inp(&self) -> RView { self.instructions.inp() }
    pub closed spec fn g_params(&self) -> (u64, i64, u8) { (self.code_alignment_factor.0, self.data_alignment_factor.0, self.address_size) }
    pub closed spec fn g_wf(&self) -> bool {
        self.ctx.wf() && valid_address_size(self.address_size) && self.instructions.wf()
        && (self.returned_last_row ==> self.instructions.inp().len == 0)
    }''')
    G0, G1 = 'old(self)', 'final(self)'
    ut.splice('next_row', ret='res', requires=[f'{G0}.g_wf()'], ensures=[
        f'{G1}.g_wf()',
        f'[C06:rows-contiguous] res matches Ok(Some(row)) ==> row.abs().start == {G0}.g_next()',
        f'[C06:rows-contiguous] res matches Ok(Some(row)) ==> ({G1}.g_done() && !{G0}.g_done()) || row.abs().end == {G1}.g_next()',
        f'[C06:rows-nondecreasing] {G1}.g_next() >= {G0}.g_next()',
        f'[C06:last-row-ends-at-fde-end] res matches Ok(Some(row)) ==> ({G1}.g_done() && !{G0}.g_done() ==> row.abs().end == {G0}.g_last_end() && {G1}.g_inp().len == 0 && {G1}.g_next() == {G0}.g_next())',
        f'[C06:row-is-current] res matches Ok(Some(row)) ==> row.abs() == {G1}.g_ctx().top()',
        f'[C01:iter-done] res matches Ok(None) ==> {G0}.g_done() && {G0}.g_inp().len == 0',
        f'[C01:iter-done] {G0}.g_done() ==> res matches Ok(None)',
        f'[C01:iter-progress] res matches Ok(Some(row)) ==> {G1}.g_inp().len < {G0}.g_inp().len || ({G1}.g_done() && !{G0}.g_done())',
        f'[C01:iter-progress] res is Err ==> {G1}.g_inp().len < {G0}.g_inp().len',
        f'[C01:frame] {G1}.g_inp().root == {G0}.g_inp().root && {G1}.g_inp().len <= {G0}.g_inp().len',
        f'{G1}.g_params() == {G0}.g_params() && {G1}.g_last_end() == {G0}.g_last_end() && {G1}.g_ctx().initial == {G0}.g_ctx().initial && ({G0}.g_done() ==> {G1}.g_done())'],
        loops={0: '''invariant
            self.ctx.wf(), valid_address_size(self.address_size), self.instructions.wf(),
            self.returned_last_row == old(self).returned_last_row, self.returned_last_row ==> self.instructions.inp().len == 0,
            self.next_start_address == old(self).next_start_address, self.last_end_address == old(self).last_end_address,
            self.code_alignment_factor == old(self).code_alignment_factor, self.data_alignment_factor == old(self).data_alignment_factor,
            self.address_size == old(self).address_size, self.ctx.abs().initial == old(self).ctx.abs().initial,
            self.ctx.abs().top().start == old(self).next_start_address,
            self.instructions.inp().root == old(self).instructions.inp().root, self.instructions.inp().len <= old(self).instructions.inp().len,
            old(self).g_wf(),
        decreases self.instructions.inp().len'''},
        before=[('self.ctx.set_start_address(self.next_start_address);', 'proof { assert(self.ctx.stack.view().len() >= 1); }')],
        owners=OWN, canary=True)
    ut.splice('into_current_row', ret='res', requires=['self.g_wf()'], ensures=['res matches Some(row) ==> row.abs() == self.g_ctx().top()'], owners=OWN)
    FO = 'let offset = Wrapping(factored_offset as i64) * self.data_alignment_factor;'
    HINT = 'proof { lemma_u64_as_i64(factored_offset); lemma_wrap_mul_reinterpret(factored_offset, self.data_alignment_factor.0); }\n                '
    ut.insert_before(FO, HINT, nth=1)
    ut.insert_before(FO, HINT, nth=0)
    sk.add('read::cfi', ut)


def build(ctx):
    sk = Skeleton(ctx, core.rd('prelude/crate.rs') + '\npub use crate::read::cfi::CallFrameInstruction;\npub use crate::arch::AArch64;\n')
    core.populate(ctx, sk)
    populate(ctx, sk)
    return sk
