"""B-conv_attrs: the ATTRIBUTE MAPPING of the read -> write conversion, src/write/unit.rs `pub(crate) mod convert`
(DESIGN.md 6 C12, mechanism "attribute mapping": ConvertUnit::convert_attribute_value, convert_unit_ref,
convert_debug_info_ref, convert_file_index).  Batch `conv` covers the convert modules of write/cfi.rs, write/range.rs and
write/loc.rs; this batch is independent of it (build = core.populate + populate of this file).

Postcondition shape (from the property): for every read-side attribute-value kind, `Ok(w)` ==> w is the SAME kind with
the SAME payload, or the conversion fails; a kind the writer cannot represent is an error - never a different value.

FUNCTIONS UNDER CONTRACT (real bodies, all owned by C12)
  write::unit::convert::ConvertUnit::convert_attribute_value   the 60-arm match + the DW_FORM_implicit_const early return
  write::unit::convert::ConvertUnit::convert_file_index
  write::unit::convert::ConvertUnit::convert_unit_ref
  write::unit::convert::ConvertUnit::convert_debug_info_ref
  impl ConvertDebugInfoRef for ConvertUnit  (both methods), impl ConvertDebugInfoRef for NoConvertDebugInfoRef (both methods),
  trait ConvertDebugInfoRef (contract on the trait: what any implementation may return)
  read::UnitOffset::is_in_bounds (real body), write::mod From<read::Error> for ConvertError, read::Attribute::{name, form}

CONTRACTS   v = attr.value_spec() (the normalised value, batch attrs), raw = attr.raw_spec(), ca = convert_address,
            ids = the entry-id table as a Map, U = self.read_unit
  convert_attribute_value, when attr.form() == DW_FORM_implicit_const:
    [C12:attr-implicit-const]  Ok(w) ==> raw is Sdata(c) and w == ImplicitConst(c)
  otherwise, per kind of v (Ok(w) ==> ...):
    [C12:attr-addr]            Addr(a): w == Address(x) with ca(a) == Some(x)
    [C12:attr-addrx]           DebugAddrIndex(i): read_unit.address(i) == Ok(a), w == Address(x) with ca(a) == Some(x)
    [C12:address-none-err]     Addr / DebugAddrIndex whose address ca maps to nothing but None: Err (never dropped / zero)
    [C12:attr-block] [C12:attr-string]   w is Block / String with exactly the bytes of the reader's window
    [C12:attr-data]            Data1/2/4/8/16, Sdata, Udata: same kind, same number (Sdata stays signed)
    [C12:attr-flag]            Flag(b): FlagPresent iff the form is DW_FORM_flag_present (and then b must be true - see F-note),
                               else Flag(b)
    [C12:attr-exprloc]         Exprloc(x): w == Exprloc(e), e is the conversion of x (is_expr_conv, uninterpreted), or - only for
                               DW_AT_vtable_elem_location starting with DW_OP_constu - the raw copy of exactly its bytes
    [C12:attr-unit-ref]        UnitRef(o): w == UnitRef(id), id == ids[U.offset + o].1 and o is in bounds of U
    [C12:attr-debug-info-ref]  DebugInfoRef(o): w == DebugInfoRef(Entry(ids[o].0, ids[o].1)) and U is a .debug_info unit
    [C12:unit-ref-missing-err] UnitRef / DebugInfoRef to an offset that is out of bounds / has no reserved id: Err
    [C12:attr-line-ref]        DebugLineRef(o): LineProgramRef only if o is the offset of U's own line program, else Err
    [C12:attr-loclist] [C12:attr-loclistx] [C12:attr-rnglist] [C12:attr-rnglistx]
                               w == LocationListRef(id) / RangeListRef(id), the table entry `id` after the call is the
                               conversion (is_loclist_conv / is_rnglist_conv) of the list at exactly the offset named by the
                               attribute (index resolved through U's offsets table; raw offset through ranges_offset_from_raw)
    [C12:attr-strp] [C12:attr-strx] [C12:attr-line-strp]   w == StringRef(id) / LineStringRef(id), the string stored under id
                               is exactly the bytes U.string(offset) / U.line_string(offset) returned
    [C12:attr-const-class]     Encoding .. Ordering (12 DWARF constant classes), DebugInfoRefSup, DebugMacinfoRef, DebugMacroRef,
                               DebugTypesRef, DebugStrRefSup: same kind, same constant / offset
    [C12:attr-dwo-id]          DwoId(x): Udata(x)
    [C12:attr-file-index]      FileIndex(i): w == FileIndex(f) with f as in [C12:file-index]
    [C12:attr-unrepresentable] SecOffset, DebugAddrBase, DebugLocListsBase, DebugRngListsBase, DebugStrOffsetsBase: Err
    [C12:tables-grow-only]     entries already in the range / location / string / line-string tables keep their value
    [C12:attr-same-kind]       (summary) Ok(w) ==> kind_of(w) == kind_map(form, v): no arm produces another kind
  convert_file_index(read_unit, index)   files = the file-id table, indexed by the READ-side file index
    [C12:file-index]           version <= 4 and index 0 (DWARF 2-4: "no file"): Ok(None); else index < |files|: Ok(Some(files[index]))
                               (DWARF 5: 0-based, index 0 is a real file);  [C12:file-index-missing-err] else Err(InvalidFileIndex)
  convert_unit_ref(o)          [C12:unit-ref-mapped] Ok(id) ==> in bounds, ids has U.offset + o, id == ids[..].1
                               [C12:unit-ref-missing-err] out of bounds or no id ==> Err(InvalidUnitRef)
  convert_debug_info_ref(o)    [C12:debug-info-ref-mapped] Ok(r) ==> U is in .debug_info, ids has o, r == Entry(ids[o].0, ids[o].1)
                               [C12:debug-info-ref-missing-err] otherwise Err(InvalidDebugInfoRef)
  trait ConvertDebugInfoRef    implementations state their table through `ref_ids()` / `ref_unit()`; the two impls are verified
                               against the same clauses (ConvertUnit: its table; NoConvertDebugInfoRef: always Err)

ASSUMED (TRUSTED ledger; every external_body in the generated file, with the reason it is outside Verus / this batch)
  value, raw_value (read::Attribute)     the 600-line normalisation is batch attrs' subject (C03): res == value_spec() (uninterpreted),
                                         raw_value is `.clone()`: res == raw_spec() = the stored field
  UnitHeader, Dwarf, IncompleteLineProgram, LineProgramHeader (MODEL types), UnitHeader::{encoding, is_in_bounds},
  header, offset (line program accessors), UnitRef::{encoding, address, locations_offset, ranges_offset, ranges_offset_from_raw,
  string, string_offset, line_string}     read-side lookups through .debug_addr / .debug_str_offsets / .debug_rnglists / ...
                                         (C17's business): each returns an UNINTERPRETED function of the unit and its argument
  to_unit_section_offset (UnitOffset, DebugInfoOffset)    `+` on the abstract ReaderOffset / `!=` on derived PartialEq of SectionId:
                                         contract = unit offset + entry offset / Some(offset) iff the unit is in .debug_info
  IdMap (MODEL of hashbrown::HashMap<K, V, fnv::FnvBuildHasher>, R-MAP) + get     view Map<K, V>; get(k) == Some(&view[k]) iff
                                         contains_key(k)
  SliceCow (MODEL of Cow<'_, [u8]>) + to_slice (ReaderToSlice: core's Reader layer drops Reader::to_slice) + first, to_vec,
  into_vec/`From<SliceCow> for Vec<u8>`   to_slice returns exactly the bytes of the reader's window (rv_bytes)
  Expression, RangeList, LocationList (MODEL types, opaque), Expression::raw    raw(v) == expr_raw(v@) (uninterpreted, injective use only)
  RangeListTable / LocationListTable / StringTable / LineStringTable (MODEL types: IndexSet-backed) + add
                                         view Map<Id, value>; add(x) returns an id with view[id] == x, older ids keep their value
  convert_expression, convert_location_list, convert_range_list (R-EXTBODY)   two-line wrappers around Expression::from /
                                         LocationList::from / RangeList::from (`&dyn ConvertDebugInfoRef` trait object, raw list
                                         iterators); contract: Ok(x) ==> is_expr_conv / is_loclist_conv / is_rnglist_conv(unit, argument,
                                         ca, ids, x) with UNINTERPRETED relations ("x is the conversion of the argument"); batch conv
                                         proves the list converters against these inputs
  core::option::Option::<&T>::copied     std: no vstd specification
  R-DYN   `convert_address: &dyn Fn(u64) -> Option<Address>` -> generic `&ConvAddr` (as in batch conv)
  R-FIELDS ConvertUnit.read_entries (EntriesRaw) dropped: untouched by the extracted functions; write::Unit projected to
           {ranges, locations}
  write-side id types are hand expansions of `define_id!` (as in batch conv)
  Helper precondition: ca may be called on every address (CA_TOTAL).

NOT DECIDED
  ConvertUnit::{convert, convert_attributes, read_entry, add_entry, set_line_program, read_line_program}: that every attribute of
  every entry is handed to convert_attribute_value and the result stored under the same name (DW_AT_GNU_locviews is dropped by
  convert_attributes by design); what line_program_files[i] holds (ConvertLineProgram::convert); Expression::from /
  LocationList::from / RangeList::from bodies (batch conv / conv_expr); that `ids` maps an offset to the entry reserved for
  exactly that offset (batches filter_reserve [C19:reserve-*]); string table de-duplication; the DW_FORM_implicit_const TODO in
  the source (a file-index attribute in implicit_const form is copied unmapped - the clause states what the code documents).
F-note (observation, not a failing clause): `Flag(false)` with DW_FORM_flag_present cannot be produced by the reader
  (flag_present always decodes to true), so FlagPresent for it is not a value change; the clause does not require b.

SELF-ATTACK (scratch copy /tmp/conv_attrs-repo with all ten breaks at once; GIMLI_REPO=<copy> python3 vx/run.py conv_attrs
exits 1 with 16 failed obligations; /repo exits 0.  MULTIPLE_ERRORS = 60 so that every failing kind is listed.)
  m1  convert_unit_ref looks up UnitSectionOffset(entry.0) (unit base not added)        [unit-ref-mapped] [unit-ref-missing-err]
  m2  convert_debug_info_ref: missing id -> Ok(DebugInfoRef::Symbol(0)) instead of Err    [debug-info-ref-mapped] [debug-info-ref-missing-err]
  m3  convert_file_index: `version <= 5` (DWARF 5 index 0 treated as "no file")          [file-index] [file-index-missing-err]
  m4  Sdata(val) => Udata(val as u64)                                                    [attr-data]
  m5  DebugMacroRef arm dropped, folded with SecOffset into a default `Udata(0)`          [attr-const-class] [attr-unrepresentable]
  m6  Addr: callback None => Address(Constant(0))                                        [attr-addr] [address-none-err]
  m7  DebugLineRef: `return Err(InvalidLineRef)` removed                                  [attr-line-ref]
  m8  FlagPresent chosen for DW_FORM_flag instead of DW_FORM_flag_present                 [attr-flag]
  m9  DebugStrOffsetsIndex: index used as the .debug_str offset (no string_offset lookup)  [attr-strx]
  m10 implicit_const returned as Sdata                                                    [attr-implicit-const]
  (the run also listed the StringId clause of [tables-grow-only]: knock-on of m9 in the same function, not a separate break)
"""
import re
from lib import *
from batches import core

TRUSTED = list(core.TRUSTED) + [
    'value', 'raw_value',
    'UnitHeader', 'Dwarf', 'IncompleteLineProgram', 'LineProgramHeader', 'encoding', 'is_in_bounds', 'header', 'offset',
    'address', 'locations_offset', 'ranges_offset', 'ranges_offset_from_raw', 'string', 'string_offset', 'line_string',
    'to_unit_section_offset',
    'IdMap', 'get',
    'SliceCow', 'to_slice', 'first', 'to_vec', 'from',
    'Expression', 'RangeList', 'LocationList', 'raw',
    'RangeListTable', 'LocationListTable', 'StringTable', 'LineStringTable', 'add',
    'convert_expression', 'convert_location_list', 'convert_range_list',
    "core::option::Option::<&'a T>::copied",
]
VERUS_ARGS = ['--rlimit', '40']
MULTIPLE_ERRORS = 60      # one clause per attribute kind: report every failing kind, not the first 3
OWN = ['C12']
CONVERT = r'^pub\(crate\) mod convert \{'
M = 'write::unit::convert'
CA_BOUND = 'ConvAddr: Fn(u64) -> Option<Address>,'
CA_TOTAL = 'forall|a: u64| call_requires(convert_address, (a,))'


def derived_eq(ty):
    """A-DERIVE-EQ (same text as batches/attrs.py): `==` of a #[derive(PartialEq)] newtype is structural equality."""
    return (f'impl vstd::std_specs::cmp::PartialEqSpecImpl for {ty} {{\n'
            f'    open spec fn obeys_eq_spec() -> bool {{ true }}\n'
            f'    open spec fn eq_spec(&self, other: &{ty}) -> bool {{ *self == *other }}\n}}')


WRITE_IDS = '''
// ---- model of `define_id!` expansions (write/mod.rs macro; BaseId is the debug-assertions variant)
#[derive(Debug, Clone, Copy, PartialEq, Eq)]
pub struct BaseId(pub usize);
''' + ''.join(f'''#[derive(Debug, Clone, Copy, PartialEq, Eq)]
pub struct {n} {{ pub base_id: BaseId, pub index: usize }}
''' for n in ['UnitId', 'UnitEntryId', 'RangeListId', 'LocationListId', 'StringId', 'LineStringId', 'FileId'])

FROM_SPEC = '''
impl vstd::std_specs::convert::FromSpecImpl<read::Error> for ConvertError {
    open spec fn obeys_from_spec() -> bool { true }
    open spec fn from_spec(v: read::Error) -> Self { ConvertError::Read(v) }
}
'''


def populate_read(ctx, sk):
    ru = Source('read/unit.rs', ctx)
    op = Source('read/op.rs', ctx)
    sk.add('constants', derived_eq('DwForm') + '\n' + derived_eq('DwAt'), label='derived-eq')
    sk.add('common', '''impl<T: PartialEq> vstd::std_specs::cmp::PartialEqSpecImpl for DebugLineOffset<T> {
    open spec fn obeys_eq_spec() -> bool { <T as vstd::std_specs::cmp::PartialEqSpec>::obeys_eq_spec() }
    open spec fn eq_spec(&self, other: &DebugLineOffset<T>) -> bool { vstd::std_specs::cmp::PartialEqSpec::eq_spec(&self.0, &other.0) }
}''', label='derived-eq')
    sk.mods['read']['uses'] += '\npub use self::op::*;\npub use self::unit::*;\npub use self::dwarf::*;\npub use self::line::*;'
    sk.module('read::op', 'use crate::read::Reader;')
    sk.add('read::op', op.item(r'^pub struct Expression<R: Reader>').clean(offset=False, rejrec=['R']))
    sk.module('read::unit', '''use crate::common::*;
use crate::constants;
use crate::read::{Error, Reader, ReaderOffset, Result, UnitOffset, Expression};
use crate::vspec::*;
use crate::caspec::*;''')
    sk.add('read::unit', ru.item(r'^pub enum AttributeValue<R, Offset', label='AttributeValue').clean(rejrec=['R', 'Offset']))
    sk.add('read::unit', ru.item(r'^pub struct Attribute<R: Reader>', label='Attribute(struct)').clean(offset=False, rejrec=['R']))
    at = ru.item(r'^impl<R: Reader> Attribute<R> \{', label='Attribute')
    at.keep_only(['name', 'form', 'raw_value', 'value'])
    # contract-only: `value()` is verified against DWARF tables 7.5/7.6 in batch `attrs`; raw_value is `.clone()`
    at.extbody(['raw_value', 'value'])
    at.clean(offset=False).own(OWN)
    at.insert_members('''    pub closed spec fn spec_name(&self) -> constants::DwAt { self.name }
    pub closed spec fn spec_form(&self) -> constants::DwForm { self.form }
    /// the NORMALISED value (what `value()` returns)
    pub uninterp spec fn value_spec(&self) -> AttributeValue<R>;
    /// the raw value as decoded from the form
    pub closed spec fn raw_spec(&self) -> AttributeValue<R> { self.value }''')
    at.splice('name', ret='res', ensures=['res == self.spec_name()'])
    at.splice('form', ret='res', ensures=['res == self.spec_form()'])
    at.splice('raw_value', ret='res', ensures=['res == self.raw_spec()'])
    at.splice('value', ret='res', ensures=['res == self.value_spec()'])
    sk.add('read::unit', at)
    sk.add('read::unit', READ_UNIT_MODEL, label='UnitHeader(model)')
    dio = ru.item(r'^impl<T: ReaderOffset> DebugInfoOffset<T> \{', label='DebugInfoOffset')
    dio.keep_only(['to_unit_section_offset'])
    dio.extbody(['to_unit_section_offset'])      # `!=` on the derived PartialEq of SectionId has no Verus spec
    dio.clean(offset=False)
    dio.splice('to_unit_section_offset', ret='res', ensures=[
        'res == (if unit.in_debug_info() { Some(UnitSectionOffset(self.0)) } else { None::<UnitSectionOffset<T>> })'])
    sk.add('read::unit', dio)
    uo = ru.item(r'^impl<T: ReaderOffset> UnitOffset<T> \{', label='UnitOffset')
    uo.keep_only(['is_in_bounds', 'to_unit_section_offset'])
    uo.extbody(['to_unit_section_offset'])       # `+` on the abstract `T: ReaderOffset` (Add trait) has no Verus spec
    uo.clean(offset=False)
    uo.own(OWN)
    uo.splice('is_in_bounds', ret='res', ensures=['res == unit.in_bounds_spec(*self)'])
    uo.splice('to_unit_section_offset', ret='res',
              ensures=['res.0.as_nat() == unit.spec_offset().0.as_nat() + self.0.as_nat()'])
    sk.add('read::unit', uo)
    sk.module('read::line', 'use crate::common::*;\nuse crate::read::Reader;')
    sk.add('read::line', READ_LINE_MODEL, label='IncompleteLineProgram(model)')
    sk.module('read::dwarf', '''use crate::common::*;
use crate::read::{Error, Reader, ReaderOffset, Result, UnitHeader, IncompleteLineProgram};
use crate::vspec::*;''')
    sk.add('read::dwarf', READ_DWARF_MODEL, label='UnitRef(model)')


READ_UNIT_MODEL = '''
// ---- MODEL (not gimli text) of read::UnitHeader<R>: only what the reference conversion asks of it.  The header layout
// itself is batch units' subject (C02).
#[verifier::external_body]
#[verifier::reject_recursive_types(R)]
#[verifier::reject_recursive_types(Offset)]
#[derive(Debug)]
pub struct UnitHeader<R: Reader, Offset = <R as Reader>::Offset> { model_only: core::marker::PhantomData<(R, Offset)> }
impl<R: Reader<Offset = Offset>, Offset: ReaderOffset> UnitHeader<R, Offset> {
    /// offset of the unit in its section
    pub uninterp spec fn spec_offset(&self) -> UnitSectionOffset<Offset>;
    /// the unit lies in .debug_info (not .debug_types)
    pub uninterp spec fn in_debug_info(&self) -> bool;
    pub uninterp spec fn spec_encoding(&self) -> Encoding;
    /// `offset` lies inside the unit's entries
    pub uninterp spec fn in_bounds_spec(&self, offset: UnitOffset<Offset>) -> bool;
    #[verifier::external_body]
    pub fn encoding(&self) -> (res: Encoding) ensures res == self.spec_encoding() { unimplemented!() }
    #[verifier::external_body]
    pub fn is_in_bounds(&self, offset: UnitOffset<Offset>) -> (res: bool) ensures res == self.in_bounds_spec(offset) { unimplemented!() }
}
'''

READ_LINE_MODEL = '''
// ---- MODEL (not gimli text) of read::IncompleteLineProgram / LineProgramHeader: only `header().offset()`
#[verifier::external_body]
#[verifier::reject_recursive_types(R)]
#[derive(Debug)]
pub struct LineProgramHeader<R: Reader> { model_only: core::marker::PhantomData<R> }
#[verifier::external_body]
#[verifier::reject_recursive_types(R)]
#[derive(Debug)]
pub struct IncompleteLineProgram<R: Reader> { model_only: core::marker::PhantomData<R> }
impl<R: Reader> LineProgramHeader<R> {
    pub uninterp spec fn spec_offset(&self) -> DebugLineOffset<usize>;
    #[verifier::external_body]
    pub fn offset(&self) -> (res: DebugLineOffset<usize>) ensures res == self.spec_offset() { unimplemented!() }
}
impl<R: Reader> IncompleteLineProgram<R> {
    pub uninterp spec fn spec_header(&self) -> LineProgramHeader<R>;
    #[verifier::external_body]
    pub fn header(&self) -> (res: &LineProgramHeader<R>) ensures *res == self.spec_header() { unimplemented!() }
}
'''

READ_DWARF_MODEL = '''
// ---- MODEL (not gimli text) of read::Dwarf / Unit / UnitRef (read/dwarf.rs).  UnitRef is a Copy pair of references that
// derefs to Unit, which derefs to its header; the section lookups are uninterpreted functions of (dwarf, unit, argument).
#[verifier::external_body]
#[verifier::reject_recursive_types(R)]
#[derive(Debug)]
pub struct Dwarf<R: Reader> { model_only: core::marker::PhantomData<R> }
#[verifier::reject_recursive_types(R)]
#[derive(Debug)]
pub struct Unit<R: Reader> {
    pub header: UnitHeader<R>,
    pub line_program: Option<IncompleteLineProgram<R>>,
}
impl<R: Reader> core::ops::Deref for Unit<R> {
    type Target = UnitHeader<R>;
    fn deref(&self) -> (res: &UnitHeader<R>) ensures *res == self.header { &self.header }
}
#[verifier::reject_recursive_types(R)]
#[derive(Debug)]
pub struct UnitRef<'a, R: Reader> {
    pub dwarf: &'a Dwarf<R>,
    pub unit: &'a Unit<R>,
}
impl<'a, R: Reader> Clone for UnitRef<'a, R> {
    fn clone(&self) -> (res: Self) ensures res == *self { *self }
}
impl<'a, R: Reader> Copy for UnitRef<'a, R> {}
impl<'a, R: Reader> core::ops::Deref for UnitRef<'a, R> {
    type Target = Unit<R>;
    fn deref(&self) -> (res: &Unit<R>) ensures *res == *self.unit { self.unit }
}
pub open spec fn res_rv<R: Reader>(r: Result<R>) -> Result<RView> {
    match r { Ok(x) => Ok(x.rv()), Err(e) => Err(e) }
}
impl<'a, R: Reader<Offset = usize>> UnitRef<'a, R> {
    pub uninterp spec fn address_spec(&self, index: DebugAddrIndex<usize>) -> Result<u64>;
    pub uninterp spec fn locations_offset_spec(&self, index: DebugLocListsIndex<usize>) -> Result<LocationListsOffset<usize>>;
    pub uninterp spec fn ranges_offset_spec(&self, index: DebugRngListsIndex<usize>) -> Result<RangeListsOffset<usize>>;
    pub uninterp spec fn ranges_offset_from_raw_spec(&self, offset: RawRangeListsOffset<usize>) -> RangeListsOffset<usize>;
    pub uninterp spec fn string_spec(&self, offset: DebugStrOffset<usize>) -> Result<RView>;
    pub uninterp spec fn string_offset_spec(&self, index: DebugStrOffsetsIndex<usize>) -> Result<DebugStrOffset<usize>>;
    pub uninterp spec fn line_string_spec(&self, offset: DebugLineStrOffset<usize>) -> Result<RView>;
    #[verifier::external_body]
    pub fn encoding(&self) -> (res: Encoding) ensures res == self.unit.header.spec_encoding() { unimplemented!() }
    #[verifier::external_body]
    pub fn address(&self, index: DebugAddrIndex<usize>) -> (res: Result<u64>) ensures res == self.address_spec(index) { unimplemented!() }
    #[verifier::external_body]
    pub fn locations_offset(&self, index: DebugLocListsIndex<usize>) -> (res: Result<LocationListsOffset<usize>>) ensures res == self.locations_offset_spec(index) { unimplemented!() }
    #[verifier::external_body]
    pub fn ranges_offset(&self, index: DebugRngListsIndex<usize>) -> (res: Result<RangeListsOffset<usize>>) ensures res == self.ranges_offset_spec(index) { unimplemented!() }
    #[verifier::external_body]
    pub fn ranges_offset_from_raw(&self, offset: RawRangeListsOffset<usize>) -> (res: RangeListsOffset<usize>) ensures res == self.ranges_offset_from_raw_spec(offset) { unimplemented!() }
    #[verifier::external_body]
    pub fn string(&self, offset: DebugStrOffset<usize>) -> (res: Result<R>) ensures res_rv(res) == self.string_spec(offset) { unimplemented!() }
    #[verifier::external_body]
    pub fn string_offset(&self, index: DebugStrOffsetsIndex<usize>) -> (res: Result<DebugStrOffset<usize>>) ensures res == self.string_offset_spec(index) { unimplemented!() }
    #[verifier::external_body]
    pub fn line_string(&self, offset: DebugLineStrOffset<usize>) -> (res: Result<R>) ensures res_rv(res) == self.line_string_spec(offset) { unimplemented!() }
}
'''

WRITE_MODELS = '''
// ---- MODEL (not gimli text): Cow<'_, [u8]> as returned by Reader::to_slice (core's Reader layer drops to_slice: `Cow`
// is outside Verus).  `ReaderToSlice` re-attaches the method to every reader: it returns exactly the bytes of the window.
#[verifier::external_body]
#[derive(Debug)]
pub struct SliceCow { model_only: Vec<u8> }
impl SliceCow {
    pub uninterp spec fn view(&self) -> Seq<u8>;
    #[verifier::external_body]
    pub fn first(&self) -> (res: Option<&u8>)
        ensures res matches Some(b) ==> self@.len() > 0 && *b == self@[0], res is None ==> self@.len() == 0
    { unimplemented!() }
    #[verifier::external_body]
    pub fn to_vec(&self) -> (res: Vec<u8>) ensures res@ == self@ { unimplemented!() }
}
impl From<SliceCow> for Vec<u8> {
    #[verifier::external_body]
    fn from(c: SliceCow) -> (res: Vec<u8>) ensures res@ == c@ { unimplemented!() }
}
impl vstd::std_specs::convert::FromSpecImpl<SliceCow> for Vec<u8> {
    open spec fn obeys_from_spec() -> bool { false }
    uninterp spec fn from_spec(v: SliceCow) -> Self;
}
pub trait ReaderToSlice: Sized {
    spec fn slice_rv(&self) -> RView;
    fn to_slice(&self) -> (res: read::Result<SliceCow>)
        ensures res matches Ok(c) ==> c@ == rv_bytes(self.slice_rv());
}
impl<R: Reader> ReaderToSlice for R {
    open spec fn slice_rv(&self) -> RView { self.rv() }
    #[verifier::external_body]
    fn to_slice(&self) -> (res: read::Result<SliceCow>) { unimplemented!() }
}
pub assume_specification<'a, T: Copy>[core::option::Option::<&'a T>::copied](o: Option<&'a T>) -> (res: Option<T>)
    ensures res == (match o { Some(x) => Some(*x), None => None::<T> });

// ---- MODEL (not gimli text): opaque write-side values produced by the sub-converters
#[verifier::external_body]
#[derive(Debug)]
pub struct Expression { model_only: Vec<u8> }
pub uninterp spec fn expr_raw(bytes: Seq<u8>) -> Expression;
impl Expression {
    #[verifier::external_body]
    pub fn raw(bytecode: Vec<u8>) -> (res: Self) ensures res == expr_raw(bytecode@) { unimplemented!() }
}
#[verifier::external_body]
#[derive(Debug)]
pub struct RangeList { model_only: Vec<u8> }
#[verifier::external_body]
#[derive(Debug)]
pub struct LocationList { model_only: Vec<u8> }
'''


def table_model(ty, idty, valty, what):
    return f'''
// ---- MODEL (not gimli text) of write::{ty} ({what}): `add` returns an id under which exactly the added value is stored
// (a new one, or the id of an equal value already present); ids handed out earlier keep their value.
#[verifier::external_body]
#[derive(Debug)]
pub struct {ty} {{ model_only: Vec<u8> }}
impl {ty} {{
    pub uninterp spec fn view(&self) -> Map<{idty}, {valty[1]}>;
    #[verifier::external_body]
    pub fn add(&mut self, value: {valty[0]}) -> (res: {idty})
        ensures final(self)@.contains_key(res), final(self)@[res] == {valty[2]},
            forall|k: {idty}| old(self)@.contains_key(k) ==> #[trigger] final(self)@.contains_key(k) && final(self)@[k] == old(self)@[k],
    {{ unimplemented!() }}
}}
'''


IDMAP_MODEL = '''
    // ---- MODEL (not gimli text, R-MAP): hashbrown::HashMap<K, V, fnv::FnvBuildHasher> as a vstd Map view; only `get`
    #[verifier::external_body]
    #[verifier::reject_recursive_types(K)]
    #[verifier::reject_recursive_types(V)]
    #[derive(Debug)]
    pub struct IdMap<K, V> { model_only: core::marker::PhantomData<(K, V)> }
    impl<K, V> IdMap<K, V> {
        pub uninterp spec fn view(&self) -> Map<K, V>;
        #[verifier::external_body]
        pub fn get(&self, k: &K) -> (res: Option<&V>)
            ensures res matches Some(v) ==> self@.contains_key(*k) && *v == self@[*k], res is None ==> !self@.contains_key(*k)
        { unimplemented!() }
    }
'''

CASPEC = '''
// ---- ghost vocabulary of batch conv_attrs (nothing trusted here except the `uninterp` relations, which only NAME the
// results of the sub-converters)
use crate::common::*;
use crate::read::{self, Reader, UnitRef};
use crate::write::*;
pub type Ids = Map<UnitSectionOffset<usize>, (UnitId, UnitEntryId)>;
/// the bytes of a reader window
pub open spec fn rv_bytes(v: RView) -> Seq<u8> { Seq::new(v.len, |i: int| v.at(i)) }
/// "e is the conversion of the expression with bytes `x` of unit `u`" (Expression::from: batch conv / conv_expr)
pub uninterp spec fn is_expr_conv<R: Reader, CA>(u: UnitRef<'_, R>, x: RView, ca: CA, ids: Ids, e: Expression) -> bool;
/// "l is the conversion of the location list at `off` of unit `u`" (LocationList::from: batch conv)
pub uninterp spec fn is_loclist_conv<R: Reader, CA>(u: UnitRef<'_, R>, off: LocationListsOffset<usize>, ca: CA, ids: Ids, l: LocationList) -> bool;
/// "l is the conversion of the range list at `off` of unit `u`" (RangeList::from: batch conv)
pub uninterp spec fn is_rnglist_conv<R: Reader, CA>(u: UnitRef<'_, R>, off: RangeListsOffset<usize>, ca: CA, l: RangeList) -> bool;
/// key of the entry at unit offset `o` of unit `h` in the entry-id table
pub open spec fn uso_unit<R: Reader<Offset = usize>>(h: read::UnitHeader<R>, o: read::UnitOffset<usize>) -> UnitSectionOffset<usize> {
    UnitSectionOffset((h.spec_offset().0 + o.0) as usize)
}
'''


def populate_write(ctx, sk):
    wm = Source('write/mod.rs', ctx)
    wu = Source('write/unit.rs', ctx)
    sk.module('caspec', 'use crate::vspec::*;')
    sk.add('caspec', CASPEC, label='caspec')
    sk.module('write', '''use core::result;
use crate::constants;
use crate::read::{self, Reader};
use crate::common::*;
use crate::vspec::*;
use crate::caspec::*;
pub use self::unit::*;''')
    sk.add('write', wm.item(r'^pub enum Address \{').clean())
    sk.add('write', wm.item(r'^pub enum Error \{').clean())
    sk.add('write', wm.item(r'^pub type Result<T>').clean())
    sk.add('write', wm.item(r'^    pub enum ConvertError \{', within=r'^mod convert \{').clean())
    sk.add('write', FROM_SPEC, label='FromSpecImpl')
    fr = wm.item(r'^    impl From<read::Error> for ConvertError', within=r'^mod convert \{', label='From<read::Error>').clean()
    fr.own(OWN)
    sk.add('write', fr)
    sk.add('write', wm.item(r'^    pub type ConvertResult<T>', within=r'^mod convert \{').clean())
    sk.add('write', WRITE_IDS, label='define_id')
    sk.add('write', WRITE_MODELS, label='write-models')
    sk.add('write', table_model('RangeListTable', 'RangeListId', ('RangeList', 'RangeList', 'value'), 'IndexSet<RangeList>'), label='RangeListTable(model)')
    sk.add('write', table_model('LocationListTable', 'LocationListId', ('LocationList', 'LocationList', 'value'), 'IndexSet<LocationList>'), label='LocationListTable(model)')
    sk.add('write', table_model('StringTable', 'StringId', ('SliceCow', 'Seq<u8>', 'value@'), 'IndexSet<Vec<u8>>; `add<T: Into<Vec<u8>>>` at T = the to_slice result'), label='StringTable(model)')
    sk.add('write', table_model('LineStringTable', 'LineStringId', ('SliceCow', 'Seq<u8>', 'value@'), 'IndexSet<Vec<u8>>; `add<T: Into<Vec<u8>>>` at T = the to_slice result'), label='LineStringTable(model)')

    sk.module('write::unit', '''use crate::read;
use crate::constants;
use crate::common::*;
use crate::write::{Address, ConvertError, ConvertResult, UnitId, UnitEntryId, Expression, RangeListId, LocationListId, StringId,
    LineStringId, FileId, RangeListTable, LocationListTable};
pub use self::convert::*;''')
    sk.add('write::unit', wu.item(r'^pub enum DebugInfoRef \{').clean())
    av = wu.item(r'^pub enum AttributeValue \{', label='AttributeValue(write)')
    av.custom_re('R-DERIVE', r'#\[derive\([^\]]*\)\]', '#[derive(Debug)]')     # contains the opaque Expression model
    sk.add('write::unit', av.clean())
    ust = wu.item(r'^pub struct Unit \{', label='Unit(write)')
    # R-FIELDS: the extracted code touches `unit.ranges` / `unit.locations` only
    for f in ['base_id: BaseId,', 'encoding: Encoding,', 'pub line_program: LineProgram,', 'entries: Vec<DebuggingInformationEntry>,',
              'root: UnitEntryId,', 'reserved: usize,', 'written: bool,', 'offsets: UnitOffsets,']:
        ust.custom('R-FIELDS', f, '')
    sk.add('write::unit', ust.clean())

    sk.module(M, '''use crate::read::{self, Reader, ReaderOffset};
use crate::constants;
use crate::common::*;
use crate::write::{self, Address, ConvertError, ConvertResult, UnitId, UnitEntryId, Expression, RangeList, LocationList, FileId,
    ReaderToSlice, SliceCow, expr_raw};
use crate::write::unit::{AttributeValue, DebugInfoRef};
use crate::vspec::*;
use crate::caspec::*;''')
    fm = wu.item(r'^    type FnvHashMap<K, V> =', within=CONVERT, label='FnvHashMap')
    fm.custom('R-MAP', 'hashbrown::HashMap<K, V, fnv::FnvBuildHasher>', 'IdMap<K, V>')
    sk.add(M, fm.clean())
    sk.add(M, IDMAP_MODEL, label='IdMap(model)')

    # ---- trait ConvertDebugInfoRef: the contract every implementation is held to
    tr = wu.item(r'^    pub\(crate\) trait ConvertDebugInfoRef', within=CONVERT, label='ConvertDebugInfoRef').clean()
    tr.insert_after('pub(crate) trait ConvertDebugInfoRef {', '''
        /// the entry-id table this implementation maps references through (empty: converts nothing)
        spec fn ref_ids(&self) -> Ids;
        /// offset (in its section) of the unit that unit-relative references are relative to
        spec fn ref_unit_offset(&self) -> usize;
        /// unit-relative offset is inside that unit
        spec fn ref_in_bounds(&self, entry: read::UnitOffset) -> bool;
        /// the unit lies in .debug_info
        spec fn ref_in_debug_info(&self) -> bool;
''')
    tr.splice('convert_unit_ref', ret='res', ensures=[
        '[C12:unit-ref-mapped] res matches Ok(id) ==> ({ let k = UnitSectionOffset((self.ref_unit_offset() + entry.0) as usize); '
        'self.ref_in_bounds(entry) && self.ref_ids().contains_key(k) && id == self.ref_ids()[k].1 })',
        '[C12:unit-ref-missing-err] (!self.ref_in_bounds(entry) || !self.ref_ids().contains_key(UnitSectionOffset((self.ref_unit_offset() + entry.0) as usize))) '
        '==> res == Err::<UnitEntryId, ConvertError>(ConvertError::InvalidUnitRef)'])
    tr.splice('convert_debug_info_ref', ret='res', ensures=[
        '[C12:debug-info-ref-mapped] res matches Ok(r) ==> ({ let k = UnitSectionOffset(entry.0); '
        'self.ref_in_debug_info() && self.ref_ids().contains_key(k) && r == DebugInfoRef::Entry(self.ref_ids()[k].0, self.ref_ids()[k].1) })',
        '[C12:debug-info-ref-missing-err] (!self.ref_in_debug_info() || !self.ref_ids().contains_key(UnitSectionOffset(entry.0))) '
        '==> res == Err::<DebugInfoRef, ConvertError>(ConvertError::InvalidDebugInfoRef)'])
    sk.add(M, tr)
    sk.add(M, wu.item(r'^    pub\(crate\) struct NoConvertDebugInfoRef', within=CONVERT).clean())
    nr = wu.item(r'^    impl ConvertDebugInfoRef for NoConvertDebugInfoRef', within=CONVERT, label='NoConvertDebugInfoRef').clean()
    nr.own(OWN)
    nr.insert_after('impl ConvertDebugInfoRef for NoConvertDebugInfoRef {', '''
        open spec fn ref_ids(&self) -> Ids { Map::empty() }
        open spec fn ref_unit_offset(&self) -> usize { 0 }
        open spec fn ref_in_bounds(&self, entry: read::UnitOffset) -> bool { false }
        open spec fn ref_in_debug_info(&self) -> bool { false }
''')
    sk.add(M, nr)

    # ---- ConvertUnit
    cu = wu.item(r"^    pub struct ConvertUnit<'a, R: Reader<Offset = usize>>", within=CONVERT, label='ConvertUnit(struct)')
    cu.custom('R-FIELDS', "read_entries: read::EntriesRaw<'a, R>,", '')
    cu.clean()
    cu.prepend('#[verifier::reject_recursive_types(R)]')
    ctx.count('R-REJREC')
    sk.add(M, cu)

    imp = wu.item(r"^    impl<'a, R: Reader<Offset = usize>> ConvertUnit<'a, R> \{", within=CONVERT, label='ConvertUnit')
    imp.drop(['convert_split', 'convert_split_with_filter', 'read_line_program', 'set_line_program', 'null_entry', 'read_entry',
              'add_entry', 'write', 'skip', 'convert', 'convert_attributes'])
    # R-DYN: Verus has no `dyn Fn`; static instead of dynamic dispatch, bodies unchanged (as in batch conv)
    imp.custom('R-DYN', 'pub fn convert_attribute_value(', 'pub fn convert_attribute_value<ConvAddr>(')
    imp.custom('R-DYN', 'pub fn convert_expression(', 'pub fn convert_expression<ConvAddr>(')
    imp.custom('R-DYN', 'pub fn convert_location_list(', 'pub fn convert_location_list<ConvAddr>(')
    imp.custom('R-DYN', 'pub fn convert_range_list(', 'pub fn convert_range_list<ConvAddr>(')
    imp.custom('R-DYN', ') -> ConvertResult<AttributeValue> {', ') -> ConvertResult<AttributeValue> where ' + CA_BOUND + ' {')
    imp.custom('R-DYN', ') -> ConvertResult<Expression> {', ') -> ConvertResult<Expression> where ' + CA_BOUND + ' {')
    imp.custom('R-DYN', ') -> ConvertResult<LocationList> {', ') -> ConvertResult<LocationList> where ' + CA_BOUND + ' {')
    imp.custom('R-DYN', ') -> ConvertResult<RangeList> {', ') -> ConvertResult<RangeList> where ' + CA_BOUND + ' {')
    imp.custom('R-DYN', '&dyn Fn(u64) -> Option<Address>', '&ConvAddr', count=-1)
    # wrappers around Expression::from / LocationList::from / RangeList::from (`&dyn ConvertDebugInfoRef`, raw list iterators)
    imp.extbody(['convert_expression', 'convert_location_list', 'convert_range_list'])
    imp.clean()
    imp.own(OWN)
    imp.insert_after("impl<'a, R: Reader<Offset = usize>> ConvertUnit<'a, R> {", '''
        pub closed spec fn ids(&self) -> Ids { self.entry_ids@ }
        pub closed spec fn files(&self) -> Seq<FileId> { self.line_program_files@ }
        pub closed spec fn hdr(&self) -> read::UnitHeader<R> { self.read_unit.unit.header }
        pub closed spec fn ranges_v(&self) -> Map<write::RangeListId, RangeList> { self.unit.ranges@ }
        pub closed spec fn locations_v(&self) -> Map<write::LocationListId, LocationList> { self.unit.locations@ }
        pub closed spec fn strings_v(&self) -> Map<write::StringId, Seq<u8>> { self.strings@ }
        pub closed spec fn line_strings_v(&self) -> Map<write::LineStringId, Seq<u8>> { self.line_strings@ }
''')
    imp.splice('convert_expression', ret='res', requires=[CA_TOTAL], ensures=[
        'res matches Ok(e) ==> is_expr_conv(read_unit, expression.0.rv(), *convert_address, self.ids(), e)'])
    imp.splice('convert_location_list', ret='res', requires=[CA_TOTAL], ensures=[
        'res matches Ok(l) ==> is_loclist_conv(read_unit, offset, *convert_address, self.ids(), l)'])
    imp.splice('convert_range_list', ret='res', requires=[CA_TOTAL], ensures=[
        'res matches Ok(l) ==> is_rnglist_conv(read_unit, offset, *convert_address, l)'])

    # DWARF 5 6.2.4.1 / DWARF 4 6.2.4: file numbers are 1-based up to version 4 (0 = no file), 0-based from version 5
    imp.splice('convert_file_index', ret='res', ensures=file_index_clauses('read_unit', 'index', 'res'))
    imp.splice('convert_unit_ref', ret='res', ensures=[
        '[C12:unit-ref-mapped] res matches Ok(id) ==> ({ let k = uso_unit(self.hdr(), entry); '
        'self.hdr().in_bounds_spec(entry) && self.ids().contains_key(k) && id == self.ids()[k].1 })',
        '[C12:unit-ref-missing-err] (!self.hdr().in_bounds_spec(entry) || !self.ids().contains_key(uso_unit(self.hdr(), entry))) '
        '==> res == Err::<UnitEntryId, ConvertError>(ConvertError::InvalidUnitRef)'])
    imp.splice('convert_debug_info_ref', ret='res', ensures=[
        '[C12:debug-info-ref-mapped] res matches Ok(r) ==> ({ let k = UnitSectionOffset(entry.0); '
        'self.hdr().in_debug_info() && self.ids().contains_key(k) && r == DebugInfoRef::Entry(self.ids()[k].0, self.ids()[k].1) })',
        '[C12:debug-info-ref-missing-err] (!self.hdr().in_debug_info() || !self.ids().contains_key(UnitSectionOffset(entry.0))) '
        '==> res == Err::<DebugInfoRef, ConvertError>(ConvertError::InvalidDebugInfoRef)'])
    imp.splice('convert_attribute_value', ret='res', requires=[CA_TOTAL], ensures=attribute_clauses(), canary=True)
    # closure of the DebugLineRef arm: parameter type + contract (insertions only)
    imp.insert_after('.map(|program', ": &read::IncompleteLineProgram<R>")
    imp.insert_before('program.header().offset()', "-> (o: DebugLineOffset<usize>) ensures o == program.spec_header().spec_offset() { ")
    imp.insert_after('program.header().offset()', ' }')
    sk.add(M, imp)

    ci = wu.item(r"^    impl<'a, R: Reader<Offset = usize>> ConvertDebugInfoRef for ConvertUnit<'a, R>", within=CONVERT, label='ConvertDebugInfoRef for ConvertUnit').clean()
    ci.own(OWN)
    ci.insert_after("impl<'a, R: Reader<Offset = usize>> ConvertDebugInfoRef for ConvertUnit<'a, R> {", '''
        open spec fn ref_ids(&self) -> Ids { self.ids() }
        open spec fn ref_unit_offset(&self) -> usize { self.hdr().spec_offset().0 }
        open spec fn ref_in_bounds(&self, entry: read::UnitOffset) -> bool { self.hdr().in_bounds_spec(entry) }
        open spec fn ref_in_debug_info(&self) -> bool { self.hdr().in_debug_info() }
''')
    sk.add(M, ci)


def file_index_clauses(unit, index, res):
    ver = f'{unit}.unit.header.spec_encoding().version'
    none = f'({ver} <= 4 && {index} == 0)'
    return [
        f'[C12:file-index] {none} ==> {res} == Ok::<Option<FileId>, ConvertError>(None)',
        f'[C12:file-index] (!{none} && {index} < self.files().len()) ==> {res} == Ok::<Option<FileId>, ConvertError>(Some(self.files()[{index} as int]))',
        f'[C12:file-index-missing-err] (!{none} && {index} >= self.files().len()) ==> {res} == Err::<Option<FileId>, ConvertError>(ConvertError::InvalidFileIndex)',
    ]


RV = 'read::AttributeValue'
WV = 'AttributeValue'
SAME = [   # (read kind, write kind): payload copied exactly
    ('Data1', 'Data1'), ('Data2', 'Data2'), ('Data4', 'Data4'), ('Data8', 'Data8'), ('Data16', 'Data16'), ('Sdata', 'Sdata'),
    ('Udata', 'Udata')]
CONST = ['Encoding', 'DecimalSign', 'Endianity', 'Accessibility', 'Visibility', 'Virtuality', 'Language', 'AddressClass',
         'IdentifierCase', 'CallingConvention', 'Inline', 'Ordering', 'DebugInfoRefSup', 'DebugMacinfoRef', 'DebugMacroRef',
         'DebugTypesRef', 'DebugStrRefSup']
UNREP = ['SecOffset', 'DebugAddrBase', 'DebugLocListsBase', 'DebugRngListsBase', 'DebugStrOffsetsBase']


def attribute_clauses():
    V = 'attr.value_spec()'
    NI = 'attr.spec_form() != constants::DW_FORM_implicit_const'
    CA = '*convert_address'
    IDS = 'old(self).ids()'
    H = 'old(self).hdr()'
    out = []

    def kind(tag, pat, body):
        out.append(f'[C12:{tag}] {V} matches {RV}::{pat} ==> ({NI} ==> (res matches Ok(w) ==> ({body})))')

    out.append(f'[C12:attr-implicit-const] attr.spec_form() == constants::DW_FORM_implicit_const ==> (res matches Ok(w) ==> '
               f'(attr.raw_spec() matches {RV}::Sdata(c) && w == {WV}::ImplicitConst(c)))')
    kind('attr-addr', 'Addr(a)', f'w matches {WV}::Address(x) && call_ensures(convert_address, (a,), Some(x))')
    kind('attr-addrx', 'DebugAddrIndex(i)', f'read_unit.address_spec(i) matches Ok(a) && w matches {WV}::Address(x) && call_ensures(convert_address, (a,), Some(x))')
    out.append(f'[C12:address-none-err] {V} matches {RV}::Addr(a) ==> (({NI} && (forall|x: Address| !call_ensures(convert_address, (a,), Some(x)))) ==> res is Err)')
    out.append(f'[C12:address-none-err] {V} matches {RV}::DebugAddrIndex(i) ==> (({NI} && (read_unit.address_spec(i) matches Ok(a) ==> '
               f'(forall|x: Address| !call_ensures(convert_address, (a,), Some(x))))) ==> res is Err)')
    kind('attr-block', 'Block(r)', f'w matches {WV}::Block(b) && b@ == rv_bytes(r.rv())')
    kind('attr-string', 'String(r)', f'w matches {WV}::String(b) && b@ == rv_bytes(r.rv())')
    for r, w in SAME:
        kind('attr-data', f'{r}(x)', f'w == {WV}::{w}(x)')
    # DWARF 5 7.5.5: DW_FORM_flag_present has no data, the attribute is implicitly true
    kind('attr-flag', 'Flag(b)', f'w == (if attr.spec_form() == constants::DW_FORM_flag_present {{ {WV}::FlagPresent }} else {{ {WV}::Flag(b) }})')
    kind('attr-exprloc', 'Exprloc(x)',
         f'w matches {WV}::Exprloc(e) && (is_expr_conv(read_unit, x.0.rv(), {CA}, {IDS}, e) || '
         f'(attr.spec_name() == constants::DW_AT_vtable_elem_location && x.0.rv().len > 0 && x.0.rv().at(0) == 0x10 && e == expr_raw(rv_bytes(x.0.rv()))))')
    kind('attr-unit-ref', 'UnitRef(o)', f'{H}.in_bounds_spec(o) && {IDS}.contains_key(uso_unit({H}, o)) && w == {WV}::UnitRef({IDS}[uso_unit({H}, o)].1)')
    kind('attr-debug-info-ref', 'DebugInfoRef(o)',
         f'{H}.in_debug_info() && {IDS}.contains_key(UnitSectionOffset(o.0)) && '
         f'w == {WV}::DebugInfoRef(DebugInfoRef::Entry({IDS}[UnitSectionOffset(o.0)].0, {IDS}[UnitSectionOffset(o.0)].1))')
    out.append(f'[C12:unit-ref-missing-err] {V} matches {RV}::UnitRef(o) ==> (({NI} && (!{H}.in_bounds_spec(o) || !{IDS}.contains_key(uso_unit({H}, o)))) ==> res is Err)')
    out.append(f'[C12:unit-ref-missing-err] {V} matches {RV}::DebugInfoRef(o) ==> (({NI} && (!{H}.in_debug_info() || !{IDS}.contains_key(UnitSectionOffset(o.0)))) ==> res is Err)')
    kind('attr-line-ref', 'DebugLineRef(o)',
         f'w == {WV}::LineProgramRef && (read_unit.unit.line_program matches Some(p) && p.spec_header().spec_offset() == o)')
    kind('attr-loclist', 'LocationListsRef(o)',
         f'w matches {WV}::LocationListRef(id) && final(self).locations_v().contains_key(id) && '
         f'is_loclist_conv(read_unit, o, {CA}, {IDS}, final(self).locations_v()[id])')
    kind('attr-loclistx', 'DebugLocListsIndex(i)',
         f'read_unit.locations_offset_spec(i) matches Ok(o) && w matches {WV}::LocationListRef(id) && final(self).locations_v().contains_key(id) && '
         f'is_loclist_conv(read_unit, o, {CA}, {IDS}, final(self).locations_v()[id])')
    kind('attr-rnglist', 'RangeListsRef(o)',
         f'w matches {WV}::RangeListRef(id) && final(self).ranges_v().contains_key(id) && '
         f'is_rnglist_conv(read_unit, read_unit.ranges_offset_from_raw_spec(o), {CA}, final(self).ranges_v()[id])')
    kind('attr-rnglistx', 'DebugRngListsIndex(i)',
         f'read_unit.ranges_offset_spec(i) matches Ok(o) && w matches {WV}::RangeListRef(id) && final(self).ranges_v().contains_key(id) && '
         f'is_rnglist_conv(read_unit, o, {CA}, final(self).ranges_v()[id])')
    kind('attr-strp', 'DebugStrRef(o)',
         f'read_unit.string_spec(o) matches Ok(s) && w matches {WV}::StringRef(id) && final(self).strings_v().contains_key(id) && '
         f'final(self).strings_v()[id] == rv_bytes(s)')
    kind('attr-strx', 'DebugStrOffsetsIndex(i)',
         f'read_unit.string_offset_spec(i) matches Ok(o) && read_unit.string_spec(o) matches Ok(s) && w matches {WV}::StringRef(id) && '
         f'final(self).strings_v().contains_key(id) && final(self).strings_v()[id] == rv_bytes(s)')
    kind('attr-line-strp', 'DebugLineStrRef(o)',
         f'read_unit.line_string_spec(o) matches Ok(s) && w matches {WV}::LineStringRef(id) && final(self).line_strings_v().contains_key(id) && '
         f'final(self).line_strings_v()[id] == rv_bytes(s)')
    for k in CONST:
        kind('attr-const-class', f'{k}(x)', f'w == {WV}::{k}(x)')
    kind('attr-dwo-id', 'DwoId(x)', f'w == {WV}::Udata(x.0)')
    ver = 'read_unit.unit.header.spec_encoding().version'
    kind('attr-file-index', 'FileIndex(i)',
         f'w == {WV}::FileIndex(if {ver} <= 4 && i == 0 {{ None::<FileId> }} else {{ Some(old(self).files()[i as int]) }}) && '
         f'(({ver} <= 4 && i == 0) || i < old(self).files().len())')
    for k in UNREP:
        out.append(f'[C12:attr-unrepresentable] ({NI} && {V} is {k}) ==> res is Err')
    out.append('[C12:tables-grow-only] forall|k: write::RangeListId| old(self).ranges_v().contains_key(k) ==> #[trigger] final(self).ranges_v().contains_key(k) && final(self).ranges_v()[k] == old(self).ranges_v()[k]')
    out.append('[C12:tables-grow-only] forall|k: write::LocationListId| old(self).locations_v().contains_key(k) ==> #[trigger] final(self).locations_v().contains_key(k) && final(self).locations_v()[k] == old(self).locations_v()[k]')
    out.append('[C12:tables-grow-only] forall|k: write::StringId| old(self).strings_v().contains_key(k) ==> #[trigger] final(self).strings_v().contains_key(k) && final(self).strings_v()[k] == old(self).strings_v()[k]')
    out.append('[C12:tables-grow-only] forall|k: write::LineStringId| old(self).line_strings_v().contains_key(k) ==> #[trigger] final(self).line_strings_v().contains_key(k) && final(self).line_strings_v()[k] == old(self).line_strings_v()[k]')
    out.append('[C12:tables-grow-only] final(self).ids() == old(self).ids() && final(self).files() == old(self).files() && final(self).hdr() == old(self).hdr()')
    return out


def populate(ctx, sk):
    populate_write(ctx, sk)
    populate_read(ctx, sk)
    return sk


def build(ctx):
    sk = Skeleton(ctx, core.rd('prelude/crate.rs'))
    core.populate(ctx, sk)
    populate(ctx, sk)
    return sk
