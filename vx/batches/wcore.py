"""B-wcore: the WRITE-side contract layer (DESIGN.md 3.1.3, 6 C09 writer half / C18 write side).

USAGE (for builders of generic writers: `fn write<W: Writer>(&self, w: &mut W, ..) -> Result<..>`)
---------------------------------------------------------------------------------------------------
    from batches import core, wcore
    TRUSTED = list(wcore.TRUSTED) + [...]
    def build(ctx):
        sk = Skeleton(ctx, core.rd('prelude/crate.rs'))
        core.populate(ctx, sk); wcore.populate(ctx, sk); populate(ctx, sk); return sk
    sk.module('write::unit', 'use crate::write::{Address, Error, Result, Writer};\nuse crate::wspec::*;')

Every writer has a ghost view `w.wv() : WView { len: nat, ops: Seq<WOp>, be: bool }` (vx/specs/wcore.rs, module
`crate::wspec`): the section length, and the LOG OF SEMANTIC FIELDS written so far. Each Writer primitive pushes
exactly one `WOp` and advances `len` by `op_len(op, pos)`:
    wu(val, size)            fixed-width unsigned field = WOp::U{val: nat, size: nat}   write_u8..write_u128, write_udata
    ws(val, size)            signed field = the same kind with the two's complement value s2u(val,size)   write_sdata
    WOp::Uleb(v: u64)  WOp::Sleb(v: i64)  WOp::Bytes(Seq<u8>)          write_uleb128 / write_sleb128 / write
    WOp::Address{address,size}  WOp::Offset{val,section,size}  WOp::EhPointer{address,eh_pe,size}  WOp::Reference{symbol,size}
                             the RELOCATABLE fields (write_address/write_offset/write_eh_pointer/write_reference) - C18
    WOp::PatchU{offset,val,size}  WOp::PatchOffset{offset,val,section,size}  WOp::PatchBytes{offset,bytes}
                             overwrites (write_uN_at, write_udata_at, write_offset_at, write_at): logged, op_len == 0
Vocabulary (pure arithmetic on `len`, `push` on `ops`; `let w0 = old(w).wv(), w1 = final(w).wv()`):
    emitted(w0, w1, op)                w1.ops == w0.ops.push(op) && w1.len == w0.len + op_len(op, w0.len) && same byte order
    emitted2(w0,w1,a,b) .. emitted4    the same for 2..4 fields in order (chains of primitive calls prove these automatically)
    wunch(w0, w1)                      nothing written (every primitive: `res is Err ==> wunch`)
    grew(w0, w1)                       w0.ops is a prefix of w1.ops, len did not shrink: THE UNIVERSAL FRAME; put
                                       `grew(old(w).wv(), final(w).wv())` on every writer fn (it holds on Ok and on Err, composes
                                       by itself: reflexive/transitive without lemmas, implied by emitted*/wunch/wrote)
    wrote(w0, w1, s: Seq<WOp>)         w1.ops == w0.ops + s (loops / variable-length structures);
                                       `broadcast use crate::wspec::group_wrote;` gives nil / +emitted / ==> grew;
                                       concatenating two `wrote`s: call `lemma_wrote_wrote(a,b,c,s,t)` EXPLICITLY (it is
                                       deliberately not broadcast: it loops the solver on any wrote(v,v,s) term)
* "this function emits fields a, b, c":   `'[Cxx:fields] res is Ok ==> emitted3(old(w).wv(), final(w).wv(), a, b, c)'`
  or directly `final(w).wv().ops == old(w).wv().ops.push(a).push(b).push(c)`; nested structures: give the callee a
  `spec fn fields(self, ..) -> Seq<WOp>` and ensure `wrote(old, final, self.fields(..))`.
* exact length:  `final(w).wv().len == old(w).wv().len + 4 + uleb_size(x as nat) + size as nat` (op_len unfolds by itself;
  `uleb_size`/`sleb_size` are closed-form spec fns and are what `uleb128_size`/`sleb128_size`/`Leb128::len` return), so
  "size() == bytes written" is an arithmetic equality between the size function's result and the `len` difference.
* `w.len()` returns `w.wv().len`; `w.write_initial_length(format)` returns the offset of the length word (ghost accessor
  `o.off()`), `write_initial_length_at(o, length, format)` logs `PatchU{offset: o.off(), val: length, size: word_size(format)}`.
* Fit conditions: `wsize_ok(size)` (1,2,4,8), `ufits(val,size)`, `sfits(val,size)`; write_udata/write_sdata/write_udata_at return
  `Err(ValueTooLarge)` / `Err(UnsupportedWordSize(size))` in exactly the stated cases and `Ok ==> the value fits`.
* Never call a plain integer primitive for an address / section offset: C18 is the statement that the log shows
  `WOp::Address/Offset/EhPointer/Reference/PatchOffset` for those fields and `U/Uleb/...` for everything else.
* `wcore.ensure_section_id(ctx, sk)`, `wcore.ensure_structural(sk, 'common', 'Format')`, `wcore.ensure_dwehpe(ctx, sk)` are
  idempotent: use them instead of extracting `SectionId` / `impl DwEhPe` / adding Structural yourself (SectionId and
  Structural for Format+SectionId are already added by `wcore.populate`; `impl DwEhPe` only by `wreloc`).
  `wcore.wsource(rel, ctx)` = `Source(rel, ctx)` for files with `#[cfg(debug_assertions)]` (write/mod.rs; evaluated TRUE).
* `wspec::lemma_s2u_roundtrip` (ws field reads back through sign extension), `wspec::lemma_eh_format_arith`
  (`& 0x0f` / `& 0x70` == `% 16` / `/ 16 % 8 * 16`), `lemma_emitted_wrote`.

CONTENT
-------
Verified with real bodies (owners C09, C18): `Writer::{write_udata, write_sdata, write_udata_at, write_eh_pointer_data,
write_initial_length, write_initial_length_at}`; `leb128::write::{Leb128::{unsigned, signed, bytes, len}, uleb128_size,
sleb128_size}`, `low_bits_of_u64`.
R-REQUIRED (contract assumed here; byte-level meaning proved by Kani group K-WPRIM on EndianVec, /verif/kani/src/wprim.rs):
`write_u8..write_u128`, `write_u8_at..write_u128_at`, `write_uleb128`, `write_sleb128` (bodies build byte arrays through
`Endianity::write_*` / `Leb128::bytes`), and the five relocatable methods `write_address`, `write_offset`,
`write_offset_at`, `write_eh_pointer`, `write_reference` (implementations override them; their default "plain writer"
bodies and the `RelocateWriter` overrides are verified in batch `wreloc`).
Required in the source already: `write`, `write_at`, `len`, `endian` (contracts are assumptions on implementations;
checked on EndianVec by K-WPRIM `k_wprim_write_and_write_at`).
TRUSTED: nothing beyond core's. `unsafe impl Structural for Format/SectionId {}` (field-less enums; see ensure_structural).
Dropped: `leb128::write::{unsigned, signed}` free fns and `Leb128::write` (std::io::Write).

TAGS (C09): w-bytes, w-bytes-at, w-fixed, w-fixed-at, w-leb, w-len, w-err-unch, w-frame (primitive layer, assumed);
udata-fit / udata-too-large / udata-word-size, sdata-*, udata-at-* (Ok => fits and exactly that field; does not fit =>
Err(ValueTooLarge); other size => Err(UnsupportedWordSize(size))); eh-data, eh-data-reject, eh-data-too-large;
initial-length, initial-length-size, initial-length-at, initial-length-at-too-large, initial-length-at-reserved;
leb-size (uleb128_size / sleb128_size / Leb128::{unsigned,signed}.len / bytes().len all equal the closed-form size).
(C18): w-address, w-offset, w-offset-at, w-eh-pointer, w-reference (event contracts, assumed).

FINDING F-wcore-1 (genuine, C09; native/src/bin/f_wcore_1.rs; FIXED in /repo 3c89b90): `write_initial_length_at(off, length,
Dwarf32)` returned Ok for length in 0xffff_fff0..=0xffff_ffff, the range DWARF 5 section 7.4 reserves (0xffff_ffff = 64-bit
escape); the bytes did not read back (`read_initial_length`: UnknownReservedLength / taken for DWARF64). It now returns
`Err(InitialLengthOverflow)` for that range; [C09:initial-length-at-reserved] states exactly that and
[C09:initial-length-at] that Ok implies a 32-bit length below 0xffff_fff0. Both clauses are part of every downstream build.

NOT DECIDED here: that `write`'s bytes for `Uleb/Sleb/U` fields are the DWARF encodings (K-WPRIM, K-LEB, K-PRIM);
`Ok` is never guaranteed (an implementation's `write` may fail for its own reasons) - "ValueTooLarge exactly when the value
does not fit" is proved as: does-not-fit ==> Err(ValueTooLarge), Ok ==> fits, and on EndianVec (K-WPRIM) fits ==> Ok.
The byte content of `Leb128::bytes()` (only its length is specified in Verus; K-LEB proves the round trip for all u64/i64).
"""
from lib import *
from batches import core

TRUSTED = list(core.TRUSTED)
OWN = ['C09', 'C18']

O = 'old(self).wv()'
F = 'final(self).wv()'
ERR_UNCH = f'[C09:w-err-unch] res is Err ==> wunch({O}, {F})'
FRAME = f'[C09:w-frame] grew({O}, {F})'

GHOST = '''
    // ---- ghost view (contract layer)
    spec fn wv(&self) -> WView;
'''

FIXED = [('write_u8', 1), ('write_u16', 2), ('write_u32', 4), ('write_u64', 8), ('write_u128', 16)]
RELOCATABLE = ['write_address', 'write_offset', 'write_offset_at', 'write_eh_pointer', 'write_reference']
PRIMS = [n for n, _ in FIXED] + [n + '_at' for n, _ in FIXED] + ['write_uleb128', 'write_sleb128']


def wsource(rel, ctx):
    """Source(rel, ctx) for files that use `#[cfg(debug_assertions)]` (write/mod.rs, write/unit.rs ...), which
    lib.eval_cfg does not know: R-CFG evaluates it as TRUE (debug profile: the profile in which overflow checks and
    debug_assert!s, which Verus checks, are on). Done by pre-resolving the two attribute forms before lib.apply_cfg."""
    import lib as _lib
    key = (_lib.SRC, rel)
    if key not in _lib._src_cache:
        raw = _lib.strip_comments(open(_lib.SRC + rel).read())
        raw = re.sub(r'#\[cfg\(not\(debug_assertions\)\)\]', '#[cfg(test)]', raw)
        raw = re.sub(r'#\[cfg\(debug_assertions\)\]', '#[cfg(not(test))]', raw)
        log = {}
        _lib._src_cache[key] = (_lib.apply_cfg(raw, log), log)
    return Source(rel, ctx)


def _has(sk, path, needle):
    return path in sk.mods and any(needle in (c[0].text if isinstance(c[0], Item) else c[0]) for c in sk.mods[path]['chunks'])


def ensure_structural(sk, path, name):
    """give exec `==` on the extracted field-less enum / newtype `name` its spec meaning, once.
    (`unsafe impl Structural`: #[derive(Structural)] on these enums makes Verus 0.2026.09.13 panic in check_match
    ("thir_body query ... VerusErasureCtxt has not been initialized"); Structural-ness of a field-less enum is immediate.)"""
    if _has(sk, path, f'Structural for {name}'):
        return
    for c in sk.mods[path]['chunks']:
        text = c[0].text if isinstance(c[0], Item) else c[0]
        if re.search(r'\b(enum|struct) %s\b' % name, text):
            if 'derive(Structural' not in text:
                sk.add(path, f'unsafe impl Structural for {name} {{}}', label=f'Structural({name})')
            return
    raise Lost(f'ensure_structural: {path}::{name} not in the skeleton')


def ensure_section_id(ctx, sk):
    """`common::SectionId` (enum only, Structural), once"""
    if not _has(sk, 'common', 'pub enum SectionId'):
        sk.add('common', Source('common.rs', ctx).item(r'^pub enum SectionId \{', label='SectionId').clean())
    ensure_structural(sk, 'common', 'SectionId')


def ensure_dwehpe(ctx, sk):
    """`impl DwEhPe { format, application, is_indirect }` + the two masks, once, with bit-level contracts"""
    if _has(sk, 'constants', 'impl DwEhPe {'):
        return
    cs = Source('constants.rs', ctx)
    sk.add('constants', cs.item(r'^const DW_EH_PE_FORMAT_MASK').clean())
    sk.add('constants', cs.item(r'^const DW_EH_PE_APPLICATION_MASK').clean())
    eh = cs.item(r'^impl DwEhPe \{', label='DwEhPe(impl)')
    eh.keep_only(['format', 'application', 'is_indirect'])
    eh.clean()
    eh.own(['C09'])
    eh.splice('format', ret='res', ensures=['[C09:eh-format] res.0 == self.0 & 0x0f'])
    eh.splice('application', ret='res', ensures=['[C09:eh-format] res.0 == self.0 & 0x70'])
    eh.splice('is_indirect', ret='res', ensures=['[C09:eh-format] res == (self.0 & 0x80 != 0)'])
    sk.add('constants', eh)


# ---- proof hints (ghost only)
def sh(k, ty):
    return 'v0' if k == 0 else f'v0 >> {7 * k}{ty}'


def bv_unsigned_steps():
    """constant-shift facts for the unrolled LEB128 loops: (v >> 7k) >> 7 == v >> 7(k+1); v >> 7k == 0 <==> v < 2^7k"""
    fs = []
    for k in range(0, 9):
        fs.append(f'assert(({sh(k, "u64")}) >> 7u64 == v0 >> {7 * k + 7}u64) by (bit_vector);')
    fs.append('assert((v0 >> 63u64) >> 7u64 == 0u64) by (bit_vector);')
    for k in range(1, 10):
        fs.append(f'assert((v0 >> {7 * k}u64) == 0u64 <==> v0 < {hex(1 << (7 * k))}u64) by (bit_vector);')
    return ' '.join(fs)


def inv_unsigned(cnt):
    ds = []
    for k in range(0, 10):
        d = f'{cnt} == {k} && val == {sh(k, "u64")}'
        if k > 0:
            d += f' && v0 >= {hex(1 << (7 * k))}u64'
        ds.append('(' + d + ')')
    return ' || '.join(ds)


def bv_signed_steps():
    fs = []
    for k in range(0, 9):
        fs.append(f'assert((({sh(k, "i64")}) >> 6i64) >> 1i64 == v0 >> {7 * k + 7}i64) by (bit_vector);')
    for k in range(0, 9):
        b = hex(1 << (7 * k + 6))
        fs.append(f'assert(((({sh(k, "i64")}) >> 6i64) == 0i64 || (({sh(k, "i64")}) >> 6i64) == -1i64) <==> (-{b}i64 <= v0 && v0 < {b}i64)) by (bit_vector);')
    fs.append('assert(((v0 >> 63i64) >> 6i64) == 0i64 || ((v0 >> 63i64) >> 6i64) == -1i64) by (bit_vector);')
    return ' '.join(fs)


def inv_signed(cnt):
    ds = []
    for k in range(0, 10):
        d = f'{cnt} == {k} && val == {sh(k, "i64")}'
        if k > 0:
            b = hex(1 << (7 * k - 1))
            d += f' && !(-{b}i64 <= v0 && v0 < {b}i64)'
        ds.append('(' + d + ')')
    return ' || '.join(ds)


def populate(ctx, sk):
    lb = Source('leb128.rs', ctx)
    wmod = wsource('write/mod.rs', ctx)
    wrs = Source('write/writer.rs', ctx)

    ensure_section_id(ctx, sk)
    ensure_structural(sk, 'common', 'Format')   # `format == Format::Dwarf64` in write_initial_length

    sk.module('wspec', 'use crate::vspec::*;')
    sk.add('wspec', core.rd('specs/wcore.rs'), label='wspec')

    # ---- leb128::write
    l64 = lb.item(r'^fn low_bits_of_u64').clean()
    l64.splice('low_bits_of_u64', ret='res', ensures=['res as u64 == val & 0x7f', 'res < 128'],
               before=[('let byte =', 'proof { assert(u8::MAX as u64 == 0xffu64); assert(((val & 0xffu64) as u8) & 0x7fu8 == (val & 0x7fu64) as u8) by (bit_vector); '
                        'assert(((val & 0x7fu64) as u8) as u64 == val & 0x7fu64) by (bit_vector); assert(val & 0x7fu64 < 128u64) by (bit_vector); }')],
               owners=OWN)
    sk.add('leb128', l64)
    lw = lb.item(r'^pub mod write \{', label='write')
    lw.drop(['write'])            # Leb128::write<W: std::io::Write>
    lw.drop(['unsigned'], nth=1)  # free fn unsigned<W: std::io::Write>
    lw.drop(['signed'], nth=1)    # free fn signed<W: std::io::Write>
    lw.clean()
    lw.insert_after('pub mod write {', '\n    use vstd::prelude::*;\n    use crate::wspec::*;\n')
    lw.insert_after('impl Leb128 {', '''
        /// the encoded bytes / well-formedness (ghost accessors for the private fields)
        pub closed spec fn seq(&self) -> Seq<u8> { self.bytes@.take(self.len as int) }
        pub closed spec fn wf(&self) -> bool { self.len <= 10 }
        pub closed spec fn count(&self) -> nat { self.len as nat }
        pub proof fn lemma_seq_len(&self) requires self.wf() ensures self.seq().len() == self.count(), self.count() <= 10 {}
''')
    lw.own(OWN)
    lw.splice('bytes', ret='res', requires=['self.wf()'], ensures=['[C09:leb-size] res@ == self.seq()', 'res@.len() == self.count()'])
    lw.splice('len', ret='res', requires=['self.wf()'], ensures=['[C09:leb-size] res as nat == self.count()', 'res == self.seq().len()', 'res <= 10'])
    lw.splice('unsigned', ret='res', attrs='#[verifier::loop_isolation(false)]',
              ensures=['res.wf()', '[C09:leb-size] res.count() == uleb_size(val as nat)', 'res.seq().len() == res.count()'],
              loops={0: f'invariant {inv_unsigned("len")}, len <= 9, decreases 10 - len'},
              before=[('let mut bytes = [0; 10];', 'let ghost v0 = val;'),
                      ('let mut byte = low_bits_of_u64(val);', 'proof { ' + bv_unsigned_steps() + ' }')])
    lw.splice('signed', ret='res', attrs='#[verifier::loop_isolation(false)]',
              ensures=['res.wf()', '[C09:leb-size] res.count() == sleb_size(val as int)', 'res.seq().len() == res.count()'],
              loops={0: f'invariant {inv_signed("len")}, len <= 9, decreases 10 - len'},
              before=[('let mut bytes = [0; 10];', 'let ghost v0 = val;'),
                      ('let mut byte = val as u8;', 'proof { ' + bv_signed_steps() + ' }')])
    lw.splice('uleb128_size', ret='res', attrs='#[verifier::loop_isolation(false)]', ensures=['[C09:leb-size] res as nat == uleb_size(val as nat)', '1 <= res <= 10'],
              loops={0: f'invariant {inv_unsigned("size")}, size <= 9, decreases 10 - size'},
              before=[('let mut size = 0;', 'let ghost v0 = val;'),
                      ('val >>= 7;', 'proof { ' + bv_unsigned_steps() + ' }')])
    lw.splice('sleb128_size', ret='res', attrs='#[verifier::loop_isolation(false)]', ensures=['[C09:leb-size] res as nat == sleb_size(val as int)', '1 <= res <= 10'],
              loops={0: f'invariant {inv_signed("size")}, size <= 9, decreases 10 - size'},
              before=[('let mut size = 0;', 'let ghost v0 = val;'),
                      ('val >>= 6;', 'proof { ' + bv_signed_steps() + ' }')])
    sk.add('leb128', lw)

    # ---- write
    sk.module('write', '''use core::result;
use core::fmt;
use crate::constants;
pub use self::writer::*;''')
    sk.add('write', wmod.item(r'^pub enum Error \{', label='Error').clean())
    sk.add('write', wmod.item(r'^pub type Result<T>', label='Result').clean())
    sk.add('write', wmod.item(r'^pub enum Address \{', label='Address').clean())

    sk.module('write::writer', '''use crate::common::{Format, SectionId};
use crate::constants;
use crate::endianity::Endianity;
use crate::leb128::write::Leb128;
use crate::write::{Address, Error, Result};
use crate::vspec::*;
use crate::wspec::*;''')
    wr = wrs.item(r'^pub trait Writer \{', label='Writer')
    wr.required(PRIMS)
    wr.required(RELOCATABLE)
    wr.clean()
    writer_contracts(wr, plain=False)
    sk.add('write::writer', wr)
    ilo = wrs.item(r'^pub struct InitialLengthOffset', label='InitialLengthOffset').clean()
    sk.add('write::writer', ilo)
    sk.add('write::writer', '''
impl InitialLengthOffset {
    /// ghost accessor: the section offset of the length word
    pub closed spec fn off(self) -> usize { self.0 }
}
''', label='InitialLengthOffset(ghost)')
    return sk


CAST_U = ('proof { assert((val as u8) as u64 == val <==> val <= 0xffu64) by (bit_vector); '
          'assert((val as u16) as u64 == val <==> val <= 0xffffu64) by (bit_vector); '
          'assert((val as u32) as u64 == val <==> val <= 0xffff_ffffu64) by (bit_vector); }')
CAST_S = ('proof { assert((val as i8) as i64 == val <==> (-0x80i64 <= val && val < 0x80i64)) by (bit_vector); '
          'assert((val as i16) as i64 == val <==> (-0x8000i64 <= val && val < 0x8000i64)) by (bit_vector); '
          'assert((val as i32) as i64 == val <==> (-0x8000_0000i64 <= val && val < 0x8000_0000i64)) by (bit_vector); '
          'assert(0 <= val && val < 0x80i64 ==> ((val as i8) as u8) as i64 == val) by (bit_vector); '
          'assert(-0x80i64 <= val && val < 0 ==> ((val as i8) as u8) as i64 == val + 0x100i64) by (bit_vector); '
          'assert(0 <= val && val < 0x8000i64 ==> ((val as i16) as u16) as i64 == val) by (bit_vector); '
          'assert(-0x8000i64 <= val && val < 0 ==> ((val as i16) as u16) as i64 == val + 0x1_0000i64) by (bit_vector); '
          'assert(0 <= val && val < 0x8000_0000i64 ==> ((val as i32) as u32) as i64 == val) by (bit_vector); '
          'assert(-0x8000_0000i64 <= val && val < 0 ==> ((val as i32) as u32) as i64 == val + 0x1_0000_0000i64) by (bit_vector); '
          'assert(0 <= val ==> (val as u64) as int == val as int) by (bit_vector); '
          'assert(val < 0 ==> (val as u64) as int == val as int + 0x1_0000_0000_0000_0000) by (bit_vector); }')


def writer_contracts(wr, plain):
    """contracts of `trait Writer`. plain=False: the five relocatable methods are required and carry EVENT contracts
    (wcore); plain=True: they keep their default bodies and carry the plain-writer contracts (wreloc)."""
    wr.insert_after('type Endian: Endianity;', GHOST)
    wr.own(OWN)
    wr.splice('endian', ret='res', ensures=['res.big() == self.wv().be'])
    wr.splice('len', ret='res', ensures=['[C09:w-len] res as nat == self.wv().len'])
    wr.splice('write', ret='res', ensures=[
        f'[C09:w-bytes] res is Ok ==> emitted({O}, {F}, WOp::Bytes(bytes@))', ERR_UNCH])
    wr.splice('write_at', ret='res', ensures=[
        f'[C09:w-bytes-at] res is Ok ==> offset + bytes@.len() <= {O}.len && emitted({O}, {F}, WOp::PatchBytes {{ offset: offset as nat, bytes: bytes@ }})',
        ERR_UNCH])
    for n, sz in FIXED:
        wr.splice(n, ret='res', ensures=[
            f'[C09:w-fixed] res is Ok ==> emitted({O}, {F}, wu(val as nat, {sz}))', ERR_UNCH])
        wr.splice(n + '_at', ret='res', ensures=[
            f'[C09:w-fixed-at] res is Ok ==> offset + {sz} <= {O}.len && emitted({O}, {F}, WOp::PatchU {{ offset: offset as nat, val: val as nat, size: {sz} }})',
            ERR_UNCH])
    wr.splice('write_uleb128', ret='res', ensures=[f'[C09:w-leb] res is Ok ==> emitted({O}, {F}, WOp::Uleb(val))', ERR_UNCH])
    wr.splice('write_sleb128', ret='res', ensures=[f'[C09:w-leb] res is Ok ==> emitted({O}, {F}, WOp::Sleb(val))', ERR_UNCH])

    # ---- default methods verified with their real bodies
    wr.splice('write_udata', ret='res', before=[('match size {', CAST_U)], ensures=[
        f'[C09:udata-fit] res is Ok ==> wsize_ok(size as nat) && ufits(val as nat, size as nat) && emitted({O}, {F}, wu(val as nat, size as nat))',
        '[C09:udata-too-large] wsize_ok(size as nat) && !ufits(val as nat, size as nat) ==> res == Err::<(), Error>(Error::ValueTooLarge)',
        '[C09:udata-word-size] !wsize_ok(size as nat) ==> res == Err::<(), Error>(Error::UnsupportedWordSize(size))',
        ERR_UNCH])
    wr.splice('write_sdata', ret='res', before=[('match size {', CAST_S)], ensures=[
        f'[C09:sdata-fit] res is Ok ==> wsize_ok(size as nat) && sfits(val as int, size as nat) && emitted({O}, {F}, ws(val as int, size as nat))',
        '[C09:sdata-too-large] wsize_ok(size as nat) && !sfits(val as int, size as nat) ==> res == Err::<(), Error>(Error::ValueTooLarge)',
        '[C09:sdata-word-size] !wsize_ok(size as nat) ==> res == Err::<(), Error>(Error::UnsupportedWordSize(size))',
        ERR_UNCH])
    wr.splice('write_udata_at', ret='res', before=[('match size {', CAST_U)], ensures=[
        f'[C09:udata-at-fit] res is Ok ==> wsize_ok(size as nat) && ufits(val as nat, size as nat) && offset + size <= {O}.len && '
        f'emitted({O}, {F}, WOp::PatchU {{ offset: offset as nat, val: val as nat, size: size as nat }})',
        '[C09:udata-at-too-large] wsize_ok(size as nat) && !ufits(val as nat, size as nat) ==> res == Err::<(), Error>(Error::ValueTooLarge)',
        '[C09:udata-at-word-size] !wsize_ok(size as nat) ==> res == Err::<(), Error>(Error::UnsupportedWordSize(size))',
        ERR_UNCH])
    wr.splice('write_eh_pointer_data', ret='res', ensures=[
        f'[C09:eh-data][C14:eh-pointer-data] res is Ok ==> (eh_data_op(val, format, size) matches Some(op) && emitted({O}, {F}, op)) && eh_data_fits(val, format, size)',
        '[C09:eh-data-reject][C14:eh-pointer-data-reject] eh_data_op(val, format, size) is None ==> res == Err::<(), Error>(Error::UnsupportedPointerEncoding(format))',
        '[C09:eh-data-too-large][C14:eh-pointer-data-too-large] eh_data_op(val, format, size) is Some && !eh_data_fits(val, format, size) ==> res is Err',
        ERR_UNCH])
    if not plain:
        wr.splice('write_initial_length', ret='res', ensures=[
            f'[C09:initial-length] res matches Ok(o) ==> (match format {{ '
            f'Format::Dwarf32 => emitted({O}, {F}, wu(0, 4)) && o.off() == {O}.len, '
            f'Format::Dwarf64 => emitted2({O}, {F}, wu(0xffff_ffff, 4), wu(0, 8)) && o.off() == {O}.len + 4 }})',
            f'[C09:initial-length-size] res is Ok ==> {F}.len == {O}.len + (match format {{ Format::Dwarf32 => 4nat, Format::Dwarf64 => 12nat }})',
            FRAME])
        # DWARF 5 section 7.4: a 32-bit initial length is < 0xffff_fff0 (0xffff_fff0..0xffff_fffe reserved, 0xffff_ffff = 64-bit
        # escape); such a length does not read back (read_initial_length, core [C09:initial-length-reserved]).
        # (F-wcore-1, fixed in /repo 3c89b90: the reserved range is Err(InitialLengthOverflow).)
        wr.splice('write_initial_length_at', ret='res', ensures=[
            f'[C09:initial-length-at] res is Ok ==> ufits(length as nat, word_size(format)) && (format is Dwarf32 ==> length < 0xffff_fff0) && '
            f'offset.off() + word_size(format) <= {O}.len && '
            f'emitted({O}, {F}, WOp::PatchU {{ offset: offset.off() as nat, val: length as nat, size: word_size(format) }})',
            '[C09:initial-length-at-reserved] format is Dwarf32 && 0xffff_fff0 <= length <= 0xffff_ffff ==> res == Err::<(), Error>(Error::InitialLengthOverflow)',
            '[C09:initial-length-at-too-large] !ufits(length as nat, word_size(format)) ==> res == Err::<(), Error>(Error::ValueTooLarge)',
            ERR_UNCH])
        # EVENT contracts of the relocatable primitives (C18): what generic writers are proved against
        wr.splice('write_address', ret='res', ensures=[
            f'[C18:w-address] res is Ok ==> emitted({O}, {F}, WOp::Address {{ address, size }})', ERR_UNCH])
        wr.splice('write_offset', ret='res', ensures=[
            f'[C18:w-offset] res is Ok ==> emitted({O}, {F}, WOp::Offset {{ val, section: _section, size }})', ERR_UNCH])
        wr.splice('write_offset_at', ret='res', ensures=[
            f'[C18:w-offset-at] res is Ok ==> offset + size <= {O}.len && emitted({O}, {F}, WOp::PatchOffset {{ offset, val, section: _section, size }})', ERR_UNCH])
        wr.splice('write_eh_pointer', ret='res', ensures=[
            f'[C18:w-eh-pointer] res is Ok ==> emitted({O}, {F}, WOp::EhPointer {{ address, eh_pe, size }})', ERR_UNCH])
        wr.splice('write_reference', ret='res', ensures=[
            f'[C18:w-reference] res is Ok ==> emitted({O}, {F}, WOp::Reference {{ symbol: _symbol, size: _size }})', ERR_UNCH])


def build(ctx):
    sk = Skeleton(ctx, core.rd('prelude/crate.rs'))
    core.populate(ctx, sk)
    populate(ctx, sk)
    return sk
