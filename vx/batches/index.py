"""B-index: accelerated lookup tables (DESIGN.md 6 C17; safety/termination of every function below: C01).

Oracles: vx/specs/index.rs (package-index hash table of DWARF 5 7.3.5.3 as pure mathematics: `probe`, `search`,
`present`, `open_addressed`, with the proved theorems search-sound / search-complete / search-is-scan) and the spec
functions in this file (`index_section_kind`: DWARF 5 table 7.1 + GNU DebugFission v2 numbering; `arange_skip`,
`arange_first_tuple`: DWARF 5 6.1.2; `pubstuff_header_at` / `pubstuff_entry_at`: DWARF 4 6.1.1 / 7.19).

Functions under contract (real text of /repo/src/read/{index,aranges,lookup,pubnames,pubtypes,names}.rs):
  index.rs    UnitIndex::parse  (v2/v5 header, counts, slot count power of two and > unit count, section-kind row, the four
                                 table windows, every reject case, acceptance of every well-formed index; establishes wf())
              UnitIndex::find   (== the standard's probing search on EVERY table; a hit is a present entry with that slot's
                                 row; absent => None; on an open-addressed table find == exhaustive scan; <= slot_count probes)
              UnitIndex::sections (1-based row -> byte offset (row-1)*N*4 in both contribution tables, no overflow, row range)
              UnitIndexSectionIterator::next (column k = k-th section kind, k-th offset, k-th size), version/.._count accessors
  aranges.rs  DebugAranges::{headers, header}, ArangeHeaderIter::next (iterator protocol, section offsets),
              ArangeHeader::parse (fields, version 2|3, address size in {1,2,4,8}, segment size 0, first tuple at the next
              multiple of the tuple size, entries window, exact consumption), ArangeHeader::{entries, accessors},
              ArangeEntry::parse (first tuple that is not (0,0); end of set; never an error; loop measure = remaining bytes),
              ArangeEntryIter::{next_raw, convert_raw, next} (tombstones -1/-2 skipped, end = begin+length via add_sized)
  lookup.rs   trait LookupParser (contract layer: header_at / entry_at relations, progress, frame),
              LookupEntryIter::next (generic in the parser; iterator protocol; the entry satisfies the parser's entry_at),
              PubStuffParser::{parse_header, parse_entry} (header and entry layout, name is a window of the section,
              zero offset ends the set), trait PubStuffEntry::new
  pubnames.rs / pubtypes.rs   Pub{Names,Types}Entry::{new, name, die_offset, unit_header_offset}, Pub{Names,Types}EntryIter::next
  names.rs    NameBucketIter::{new, next}, NameHashIter::{new, next} (bucket start, chain ends when hash % bucket_count
              changes or name_count is reached, no division by zero, never an error once constructed from a well-formed index)

Findings (native reproducers native/src/bin/f_index_{1,2,3}.rs):
  F-index-1 (= DESIGN F10) ArangeEntry::parse recursed once per (0,0) tuple (stack depth proportional to the input; 1 MiB of
            zero tuples aborted with a stack overflow).  FIXED in /repo 67ea7a2 (tail call -> `continue` in a loop); the
            contract now carries a loop invariant (`within`, arange_skip bookkeeping) and `decreases input.rv().len`.
  F-index-2 [C01:iter-err-empties] of ArangeEntryIter::next FAILS (OPEN, registered as a known finding): the error of
            convert_raw leaves through `?` without emptying the input, so the documented "all subsequent calls return
            Ok(None)" does not hold (the unit tests test_parse_entry_overflow_32/64 pin the undocumented behaviour).
            This is the one obligation with which `run.py index` exits 1 on the current tree.
  F-index-3 UnitIndex::find(0) returned Some(row of an unused slot).  FIXED in /repo 9360055 (`id == 0 => None`);
            [C17:find-zero-id-absent] now verifies; `find == search` is stated for the keys that can be present (id != 0).

Assumed (TRUSTED = core's ledger, nothing added): verif_unreachable, Result::and_then, reader_clone (a cloned reader has the
same view).  Rewrites beyond the standard rules, all logged: R-CLONE (reader clones), R-CONSTLEN (array length literal,
Verus bug with const lengths in nested modules; re-checked by lemma_section_count_max), R-IMPL (`impl Iterator for
UnitIndexSectionIterator` -> contract-less twin trait, as eslice.py), R-OFFSET for the `<R, Offset>` impl shape and
R-CTORFN (as units.py), R-VIS (`pub(crate) trait ReaderAddress` -> pub, Verus crash, as lists.py), R-SIZED
(`trait PubStuffEntry: Sized`), R-FIELDS (NameIndex.abbreviations dropped: Vec-backed, untouched by the extracted fns).
Two verified strengthenings of core items inside this batch (strengthen_core): `usize::from_u64` never fails (64-bit);
`read_address` fails only at end of input.

Not decided here: NameIndex::new (only its size arithmetic is stated, as NameIndex::wf(), and *assumed* by the
[C01:no-div-by-zero] clauses), NameEntry::parse / NameAbbreviations::parse / case_folding_djb_hash, DebugCuIndex/DebugTuIndex
wrappers, `Section::dwp_range` and DwarfPackage assembly, DebugStrOffsets/DebugAddr (F4, owned by the lists batch), the
`Iterator`/`FallibleIterator` adaptor impls (one-line delegations), the full-cycle property of the probe sequence
(slot_count a power of two and an odd stride => the slot_count probes visit every slot): `find` is proved equal to the
standard's search cut off after slot_count probes, and that cut-off search is proved sound on every table and complete on
every open-addressed table; that the cut-off loses nothing on an *arbitrary* table (exhausting all probes implies the key is
absent) needs the full-cycle lemma, which is not mechanised.  The code does validate what termination needs
(power of two, slot_count > unit_count: [C17:index-reject-slot-count]) and the probe loop is bounded by slot_count anyway;
stack depth in general (outside Verus' model).
"""
import re
from lib import *
from batches import core

TRUSTED = list(core.TRUSTED)
VERUS_ARGS = ['--rlimit', '40']
OWN = ['C01', 'C17']

INDEX_GHOST = '''
    // ---- ghost accessors (contract layer)
    pub closed spec fn v_version(&self) -> u16 { self.version }
    pub closed spec fn v_section_count(&self) -> u32 { self.section_count }
    pub closed spec fn v_unit_count(&self) -> u32 { self.unit_count }
    pub closed spec fn v_slot_count(&self) -> u32 { self.slot_count }
    pub closed spec fn v_hash_ids(&self) -> RView { self.hash_ids.rv() }
    pub closed spec fn v_hash_rows(&self) -> RView { self.hash_rows.rv() }
    pub closed spec fn v_offsets(&self) -> RView { self.offsets.rv() }
    pub closed spec fn v_sizes(&self) -> RView { self.sizes.rv() }
    pub closed spec fn v_kinds(&self) -> Seq<IndexSectionId> { self.sections@.take(self.section_count as int) }
    /// the signature / row index stored in hash slot `s`
    pub open spec fn id_at(&self, s: int) -> nat { self.v_hash_ids().u(8 * s, 8) }
    pub open spec fn row_at(&self, s: int) -> nat { self.v_hash_rows().u(4 * s, 4) }
    pub open spec fn ids(&self) -> Seq<nat> { Seq::new(self.v_slot_count() as nat, |s: int| self.id_at(s)) }
    pub open spec fn rows(&self) -> Seq<nat> { Seq::new(self.v_slot_count() as nat, |s: int| self.row_at(s)) }
    /// the table-geometry relations established by `parse` (DWARF 5 7.3.5.3) that `find` and `sections` rely on
    pub open spec fn wf(&self) -> bool {
        &&& self.v_section_count() <= 8
        &&& (self.v_slot_count() != 0 ==> is_pow2_u32(self.v_slot_count()) && self.v_slot_count() > self.v_unit_count())
        &&& self.v_hash_ids().len == 8 * self.v_slot_count()
        &&& self.v_hash_rows().len == 4 * self.v_slot_count()
        &&& self.v_offsets().len == self.v_unit_count() * self.v_section_count() * 4
        &&& self.v_sizes().len == self.v_unit_count() * self.v_section_count() * 4
    }
'''

def offset_usize(it):
    """R-OFFSET for the `<R, Offset> ... where R: Reader<Offset = Offset>, Offset: ReaderOffset` shape (same rule as
    units.py): the impl is specialised to Offset = usize; the module alias `type Offset = usize;` keeps the body verbatim."""
    it.custom_re('R-OFFSET', r'impl<R, Offset> (\w+)<R, Offset>', r'impl<R> \1<R, usize>')
    it.custom_re('R-OFFSET', r'R: Reader<Offset = Offset>,\s*Offset: ReaderOffset,', 'R: Reader<Offset = usize>,')
    return it


def ctorfn(it, ctor, pty, rty):
    """R-CTORFN (same rule as units.py): a tuple-struct constructor used as a function value (`.map(Ctor)`) is eta-expanded
    to a closure whose (verified) ensures states what the constructor does; Verus has no function values for constructors."""
    it.custom('R-CTORFN', f'.map({ctor})', f'.map(|verif_v: {pty}| -> (verif_r: {rty}) ensures verif_r.0 == verif_v {{ {ctor}(verif_v) }})', count=99)
    return it


ITERATOR_IMPL = '''
pub trait IteratorImpl {
    type Item;
    fn next(&mut self) -> Option<Self::Item>;
}
'''

SECTION_ITER_GHOST = '''
impl<'index, R: Reader<Offset = usize>> UnitIndexSectionIterator<'index, R> {
    /// the section kinds of the columns not yet yielded
    #[verifier::prophetic]
    pub closed spec fn kinds(&self) -> Seq<IndexSectionId> { self.sections.remaining().map_values(|k: &IndexSectionId| *k) }
    pub closed spec fn v_offsets(&self) -> RView { self.offsets.rv() }
    pub closed spec fn v_sizes(&self) -> RView { self.sizes.rv() }
    /// one offset and one size is left for every remaining column
    #[verifier::prophetic]
    pub open spec fn wf(&self) -> bool { self.v_offsets().len >= 4 * self.kinds().len() && self.v_sizes().len >= 4 * self.kinds().len() }
}
'''

KIND_SPEC = '''
/// the i-th entry of the row of section identifiers that heads the table of section offsets
pub open spec fn index_column_id(b: RView, i: int) -> nat {
    b.u(16 + 12 * b.u(12, 4) + 4 * i, 4)
}

/// DWARF 5 table 7.1 (DW_SECT_*) and the GNU DebugFission version 2 numbering
pub open spec fn index_section_kind(version: u16, v: nat) -> Option<IndexSectionId> {
    if version == 2 {
        if v == 1 { Some(IndexSectionId::DebugInfo) } else if v == 2 { Some(IndexSectionId::DebugTypes) }
        else if v == 3 { Some(IndexSectionId::DebugAbbrev) } else if v == 4 { Some(IndexSectionId::DebugLine) }
        else if v == 5 { Some(IndexSectionId::DebugLoc) } else if v == 6 { Some(IndexSectionId::DebugStrOffsets) }
        else if v == 7 { Some(IndexSectionId::DebugMacinfo) } else if v == 8 { Some(IndexSectionId::DebugMacro) }
        else { None }
    } else {
        if v == 1 { Some(IndexSectionId::DebugInfo) } else if v == 3 { Some(IndexSectionId::DebugAbbrev) }
        else if v == 4 { Some(IndexSectionId::DebugLine) } else if v == 5 { Some(IndexSectionId::DebugLocLists) }
        else if v == 6 { Some(IndexSectionId::DebugStrOffsets) } else if v == 7 { Some(IndexSectionId::DebugMacro) }
        else if v == 8 { Some(IndexSectionId::DebugRngLists) } else { None }
    }
}
'''


def populate_index(ctx, sk):
    ix = Source('read/index.rs', ctx)
    sk.mods['read']['uses'] += '\npub use self::index::*;'
    sk.module('read::index', '''use core::slice;
use crate::constants;
use crate::read::{Error, Reader, ReaderOffset, Result};
use crate::read::reader_clone;
use crate::vspec::*;
use crate::vspec_index::*;
use vstd::std_specs::iter::IteratorSpec;''')
    sk.add('read::index', ITERATOR_IMPL, label='IteratorImpl')
    sk.add('read::index', ix.item(r'^const SECTION_COUNT_MAX').clean())
    sk.add('read::index', ix.item(r'^pub enum IndexSectionId').clean())
    sk.add('read::index', ix.item(r'^pub struct UnitIndexSection \{').clean())
    sk.add('read::index', KIND_SPEC, label='index_section_kind')
    # R-CONSTLEN: Verus (0.2026.09.13) evaluates a const-expression array length in a *type* inside a nested module to 0;
    # the length is written as the literal and `lemma_section_count_max` re-checks that the literal is the constant
    st = ix.item(r'^pub struct UnitIndex<R: Reader>', label='UnitIndex')
    st.custom('R-CONSTLEN', '[IndexSectionId; SECTION_COUNT_MAX as usize]', '[IndexSectionId; 8]')
    sk.add('read::index', st.clean(rejrec=['R']))
    sk.add('read::index', 'proof fn lemma_section_count_max() ensures SECTION_COUNT_MAX == 8 {}', label='lemma_section_count_max')
    imp = ix.item(r'^impl<R: Reader> UnitIndex<R>', label='UnitIndex')
    for _ in range(4):
        imp.custom('R-CLONE', 'input.clone()', 'reader_clone(&input)')
    imp.custom('R-CLONE', 'input.clone()', 'reader_clone(&input)')
    imp.custom('R-CLONE', 'self.hash_ids.clone()', 'reader_clone(&self.hash_ids)')
    imp.custom('R-CLONE', 'self.hash_rows.clone()', 'reader_clone(&self.hash_rows)')
    imp.custom('R-CLONE', 'self.offsets.clone()', 'reader_clone(&self.offsets)')
    imp.custom('R-CLONE', 'self.sizes.clone()', 'reader_clone(&self.sizes)')
    imp.clean()
    imp.own(OWN)
    imp.insert_members(INDEX_GHOST)
    # ---- parse: DWARF 5 7.3.5.3 layout.  b = the section; n/u/s = section/unit/slot counts; t0 = section-id row;
    #      t1 = offsets table; t1 + u*n*4 = sizes table
    L = ('let b = input.rv(); let n = b.u(4, 4); let u = b.u(8, 4); let s = b.u(12, 4); '
         'let t0 = 16 + 12 * s; let t1 = t0 + 4 * n; let total = t1 + u * n * 4 + u * n * 4; ')
    VOK = '(b.u(0, 4) == 2 || b.u(0, 2) == 5)'
    SOK = '(s == 0 || (s <= u32::MAX && is_pow2_u32(s as u32) && s > u))'
    KOK = '(forall|i: int| 0 <= i < n ==> index_section_kind(if b.u(0, 4) == 2 { 2u16 } else { 5u16 }, #[trigger] index_column_id(b, i)) is Some)'
    imp.splice('parse', ret='res', ensures=[
        '[C17:index-empty] input.rv().len == 0 ==> (res matches Ok(ix) && ix.v_version() == 0 && ix.v_section_count() == 0 '
        '&& ix.v_unit_count() == 0 && ix.v_slot_count() == 0 && ix.wf())',
        '[C17:index-wf] res matches Ok(ix) ==> ix.wf()',
        f'[C17:index-version] res matches Ok(ix) ==> ({{ {L} b.len > 0 ==> (b.u(0, 4) == 2 ==> ix.v_version() == 2) && (b.u(0, 4) != 2 ==> ix.v_version() == 5 && b.u(0, 2) == 5) }})',
        f'[C17:index-counts] res matches Ok(ix) ==> ({{ {L} b.len > 0 ==> ix.v_section_count() == n && ix.v_unit_count() == u && ix.v_slot_count() == s }})',
        f'[C17:index-hash-layout][C10:view] res matches Ok(ix) ==> ({{ {L} b.len > 0 ==> window(b, ix.v_hash_ids(), 16, 8 * s) && window(b, ix.v_hash_rows(), 16 + 8 * s, 4 * s) }})',
        f'[C17:index-section-kinds] res matches Ok(ix) ==> ({{ {L} b.len > 0 ==> ix.v_kinds().len() == n && forall|i: int| 0 <= i < n ==> index_section_kind(ix.v_version(), #[trigger] index_column_id(b, i)) == Some(ix.v_kinds()[i]) }})',
        f'[C17:index-contrib-layout][C10:view] res matches Ok(ix) ==> ({{ {L} b.len > 0 ==> window(b, ix.v_offsets(), t1 as nat, u * n * 4) && window(b, ix.v_sizes(), t1 + u * n * 4, u * n * 4) }})',
        f'[C17:index-reject-version] ({{ {L} b.len > 0 && !{VOK} ==> res is Err }})',
        f'[C17:index-reject-slot-count][C01:slot-count-validated] ({{ {L} b.len > 0 && !{SOK} ==> res is Err }})',
        f'[C17:index-reject-section-count] ({{ {L} b.len > 0 && n > 8 ==> res is Err }})',
        f'[C17:index-reject-section-kind] ({{ {L} b.len > 0 && n <= 8 && !{KOK} ==> res is Err }})',
        f'[C17:index-reject-truncated] ({{ {L} 0 < b.len < total ==> res is Err }})',
        f'[C17:index-accept] ({{ {L} b.len >= total && {VOK} && {SOK} && n <= 8 && {KOK} ==> res is Ok }})',
    ], loops={0: 'invariant sections@.len() == 8, section_count <= 8, version == 2 || version == 5, '
                 'adv(b0, input.rv(), (gt0 + 4 * i) as nat), '
                 'forall|j: int| 0 <= j < i ==> index_section_kind(version, #[trigger] index_column_id(b0, j)) == Some(sections@[j]),'},
        before=[('if input.is_empty() {', 'let ghost b0 = input.rv(); let ghost gn = b0.u(4, 4); let ghost gu = b0.u(8, 4); let ghost gs = b0.u(12, 4); let ghost gt0 = 16 + 12 * gs; let ghost gt1 = gt0 + 4 * gn;'),
                ('if slot_count != 0 && (', 'proof { lemma_pow2_mask_test(slot_count); }'),
                ('let hash_ids = input.split(', 'assert(section_count == gn && unit_count == gu && slot_count == gs);'),
                ('let offsets = input.split(', 'proof { assert(0 <= (unit_count as int) * (section_count as int) <= 0xffff_ffff * 8) by (nonlinear_arith) requires 0 <= unit_count <= 0xffff_ffff, 0 <= section_count <= 8; }')],
        after=[('let section = input.read_u32()?;', 'assert(section as nat == index_column_id(b0, i as int));')],
        # the postconditions speak about the by-value parameter `input`, which the loop invariant cannot name
        # (inside the body `input` is the mutable local): the loop inherits the facts established before it
        attrs='#[verifier::loop_isolation(false)]')
    # ---- find
    N = 'self.v_slot_count() as int'
    # ---- sections(row): row/column indexing of the two contribution tables (rows are 1-based; row r starts at (r-1)*N*4)
    RO = '((row - 1) * self.v_section_count() * 4) as nat'
    imp.splice('sections', ret='res', requires=['[C17:index-wf] self.wf()'], ensures=[
        '[C17:sections-row-range] res is Err <==> (row == 0 || row > self.v_unit_count())',
        f'[C17:sections-row-offset][C10:view] res matches Ok(it) ==> adv(self.v_offsets(), it.v_offsets(), {RO}) && adv(self.v_sizes(), it.v_sizes(), {RO})',
        '[C17:sections-columns] res matches Ok(it) ==> it.kinds() == self.v_kinds() && it.wf()',
    ], canary=True,
        before=[('let row_offset =', 'proof { let r1 = (row - 1) as int; let n = self.section_count as int; let u = self.unit_count as int; '
                 'assert(0 <= r1 * n <= 0xffff_ffff * 8 && r1 * n + n <= u * n) by (nonlinear_arith) requires 0 <= r1 < u <= 0xffff_ffff, 0 <= n <= 8; }')])
    # the loop counter of `for _ in 0..n` is only nameable through Verus' ghost iterator handle (pure ghost syntax)
    imp.insert_after('for _ in ', 'vit: ')
    imp.splice('find', ret='res', requires=['[C17:index-wf] self.wf()'], ensures=[
        '[C17:find-is-search] res matches Some(r) ==> search(self.ids(), self.rows(), id, 0) == Some(r as nat)',
        '[C17:find-is-search] res is None && id != 0 ==> search(self.ids(), self.rows(), id, 0) is None',
        f'[C17:find-sound] res matches Some(r) ==> exists|s: int| 0 <= s < {N} && self.id_at(s) == id && self.row_at(s) == r',
        '[C17:find-absent] !present(self.ids(), id as nat) ==> res is None',
        # an all-zero signature marks an unused slot: the key 0 is never "present" (finding F-index-3, fixed in /repo 9360055)
        '[C17:find-zero-id-absent] id == 0 ==> res is None',
        f'[C17:find-is-scan] open_addressed(self.ids()) && id != 0 ==> forall|s: int| 0 <= s < {N} && self.id_at(s) == id ==> res == Some(self.row_at(s) as u32)',
    ], canary=True, attrs='#[verifier::loop_isolation(false)]',
        loops={0: 'invariant self.wf(), self.slot_count != 0, mask == self.slot_count - 1, is_pow2_u32(self.slot_count), '
                  'self.slot_count == self.v_slot_count(), 0 <= vit.index@ <= self.slot_count, '
                  'hash1 as int == probe(id, self.slot_count as int, vit.index@ as int), hash1 <= mask, '
                  'hash2 as int == probe_stride(id, self.slot_count as int), hash2 <= mask + 1, '
                  'search(self.ids(), self.rows(), id, 0) == search(self.ids(), self.rows(), id, vit.index@ as int),'},
        before=[('if self.slot_count == 0 || id == 0 {', 'proof { lemma_search_sound(self.ids(), self.rows(), id, 0); '
                 'assert forall|s: int| open_addressed(self.ids()) && id != 0 && 0 <= s < self.v_slot_count() as int && #[trigger] self.id_at(s) == id '
                 'implies search(self.ids(), self.rows(), id, 0) == Some(self.row_at(s)) by { lemma_search_complete(self.ids(), self.rows(), s); } }'),
                ('let mut hash1 = id & mask;', 'proof { lemma_mask_is_mod(id, self.slot_count); lemma_mask_is_mod(id >> 32, self.slot_count); lemma_stride(id, self.slot_count); }'),
                ('hash1 = (hash1 + hash2) & mask;', 'proof { lemma_mask_is_mod((hash1 + hash2) as u64, self.slot_count); }')])
    sk.add('read::index', imp)
    sk.add('read::index', ix.item(r'^pub struct UnitIndexSectionIterator<', label='UnitIndexSectionIterator').clean(rejrec=['R']))
    sk.add('read::index', SECTION_ITER_GHOST, label='UnitIndexSectionIterator(ghost)')
    nx = ix.item(r"^impl<'index, R: Reader> Iterator for UnitIndexSectionIterator<", label='UnitIndexSectionIterator')
    # R-IMPL (as in eslice.py): vstd attaches its prophetic-iterator laws to every `impl Iterator`; the impl block is kept
    # verbatim but implements a generated contract-less trait with the same signature
    nx.custom('R-IMPL', "Iterator for UnitIndexSectionIterator<'index, R>", "IteratorImpl for UnitIndexSectionIterator<'index, R>")
    nx.clean()
    nx.own(OWN)
    OS, FS = 'old(self)', 'final(self)'
    nx.splice('next', ret='res', ensures=[
        f'[C17:section-iter-next] res matches Some(sec) ==> {OS}.kinds().len() > 0 && sec.section == {OS}.kinds()[0] '
        f'&& sec.offset == {OS}.v_offsets().u(0, 4) && sec.size == {OS}.v_sizes().u(0, 4)',
        f'[C17:section-iter-advance] res is Some ==> {FS}.kinds() == {OS}.kinds().skip(1) && adv({OS}.v_offsets(), {FS}.v_offsets(), 4) && adv({OS}.v_sizes(), {FS}.v_sizes(), 4)',
        f'[C17:section-iter-complete] {OS}.wf() && {OS}.kinds().len() > 0 ==> res is Some && {FS}.wf()',
        f'[C01:iter-finish] {OS}.kinds().len() == 0 ==> res is None',
    ])
    sk.add('read::index', nx)


ARANGES_GHOST = '''
impl<R: Reader<Offset = usize>> DebugAranges<R> {
    pub closed spec fn v_section(&self) -> RView { self.section.rv() }
}

impl<R: Reader<Offset = usize>> ArangeHeaderIter<R> {
    pub closed spec fn v_input(&self) -> RView { self.input.rv() }
    pub closed spec fn v_offset(&self) -> nat { self.offset.0 as nat }
    /// `offset` is the section offset of the next header and cannot overflow while the rest of the section is walked
    pub open spec fn wf(&self) -> bool { self.v_offset() + self.v_input().len <= usize::MAX }
    /// position of the section start in the underlying buffer (constant over the iteration)
    pub open spec fn base(&self) -> int { self.v_input().start - self.v_offset() }
}

impl<R: Reader<Offset = usize>> ArangeHeader<R, usize> {
    pub closed spec fn v_offset(&self) -> nat { self.offset.0 as nat }
    pub closed spec fn v_encoding(&self) -> Encoding { self.encoding }
    pub closed spec fn v_length(&self) -> nat { self.length as nat }
    pub closed spec fn v_debug_info_offset(&self) -> nat { self.debug_info_offset.0 as nat }
    pub closed spec fn v_entries(&self) -> RView { self.entries.rv() }
    pub open spec fn wf(&self) -> bool { valid_address_size(self.v_encoding().address_size) }
}

impl<R: Reader<Offset = usize>> ArangeEntryIter<R> {
    pub closed spec fn v_input(&self) -> RView { self.input.rv() }
    pub closed spec fn v_encoding(&self) -> Encoding { self.encoding }
    pub open spec fn wf(&self) -> bool { valid_address_size(self.v_encoding().address_size) }
}

impl ArangeEntry {
    pub closed spec fn v_begin(&self) -> u64 { self.range.begin }
    pub closed spec fn v_end(&self) -> u64 { self.range.end }
    pub closed spec fn v_length(&self) -> u64 { self.length }
}
'''

ARANGES_SPEC = '''
/// DWARF 5 6.1.2: the tuples of a set, `a` = address size.  Byte offset, from the read position of `b`, of the first
/// tuple that is not (0, 0), or of the point where less than one tuple is left (gimli reads through early
/// terminators: "in practice it can occur before the end")
pub open spec fn arange_skip(b: RView, a: nat) -> nat
    decreases b.len
{
    if a == 0 || b.len < 2 * a { 0 }
    else if b.u(0, a as int) == 0 && b.u(a as int, a as int) == 0 {
        2 * a + arange_skip(RView { root: b.root, start: b.start + 2 * a, len: (b.len - 2 * a) as nat, be: b.be }, a)
    } else { 0 }
}

pub proof fn lemma_arange_skip_bound(b: RView, a: nat)
    ensures arange_skip(b, a) <= b.len
    decreases b.len
{
    if a != 0 && b.len >= 2 * a && b.u(0, a as int) == 0 && b.u(a as int, a as int) == 0 {
        lemma_arange_skip_bound(RView { root: b.root, start: b.start + 2 * a, len: (b.len - 2 * a) as nat, be: b.be }, a);
    }
}

/// header length of a set: unit_length + version + debug_info_offset + address_size + segment_selector_size
pub open spec fn arange_header_len(format: Format) -> nat {
    (match format { Format::Dwarf32 => 4nat, Format::Dwarf64 => 12nat }) + 2 + word_size(format) + 1 + 1
}

/// "The first tuple following the header in each set begins at an offset that is a multiple of the size of a single tuple"
pub open spec fn arange_first_tuple(format: Format, address_size: u8) -> nat {
    let h = arange_header_len(format);
    let t = 2 * address_size as nat;
    if h % t == 0 { h } else { (h + t - h % t) as nat }
}

pub proof fn lemma_arange_first_tuple_aligned(format: Format, address_size: u8)
    requires valid_address_size(address_size)
    ensures
        arange_first_tuple(format, address_size) % (2 * address_size as nat) == 0, // [C17:aranges-padding-aligned]
        arange_header_len(format) <= arange_first_tuple(format, address_size) < arange_header_len(format) + 2 * address_size, // [C17:aranges-padding-aligned]
{
    let h = arange_header_len(format);
    assert(h == 12 || h == 24);
    if address_size == 1 { assert(h % 2 == 0); }
    else if address_size == 2 { assert(12nat % 4 == 0 && 24nat % 4 == 0); }
    else if address_size == 4 { assert(12nat % 8 == 4 && 24nat % 8 == 0 && 16nat % 8 == 0); }
    else { assert(12nat % 16 == 12 && 24nat % 16 == 8 && 16nat % 16 == 0 && 32nat % 16 == 0); }
}
'''


def hdr_clauses(B0, h, off):
    """the clauses describing an aranges set header `h` that starts at the read position of view `B0` (DWARF 5 6.1.2, 7.21)"""
    LET = (f'let b0 = {B0}; let w = b0.u(0, 4); let fmt = if w == 0xffff_ffff {{ Format::Dwarf64 }} else {{ Format::Dwarf32 }}; '
           f'let ils = if w == 0xffff_ffff {{ 12int }} else {{ 4int }}; let ws = word_size(fmt) as int; let len = if w == 0xffff_ffff {{ b0.u(4, 8) }} else {{ w }}; ')
    return LET, [
        f'[C17:aranges-header-fields] ({{ {LET} {h}.v_encoding().format == fmt && {h}.v_length() == len && (w < 0xffff_fff0 || w == 0xffff_ffff) '
        f'&& {h}.v_encoding().version == b0.u(ils, 2) && ({h}.v_encoding().version == 2 || {h}.v_encoding().version == 3) '
        f'&& {h}.v_debug_info_offset() == b0.u(ils + 2, ws) && {h}.v_encoding().address_size == b0.at(ils + 2 + ws) && b0.at(ils + 3 + ws) == 0 && {h}.v_offset() == {off} }})',
        f'[C01:address-size-validated] {h}.wf()',
        f'[C17:aranges-header-padding][C10:view] ({{ {LET} let ft = arange_first_tuple(fmt, {h}.v_encoding().address_size); ft <= ils + len && window(b0, {h}.v_entries(), ft, (ils + len - ft) as nat) }})',
    ], LET


def populate_aranges(ctx, sk):
    ar = Source('read/aranges.rs', ctx)
    rl = Source('read/rnglists.rs', ctx)
    sk.mods['read']['uses'] += '\npub use self::rnglists::*;\npub use self::aranges::*;'
    sk.module('read::rnglists')
    sk.add('read::rnglists', rl.item(r'^pub struct Range \{').clean())
    sk.module('read::aranges', '''use crate::common::{DebugArangesOffset, DebugInfoOffset, Encoding, Format};
use crate::read::{Error, Range, Reader, ReaderAddress, ReaderOffset, Result};
use crate::read::reader_clone;
use crate::vspec::*;
pub type Offset = usize;''')
    sk.add('read::aranges', ARANGES_SPEC, label='aranges_spec')
    sk.add('read::aranges', ar.item(r'^pub struct DebugAranges<R>').clean(rejrec=['R']))
    sk.add('read::aranges', ar.item(r'^pub struct ArangeHeaderIter<').clean(rejrec=['R']))
    sk.add('read::aranges', ar.item(r'^pub struct ArangeHeader<R, Offset').clean(rejrec=['R', 'Offset']))
    sk.add('read::aranges', ar.item(r'^pub struct ArangeEntryIter<').clean(rejrec=['R']))
    sk.add('read::aranges', ar.item(r'^pub struct ArangeEntry \{').clean())
    sk.add('read::aranges', ARANGES_GHOST, label='aranges_ghost')

    da = ar.item(r'^impl<R: Reader> DebugAranges<R>', label='DebugAranges')
    da.custom('R-CLONE', 'self.section.clone()', 'reader_clone(&self.section)', count=2)
    da.clean().own(OWN)
    sk.add('read::aranges', da)

    da.splice('headers', ret='res', ensures=[
        '[C17:aranges-iter-offset] res.v_input() == self.v_section() && res.v_offset() == 0 && (self.v_section().len <= usize::MAX ==> res.wf())'])
    LETP, HC, _ = hdr_clauses('self.v_section()', 'h', 'offset.0')
    da.splice('header', ret='res', ensures=[
        f'[C17:aranges-header-at] res matches Ok(h) ==> offset.0 <= self.v_section().len && ' + ' && '.join('(' + parse_tags(c)[1].replace('let b0 = self.v_section();', 'let b0 = RView { root: self.v_section().root, start: self.v_section().start + offset.0 as nat, len: (self.v_section().len - offset.0) as nat, be: self.v_section().be };') + ')' for c in HC)])

    hi = ar.item(r'^impl<R: Reader> ArangeHeaderIter<R>', label='ArangeHeaderIter').clean().own(OWN)
    OI, FI = 'old(self).v_input()', 'final(self).v_input()'
    _, HC, LET = hdr_clauses(OI, 'h', 'old(self).v_offset()')
    hi.splice('next', ret='res', requires=['[C17:aranges-iter-offset] old(self).wf()'], ensures=[
        f'[C01:iter-finish] {OI}.len == 0 ==> res matches Ok(None)',
        f'[C01:iter-err-empties] res is Err ==> {FI}.len == 0',
        f'[C01:iter-progress] res matches Ok(Some(_)) ==> {FI}.len < {OI}.len',
        f'[C01:frame] inside({OI}, {FI})',
        '[C17:aranges-iter-offset][C10:view] final(self).wf() && (res is Ok ==> final(self).base() == old(self).base())',
        f'[C17:aranges-header-consume] res matches Ok(Some(h)) ==> ({{ {LET} adv(b0, {FI}, (ils + len) as nat) }})',
    ] + [''.join(f'[{t}]' for t in parse_tags(c)[0]) + ' res matches Ok(Some(h)) ==> ' + parse_tags(c)[1] for c in HC], canary=True)
    sk.add('read::aranges', hi)

    hd = ar.item(r'^impl<R, Offset> ArangeHeader<R, Offset>', label='ArangeHeader')
    hd.custom('R-CLONE', 'self.entries.clone()', 'reader_clone(&self.entries)')
    offset_usize(hd)
    ctorfn(hd, 'DebugInfoOffset', 'usize', 'DebugInfoOffset<usize>')
    hd.clean().own(OWN)
    B0, FI = 'old(input).rv()', 'final(input).rv()'
    _, HC, LET = hdr_clauses(B0, 'h', 'offset.0')
    hd.splice('parse', ret='res', ensures=[
        f'[C17:aranges-header-consume] res is Ok ==> ({{ {LET} adv(b0, {FI}, (ils + len) as nat) }})',
        f'[C01:frame] within({B0}, {FI})',
    ] + [''.join(f'[{t}]' for t in parse_tags(c)[0]) + ' res matches Ok(h) ==> ' + parse_tags(c)[1] for c in HC])
    hd.splice('entries', ret='res', ensures=['[C17:aranges-entries] res.v_input() == self.v_entries() && res.v_encoding() == self.v_encoding()'])
    for acc, gh in [('offset', 'res.0 == self.v_offset()'), ('length', 'res == self.v_length()'), ('encoding', 'res == self.v_encoding()'),
                    ('debug_info_offset', 'res.0 == self.v_debug_info_offset()')]:
        hd.splice(acc, ret='res', ensures=[gh])
    sk.add('read::aranges', hd)

    def tuple_clauses(B0, FI, A):
        LET = f'let b0 = {B0}; let a = {A} as nat; let off = arange_skip(b0, a); '
        return [
            f'[C17:aranges-tuple] res matches Ok(Some(e)) ==> ({{ {LET} b0.len >= off + 2 * a && e.v_begin() == b0.u(off as int, a as int) && e.v_length() == b0.u((off + a) as int, a as int) '
            f'&& e.v_end() == 0 && !(e.v_begin() == 0 && e.v_length() == 0) && adv(b0, {FI}, off + 2 * a) }})',
            f'[C17:aranges-end] res matches Ok(None) ==> ({{ {LET} b0.len < off + 2 * a && {FI}.len == 0 }})',
            '[C01:no-error] res is Ok',
            f'[C01:frame] inside({B0}, {FI})',
        ]
    ei = ar.item(r'^impl<R: Reader> ArangeEntryIter<R>', label='ArangeEntryIter')
    ei.clean().own(OWN)
    OI, FI = 'old(self).v_input()', 'final(self).v_input()'
    AS = 'self.v_encoding().address_size'
    PROTO = [f'[C01:iter-finish] {OI}.len == 0 ==> res matches Ok(None)',
             f'[C01:iter-err-empties] res is Err ==> {FI}.len == 0',
             f'[C01:iter-progress] res matches Ok(Some(_)) ==> {FI}.len < {OI}.len',
             f'[C01:iter-none-final] res matches Ok(None) ==> {FI}.len == 0',
             'final(self).wf() && final(self).v_encoding() == old(self).v_encoding()']
    ei.splice('next_raw', ret='res', requires=['[C01:address-size-validated] old(self).wf()'],
              ensures=PROTO + tuple_clauses(OI, FI, 'old(self).v_encoding().address_size'), canary=True)
    ei.splice('convert_raw', ret='res', requires=['[C01:address-size-validated] self.wf()'], ensures=[
        f'[C17:aranges-tombstone] entry.v_begin() >= ones({AS}) - 1 ==> res matches Ok(None)',
        f'[C17:aranges-range][C01:checked-address] entry.v_begin() < ones({AS}) - 1 ==> (if entry.v_begin() + entry.v_length() <= ones({AS}) {{ '
        'res matches Ok(Some(e)) && e.v_begin() == entry.v_begin() && e.v_length() == entry.v_length() && e.v_end() == entry.v_begin() + entry.v_length() } else { res is Err })',
    ], canary=True)
    A2 = 'old(self).v_encoding().address_size'
    ei.splice('next', ret='res', requires=['[C01:address-size-validated] old(self).wf()'], ensures=PROTO + [
        f'[C01:frame] inside({OI}, {FI})',
        f'[C17:aranges-next] res matches Ok(Some(e)) ==> ({{ let a = {A2} as int; let p = {FI}.start - {OI}.start - 2 * a; p >= 0 && e.v_begin() == {OI}.u(p, a) && e.v_length() == {OI}.u(p + a, a) '
        f'&& !(e.v_begin() == 0 && e.v_length() == 0) && e.v_begin() < ones({A2}) - 1 && e.v_end() == e.v_begin() + e.v_length() && e.v_end() <= ones({A2}) }})',
    ], loops={0: f'invariant self.wf(), self.v_encoding() == old(self).v_encoding(), within({OI}, self.v_input()), decreases self.v_input().len'}, canary=True)
    sk.add('read::aranges', ei)

    en = ar.item(r'^impl ArangeEntry \{', label='ArangeEntry').clean().own(OWN)
    en.splice('parse', ret='res', requires=['[C01:address-size-validated] valid_address_size(encoding.address_size)'],
              ensures=tuple_clauses('old(input).rv()', 'final(input).rv()', 'encoding.address_size') + [
                  '[C01:iter-progress] res matches Ok(Some(_)) ==> final(input).rv().len < old(input).rv().len'],
              loops={0: 'invariant valid_address_size(address_size), address_size == encoding.address_size, tuple_length == 2 * address_size, '
                        'within(old(input).rv(), input.rv()), '
                        'arange_skip(old(input).rv(), address_size as nat) == (input.rv().start - old(input).rv().start) + arange_skip(input.rv(), address_size as nat), '
                        'decreases input.rv().len'},
              before=[(('if tuple_length > input.len() {', 'if input.len() < tuple_length {', 'if input.len() <= tuple_length {', 'if tuple_length >= input.len() {'), 'let ghost cur = input.rv();')],
              after=[('let range = Range { begin, end: 0 };',
                      'proof { let a = address_size as nat; let nxt = RView { root: cur.root, start: cur.start + 2 * a, len: (cur.len - 2 * a) as nat, be: cur.be }; '
                      'assert(nxt == input.rv()); assert(begin == 0 && length == 0 ==> arange_skip(cur, a) == 2 * a + arange_skip(nxt, a)); '
                      'assert(!(begin == 0 && length == 0) ==> arange_skip(cur, a) == 0); }')],
              canary=True)
    for acc, gh in [('address', 'res == self.v_begin()'), ('length', 'res == self.v_length()'), ('range', 'res.begin == self.v_begin() && res.end == self.v_end()')]:
        en.splice(acc, ret='res', ensures=[gh])
    sk.add('read::aranges', en)


LOOKUP_PARSER_GHOST = '''
    // ---- ghost relations of the contract layer: what it means that `parse_header` / `parse_entry` decoded the bytes at `b0`
    /// `parse_header` read a set header at b0: the set's entries are the window `set`, the input continues at `b1`
    spec fn header_at(b0: RView, set: RView, header: Self::Header, b1: RView) -> bool;
    /// `parse_entry` read `entry` at b0 and left the set input at `b1`
    spec fn entry_at(b0: RView, header: Self::Header, entry: Self::Entry, b1: RView) -> bool;
'''

LOOKUP_ITER_GHOST = '''
impl<R, Parser> LookupEntryIter<R, Parser>
where
    R: Reader<Offset = usize>,
    Parser: LookupParser<R>,
{
    /// bytes of the current set that are still to be read (0 when there is no current set)
    pub closed spec fn cur_len(&self) -> nat { match self.current_set { Some(p) => p.0.rv().len, None => 0 } }
    pub closed spec fn has_cur(&self) -> bool { self.current_set is Some }
    /// view of the current set's input / the current set's header (meaningful when has_cur())
    pub closed spec fn v_cur_input(&self) -> RView { self.current_set->Some_0.0.rv() }
    pub closed spec fn v_cur_header(&self) -> Parser::Header { self.current_set->Some_0.1 }
    pub closed spec fn v_remaining(&self) -> RView { self.remaining_input.rv() }
}
'''

PUBSTUFF_ENTRY_GHOST = '''
    spec fn v_die_offset(&self) -> nat;
    spec fn v_name(&self) -> RView;
    spec fn v_unit_header_offset(&self) -> nat;
'''

PUBSTUFF_SPEC = '''
impl<T: ReaderOffset> PubStuffHeader<T> {
    pub closed spec fn v_format(&self) -> Format { self.format }
    pub closed spec fn v_length(&self) -> nat { self.length.as_nat() }
    pub closed spec fn v_version(&self) -> u16 { self.version }
    pub closed spec fn v_unit_offset(&self) -> nat { self.unit_offset.0.as_nat() }
    pub closed spec fn v_unit_length(&self) -> nat { self.unit_length.as_nat() }
}

/// DWARF 5 6.1.1 / 7.19 (name lookup tables, DWARF <= 4): unit_length, version (2), debug_info_offset, debug_info_length
pub open spec fn pubstuff_header_at(b0: RView, set: RView, h: PubStuffHeader<usize>, b1: RView) -> bool {
    let w = b0.u(0, 4);
    let fmt = if w == 0xffff_ffff { Format::Dwarf64 } else { Format::Dwarf32 };
    let ils = if w == 0xffff_ffff { 12int } else { 4int };
    let ws = word_size(fmt) as int;
    let len = if w == 0xffff_ffff { b0.u(4, 8) } else { w };
    &&& (w < 0xffff_fff0 || w == 0xffff_ffff)
    &&& h.v_format() == fmt && h.v_length() == len
    &&& h.v_version() == 2 && b0.u(ils, 2) == 2
    &&& h.v_unit_offset() == b0.u(ils + 2, ws)
    &&& h.v_unit_length() == b0.u(ils + 2 + ws, ws)
    &&& 2 + 2 * ws <= len
    &&& window(b0, set, (ils + 2 + 2 * ws) as nat, (len - 2 - 2 * ws) as nat)
    &&& adv(b0, b1, (ils + len) as nat)
}

/// an entry: offset of the DIE within its unit (non-zero), followed by the null-terminated name
pub open spec fn pubstuff_entry_at<R: Reader<Offset = usize>, E: PubStuffEntry<R>>(b0: RView, h: PubStuffHeader<usize>, e: E, b1: RView) -> bool {
    let ws = word_size(h.v_format()) as int;
    let n = e.v_name().len;
    &&& e.v_die_offset() == b0.u(0, ws) && e.v_die_offset() != 0
    &&& e.v_unit_header_offset() == h.v_unit_offset()
    &&& window(b0, e.v_name(), ws as nat, n)
    &&& b0.at(ws + n) == 0 && (forall|j: int| ws <= j < ws + n ==> #[trigger] b0.at(j) != 0)
    &&& adv(b0, b1, (ws + n + 1) as nat)
}
'''


def populate_lookup(ctx, sk):
    lk = Source('read/lookup.rs', ctx)
    sk.module('read::lookup', '''use core::marker::PhantomData;
use crate::common::{DebugInfoOffset, Format};
use crate::read::{Error, Reader, ReaderOffset, Result, UnitOffset};
use crate::vspec::*;''')
    # ---- trait LookupParser: the contract every table parser is held to, and LookupEntryIter is proved against
    tp = lk.item(r'^pub trait LookupParser<R: Reader>', label='LookupParser').clean()
    tp.insert_members(LOOKUP_PARSER_GHOST)
    B0, B1 = 'old(input).rv()', 'final(input).rv()'
    tp.splice('parse_header', ret='res', ensures=[
        f'[C17:lookup-header] res matches Ok(p) ==> Self::header_at({B0}, p.0.rv(), p.1, {B1})',
        f'[C01:iter-progress] res is Ok ==> {B1}.len < {B0}.len',
        f'[C01:frame] within({B0}, {B1})'])
    tp.splice('parse_entry', ret='res', ensures=[
        f'[C17:lookup-entry] res matches Ok(Some(e)) ==> Self::entry_at({B0}, *header, e, {B1})',
        f'[C01:iter-progress] res matches Ok(Some(_)) ==> {B1}.len < {B0}.len',
        f'[C01:frame] inside({B0}, {B1})'])
    sk.add('read::lookup', tp)
    sk.add('read::lookup', lk.item(r'^pub struct LookupEntryIter<R, Parser>', label='LookupEntryIter').clean(rejrec=['R', 'Parser']))
    sk.add('read::lookup', LOOKUP_ITER_GHOST, label='LookupEntryIter(ghost)')
    it = lk.item(r'^impl<R, Parser> LookupEntryIter<R, Parser>', label='LookupEntryIter').clean().own(OWN)
    O, F = 'old(self)', 'final(self)'
    it.splice('next', ret='res', ensures=[
        f'[C01:iter-finish] {O}.cur_len() == 0 && {O}.v_remaining().len == 0 ==> res matches Ok(None)',
        f'[C01:iter-err-empties] res is Err ==> {F}.cur_len() == 0 && {F}.v_remaining().len == 0',
        f'[C01:iter-none-final] res matches Ok(None) ==> {F}.cur_len() == 0 && {F}.v_remaining().len == 0',
        f'[C01:iter-progress] res matches Ok(Some(_)) ==> {F}.cur_len() + {F}.v_remaining().len < {O}.cur_len() + {O}.v_remaining().len '
        f'|| ({F}.v_remaining().len < {O}.v_remaining().len)',
        f'[C17:lookup-next] res matches Ok(Some(e)) ==> {F}.has_cur() && exists|b0: RView| Parser::entry_at(b0, {F}.v_cur_header(), e, {F}.v_cur_input())',
        f'[C01:frame] inside({O}.v_remaining(), {F}.v_remaining())',
    ], loops={0: f'invariant self.v_remaining().root == {O}.v_remaining().root, within({O}.v_remaining(), self.v_remaining()), '
                 f'self.cur_len() + self.v_remaining().len <= {O}.cur_len() + {O}.v_remaining().len || self.v_remaining().len < {O}.v_remaining().len, '
                 'decreases self.v_remaining().len, self.cur_len()'})
    # witness for the existential of [C17:lookup-next]: the view of the set input before `parse_entry` (ghost block around the
    # `return` of the match arm; a block wrapper does not change the meaning of `=> return e,`)
    it.insert_before('match Parser::parse_entry(input, header) {', 'let ghost pre = input.rv();\n                ')
    it.insert_before('return Ok(Some(entry)),', '{ proof { assert(Parser::entry_at(pre, *header, entry, input.rv())); assert(self.v_cur_header() == *header); assert(self.v_cur_input() == input.rv()); assert(Parser::entry_at(pre, self.v_cur_header(), entry, self.v_cur_input())); } ')
    it.insert_after('return Ok(Some(entry))', ' }')
    sk.add('read::lookup', it)

    # ---- PubStuff: the .debug_pubnames / .debug_pubtypes instance of LookupParser
    sk.add('read::lookup', lk.item(r'^pub struct PubStuffHeader<T = usize>', label='PubStuffHeader').clean())
    pe = lk.item(r'^pub trait PubStuffEntry<R: Reader>', label='PubStuffEntry')
    # R-SIZED: a contract that names the `-> Self` result needs `Self: Sized` (every implementor is a struct)
    pe.custom('R-SIZED', 'pub trait PubStuffEntry<R: Reader> {', 'pub trait PubStuffEntry<R: Reader>: Sized {')
    pe.clean()
    pe.insert_members(PUBSTUFF_ENTRY_GHOST)
    pe.splice('new', ret='res', ensures=[
        '[C17:pub-entry-new] res.v_die_offset() == die_offset.0.as_nat() && res.v_name() == name.rv() && res.v_unit_header_offset() == unit_header_offset.0.as_nat()'])
    sk.add('read::lookup', pe)
    sk.add('read::lookup', PUBSTUFF_SPEC, label='pubstuff_spec')
    sk.add('read::lookup', lk.item(r'^pub struct PubStuffParser<R, Entry>', label='PubStuffParser').clean(rejrec=['R', 'Entry']))
    pp = lk.item(r'^impl<R, Entry> LookupParser<R> for PubStuffParser<R, Entry>', label='PubStuffParser')
    ctorfn(pp, 'DebugInfoOffset', 'usize', 'DebugInfoOffset<usize>')
    pp.clean().own(OWN)
    pp.insert_members('''    open spec fn header_at(b0: RView, set: RView, header: Self::Header, b1: RView) -> bool { pubstuff_header_at(b0, set, header, b1) }
    open spec fn entry_at(b0: RView, header: Self::Header, entry: Self::Entry, b1: RView) -> bool { pubstuff_entry_at::<R, Entry>(b0, header, entry, b1) }''')
    # (contracts are inherited from trait LookupParser: [C17:lookup-header], [C17:lookup-entry], progress, frame;
    #  the clause below adds what the trait cannot say: a zero offset ends the set and empties its input)
    pp.splice('parse_entry', ret='res', ensures=[
        '[C17:pub-end-of-set] res matches Ok(None) ==> old(input).rv().u(0, word_size(header.v_format()) as int) == 0 && final(input).rv().len == 0',
        '[C17:pub-end-of-set] res is Ok && old(input).rv().u(0, word_size(header.v_format()) as int) == 0 ==> res matches Ok(None)'],
        before=[('let name = input.read_null_terminated_slice()?;', 'let ghost mid = input.rv();')],
        after=[('let name = input.read_null_terminated_slice()?;', 'proof { let ws = word_size(header.v_format()) as int; let n = name.rv().len as int; '
                'assert forall|j: int| ws <= j < ws + n implies #[trigger] old(input).rv().at(j) != 0 by { assert(mid.at(j - ws) != 0); } }')])
    sk.add('read::lookup', pp)

    for stem, Ty in [('pubnames', 'PubNames'), ('pubtypes', 'PubTypes')]:
        src = Source(f'read/{stem}.rs', ctx)
        m = f'read::{stem}'
        sk.mods['read']['uses'] += f'\npub use self::{stem}::*;'
        sk.module(m, '''use crate::common::DebugInfoOffset;
use crate::read::lookup::{LookupEntryIter, LookupParser, PubStuffEntry, PubStuffParser, pubstuff_entry_at};
use crate::read::{Reader, Result, UnitOffset};
use crate::vspec::*;''')
        sk.add(m, src.item(rf'^pub struct {Ty}Entry<R: Reader>', label=f'{Ty}Entry').clean(rejrec=['R']))
        acc = src.item(rf'^impl<R: Reader> {Ty}Entry<R> \{{', label=f'{Ty}Entry').clean().own(OWN)
        acc.splice('name', ret='res', ensures=['[C10:view] res.rv() == self.v_name()'])
        acc.splice('unit_header_offset', ret='res', ensures=['res.0 as nat == self.v_unit_header_offset()'])
        acc.splice('die_offset', ret='res', ensures=['res.0 as nat == self.v_die_offset()'])
        sk.add(m, acc)
        ne = src.item(rf'^impl<R: Reader> PubStuffEntry<R> for {Ty}Entry<R>', label=f'{Ty}Entry(PubStuffEntry)').clean().own(OWN)
        ne.insert_members('''    closed spec fn v_die_offset(&self) -> nat { self.die_offset.0 as nat }
    closed spec fn v_name(&self) -> RView { self.name.rv() }
    closed spec fn v_unit_header_offset(&self) -> nat { self.unit_header_offset.0 as nat }''')
        sk.add(m, ne)
        sk.add(m, src.item(rf'^pub struct {Ty}EntryIter<R: Reader>', label=f'{Ty}EntryIter').clean(rejrec=['R']))
        sk.add(m, f'''
impl<R: Reader<Offset = usize>> {Ty}EntryIter<R> {{
    pub closed spec fn inner(&self) -> LookupEntryIter<R, PubStuffParser<R, {Ty}Entry<R>>> {{ self.0 }}
}}
''', label=f'{Ty}EntryIter(ghost)')
        ni = src.item(rf'^impl<R: Reader> {Ty}EntryIter<R> \{{', label=f'{Ty}EntryIter').clean().own(OWN)
        O, F = 'old(self).inner()', 'final(self).inner()'
        ni.splice('next', ret='res', ensures=[
            f'[C01:iter-finish] {O}.cur_len() == 0 && {O}.v_remaining().len == 0 ==> res matches Ok(None)',
            f'[C01:iter-err-empties] res is Err ==> {F}.cur_len() == 0 && {F}.v_remaining().len == 0',
            f'[C01:iter-none-final] res matches Ok(None) ==> {F}.cur_len() == 0 && {F}.v_remaining().len == 0',
            f'[C01:iter-progress] res matches Ok(Some(_)) ==> {F}.cur_len() + {F}.v_remaining().len < {O}.cur_len() + {O}.v_remaining().len '
            f'|| ({F}.v_remaining().len < {O}.v_remaining().len)',
            f'[C17:pub-next] res matches Ok(Some(e)) ==> {F}.has_cur() && exists|b0: RView| pubstuff_entry_at::<R, {Ty}Entry<R>>(b0, {F}.v_cur_header(), e, {F}.v_cur_input())',
        ])
        sk.add(m, ni)


NAMES_GHOST = '''
impl<R: Reader<Offset = usize>> NameIndex<R> {
    pub closed spec fn v_bucket_count(&self) -> u32 { self.bucket_count }
    pub closed spec fn v_name_count(&self) -> u32 { self.name_count }
    pub closed spec fn v_buckets(&self) -> RView { self.bucket_data.rv() }
    pub closed spec fn v_hashes(&self) -> RView { self.hash_table_data.rv() }
    /// DWARF 5 6.1.1.4.5 / .6: bucket_count 4-byte buckets; name_count 4-byte hashes iff there is a hash table.
    /// This is the size arithmetic of `NameIndex::new` (not in this batch: assumed where required)
    pub open spec fn wf(&self) -> bool {
        self.v_buckets().len == 4 * self.v_bucket_count() && self.v_hashes().len == (if self.v_bucket_count() == 0 { 0 } else { 4 * self.v_name_count() })
    }
}

impl<R: Reader<Offset = usize>> NameBucketIter<R> {
    pub closed spec fn v_reader(&self) -> RView { self.reader.rv() }
    pub closed spec fn v_index(&self) -> u32 { self.name_table_index.0 }
    pub closed spec fn v_name_count(&self) -> u32 { self.name_count }
    pub closed spec fn v_bucket_index(&self) -> u32 { self.bucket_index }
    pub closed spec fn v_bucket_count(&self) -> u32 { self.bucket_count }
    /// a hash is left for every name not yet visited, and the modulus is not zero
    pub open spec fn wf(&self) -> bool {
        self.v_bucket_count() != 0 && self.v_index() <= self.v_name_count() && self.v_reader().len >= 4 * (self.v_name_count() - self.v_index())
    }
    pub open spec fn same_chain(&self, o: &Self) -> bool {
        self.v_name_count() == o.v_name_count() && self.v_bucket_index() == o.v_bucket_index() && self.v_bucket_count() == o.v_bucket_count()
    }
}

impl<R: Reader<Offset = usize>> NameHashIter<R> {
    pub closed spec fn v_hash(&self) -> u32 { self.hash }
    pub closed spec fn has_bucket(&self) -> bool { self.bucket_iter is Some }
    pub closed spec fn bucket(&self) -> NameBucketIter<R> { self.bucket_iter->Some_0 }
}
'''


def populate_names(ctx, sk):
    nm = Source('read/names.rs', ctx)
    sk.mods['read']['uses'] += '\npub use self::names::*;'
    sk.module('read::names', '''use crate::common::Format;
use crate::read::{Error, Reader, ReaderOffset, Result};
use crate::read::reader_clone;
use crate::vspec::*;''')
    sk.add('read::names', nm.item(r'^pub struct NameTableIndex\(').clean())
    ni = nm.item(r'^pub struct NameIndex<R: Reader>', label='NameIndex')
    # R-FIELDS: the abbreviation table (Vec-backed) is not touched by any extracted function
    ni.custom('R-FIELDS', 'abbreviations: NameAbbreviations,', '')
    sk.add('read::names', ni.clean(rejrec=['R']))
    sk.add('read::names', nm.item(r'^pub struct NameBucketIter<R: Reader>', label='NameBucketIter').clean(rejrec=['R']))
    sk.add('read::names', nm.item(r'^pub struct NameHashIter<R: Reader>', label='NameHashIter').clean(rejrec=['R']))
    sk.add('read::names', NAMES_GHOST, label='names_ghost')

    bi = nm.item(r'^impl<R: Reader> NameBucketIter<R>', label='NameBucketIter')
    bi.custom('R-CLONE', 'name_index.bucket_data.clone()', 'reader_clone(&name_index.bucket_data)')
    bi.custom('R-CLONE', 'name_index.hash_table_data.clone()', 'reader_clone(&name_index.hash_table_data)')
    bi.clean().own(OWN)
    ST = 'name_index.v_buckets().u(4 * bucket_index, 4)'
    bi.splice('new', ret='res', ensures=[
        f'[C17:names-bucket-start] res matches Ok(Some(it)) ==> ({{ let st = {ST}; st != 0 && it.v_index() == st - 1 && adv(name_index.v_hashes(), it.v_reader(), (4 * (st - 1)) as nat) '
        '&& it.v_name_count() == name_index.v_name_count() && it.v_bucket_index() == bucket_index && it.v_bucket_count() == name_index.v_bucket_count() })',
        f'[C17:names-bucket-empty] res matches Ok(None) ==> {ST} == 0',
        f'[C17:names-bucket-range] res is Err <==> (name_index.v_buckets().len < 4 * bucket_index + 4 || ({ST} != 0 && name_index.v_hashes().len < 4 * ({ST} - 1)))',
        '[C01:no-div-by-zero] name_index.wf() ==> (res matches Ok(Some(it)) ==> it.wf())',
        '[C01:no-div-by-zero] name_index.wf() && name_index.v_bucket_count() == 0 ==> res is Err',
    ])
    O, F = 'old(self)', 'final(self)'
    bi.splice('next', ret='res', requires=[f'[C01:no-div-by-zero] {O}.wf()'], ensures=[
        '[C01:no-error] res is Ok',
        f'{F}.wf() && {F}.same_chain({O})',
        f'[C17:names-bucket-end][C01:iter-finish] {O}.v_index() >= {O}.v_name_count() ==> (res matches Ok(None)) && {F}.v_index() == {O}.v_index() && {F}.v_reader() == {O}.v_reader()',
        f'[C17:names-bucket-next] {O}.v_index() < {O}.v_name_count() ==> ({{ let h = {O}.v_reader().u(0, 4); {F}.v_index() == {O}.v_index() + 1 && adv({O}.v_reader(), {F}.v_reader(), 4) '
        f'&& (h % ({O}.v_bucket_count() as nat) == {O}.v_bucket_index() ==> (res matches Ok(Some(p)) && p.0.0 == {O}.v_index() && p.1 as nat == h)) '
        f'&& (h % ({O}.v_bucket_count() as nat) != {O}.v_bucket_index() ==> res matches Ok(None)) }})',
        f'[C01:iter-progress] res matches Ok(Some(_)) ==> {F}.v_index() == {O}.v_index() + 1',
    ], canary=True)
    sk.add('read::names', bi)

    hi = nm.item(r'^impl<R: Reader> NameHashIter<R>', label='NameHashIter').clean().own(OWN)
    hi.splice('new', ret='res', ensures=[
        '[C17:names-hash-bucket] res matches Ok(it) ==> it.v_hash() == hash && (it.has_bucket() ==> name_index.v_bucket_count() != 0 ==> '
        'it.bucket().v_bucket_index() == hash % name_index.v_bucket_count() && it.bucket().v_bucket_count() == name_index.v_bucket_count())',
        '[C01:no-div-by-zero] name_index.wf() ==> (res matches Ok(it) ==> (it.has_bucket() ==> it.bucket().wf()))',
        '[C01:no-div-by-zero] name_index.wf() && name_index.v_bucket_count() == 0 ==> res is Err',
    ])
    hi.splice('next', ret='res', requires=[f'[C01:no-div-by-zero] {O}.has_bucket() ==> {O}.bucket().wf()'], ensures=[
        '[C01:no-error] res is Ok',
        f'[C01:iter-finish] !{O}.has_bucket() ==> res matches Ok(None)',
        f'{F}.has_bucket() == {O}.has_bucket() && {F}.v_hash() == {O}.v_hash() && ({F}.has_bucket() ==> {F}.bucket().wf() && {F}.bucket().same_chain(&{O}.bucket()))',
        f'[C17:names-hash-next] res matches Ok(Some(i)) ==> ({{ let b0 = {O}.bucket(); {O}.has_bucket() && b0.v_index() <= i.0 < b0.v_name_count() '
        f'&& b0.v_reader().u(4 * (i.0 - b0.v_index()), 4) == {O}.v_hash() && {O}.v_hash() % b0.v_bucket_count() == b0.v_bucket_index() && {F}.bucket().v_index() == i.0 + 1 }})',
        f'[C01:iter-progress] res matches Ok(Some(_)) ==> {F}.bucket().v_index() > {O}.bucket().v_index()',
    ], attrs='#[verifier::loop_isolation(false)]',
        loops={0: f'invariant bucket_iter.wf(), bucket_iter.same_chain(&{O}.bucket()), {O}.has_bucket(), self.hash == {O}.v_hash(), {O}.bucket().v_index() <= bucket_iter.v_index(), '
                 f'adv({O}.bucket().v_reader(), bucket_iter.v_reader(), (4 * (bucket_iter.v_index() - {O}.bucket().v_index())) as nat), '
                 'decreases bucket_iter.v_name_count() - bucket_iter.v_index()'}, canary=True,
        before=[('return Ok(Some(name_table_index));', 'proof { assert(self.has_bucket()); assert(self.bucket() == *bucket_iter); assert(self.v_hash() == old(self).v_hash()); }')])
    sk.add('read::names', hi)


def widen_reader_address(ctx, sk):
    """R-VIS (logged; same rule as lists.py): `pub(crate) trait ReaderAddress` -> `pub trait ReaderAddress`.
    Verus 0.2026.09 panics (vir/sst_to_air.rs: "no entry found for key") on a call of a default method of a pub(crate)
    trait through the concrete type from another module (`u64::min_tombstone(..)` in convert_raw). Visibility widening only."""
    old, new = 'pub(crate) trait ReaderAddress', 'pub trait ReaderAddress'
    for it, _label, _own in sk.mods['read::reader']['chunks']:
        if isinstance(it, Item) and it.label == 'ReaderAddress' and old in it.text:
            it.text = it.text.replace(old, new, 1)
            it.base = it.base.replace(old, new, 1)
            ctx.custom.append(('R-VIS', it._where(''), old, new))
            ctx.count('R-VIS')
            return
        if isinstance(it, Item) and it.label == 'ReaderAddress' and new in it.text:
            return      # core.py already applies the rule
    raise Lost('widen_reader_address: trait ReaderAddress not found')


def strengthen_core(sk):
    """verified strengthening of a core item inside this batch: `usize::from_u64` never fails on a 64-bit target
    (the trait-level contract only promises success up to 0xffff_ffff)"""
    rou = [c for c in sk.mods['read::reader']['chunks'] if not isinstance(c[0], str) and c[0].label == 'ReaderOffset for usize'][0][0]
    if 'fn fits' in rou.text:
        return      # core.py now states both strengthenings itself (fits() / [C01:eof-exact] on read_address)
    rou.splice('from_u64', ret='res', ensures=['[C01:checked-width] res is Ok'])
    # `read_address` fails only at the end of input (core states the value, not the exact error condition)
    rd = [c for c in sk.mods['read::reader']['chunks'] if not isinstance(c[0], str) and c[0].label == 'Reader'][0][0]
    anchor = '!valid_address_size(address_size) ==> res is Err, // [C09:address-size-reject]'
    if rd.text.count(anchor) != 1:
        raise Lost('strengthen_core: read_address contract anchor')
    # (the anchor lies inside core's inserted contract block, so the extra clause is part of that sentinel region)
    rd.text = rd.text.replace(anchor, anchor + '\n    valid_address_size(address_size) ==> (res is Err <==> old(self).rv().len < address_size), // [C01:eof-exact]')


def populate(ctx, sk):
    strengthen_core(sk)
    widen_reader_address(ctx, sk)
    sk.module('vspec_index', 'use crate::vspec::*;')
    sk.add('vspec_index', core.rd('specs/index.rs'), label='vspec_index', owners=['C17'])
    populate_index(ctx, sk)
    populate_aranges(ctx, sk)
    populate_lookup(ctx, sk)
    populate_names(ctx, sk)
    return sk


def build(ctx):
    sk = Skeleton(ctx, core.rd('prelude/crate.rs'))
    core.populate(ctx, sk)
    populate(ctx, sk)
    return sk
