"""B-index: accelerated lookup tables (DESIGN.md 6 C17 / C01).
"""
from lib import *
from batches import core

TRUSTED = list(core.TRUSTED)
VERUS_ARGS = ['--rlimit', '40']
OWN = ['C01', 'C17']

INDEX_GHOST = '''
    // ---- ghost accessors (contract layer)
    pub closed spec fn v_version(&self) -> u16 { self.version }
    pub closed spec fn v_section_count(&self) -> u32 { self.section_count }
    pub closed spec fn v_unit_count(&self) -> u32 { self.unit_count }
    pub closed spec fn v_slot_count(&self) -> u32 { self.slot_count }
    pub closed spec fn v_hash_ids(&self) -> RView { self.hash_ids.rv() }
    pub closed spec fn v_hash_rows(&self) -> RView { self.hash_rows.rv() }
    pub closed spec fn v_offsets(&self) -> RView { self.offsets.rv() }
    pub closed spec fn v_sizes(&self) -> RView { self.sizes.rv() }
    pub closed spec fn v_kinds(&self) -> Seq<IndexSectionId> { self.sections@.take(self.section_count as int) }
    /// the signature / row index stored in hash slot `s`
    pub open spec fn id_at(&self, s: int) -> nat { self.v_hash_ids().u(8 * s, 8) }
    pub open spec fn row_at(&self, s: int) -> nat { self.v_hash_rows().u(4 * s, 4) }
    pub open spec fn ids(&self) -> Seq<nat> { Seq::new(self.v_slot_count() as nat, |s: int| self.id_at(s)) }
    pub open spec fn rows(&self) -> Seq<nat> { Seq::new(self.v_slot_count() as nat, |s: int| self.row_at(s)) }
    /// the table-geometry relations established by `parse` (DWARF 5 7.3.5.3) that `find` and `sections` rely on
    pub open spec fn wf(&self) -> bool {
        &&& self.v_section_count() <= 8
        &&& (self.v_slot_count() != 0 ==> is_pow2_u32(self.v_slot_count()) && self.v_slot_count() > self.v_unit_count())
        &&& self.v_hash_ids().len == 8 * self.v_slot_count()
        &&& self.v_hash_rows().len == 4 * self.v_slot_count()
        &&& self.v_offsets().len == self.v_unit_count() * self.v_section_count() * 4
        &&& self.v_sizes().len == self.v_unit_count() * self.v_section_count() * 4
    }
'''

ITERATOR_IMPL = '''
pub trait IteratorImpl {
    type Item;
    fn next(&mut self) -> Option<Self::Item>;
}
'''

SECTION_ITER_GHOST = '''
impl<'index, R: Reader<Offset = usize>> UnitIndexSectionIterator<'index, R> {
    /// the section kinds of the columns not yet yielded
    #[verifier::prophetic]
    pub closed spec fn kinds(&self) -> Seq<IndexSectionId> { self.sections.remaining().map_values(|k: &IndexSectionId| *k) }
    pub closed spec fn v_offsets(&self) -> RView { self.offsets.rv() }
    pub closed spec fn v_sizes(&self) -> RView { self.sizes.rv() }
    /// one offset and one size is left for every remaining column
    #[verifier::prophetic]
    pub open spec fn wf(&self) -> bool { self.v_offsets().len >= 4 * self.kinds().len() && self.v_sizes().len >= 4 * self.kinds().len() }
}
'''

KIND_SPEC = '''
/// the i-th entry of the row of section identifiers that heads the table of section offsets
pub open spec fn index_column_id(b: RView, i: int) -> nat {
    b.u(16 + 12 * b.u(12, 4) + 4 * i, 4)
}

/// DWARF 5 table 7.1 (DW_SECT_*) and the GNU DebugFission version 2 numbering
pub open spec fn index_section_kind(version: u16, v: nat) -> Option<IndexSectionId> {
    if version == 2 {
        if v == 1 { Some(IndexSectionId::DebugInfo) } else if v == 2 { Some(IndexSectionId::DebugTypes) }
        else if v == 3 { Some(IndexSectionId::DebugAbbrev) } else if v == 4 { Some(IndexSectionId::DebugLine) }
        else if v == 5 { Some(IndexSectionId::DebugLoc) } else if v == 6 { Some(IndexSectionId::DebugStrOffsets) }
        else if v == 7 { Some(IndexSectionId::DebugMacinfo) } else if v == 8 { Some(IndexSectionId::DebugMacro) }
        else { None }
    } else {
        if v == 1 { Some(IndexSectionId::DebugInfo) } else if v == 3 { Some(IndexSectionId::DebugAbbrev) }
        else if v == 4 { Some(IndexSectionId::DebugLine) } else if v == 5 { Some(IndexSectionId::DebugLocLists) }
        else if v == 6 { Some(IndexSectionId::DebugStrOffsets) } else if v == 7 { Some(IndexSectionId::DebugMacro) }
        else if v == 8 { Some(IndexSectionId::DebugRngLists) } else { None }
    }
}
'''


def populate_index(ctx, sk):
    ix = Source('read/index.rs', ctx)
    sk.mods['read']['uses'] += '\npub use self::index::*;'
    sk.module('read::index', '''use core::slice;
use crate::constants;
use crate::read::{Error, Reader, ReaderOffset, Result};
use crate::read::reader_clone;
use crate::vspec::*;
use crate::vspec_index::*;
use vstd::std_specs::iter::IteratorSpec;''')
    sk.add('read::index', ITERATOR_IMPL, label='IteratorImpl')
    sk.add('read::index', ix.item(r'^const SECTION_COUNT_MAX').clean())
    sk.add('read::index', ix.item(r'^pub enum IndexSectionId').clean())
    sk.add('read::index', ix.item(r'^pub struct UnitIndexSection \{').clean())
    sk.add('read::index', KIND_SPEC, label='index_section_kind')
    # R-CONSTLEN: Verus (0.2026.09.13) evaluates a const-expression array length in a *type* inside a nested module to 0;
    # the length is written as the literal and `lemma_section_count_max` re-checks that the literal is the constant
    st = ix.item(r'^pub struct UnitIndex<R: Reader>', label='UnitIndex')
    st.custom('R-CONSTLEN', '[IndexSectionId; SECTION_COUNT_MAX as usize]', '[IndexSectionId; 8]')
    sk.add('read::index', st.clean(rejrec=['R']))
    sk.add('read::index', 'proof fn lemma_section_count_max() ensures SECTION_COUNT_MAX == 8 {}', label='lemma_section_count_max')
    imp = ix.item(r'^impl<R: Reader> UnitIndex<R>', label='UnitIndex')
    for _ in range(4):
        imp.custom('R-CLONE', 'input.clone()', 'reader_clone(&input)')
    imp.custom('R-CLONE', 'input.clone()', 'reader_clone(&input)')
    imp.custom('R-CLONE', 'self.hash_ids.clone()', 'reader_clone(&self.hash_ids)')
    imp.custom('R-CLONE', 'self.hash_rows.clone()', 'reader_clone(&self.hash_rows)')
    imp.custom('R-CLONE', 'self.offsets.clone()', 'reader_clone(&self.offsets)')
    imp.custom('R-CLONE', 'self.sizes.clone()', 'reader_clone(&self.sizes)')
    imp.clean()
    imp.own(OWN)
    imp.insert_members(INDEX_GHOST)
    # ---- parse: DWARF 5 7.3.5.3 layout.  b = the section; n/u/s = section/unit/slot counts; t0 = section-id row;
    #      t1 = offsets table; t1 + u*n*4 = sizes table
    L = ('let b = input.rv(); let n = b.u(4, 4); let u = b.u(8, 4); let s = b.u(12, 4); '
         'let t0 = 16 + 12 * s; let t1 = t0 + 4 * n; let total = t1 + u * n * 4 + u * n * 4; ')
    VOK = '(b.u(0, 4) == 2 || b.u(0, 2) == 5)'
    SOK = '(s == 0 || (s <= u32::MAX && is_pow2_u32(s as u32) && s > u))'
    KOK = '(forall|i: int| 0 <= i < n ==> index_section_kind(if b.u(0, 4) == 2 { 2u16 } else { 5u16 }, #[trigger] index_column_id(b, i)) is Some)'
    imp.splice('parse', ret='res', ensures=[
        '[C17:index-empty] input.rv().len == 0 ==> (res matches Ok(ix) && ix.v_version() == 0 && ix.v_section_count() == 0 '
        '&& ix.v_unit_count() == 0 && ix.v_slot_count() == 0 && ix.wf())',
        '[C17:index-wf] res matches Ok(ix) ==> ix.wf()',
        f'[C17:index-version] res matches Ok(ix) ==> ({{ {L} b.len > 0 ==> (b.u(0, 4) == 2 ==> ix.v_version() == 2) && (b.u(0, 4) != 2 ==> ix.v_version() == 5 && b.u(0, 2) == 5) }})',
        f'[C17:index-counts] res matches Ok(ix) ==> ({{ {L} b.len > 0 ==> ix.v_section_count() == n && ix.v_unit_count() == u && ix.v_slot_count() == s }})',
        f'[C17:index-hash-layout][C10:view] res matches Ok(ix) ==> ({{ {L} b.len > 0 ==> window(b, ix.v_hash_ids(), 16, 8 * s) && window(b, ix.v_hash_rows(), 16 + 8 * s, 4 * s) }})',
        f'[C17:index-section-kinds] res matches Ok(ix) ==> ({{ {L} b.len > 0 ==> ix.v_kinds().len() == n && forall|i: int| 0 <= i < n ==> index_section_kind(ix.v_version(), #[trigger] index_column_id(b, i)) == Some(ix.v_kinds()[i]) }})',
        f'[C17:index-contrib-layout][C10:view] res matches Ok(ix) ==> ({{ {L} b.len > 0 ==> window(b, ix.v_offsets(), t1 as nat, u * n * 4) && window(b, ix.v_sizes(), t1 + u * n * 4, u * n * 4) }})',
        f'[C17:index-reject-version] ({{ {L} b.len > 0 && !{VOK} ==> res is Err }})',
        f'[C17:index-reject-slot-count][C01:slot-count-validated] ({{ {L} b.len > 0 && !{SOK} ==> res is Err }})',
        f'[C17:index-reject-section-count] ({{ {L} b.len > 0 && n > 8 ==> res is Err }})',
        f'[C17:index-reject-section-kind] ({{ {L} b.len > 0 && n <= 8 && !{KOK} ==> res is Err }})',
        f'[C17:index-reject-truncated] ({{ {L} 0 < b.len < total ==> res is Err }})',
        f'[C17:index-accept] ({{ {L} b.len >= total && {VOK} && {SOK} && n <= 8 && {KOK} ==> res is Ok }})',
    ], loops={0: 'invariant sections@.len() == 8, section_count <= 8, version == 2 || version == 5, '
                 'adv(b0, input.rv(), (gt0 + 4 * i) as nat), '
                 'forall|j: int| 0 <= j < i ==> index_section_kind(version, #[trigger] index_column_id(b0, j)) == Some(sections@[j]),'},
        before=[('if input.is_empty() {', 'let ghost b0 = input.rv(); let ghost gn = b0.u(4, 4); let ghost gu = b0.u(8, 4); let ghost gs = b0.u(12, 4); let ghost gt0 = 16 + 12 * gs; let ghost gt1 = gt0 + 4 * gn;'),
                ('if slot_count != 0 && (', 'proof { lemma_pow2_mask_test(slot_count); }'),
                ('let hash_ids = input.split(', 'assert(section_count == gn && unit_count == gu && slot_count == gs);'),
                ('let offsets = input.split(', 'proof { assert(0 <= (unit_count as int) * (section_count as int) <= 0xffff_ffff * 8) by (nonlinear_arith) requires 0 <= unit_count <= 0xffff_ffff, 0 <= section_count <= 8; }')],
        after=[('let section = input.read_u32()?;', 'assert(section as nat == index_column_id(b0, i as int));')],
        # the postconditions speak about the by-value parameter `input`, which the loop invariant cannot name
        # (inside the body `input` is the mutable local): the loop inherits the facts established before it
        attrs='#[verifier::loop_isolation(false)]')
    # ---- find
    N = 'self.v_slot_count() as int'
    # ---- sections(row): row/column indexing of the two contribution tables (rows are 1-based; row r starts at (r-1)*N*4)
    RO = '((row - 1) * self.v_section_count() * 4) as nat'
    imp.splice('sections', ret='res', requires=['[C17:index-wf] self.wf()'], ensures=[
        '[C17:sections-row-range] res is Err <==> (row == 0 || row > self.v_unit_count())',
        f'[C17:sections-row-offset][C10:view] res matches Ok(it) ==> adv(self.v_offsets(), it.v_offsets(), {RO}) && adv(self.v_sizes(), it.v_sizes(), {RO})',
        '[C17:sections-columns] res matches Ok(it) ==> it.kinds() == self.v_kinds() && it.wf()',
    ], canary=True,
        before=[('let row_offset =', 'proof { let r1 = (row - 1) as int; let n = self.section_count as int; let u = self.unit_count as int; '
                 'assert(0 <= r1 * n <= 0xffff_ffff * 8 && r1 * n + n <= u * n) by (nonlinear_arith) requires 0 <= r1 < u <= 0xffff_ffff, 0 <= n <= 8; }')])
    # the loop counter of `for _ in 0..n` is only nameable through Verus' ghost iterator handle (pure ghost syntax)
    imp.insert_after('for _ in ', 'vit: ')
    imp.splice('find', ret='res', requires=['[C17:index-wf] self.wf()'], ensures=[
        '[C17:find-is-search] res matches Some(r) ==> search(self.ids(), self.rows(), id, 0) == Some(r as nat)',
        '[C17:find-is-search] res is None ==> search(self.ids(), self.rows(), id, 0) is None',
        f'[C17:find-sound] res matches Some(r) ==> exists|s: int| 0 <= s < {N} && self.id_at(s) == id && self.row_at(s) == r',
        '[C17:find-absent] !present(self.ids(), id as nat) ==> res is None',
        f'[C17:find-is-scan] open_addressed(self.ids()) && id != 0 ==> forall|s: int| 0 <= s < {N} && self.id_at(s) == id ==> res == Some(self.row_at(s) as u32)',
    ], canary=True, attrs='#[verifier::loop_isolation(false)]',
        loops={0: 'invariant self.wf(), self.slot_count != 0, mask == self.slot_count - 1, is_pow2_u32(self.slot_count), '
                  'self.slot_count == self.v_slot_count(), 0 <= vit.index@ <= self.slot_count, '
                  'hash1 as int == probe(id, self.slot_count as int, vit.index@ as int), hash1 <= mask, '
                  'hash2 as int == probe_stride(id, self.slot_count as int), hash2 <= mask + 1, '
                  'search(self.ids(), self.rows(), id, 0) == search(self.ids(), self.rows(), id, vit.index@ as int),'},
        before=[('if self.slot_count == 0 {', 'proof { lemma_search_sound(self.ids(), self.rows(), id, 0); '
                 'assert forall|s: int| open_addressed(self.ids()) && id != 0 && 0 <= s < self.v_slot_count() as int && #[trigger] self.id_at(s) == id '
                 'implies search(self.ids(), self.rows(), id, 0) == Some(self.row_at(s)) by { lemma_search_complete(self.ids(), self.rows(), s); } }'),
                ('let mut hash1 = id & mask;', 'proof { lemma_mask_is_mod(id, self.slot_count); lemma_mask_is_mod(id >> 32, self.slot_count); lemma_stride(id, self.slot_count); }'),
                ('hash1 = (hash1 + hash2) & mask;', 'proof { lemma_mask_is_mod((hash1 + hash2) as u64, self.slot_count); }')])
    sk.add('read::index', imp)
    sk.add('read::index', ix.item(r'^pub struct UnitIndexSectionIterator<', label='UnitIndexSectionIterator').clean(rejrec=['R']))
    sk.add('read::index', SECTION_ITER_GHOST, label='UnitIndexSectionIterator(ghost)')
    nx = ix.item(r"^impl<'index, R: Reader> Iterator for UnitIndexSectionIterator<", label='UnitIndexSectionIterator')
    # R-IMPL (as in eslice.py): vstd attaches its prophetic-iterator laws to every `impl Iterator`; the impl block is kept
    # verbatim but implements a generated contract-less trait with the same signature
    nx.custom('R-IMPL', "Iterator for UnitIndexSectionIterator<'index, R>", "IteratorImpl for UnitIndexSectionIterator<'index, R>")
    nx.clean()
    nx.own(OWN)
    OS, FS = 'old(self)', 'final(self)'
    nx.splice('next', ret='res', ensures=[
        f'[C17:section-iter-next] res matches Some(sec) ==> {OS}.kinds().len() > 0 && sec.section == {OS}.kinds()[0] '
        f'&& sec.offset == {OS}.v_offsets().u(0, 4) && sec.size == {OS}.v_sizes().u(0, 4)',
        f'[C17:section-iter-advance] res is Some ==> {FS}.kinds() == {OS}.kinds().skip(1) && adv({OS}.v_offsets(), {FS}.v_offsets(), 4) && adv({OS}.v_sizes(), {FS}.v_sizes(), 4)',
        f'[C17:section-iter-complete] {OS}.wf() && {OS}.kinds().len() > 0 ==> res is Some && {FS}.wf()',
        f'[C01:iter-finish] {OS}.kinds().len() == 0 ==> res is None',
    ])
    sk.add('read::index', nx)


def strengthen_core(sk):
    """verified strengthening of a core item inside this batch: `usize::from_u64` never fails on a 64-bit target
    (the trait-level contract only promises success up to 0xffff_ffff)"""
    rou = [c for c in sk.mods['read::reader']['chunks'] if not isinstance(c[0], str) and c[0].label == 'ReaderOffset for usize'][0][0]
    rou.splice('from_u64', ret='res', ensures=['[C01:checked-width] res is Ok'])


def populate(ctx, sk):
    strengthen_core(sk)
    sk.module('vspec_index', 'use crate::vspec::*;')
    sk.add('vspec_index', core.rd('specs/index.rs'), label='vspec_index', owners=['C17'])
    populate_index(ctx, sk)
    return sk


def build(ctx):
    sk = Skeleton(ctx, core.rd('prelude/crate.rs'))
    core.populate(ctx, sk)
    populate(ctx, sk)
    return sk
