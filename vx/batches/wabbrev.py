"""B-wabbrev: write::abbrev, the EMISSION of the .debug_abbrev section (DESIGN.md 6 C11: "abbreviation ... de-duplication",
anchor src/write/abbrev.rs).  Build = core.populate; wcore.populate; populate.  Source: /repo/src/write/abbrev.rs.

WHY.  A seeded defect (`w.write_sleb128(self.implicit_const_value)` -> `w.write_uleb128(self.implicit_const_value as u64)`
in AttributeSpecification::write) was missed by C11: batch wunit has `Abbreviation::new` / `AttributeSpecification::new`
under contract and MODELS the table; the three functions that emit the section were under no contract.  The operand of
DW_FORM_implicit_const in the declaration is a SIGNED LEB128 number (DWARF 5 7.5.3): written unsigned, the values 64..127
read back negative and negative values make the table unparsable.

THE SPEC (vx/specs/wabbrev.rs, module crate::waspec) is written from DWARF 5 section 7.5.3, not from the code:
  abbrev_table_ops(decls)  = for i in 0..n: abbrev_decl_ops(i + 1, decls[i])   then the null code (one 0 byte)
  abbrev_decl_ops(code, tag, has_children, specs) = ULEB code, ULEB tag, u8 children (DW_CHILDREN_yes 1 / _no 0),
                             every attr_spec_ops(specs[k]) in order, then the (0, 0) pair
  attr_spec_ops(s)         = ULEB name, ULEB form, and iff form == DW_FORM_implicit_const (0x21) SLEB value
The per-field functions are GENERATED from the layout tables ASPEC_FIELDS / DECL_FIELDS / TABLE_FIELDS below.
X-TABLE (build time, `cross_check`; a disagreement raises TableMismatch = Lost = exit 2): these tables are compared with the
READER's layout of the same section - the spec functions `aspec_at`, `aspec_end_marker`, `decl_code/tag/children/specs`,
`table_ends` of vx/specs/units.rs (parsed: field kinds uleb / sleb / at in offset order, the 0x21 condition, the terminators)
AND the contracts batch `units` puts on read::abbrev (units.populate_abbrev is run on a scratch skeleton; [C02:abbrev-decl],
[C02:aspec-value], [C02:aspec-end], [C02:abbrev-has-children], [C02:abbrev-children], [C02:abbrevs-table] must still be stated
over those functions) - and with constants.rs (DW_FORM_implicit_const == 0x21, DW_CHILDREN_no/yes == 0/1).  So "the reader
decodes the fields the writer lays out, in the same order and of the same kinds" holds by construction of the two tables;
each side is verified against its own.

FUNCTIONS UNDER CONTRACT (real text, owner C11)
  AttributeSpecification::write  [C11:abbrev-attr-spec] exactly attr_spec_ops(self) is appended to the field log;
                                 [C11:abbrev-implicit-const-sleb] form == 0x21: 3 fields, the third is WOp::Sleb(value);
                                 any other form: 2 fields (no operand); [C11:abbrev-attr-spec-len] bytes = uleb_size(name) +
                                 uleb_size(form) [+ sleb_size(value)]; [C11:w-frame] grew on every path
  Abbreviation::write            [C11:abbrev-decl] exactly ULEB tag, children byte, the specifications in order, (0, 0);
                                 [C11:abbrev-decl-terminator] the log ends with two zero bytes and has exactly
                                 2 + (fields of the specifications) + 2 new fields; [C11:abbrev-decl-len]; [C11:w-frame]
  AbbreviationTable::write       [C11:abbrev-table-codes] exactly abbrev_table_ops: the i-th declaration (0-based) is preceded
                                 by ULEB(i + 1); [C11:abbrev-table-terminator] the last field is one zero byte and everything
                                 before it is the declarations; [C11:abbrev-table-len]; [C11:w-frame]
  DebugAbbrev<W>::{offset, deref, deref_mut}   define_section! expanded mechanically (R-MACRO, as in wlists / wline_insn)
  proof fn lemma_wrote_ext (wrote_ext == wspec::wrote)
ASSUMED
  TRUSTED: nothing beyond wcore's (core's four + the R-REQUIRED Writer primitives, whose event contracts K-WPRIM checks on
  EndianVec).  `unsafe impl Structural for DwForm` (wcore.ensure_structural: `==` of the derived PartialEq on a newtype).
  A-ORDER (R-MAP, as in wlists): `abbrevs: FnvIndexSet<Abbreviation>` is projected to `Vec<Abbreviation>` = the elements in
  insertion order; assumption: IndexSet::iter() yields insertion order and `insert_full` returns the insertion index (both
  documented by indexmap), so the code `add` returned for the i-th element is i + 1.  `add` itself is not extracted.
  R-ITER: `for (code, abbrev) in self.abbrevs.iter().enumerate() { BODY }` -> `let mut code: usize = 0; for abbrev in
  self.abbrevs.iter() { BODY code += 1; }` (core::iter::Enumerate is outside Verus; this is what Enumerate::next does;
  BODY is a regex group, i.e. verbatim).
NOT DECIDED
  * AbbreviationTable::add (IndexSet::insert_full): de-duplication, "inserting a duplicate returns the code of the existing
    value", stability of codes between DebuggingInformationEntry::write (which measured / wrote the code) and this table.
  * That name != 0 / form != 0 for real specifications and tag != 0 (a specification (0, 0) inside the list would read as the
    terminator): AttributeSpecification::new / Abbreviation::new do not check it and no clause here requires it.
  * The byte level: that Uleb/Sleb/U fields are the DWARF encodings (K-WPRIM, K-LEB) and hence that the bytes parse back
    through read::Abbreviations::parse to the same declarations (units [C02:abbrevs-table] is stated over bytes; the
    connection here is the table cross-check, not a proof).  A terminator written with write_uleb128(0) instead of write_u8(0)
    has the same bytes but a different field kind and would be REPORTED (the spec names the one-byte field).
  * `Ok` is never guaranteed (a Writer may fail for its own reasons); on Err only the frame is stated.
SELF-ATTACK (scratch copy of /repo, GIMLI_REPO=<copy> python3 vx/run.py wabbrev; 2026-09-24; unchanged /repo: exit 0, 61 fns,
  3 canaries fail as they must).  Every mutant below: exit 1, failing clauses all TAGGED:
  M0 (the seeded defect) implicit const through write_uleb128(.. as u64) -> abbrev-attr-spec, abbrev-implicit-const-sleb, abbrev-attr-spec-len
  M1 children flag inverted (`if !self.has_children`)                    -> abbrev-decl (loop-entry invariant)
  M2 (0, 0) terminator written as ONE byte                               -> abbrev-decl, abbrev-decl-terminator, abbrev-decl-len
  M3 code written 0-based (`code as u64`)                                -> abbrev-table-codes, abbrev-table-len (loop invariants)
  M4 implicit const operand written for EVERY form                       -> abbrev-attr-spec, abbrev-implicit-const-sleb, abbrev-attr-spec-len
  M6 table terminator dropped (`Ok(())` for `w.write_u8(0)`)            -> abbrev-table-codes, abbrev-table-terminator, abbrev-table-len
     (exit 1 through run.py; ONE module-only preview of this mutant ended in a resource limit at rlimit 40 instead - a false goal
     over the recursive abbrev_table_decls_ops under extensional equality; run.py's RETRY_RLIMIT retries are there for that)
  module-only previews (verus --verify-only-module write::abbrev): name/form swapped -> abbrev-attr-spec; tag written after the
  children byte -> abbrev-decl; terminator through write_uleb128(0) -> abbrev-decl, abbrev-decl-terminator (same bytes, other field
  kind: reported, see NOT DECIDED).
  Build-time cross-check, negative tests: operand kind uleb, children kind uleb, tag before code, DW_CHILDREN_yes = 2,
  DW_FORM_implicit_const = 0x22 in the writer table -> TableMismatch (exit 2) each.
VERUS NOTES  `wrote_ext` (open spec fn with `=~=`) lets the solver discharge every sequence equality without a single hint, so
  the only anchors in the source are the two `for` headers (loop labels): an edit elsewhere can fail a clause, not lose an anchor.
  `code + 1`: Verus knows `v@.len() <= usize::MAX` only through the exec-typed `v.len()` (invariant `abbrevs@.len() == abbrevs.len()`).
"""
import re
from lib import *
from batches import core, wcore, wlists

TRUSTED = list(wcore.TRUSTED)
OWN = ['C11']
VERUS_ARGS = ['--rlimit', '40']
RETRY_RLIMIT = 120


class TableMismatch(Lost):
    """the writer's layout tables disagree with the reader's layout (specs/units.rs, units.py) or constants.rs -> exit 2"""


# ----------------------------------------------------------------------------- the layout (DWARF 5 section 7.5.3)
# attribute specification: (field of WASpec, kind, present iff `form` == this constant | None = always)
ASPEC_FIELDS = [('name', 'uleb', None), ('form', 'uleb', None), ('ic', 'sleb', 'DW_FORM_implicit_const')]
# declaration: (field, kind); aspecs = attribute specifications back to back, aspec00 = the specification (0, 0)
DECL_FIELDS = [('code', 'uleb'), ('tag', 'uleb'), ('children', 'u1'), ('specs', 'aspecs'), ('end', 'aspec00')]
# table: declarations back to back, then a null declaration = the code 0 alone
TABLE_FIELDS = [('decls', 'decls'), ('end', 'code0')]
# Table 7.4 "Child determination encodings"
CHILDREN = {'DW_CHILDREN_no': 0x00, 'DW_CHILDREN_yes': 0x01}
FORM_VALUES = {'DW_FORM_implicit_const': 0x21}      # Table 7.6
FIELD_TY = {'name': 'u16', 'form': 'u16', 'ic': 'i64', 'code': 'u64', 'tag': 'u16'}


def dw_values(ty):
    return {n: int(v.replace('_', ''), 0) for n, v in
            re.findall(r'pub const (\w+): %s = %s\((0x[0-9a-fA-F_]+|\d+)\);' % (ty, ty), dw_consts(Ctx('x'), ty))}


def spec_fn_body(text, name):
    """whitespace-free body of `spec fn name` (the first `{` after the parameter list: neither the return types nor the
    `decreases` clauses of that file contain braces)"""
    m = re.search(r'spec fn %s\(' % re.escape(name), text)
    if not m:
        raise TableMismatch(f'reader spec: `spec fn {name}` not found in vx/specs/units.rs')
    b = text.index('{', match_close(text, m.end() - 1))
    return norm_ws(text[b + 1:match_close(text, b)])


def reader_layout(ctx):
    """the READER's layout of .debug_abbrev, recovered from its spec functions and its contracts"""
    spec = strip_comments(core.rd('specs/units.rs'))

    def grab(fn, pat, what):
        body = spec_fn_body(spec, fn)
        m = re.fullmatch(pat, body)
        if not m:
            raise TableMismatch(f'reader spec `{fn}` changed ({what}): `{body}`')
        return m
    # ---- attribute specification: name at p, form at p1 = p + leb_len(p), operand at p2 = p1 + leb_len(p1) iff form == C
    m = grab('aspec_at', r'letp1=p\+v\.leb_len\(p\);letp2=p1\+v\.leb_len\(p1\);letform=v\.(\w+)\(p1\);'
             r'ASpec\{name:v\.(\w+)\(p\),form,ic:ifform==(0x[0-9a-fA-F]+)\{v\.(\w+)\(p2\)\}else\{0\}\}', 'name, form, conditional operand')
    aspec = [('name', m.group(2), None), ('form', m.group(1), None), ('ic', m.group(4), int(m.group(3), 16))]
    m = grab('aspec_size', r'letp1=p\+v\.leb_len\(p\);letp2=p1\+v\.leb_len\(p1\);\(\(p2-p\)\+\(ifv\.uleb\(p1\)==(0x[0-9a-fA-F]+)\{v\.leb_len\(p2\)\}else\{0\}\)\)asnat',
             'size = the three LEB128 lengths')
    if int(m.group(1), 16) != aspec[2][2]:
        raise TableMismatch('reader spec: aspec_at and aspec_size disagree on the form that carries an operand')
    grab('aspec_end_marker', r'a\.name==0&&a\.form==0', 'terminator = (0, 0)')
    # ---- declaration: code, tag, children byte, specifications
    m1 = grab('decl_code', r'v\.(\w+)\(decl_start\(v,i\)\)', 'code first')
    m2 = grab('decl_tag', r'letp=decl_start\(v,i\);v\.(\w+)\(p\+v\.leb_len\(p\)\)', 'tag after the code')
    m3 = grab('decl_children', r'letp=decl_start\(v,i\);letp1=p\+v\.leb_len\(p\);v\.(\w+)\(p1\+v\.leb_len\(p1\)\)', 'children byte after the tag')
    m4 = grab('decl_specs', r'letp=decl_start\(v,i\);letp1=p\+v\.leb_len\(p\);(\w+)\(v,p1\+v\.leb_len\(p1\)\+1\)', 'specifications one byte after the children flag')
    grab('decl_size', r'letp1=p\+v\.leb_len\(p\);letp2=p1\+v\.leb_len\(p1\);\(p2\+1-p\)\+aspecs_size\(v,p2\+1\)', 'size = code, tag, 1, specifications incl. terminator')
    kind = {'uleb': 'uleb', 'sleb': 'sleb', 'at': 'u1', 'aspecs': 'aspecs'}
    decl = [('code', kind.get(m1.group(1))), ('tag', kind.get(m2.group(1))), ('children', kind.get(m3.group(1))),
            ('specs', kind.get(m4.group(1))), ('end', 'aspec00')]
    # the list stops at the end marker and its size includes the marker
    ab = spec_fn_body(spec, 'aspecs')
    az = spec_fn_body(spec, 'aspecs_size')
    if 'aspec_end_marker(aspec_at(v,p))' not in ab or 'seq![aspec_at(v,p)]+aspecs(v,p+aspec_size(v,p))' not in ab:
        raise TableMismatch(f'reader spec `aspecs` changed: `{ab}`')
    if 'aspec_end_marker(aspec_at(v,p))' not in az or '{aspec_size(v,p)}else{aspec_size(v,p)+aspecs_size(v,p+aspec_size(v,p))}' not in az:
        raise TableMismatch(f'reader spec `aspecs_size` changed: `{az}`')
    # ---- table: declarations back to back; ends at a null code
    grab('decl_start', r'ifi==0\{0\}else\{decl_start\(v,\(i-1\)asnat\)\+decl_size\(v,decl_start\(v,\(i-1\)asnat\)\)\}', 'declarations back to back')
    grab('table_ends', r'decl_start\(v,n\)==v\.len\|\|\(0<=decl_start\(v,n\)<v\.len&&decl_code\(v,n\)==0\)', 'the table ends at code 0')
    table = [('decls', 'decls'), ('end', 'code0')]

    # ---- the reader's CONTRACTS are stated over exactly these functions (units.py; scratch skeleton, nothing is emitted)
    try:
        from batches import units as _units
    except Exception as e:
        raise TableMismatch(f'batch units is not importable: {e}')
    xctx = Ctx('wabbrev-xcheck')
    xsk = Skeleton(xctx, core.rd('prelude/crate.rs'))
    core.populate(xctx, xsk)
    _units.populate_abbrev(xctx, xsk)
    clauses = {}
    for c in xsk.mods['read::abbrev']['chunks']:
        text = c[0].text if isinstance(c[0], Item) else c[0]
        for line in strip_sentinels(text).split('\n'):
            for t in re.findall(r'\[(C02:[^\]]+)\]', line.split('//')[-1]) if '//' in line else []:
                clauses.setdefault(t, []).append(norm_ws(line.split('//')[0]))
    O = 'old(input).rv()'

    def has(tag, *needles):
        got = ' '.join(clauses.get(tag, []))
        for n in needles:
            if norm_ws(n) not in got:
                raise TableMismatch(f'reader contract [{tag}] (units.py) no longer contains `{n}`: `{got[:300]}`')
    P1 = f'{O}.leb_len(0) as int'
    P2 = f'({O}.leb_len(0) + {O}.leb_len({O}.leb_len(0) as int)) as int'
    has('C02:aspec-value', f'a.sp() == aspec_at({O}, 0)', f'!aspec_end_marker(aspec_at({O}, 0))', f'aspec_size({O}, 0)')
    has('C02:aspec-end', f'aspec_end_marker(aspec_at({O}, 0))')
    has('C02:abbrev-decl', f'a.g_code() == {O}.uleb(0)', 'a.g_code() != 0', f'a.g_tag() == {O}.uleb({P1})', f'a.g_children() == {O}.at({P2})',
        f'a.g_specs() == aspecs({O}, {P2} + 1)')
    has('C02:abbrev-end', f'{O}.uleb(0) == 0')
    has('C02:abbrev-children', f'{O}.at(0) > 1')
    has('C02:abbrev-has-children', 'res == (self.g_children() == 0x01)')
    has('C02:abbrevs-table', 'table_ends(', 'decl_code(', 'decl_tag(', 'decl_children(', 'decl_specs(')
    return aspec, decl, table, {'yes': 0x01, 'max': 1}


def cross_check(ctx):
    """writer tables == reader layout == constants.rs"""
    forms, ch = dw_values('DwForm'), dw_values('DwChildren')
    for n, v in FORM_VALUES.items():
        if forms.get(n) != v:
            raise TableMismatch(f'constants.rs: {n} = {forms.get(n)}, DWARF 5 table 7.6 says {v:#x}')
    for n, v in CHILDREN.items():
        if ch.get(n) != v:
            raise TableMismatch(f'constants.rs: {n} = {ch.get(n)}, DWARF 5 table 7.4 says {v:#x}')
    r_aspec, r_decl, r_table, r_children = reader_layout(ctx)
    mine = [(f, k, FORM_VALUES[c] if c else None) for f, k, c in ASPEC_FIELDS]
    if mine != r_aspec:
        raise TableMismatch(f'attribute specification: writer lays out {mine}, reader decodes {r_aspec}')
    if DECL_FIELDS != r_decl:
        raise TableMismatch(f'declaration: writer lays out {DECL_FIELDS}, reader decodes {r_decl}')
    if TABLE_FIELDS != r_table:
        raise TableMismatch(f'table: writer lays out {TABLE_FIELDS}, reader decodes {r_table}')
    if CHILDREN['DW_CHILDREN_yes'] != r_children['yes'] or max(CHILDREN.values()) != r_children['max'] or sorted(CHILDREN.values()) != [0, 1]:
        raise TableMismatch(f'children flag: writer {CHILDREN}, reader accepts 0..{r_children["max"]} with yes = {r_children["yes"]}')
    n = len(mine) + len(DECL_FIELDS) + len(TABLE_FIELDS) + len(CHILDREN)
    ctx.count('X-TABLE', n)
    return n


# ----------------------------------------------------------------------------- generation of the per-field spec functions
def field(kind, x, ty):
    """(WOp, size in bytes)"""
    if kind == 'uleb':
        return (f'WOp::Uleb({x})' if ty == 'u64' else f'WOp::Uleb({x} as u64)'), f'uleb_size({x} as nat)'
    if kind == 'sleb':
        return (f'WOp::Sleb({x})' if ty == 'i64' else f'WOp::Sleb({x} as i64)'), f'sleb_size({x} as int)'
    if kind == 'u1':
        return f'wu({x}, 1)', '1nat'
    raise TableMismatch('field kind ' + kind)


def gen_specs():
    always = [(f, k) for f, k, c in ASPEC_FIELDS if c is None]
    conds = [(f, k, c) for f, k, c in ASPEC_FIELDS if c is not None]
    if len(conds) != 1 or ASPEC_FIELDS.index(conds[0]) != len(ASPEC_FIELDS) - 1:
        raise TableMismatch('generator: exactly one conditional field, at the end of the attribute specification, is supported')
    cf, ck, cc = conds[0]
    cv = FORM_VALUES[cc]
    base = [field(k, 's.' + f, FIELD_TY[f]) for f, k in always]
    cop, csz = field(ck, 's.' + cf, FIELD_TY[cf])
    ops0 = ', '.join(o for o, _ in base)
    sz0 = ' + '.join(s for _, s in base)
    # declaration: code | fixed part (tag, children) | specs | end
    names = [f for f, _ in DECL_FIELDS]
    if names != ['code', 'tag', 'children', 'specs', 'end'] or [k for _, k in DECL_FIELDS][3:] != ['aspecs', 'aspec00']:
        raise TableMismatch('generator: declaration shape')
    kd = dict(DECL_FIELDS)
    code_op, _ = field(kd['code'], 'code', 'u64')
    tag_op, tag_sz = field(kd['tag'], 'tag', 'u16')
    ch_val = f'(if has_children {{ {CHILDREN["DW_CHILDREN_yes"]:#04x}nat }} else {{ {CHILDREN["DW_CHILDREN_no"]:#04x}nat }})'
    ch_op, ch_sz = field(kd['children'], ch_val, 'nat')
    # (0, 0): name 0 and form 0, each the ULEB128 encoding of 0 = one zero byte
    end_ops = ', '.join('zero_byte()' for f, k in always)
    return f'''
// ---- GENERATED by vx/batches/wabbrev.py from ASPEC_FIELDS / DECL_FIELDS / TABLE_FIELDS (cross-checked against the reader)
/// the fields of one attribute specification: {', '.join(f'{k.upper()} {f}' for f, k in always)}, and iff form == {cc} ({cv:#x}) {ck.upper()} {cf}
pub open spec fn attr_spec_ops(s: WASpec) -> Seq<WOp> {{
    if s.form == {cv:#x} {{ seq![{ops0}, {cop}] }} else {{ seq![{ops0}] }}
}}
/// its encoded size in bytes
pub open spec fn attr_spec_size(s: WASpec) -> nat {{
    {sz0} + (if s.form == {cv:#x} {{ {csz} }} else {{ 0 }})
}}
/// its number of fields
pub open spec fn attr_spec_nops(s: WASpec) -> nat {{
    if s.form == {cv:#x} {{ {len(always) + 1} }} else {{ {len(always)} }}
}}
/// the abbreviation code that starts a declaration
pub open spec fn decl_code_ops(code: u64) -> Seq<WOp> {{ seq![{code_op}] }}
/// tag and children flag (DW_CHILDREN_yes = {CHILDREN["DW_CHILDREN_yes"]:#04x}, DW_CHILDREN_no = {CHILDREN["DW_CHILDREN_no"]:#04x})
pub open spec fn decl_fixed_ops(tag: u16, has_children: bool) -> Seq<WOp> {{ seq![{tag_op}, {ch_op}] }}
pub open spec fn decl_fixed_size(tag: u16) -> nat {{ {tag_sz} + {ch_sz} }}
/// the specification ({', '.join('0' for _ in always)}) that ends the attribute list
pub open spec fn decl_end_ops() -> Seq<WOp> {{ seq![{end_ops}] }}
/// the null abbreviation code that ends the table
pub open spec fn table_end_ops() -> Seq<WOp> {{ seq![zero_byte()] }}
'''


# ----------------------------------------------------------------------------- contracts
W0 = 'old(w).0.wv()'
W1 = 'final(w).0.wv()'
WC = 'w.0.wv()'
FRAME = f'[C11:w-frame] grew({W0}, {W1})'

AS_GHOST = '''    /// the (name, form, implicit-const operand) triple this specification stands for
    pub closed spec fn sp(&self) -> WASpec { WASpec { name: self.name.0, form: self.form.0, ic: self.implicit_const_value } }'''

AB_GHOST = '''    pub closed spec fn atag(&self) -> u16 { self.tag.0 }
    pub closed spec fn ahas_children(&self) -> bool { self.has_children }
    /// the attribute specifications in order
    pub closed spec fn aspecs(&self) -> Seq<WASpec> { Seq::new(self.attributes@.len(), |i: int| self.attributes@[i].sp()) }
    pub open spec fn decl(&self) -> WADecl { WADecl { tag: self.atag(), has_children: self.ahas_children(), specs: self.aspecs() } }'''

TB_GHOST = '''    /// the declarations in insertion order = code order (A-ORDER): the i-th one (0-based) has the code i + 1
    pub closed spec fn decls(&self) -> Seq<WADecl> { Seq::new(self.abbrevs@.len(), |i: int| self.abbrevs@[i].decl()) }'''


def populate(ctx, sk):
    ab = Source('write/abbrev.rs', ctx)
    sec = Source('write/section.rs', ctx)
    cross_check(ctx)
    wcore.ensure_structural(sk, 'constants', 'DwForm')      # `self.form == constants::DW_FORM_implicit_const`

    sk.module('waspec', 'use crate::vspec::*;\nuse crate::wspec::*;')
    sk.add('waspec', core.rd('specs/wabbrev.rs').replace('/*GENERATED*/', gen_specs()), label='waspec')

    sk.mods['write']['uses'] += '\npub use self::abbrev::*;'
    M = 'write::abbrev'
    sk.module(M, '''use core::ops::{Deref, DerefMut};
use crate::common::{DebugAbbrevOffset, SectionId};
use crate::constants;
use crate::write::{Result, Writer};
use crate::vspec::*;
use crate::wspec::*;
use crate::waspec::*;''')

    # ---- define_section!(DebugAbbrev, DebugAbbrevOffset, ..): newtype, offset(), Deref / DerefMut
    wlists.check_invocation(ab, 'define_section', ['DebugAbbrev,', 'DebugAbbrevOffset,'])
    x = wlists.expand(ctx, sec, 'define_section', {'name': 'DebugAbbrev', 'offset': 'DebugAbbrevOffset'})
    sk.add(M, x.item(r'^pub struct DebugAbbrev<', label='DebugAbbrev').clean())
    im = x.item(r'^impl<W: Writer> DebugAbbrev<W> \{', label='DebugAbbrev(impl)').clean()
    im.own(OWN)
    im.splice('offset', ret='res', ensures=['res.0 as nat == self.0.wv().len'])
    sk.add(M, im)
    d = x.item(r'^impl<W: Writer> Deref for DebugAbbrev<W>', label='DebugAbbrev(Deref)').clean()
    d.own(OWN)
    d.splice('deref', ret='res', ensures=['*res == self.0'])
    sk.add(M, d)
    dm = x.item(r'^impl<W: Writer> DerefMut for DebugAbbrev<W>', label='DebugAbbrev(DerefMut)').clean()
    dm.own(OWN)
    dm.splice('deref_mut', ret='res', ensures=['*res == old(self).0', 'final(self).0 == *final(res)'])
    sk.add(M, dm)
    for h in ['From<W> for', 'Section<W> for']:
        ctx.dropped.append(f'{sec.rel}:define_section!(DebugAbbrev)::impl {h} DebugAbbrev<W>')
        ctx.count('R-DROP')

    # ---- AttributeSpecification::write
    sk.add(M, ab.item(r'^pub\(crate\) struct AttributeSpecification \{', label='AttributeSpecification').clean())
    asi = ab.item(r'^impl AttributeSpecification \{', label='AttributeSpecification(impl)')
    asi.keep_only(['write'])
    asi.clean()
    asi.own(OWN)
    asi.insert_members(AS_GHOST)
    IC = f'{FORM_VALUES["DW_FORM_implicit_const"]:#x}'
    asi.splice('write', ret='res', canary=True, ensures=[
        # 7.5.3: ULEB name, ULEB form, and for DW_FORM_implicit_const (only) a SIGNED LEB128 third part
        f'[C11:abbrev-attr-spec] res is Ok ==> wrote_ext({W0}, {W1}, attr_spec_ops(self.sp()))',
        f'[C11:abbrev-implicit-const-sleb] res is Ok && self.sp().form == {IC} ==> {W1}.ops.len() == {W0}.ops.len() + 3 && '
        f'{W1}.ops[{W0}.ops.len() as int + 2] == WOp::Sleb(self.sp().ic)',
        f'[C11:abbrev-implicit-const-sleb] res is Ok && self.sp().form != {IC} ==> {W1}.ops.len() == {W0}.ops.len() + 2',
        f'[C11:abbrev-attr-spec-len] res is Ok ==> {W1}.len == {W0}.len + attr_spec_size(self.sp())',
        FRAME])
    sk.add(M, asi)

    # ---- Abbreviation::write
    sk.add(M, ab.item(r'^pub\(crate\) struct Abbreviation \{', label='Abbreviation').clean())
    abi = ab.item(r'^impl Abbreviation \{', label='Abbreviation(impl)')
    abi.keep_only(['write'])
    abi.clean()
    abi.own(OWN)
    abi.insert_members(AB_GHOST)
    abi.insert_after('for attr in ', 'ita: ', nth=0)
    T, H, S = 'self.atag()', 'self.ahas_children()', 'self.aspecs()'
    I = 'ita.index@'
    abi.splice('write', ret='res', canary=True, attrs='#[verifier::loop_isolation(false)]', ensures=[
        f'[C11:abbrev-decl] res is Ok ==> wrote_ext({W0}, {W1}, abbrev_decl_body_ops({T}, {H}, {S}))',
        f'[C11:abbrev-decl-terminator] res is Ok ==> ({{ let n = {W1}.ops.len() as int; n == {W0}.ops.len() + 2 + attr_specs_nops({S}, {S}.len() as int) + 2 && '
        f'{W1}.ops[n - 2] == zero_byte() && {W1}.ops[n - 1] == zero_byte() }})',
        f'[C11:abbrev-decl-len] res is Ok ==> {W1}.len == {W0}.len + abbrev_decl_body_size({T}, {H}, {S})',
        FRAME],
        loops={0: f'''invariant
    0 <= {I} <= {S}.len(), {S}.len() == self.attributes@.len(),
    wrote_ext({W0}, {WC}, abbrev_decl_head_ops({T}, {H}, {S}, {I} as int)), // [C11:abbrev-decl]
    {WC}.ops.len() == {W0}.ops.len() + 2 + attr_specs_nops({S}, {I} as int), // [C11:abbrev-decl-terminator]
    {WC}.len == {W0}.len + decl_fixed_size({T}) + attr_specs_size({S}, {I} as int), // [C11:abbrev-decl-len]
    grew({W0}, {WC}), // [C11:w-frame]'''})
    sk.add(M, abi)

    # ---- AbbreviationTable::write
    tb = ab.item(r'^pub\(crate\) struct AbbreviationTable \{', label='AbbreviationTable')
    # R-MAP (A-ORDER): the IndexSet is projected to the Vec of its elements in insertion order
    tb.custom('R-MAP', 'abbrevs: FnvIndexSet<Abbreviation>,', 'abbrevs: Vec<Abbreviation>,')
    sk.add(M, tb.clean())
    ti = ab.item(r'^impl AbbreviationTable \{', label='AbbreviationTable(impl)')
    ti.keep_only(['write'])
    # R-ITER: Enumerate written out (the loop body is the regex group: verbatim)
    ti.custom_re('R-ITER', r'(?s)for \(code, abbrev\) in self\.abbrevs\.iter\(\)\.enumerate\(\) \{(.*?)\n        \}',
                 r'let mut code: usize = 0;\n        for abbrev in self.abbrevs.iter() {\1\n            code += 1;\n        }')
    ti.clean()
    ti.own(OWN)
    ti.insert_members(TB_GHOST)
    ti.insert_after('for abbrev in ', 'itb: ', nth=0)
    D = 'self.decls()'
    J = 'itb.index@'
    ti.splice('write', ret='res', canary=True, attrs='#[verifier::loop_isolation(false)]', ensures=[
        f'[C11:abbrev-table-codes] res is Ok ==> wrote_ext({W0}, {W1}, abbrev_table_ops({D}))',
        f'[C11:abbrev-table-terminator] res is Ok ==> {W1}.ops.len() > {W0}.ops.len() && {W1}.ops.last() == zero_byte() && '
        f'{W1}.ops.drop_last() =~= {W0}.ops + abbrev_table_decls_ops({D}, {D}.len() as int)',
        f'[C11:abbrev-table-len] res is Ok ==> {W1}.len == {W0}.len + abbrev_table_decls_size({D}, {D}.len() as int) + 1',
        FRAME],
        loops={0: f'''invariant
    0 <= {J} <= {D}.len(), {D}.len() == self.abbrevs@.len(), code == {J},
    self.abbrevs@.len() == self.abbrevs.len(), // (a Vec has at most usize::MAX elements: `code + 1` does not overflow)
    wrote_ext({W0}, {WC}, abbrev_table_decls_ops({D}, {J} as int)), // [C11:abbrev-table-codes]
    {WC}.len == {W0}.len + abbrev_table_decls_size({D}, {J} as int), // [C11:abbrev-table-len]
    grew({W0}, {WC}), // [C11:w-frame]'''})
    sk.add(M, ti)
    return sk


def build(ctx):
    sk = Skeleton(ctx, core.rd('prelude/crate.rs'))
    core.populate(ctx, sk)
    wcore.populate(ctx, sk)
    populate(ctx, sk)
    return sk
