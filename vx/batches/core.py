"""B-core: reader-core batch (DESIGN.md 5.1, 6 C01/C09/C10).

`trait Reader` (real text, ghost view + contracts spliced, real default bodies), `ReaderOffset for usize`,
`ReaderAddress for u64`, `leb128::read::*`, `EndianSlice`, `Error`, `common`, `dw!` constants.
Every other batch starts from `populate()`.
"""
import os
from lib import *

HERE = os.path.dirname(os.path.abspath(__file__))


def rd(name):
    return open(os.path.join(HERE, '..', name)).read()


# names of everything that is assumed (external_body / assume_specification) in this batch: the Verus TCB ledger
TRUSTED = [
    'verif_unreachable', 'core::result::Result::<T,E>::and_then', 'reader_clone', 'i64::unsigned_abs',
]

DW_TYPES = ['DwUt', 'DwCfa', 'DwChildren', 'DwTag', 'DwAt', 'DwForm', 'DwAte', 'DwLle', 'DwDs', 'DwEnd', 'DwAccess',
            'DwVis', 'DwVirtuality', 'DwLang', 'DwAddr', 'DwId', 'DwCc', 'DwInl', 'DwOrd', 'DwDsc', 'DwIdx',
            'DwDefaulted', 'DwLns', 'DwLne', 'DwLnct', 'DwMacinfo', 'DwMacro', 'DwRle', 'DwOp', 'DwEhPe', 'DwSect', 'DwSectV2']

LEB_DELEG = ['skip_leb128', 'read_uleb128', 'read_uleb128_u32', 'read_uleb128_u16', 'read_sleb128']
INT_READS = ['read_u8', 'read_i8', 'read_u16', 'read_i16', 'read_u32', 'read_i32', 'read_u64', 'read_i64',
             'read_u128', 'read_f32', 'read_f64', 'read_uint']

GHOST = '''
    // ---- ghost view (contract layer)
    spec fn rv(&self) -> RView;
'''

O = 'old(self).rv()'
F = 'final(self).rv()'


def fixed_read(reader, name, n, val):
    ens = [f'[C09:fixed-consume][C10:view] res is Ok ==> adv({O}, {F}, {n})',
           f'[C01:err-no-consume] res is Err ==> unch({O}, {F})',
           f'[C01:eof-exact] res is Err <==> {O}.len < {n}']
    if val:
        ens.append(f'[C09:fixed-value] res matches Ok(v) ==> {val}')
    reader.splice(name, ret='res', ensures=ens)


def populate(ctx, sk, dw_types=None):
    common = Source('common.rs', ctx)
    rmod = Source('read/mod.rs', ctx)
    rds = Source('read/reader.rs', ctx)
    lb = Source('leb128.rs', ctx)

    sk.module('vspec', 'use vstd::arithmetic::power2::*;')
    sk.add('vspec', rd('specs/core.rs'), label='vspec')

    sk.module('common')
    for h in [r'^pub enum Format', r'^impl Format \{', r'^pub enum Vendor', r'^pub struct Encoding', r'^pub struct Register\(',
              r'^pub struct LineEncoding', r'^pub struct DebugAddrOffset', r'^pub struct DebugNamesOffset', r'^pub struct DebugAddrBase', r'^pub struct DebugAddrIndex', r'^pub struct DebugInfoOffset',
              r'^pub struct DebugAbbrevOffset', r'^pub struct DebugLineOffset', r'^pub struct DebugLineStrOffset',
              r'^pub struct LocationListsOffset', r'^pub struct DebugLocListsBase', r'^pub struct DebugLocListsIndex',
              r'^pub struct DebugMacinfoOffset', r'^pub struct DebugMacroOffset', r'^pub struct RawRangeListsOffset',
              r'^pub struct RangeListsOffset', r'^pub struct DebugRngListsBase', r'^pub struct DebugRngListsIndex',
              r'^pub struct DebugStrOffset', r'^pub struct DebugStrOffsetsBase', r'^pub struct DebugStrOffsetsIndex',
              r'^pub struct DebugTypesOffset', r'^pub struct DebugTypeSignature', r'^pub struct DebugFrameOffset',
              r'^pub struct EhFrameOffset', r'^pub struct UnitSectionOffset', r'^pub struct DwoId', r'^pub enum DwarfFileType',
              r'^pub struct DebugArangesOffset']:
        it = common.item(h).clean()
        sk.add('common', it)
    fmt = [c for c in sk.mods['common']['chunks'] if c[0].header_re == r'^impl Format \{'][0][0]
    fmt.splice('initial_length_size', ret='res', ensures=['res == (match self { Format::Dwarf32 => 4u8, Format::Dwarf64 => 12u8 })'])
    fmt.splice('word_size', ret='res', ensures=['res as nat == crate::vspec::word_size(self)'])
    fmt.own(['C01'])

    sk.module('constants')
    for t in (dw_types or DW_TYPES):
        sk.add('constants', dw_consts(ctx, t), label=t)

    sk.module('endianity', 'use core::fmt::Debug;')
    sk.add('endianity', '''
pub trait Endianity: Debug + Default + Clone + Copy + PartialEq + Eq {
    spec fn big(self) -> bool;
    fn is_big_endian(self) -> (r: bool) ensures r == self.big();
}
''', label='Endianity')

    # ---- leb128
    sk.module('leb128')
    sk.add('leb128', lb.item(r'^const CONTINUATION_BIT').clean())
    sk.add('leb128', lb.item(r'^const SIGN_BIT').clean())
    low = lb.item(r'^fn low_bits_of_byte').clean()
    low.splice('low_bits_of_byte', ret='res', ensures=['res == byte & 0x7f', 'res < 128'],
               before=[('byte & !CONTINUATION_BIT', 'proof { assert(byte & !(1u8 << 7) == byte & 0x7f) by (bit_vector); assert(byte & 0x7f < 128) by (bit_vector); }')],
               owners=['C01', 'C09'])
    sk.add('leb128', low)
    lr = lb.item(r'^pub mod read \{', label='read').clean()
    lr.insert_after('pub mod read {', '\n    use vstd::prelude::*;\n    use crate::read::reader::*;\n    use crate::vspec::*;\n    broadcast use crate::vspec::group_seq_views;\n')
    PROG = '[C01:leb-progress] res is Ok ==> final(r).rv().len < old(r).rv().len'
    FRAME = '[C01:frame] within(old(r).rv(), final(r).rv())'
    lr.splice('skip', ret='res', ensures=[PROG, FRAME],
              loops={0: 'invariant within(old(r).rv(), r.rv()),\n decreases r.rv().len'}, owners=['C01', 'C09'])
    BV = ('proof { assert(1u8 << 7 == 0x80u8) by (bit_vector); assert(1u8 << 6 == 0x40u8) by (bit_vector); '
          'assert(byte == 0u8 || byte == 1u8 ==> byte & 0x80u8 == 0u8) by (bit_vector); '
          'assert(byte == 0u8 || byte == 0x7fu8 ==> byte & 0x80u8 == 0u8) by (bit_vector); }')
    lr.splice('unsigned', ret='res', ensures=[PROG, FRAME],
              loops={0: 'invariant_except_break within(old(r).rv(), r.rv()), r.rv().len < old(r).rv().len, 7 <= shift <= 63, shift % 7 == 0, \n ensures false, decreases 70 - shift'},
              before=[('shift += 7;', BV)], owners=['C01', 'C09'])
    lr.splice('signed', ret='res', ensures=[PROG, FRAME],
              loops={0: 'invariant_except_break within(old(r).rv(), r.rv()), 0 <= shift <= 63, shift % 7 == 0,\n ensures within(old(r).rv(), r.rv()), r.rv().len < old(r).rv().len, 7 <= shift <= 70, shift % 7 == 0, decreases 70 - shift'},
              before=[('shift += 7;', BV)], owners=['C01', 'C09'])
    lr.splice('u16', ret='res', ensures=[PROG, FRAME],
              before=[('result += u16::from(byte) << 14;', 'proof { assert(byte <= 3u8 ==> (byte as u16) << 14u16 <= 0xc000u16) by (bit_vector); assert(forall|a: u16, b: u16| a < 128 && b < 128 ==> (a | (b << 7u16)) < 0x4000u16) by (bit_vector); }')],
              owners=['C01', 'C09'])
    sk.add('leb128', lr)

    # ---- read
    sk.module('read', '''use core::result;
use core::fmt;
use crate::constants;
use crate::common::*;
pub use self::reader::*;
pub type Result<T> = result::Result<T, Error>;''')
    sk.add('read', rmod.item(r'^pub enum Error \{').clean())
    sk.add('read', rmod.item(r'^impl Register \{').clean().own(['C01']).splice('from_u64', ret='res', ensures=[
        '[C01:checked-width] res matches Ok(r) ==> r.0 as int == x as int', 'res is Err <==> x > 0xffff'],
        before=[('if u64::from(y) == x {', 'proof { assert((x as u16) as u64 == x <==> x <= 0xffffu64) by (bit_vector); }')]))
    sk.add('read', rmod.item(r'^pub struct UnitOffset<').clean())

    sk.module('read::reader', '''use core::fmt::Debug;
use core::hash::Hash;
use core::ops::{Add, AddAssign, Sub};
use core::convert::TryInto;
use crate::common::Format;
use crate::endianity::Endianity;
use crate::leb128;
use crate::read::{Error, Result};
use crate::vspec::*;
use vstd::arithmetic::power2::*;
broadcast use crate::vspec::group_seq_views;''')
    sk.add('read::reader', rds.item(r'^pub struct ReaderOffsetId').clean())
    rot = rds.item(r'^pub trait ReaderOffset:', label='ReaderOffset').clean()
    rot.insert_members('    spec fn as_nat(self) -> nat;\n    /// can the 64-bit value be represented as an offset of this type?\n    spec fn fits(v: u64) -> bool;')
    rot.splice('from_u8', ret='res', ensures=['res.as_nat() == offset'])
    rot.splice('from_u16', ret='res', ensures=['res.as_nat() == offset'])
    rot.splice('from_u32', ret='res', ensures=['res.as_nat() == offset'])
    rot.splice('from_u64', ret='res', ensures=['[C01:checked-width] res matches Ok(o) ==> o.as_nat() == offset', 'offset <= 0xffff_ffff ==> res is Ok',
                                             '[C01:checked-width-exact] res is Ok <==> Self::fits(offset)'])
    rot.splice('into_u64', ret='res', ensures=['res == self.as_nat()'])
    sk.add('read::reader', rot)
    rou = rds.item(r'^impl ReaderOffset for usize', label='ReaderOffset for usize').clean()
    rou.insert_members('    open spec fn as_nat(self) -> nat { self as nat }\n    open spec fn fits(v: u64) -> bool { true }')
    rou.splice('from_i16', ret='res', ensures=['res as int == (if offset >= 0 { offset as int } else { offset as int + 0x1_0000_0000_0000_0000 })'],
               before=[('offset as usize', 'proof { assert(offset < 0 ==> (offset as usize) as int == offset as int + 0x1_0000_0000_0000_0000) by (bit_vector); assert(offset >= 0 ==> (offset as usize) as int == offset as int) by (bit_vector); }')])
    rou.splice('wrapping_add', ret='res', ensures=['res as int == (self as int + other as int) % 0x1_0000_0000_0000_0000'])
    rou.splice('checked_sub', ret='res', ensures=['res == (if self >= other { Some((self - other) as usize) } else { None::<usize> })'])
    rou.own(['C01', 'C09'])
    sk.add('read::reader', rou)

    VAS = 'valid_address_size(size)'
    rat = rds.item(r'^pub\(crate\) trait ReaderAddress', label='ReaderAddress').clean()
    rat.insert_members('    spec fn val(self) -> u64;')
    rat.splice('add_sized', ret='res', requires=[VAS], ensures=[
        '[C01:checked-address][C04:add-sized][C08:add-sized] res matches Ok(a) ==> a.val() == self.val() + length && a.val() <= ones(size)',
        '[C01:checked-address][C04:add-sized][C08:add-sized] res is Err <==> self.val() + length > ones(size)'])
    rat.splice('wrapping_add_sized', ret='res', requires=[VAS], ensures=[
        '[C08:wrapping-add] res.val() == (self.val() as int + length as int) % (ones(size) as int + 1)'])
    rat.splice('zeros', ret='res', ensures=['res.val() == 0'])
    rat.splice('ones_sized', ret='res', requires=[VAS], ensures=['[C08:ones] res.val() == ones(size)'])
    rat.splice('min_tombstone', ret='res', requires=[VAS], ensures=['[C08:min-tombstone] res.val() == ones(size) - 1'],
               before=[('Self::zeros()', 'proof { assert((-2i64) as u64 == 0xffff_ffff_ffff_fffeu64) by (bit_vector); assert(0xffff_ffff_ffff_fffeint % 0x100 == 0xfe); assert(0xffff_ffff_ffff_fffeint % 0x10000 == 0xfffe); assert(0xffff_ffff_ffff_fffeint % 0x1_0000_0000 == 0xffff_fffe); assert(0xffff_ffff_ffff_fffeint % 0x1_0000_0000_0000_0000 == 0xffff_ffff_ffff_fffe); }')])
    rat.own(['C01', 'C08'])
    sk.add('read::reader', rat)
    rau = rds.item(r'^impl ReaderAddress for u64', label='ReaderAddress for u64').clean()
    rau.insert_members('    open spec fn val(self) -> u64 { self }')
    rau.splice('ones_sized', before=[('!0 >> (64 - size * 8)', 'proof { assert((0u64).val() == 0u64); assert(!0u64 >> 56u64 == 0xff) by (bit_vector); assert(!0u64 >> 48u64 == 0xffff) by (bit_vector); assert(!0u64 >> 32u64 == 0xffff_ffff) by (bit_vector); assert(!0u64 >> 0u64 == 0xffff_ffff_ffff_ffff) by (bit_vector); }')])
    MASK_BV = ('proof { assert(address & !0xffu64 == 0 <==> address <= 0xffu64) by (bit_vector); assert(address & !0xffffu64 == 0 <==> address <= 0xffffu64) by (bit_vector); '
               'assert(address & !0xffff_ffffu64 == 0 <==> address <= 0xffff_ffffu64) by (bit_vector); assert(address & !0xffff_ffff_ffff_ffffu64 == 0) by (bit_vector); }')
    rau.splice('add_sized', before=[('if address & !mask != 0 {', MASK_BV)])
    rau.splice('wrapping_add_sized', before=[('self.wrapping_add(length) & mask', 'proof { assert(self.val() == self); let w = self.wrapping_add(length); '
        'assert(w & 0xffu64 == w % 0x100u64) by (bit_vector); assert(w & 0xffffu64 == w % 0x10000u64) by (bit_vector); '
        'assert(w & 0xffff_ffffu64 == w % 0x1_0000_0000u64) by (bit_vector); assert(w & 0xffff_ffff_ffff_ffffu64 == w) by (bit_vector); '
        'let x = self as int + length as int; assert(w as int == if x > 0xffff_ffff_ffff_ffff { x - 0x1_0000_0000_0000_0000 } else { x }); '
        'vstd::arithmetic::div_mod::lemma_mod_multiples_vanish(-0x100_0000_0000_0000int, x, 0x100); '
        'vstd::arithmetic::div_mod::lemma_mod_multiples_vanish(-0x1_0000_0000_0000int, x, 0x10000); '
        'vstd::arithmetic::div_mod::lemma_mod_multiples_vanish(-0x1_0000_0000int, x, 0x1_0000_0000); '
        'vstd::arithmetic::div_mod::lemma_mod_multiples_vanish(-1int, x, 0x1_0000_0000_0000_0000); '
        'assert(0x100 * -0x100_0000_0000_0000int + x == x - 0x1_0000_0000_0000_0000); '
        'assert(0x10000 * -0x1_0000_0000_0000int + x == x - 0x1_0000_0000_0000_0000); '
        'assert(0x1_0000_0000 * -0x1_0000_0000int + x == x - 0x1_0000_0000_0000_0000); '
        'assert(0x1_0000_0000_0000_0000 * -1int + x == x - 0x1_0000_0000_0000_0000); }')])
    rau.own(['C01', 'C08'])
    sk.add('read::reader', rau)

    # ---- trait Reader: real text + contract layer
    reader = rds.item(r'^pub trait Reader: Debug \+ Clone', label='Reader')
    reader.drop(['to_slice', 'to_string', 'to_string_lossy', 'read_u8_array'])
    reader.check_delegates('skip_leb128', r'\{leb128::read::skip\(self\)\}')
    reader.check_delegates('read_uleb128', r'\{leb128::read::unsigned\(self\)\}')
    reader.check_delegates('read_uleb128_u16', r'\{leb128::read::u16\(self\)\}')
    reader.check_delegates('read_sleb128', r'\{leb128::read::signed\(self\)\}')
    reader.check_delegates('read_uleb128_u32', r'\{leb128::read::unsigned\(self\)\?\.try_into\(\)\.map_err\(\|_\|Error::BadUnsignedLeb128\)\}')
    reader.required(INT_READS)
    reader.required(LEB_DELEG, rule='R-DELEGATE')
    reader.required(['is_empty'], rule='R-EQ')
    reader.clean(offset=False)
    reader.insert_after('type Offset: ReaderOffset;', GHOST)
    reader.own(['C01'])
    fixed_read(reader, 'read_u8', 1, f'v == {O}.at(0)')
    fixed_read(reader, 'read_i8', 1, f'v as int == sext({O}.at(0) as nat, 8)')
    fixed_read(reader, 'read_u16', 2, f'v as nat == {O}.u(0, 2)')
    fixed_read(reader, 'read_i16', 2, f'v as int == {O}.s(0, 2)')
    fixed_read(reader, 'read_u32', 4, f'v as nat == {O}.u(0, 4)')
    fixed_read(reader, 'read_i32', 4, f'v as int == {O}.s(0, 4)')
    fixed_read(reader, 'read_u64', 8, f'v as nat == {O}.u(0, 8)')
    fixed_read(reader, 'read_i64', 8, f'v as int == {O}.s(0, 8)')
    fixed_read(reader, 'read_u128', 16, f'v as nat == {O}.u(0, 16)')
    fixed_read(reader, 'read_f32', 4, None)
    fixed_read(reader, 'read_f64', 8, None)
    reader.splice('read_uint', ret='res', requires=['[C09:read-uint-n] 1 <= n <= 8'], ensures=[
        f'[C09:fixed-consume] res is Ok ==> adv({O}, {F}, n as nat)',
        f'[C01:err-no-consume] res is Err ==> unch({O}, {F})',
        f'[C01:eof-exact] res is Err <==> {O}.len < n',
        f'[C09:fixed-value] res matches Ok(v) ==> v as nat == {O}.u(0, n as int)'])
    reader.splice('endian', ret='res', ensures=['res.big() == self.rv().be'])
    reader.splice('len', ret='res', ensures=['res.as_nat() == self.rv().len'])
    reader.splice('empty', ensures=[f'[C10:view] trunc({O}, {F}, 0)'])
    reader.splice('truncate', ret='res', ensures=[
        f'[C10:view] res is Ok ==> trunc({O}, {F}, len.as_nat())',
        f'[C01:err-no-consume] res is Err ==> unch({O}, {F})',
        f'[C01:eof-exact] res is Err <==> {O}.len < len.as_nat()'])
    reader.splice('skip', ret='res', ensures=[
        f'[C10:view] res is Ok ==> adv({O}, {F}, len.as_nat())',
        f'[C01:err-no-consume] res is Err ==> unch({O}, {F})',
        f'[C01:eof-exact] res is Err <==> {O}.len < len.as_nat()'])
    reader.splice('split', ret='res', ensures=[
        f'[C10:view] res matches Ok(r) ==> adv({O}, {F}, len.as_nat()) && window({O}, r.rv(), 0, len.as_nat())',
        f'[C01:err-no-consume] res is Err ==> unch({O}, {F})',
        f'[C01:eof-exact] res is Err <==> {O}.len < len.as_nat()'])
    reader.splice('find', ret='res', ensures=[
        'res matches Ok(i) ==> i.as_nat() < self.rv().len && self.rv().at(i.as_nat() as int) == byte && forall|j: int| 0 <= j < i.as_nat() ==> self.rv().at(j) != byte',
        'res is Err ==> forall|j: int| 0 <= j < self.rv().len ==> self.rv().at(j) != byte'])
    reader.splice('offset_from', ret='res', requires=['[C10:offset-from-pre] self.rv().root == base.rv().root && base.rv().start <= self.rv().start'],
                  ensures=['[C10:offset-from] res.as_nat() == self.rv().start - base.rv().start'])
    reader.splice('read_slice', ret='res', ensures=[
        f'res is Ok ==> adv({O}, {F}, old(buf)@.len()) && final(buf)@ == {O}.root.subrange({O}.start as int, ({O}.start + old(buf)@.len()) as int)',
        f'res is Err ==> unch({O}, {F})', 'final(buf)@.len() == old(buf)@.len()',
        f'res is Err <==> {O}.len < old(buf)@.len()'])
    # R-DELEGATE: LEB128 reads carry the spec of DESIGN A.1; proved on EndianSlice by Kani K-LEB (complete)
    LEBADV = f'{O}.leb_ok(0) && adv({O}, {F}, {O}.leb_len(0))'
    reader.splice('skip_leb128', ret='res', ensures=[
        f'[C09:leb-skip] res is Ok ==> {LEBADV}',
        f'[C01:frame] within({O}, {F})', f'res is Err ==> !{O}.leb_ok(0)'])
    reader.splice('read_uleb128', ret='res', ensures=[
        f'[C09:uleb-value] res matches Ok(v) ==> {LEBADV} && v as nat == {O}.uleb(0)',
        f'[C09:uleb-reject] res is Err ==> !{O}.leb_ok(0) || {O}.uleb(0) > u64::MAX || {O}.leb_len(0) > 10',
        f'[C01:frame] within({O}, {F})', f'{O}.leb_len(0) >= 1'])
    reader.splice('read_uleb128_u32', ret='res', ensures=[
        f'[C09:uleb-value] res matches Ok(v) ==> {LEBADV} && v as nat == {O}.uleb(0)',
        f'[C01:frame] within({O}, {F})', f'{O}.leb_len(0) >= 1'])
    reader.splice('read_uleb128_u16', ret='res', ensures=[
        f'[C09:uleb-value] res matches Ok(v) ==> {LEBADV} && v as nat == {O}.uleb(0)',
        f'[C01:frame] within({O}, {F})', f'{O}.leb_len(0) >= 1'])
    reader.splice('read_sleb128', ret='res', ensures=[
        f'[C09:sleb-value] res matches Ok(v) ==> {LEBADV} && v as int == {O}.sleb(0)',
        f'[C01:frame] within({O}, {F})', f'{O}.leb_len(0) >= 1'])
    reader.splice('is_empty', ret='res', ensures=['res == (self.rv().len == 0)'])
    # default methods verified with their real bodies
    reader.splice('read_null_terminated_slice', ret='res', ensures=[
        f'[C10:view] res matches Ok(r) ==> r.rv().len < {O}.len && {O}.at(r.rv().len as int) == 0 && (forall|j: int| 0 <= j < r.rv().len ==> {O}.at(j) != 0) && window({O}, r.rv(), 0, r.rv().len) && adv({O}, {F}, r.rv().len + 1)',
        f'[C01:eof-exact] res is Err <==> (forall|j: int| 0 <= j < {O}.len ==> {O}.at(j) != 0)',
        f'[C01:frame] within({O}, {F})'])
    reader.splice('read_initial_length', ret='res', ensures=[
        f'[C09:initial-length] res matches Ok(p) ==> ({{ let w = {O}.u(0, 4); '
        f'(w < 0xffff_fff0 ==> p.1 == Format::Dwarf32 && p.0.as_nat() == w && adv({O}, {F}, 4)) && '
        f'(w >= 0xffff_fff0 ==> w == 0xffff_ffff && p.1 == Format::Dwarf64 && p.0.as_nat() == {O}.u(4, 8) && adv({O}, {F}, 12)) }})',
        f'[C09:initial-length-reserved] {O}.len >= 4 && 0xffff_fff0 <= {O}.u(0, 4) < 0xffff_ffff ==> res is Err',
        f'[C09:initial-length-exact] res is Err <==> ({O}.len < 4 || (0xffff_fff0 <= {O}.u(0, 4) < 0xffff_ffff) || ({O}.u(0, 4) == 0xffff_ffff && ({O}.len < 12 || !Self::Offset::fits({O}.u(4, 8) as u64))))',
        f'[C01:frame] within({O}, {F})'])
    reader.splice('read_address_size', ret='res', ensures=[
        f'[C01:address-size-validated] res matches Ok(s) ==> valid_address_size(s) && s == {O}.at(0) && adv({O}, {F}, 1)',
        f'[C01:eof-exact] res is Err <==> ({O}.len < 1 || !valid_address_size({O}.at(0)))',
        f'[C01:frame] within({O}, {F})'])
    FUEL1 = 'proof { reveal_with_fuel(uint_le_at, 3); reveal_with_fuel(uint_be_at, 3); }'
    reader.splice('read_address', ret='res', before=[('match address_size {', FUEL1)], ensures=[
        f'[C09:address] res matches Ok(v) ==> valid_address_size(address_size) && adv({O}, {F}, address_size as nat) && v as nat == {O}.u(0, address_size as int)',
        '[C09:address-size-reject] !valid_address_size(address_size) ==> res is Err',
        f'[C01:eof-exact] valid_address_size(address_size) ==> (res is Err <==> {O}.len < address_size)',
        f'[C01:err-no-consume] res is Err ==> unch({O}, {F})'])
    WORD = f'adv({O}, {F}, word_size(format)) && v.as_nat() == {O}.u(0, word_size(format) as int)'
    for n in ['read_word', 'read_length', 'read_offset']:
        reader.splice(n, ret='res', ensures=[
            f'[C09:word] res matches Ok(v) ==> {WORD}',
            f'[C01:eof-exact] res is Err <==> ({O}.len < word_size(format) || (format == Format::Dwarf64 && !Self::Offset::fits({O}.u(0, 8) as u64)))',
            f'[C01:frame] within({O}, {F})'])
    reader.splice('read_sized_offset', ret='res', before=[('match size {', FUEL1)], ensures=[
        f'[C09:sized-offset] res matches Ok(v) ==> valid_address_size(size) && adv({O}, {F}, size as nat) && v.as_nat() == {O}.u(0, size as int)',
        '[C09:sized-offset-reject] !valid_address_size(size) ==> res is Err',
        f'[C01:eof-exact] valid_address_size(size) ==> (res is Err <==> ({O}.len < size || !Self::Offset::fits({O}.u(0, size as int) as u64)))',
        f'[C01:frame] within({O}, {F})'])
    sk.add('read::reader', reader)
    # R-CLONE: `x.clone()` on a reader is rewritten (per item, logged) to reader_clone(&x); the contract "a clone has the
    # same view" is an assumption about Reader implementations (derive(Clone)/Copy for the shipped readers; K-ESLICE/K-SUBRANGE)
    sk.add('read::reader', """
#[verifier::external_body]
pub fn reader_clone<R: Reader>(r: &R) -> (res: R)
    ensures res.rv() == r.rv()
{ r.clone() }
""", label='reader_clone')

    return sk


def build(ctx):
    sk = Skeleton(ctx, rd('prelude/crate.rs'))
    populate(ctx, sk)
    return sk
