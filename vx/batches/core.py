"""B-core: reader-core batch (DESIGN.md 5.1, 6 C01/C09/C10).

`trait Reader` (real text, ghost view + contracts spliced, real default bodies), `ReaderOffset for usize`,
`ReaderAddress for u64`, `leb128::read::*`, `EndianSlice`, `Error`, `common`, `dw!` constants.
Every other batch starts from `populate()`.
"""
import os
from lib import *

HERE = os.path.dirname(os.path.abspath(__file__))


def rd(name):
    return open(os.path.join(HERE, '..', name)).read()


# names of everything that is assumed (external_body / assume_specification) in this batch: the Verus TCB ledger
TRUSTED = [
    'verif_unreachable', 'core::result::Result::<T,E>::and_then',
    # EndianSlice: pointer-based methods (positional clauses are discharged by Kani K-ESLICE)
    'offset_from', 'offset_id', 'lookup_offset_id', 'find',
    # R-STUB: trait-required integer/LEB reads on EndianSlice (discharged by Kani K-PRIM / K-LEB)
    'read_u8', 'read_i8', 'read_u16', 'read_i16', 'read_u32', 'read_i32', 'read_u64', 'read_i64', 'read_u128',
    'read_f32', 'read_f64', 'read_uint', 'read_uleb128', 'read_uleb128_u32', 'read_uleb128_u16', 'read_sleb128',
    'skip_leb128',
]

DW_TYPES = ['DwUt', 'DwCfa', 'DwChildren', 'DwTag', 'DwAt', 'DwForm', 'DwAte', 'DwLle', 'DwDs', 'DwEnd', 'DwAccess',
            'DwVis', 'DwVirtuality', 'DwLang', 'DwAddr', 'DwId', 'DwCc', 'DwInl', 'DwOrd', 'DwDsc', 'DwIdx',
            'DwDefaulted', 'DwLns', 'DwLne', 'DwLnct', 'DwMacinfo', 'DwMacro', 'DwRle', 'DwOp', 'DwEhPe', 'DwSect', 'DwSectV2']

LEB_DELEG = ['skip_leb128', 'read_uleb128', 'read_uleb128_u32', 'read_uleb128_u16', 'read_sleb128']
INT_READS = ['read_u8', 'read_i8', 'read_u16', 'read_i16', 'read_u32', 'read_i32', 'read_u64', 'read_i64',
             'read_u128', 'read_f32', 'read_f64', 'read_uint']

GHOST = '''
    // ---- ghost view (contract layer)
    spec fn rv(&self) -> RView;
'''

def fixed_read(reader, name, n, val):
    ens = [f'[C09:fixed-consume][C10:view] res is Ok ==> adv(old(self).rv(), final(self).rv(), {n})',
           f'[C01:err-no-consume] res is Err ==> unch(old(self).rv(), final(self).rv())',
           f'[C01:eof-exact] res is Err <==> old(self).rv().bytes.len() < {n}']
    if val:
        ens.append(f'[C09:fixed-value] res matches Ok(v) ==> {val}')
    reader.splice(name, ret='res', ensures=ens)


def populate(ctx, sk, dw_types=None):
    common = Source('common.rs', ctx)
    rmod = Source('read/mod.rs', ctx)
    rds = Source('read/reader.rs', ctx)
    lb = Source('leb128.rs', ctx)
    es = Source('read/endian_slice.rs', ctx)

    sk.module('vspec', 'use vstd::arithmetic::power2::*;')
    sk.add('vspec', rd('specs/core.rs'), label='vspec')

    sk.module('common')
    for h in [r'^pub enum Format', r'^impl Format \{', r'^pub enum Vendor', r'^pub struct Encoding', r'^pub struct Register\(',
              r'^pub struct LineEncoding', r'^pub struct DebugAddrOffset', r'^pub struct DebugNamesOffset', r'^pub struct DebugAddrBase', r'^pub struct DebugAddrIndex', r'^pub struct DebugInfoOffset',
              r'^pub struct DebugAbbrevOffset', r'^pub struct DebugLineOffset', r'^pub struct DebugLineStrOffset',
              r'^pub struct LocationListsOffset', r'^pub struct DebugLocListsBase', r'^pub struct DebugLocListsIndex',
              r'^pub struct DebugMacinfoOffset', r'^pub struct DebugMacroOffset', r'^pub struct RawRangeListsOffset',
              r'^pub struct RangeListsOffset', r'^pub struct DebugRngListsBase', r'^pub struct DebugRngListsIndex',
              r'^pub struct DebugStrOffset', r'^pub struct DebugStrOffsetsBase', r'^pub struct DebugStrOffsetsIndex',
              r'^pub struct DebugTypesOffset', r'^pub struct DebugTypeSignature', r'^pub struct DebugFrameOffset',
              r'^pub struct EhFrameOffset', r'^pub struct UnitSectionOffset', r'^pub struct DwoId', r'^pub enum DwarfFileType',
              r'^pub struct DebugArangesOffset']:
        it = common.item(h).clean()
        sk.add('common', it)
    fmt = [c for c in sk.mods['common']['chunks'] if c[0].header_re == r'^impl Format \{'][0][0]
    fmt.splice('initial_length_size', ret='res', ensures=['res == (match self { Format::Dwarf32 => 4u8, Format::Dwarf64 => 12u8 })'])
    fmt.splice('word_size', ret='res', ensures=['res as nat == crate::vspec::word_size(self)'])
    fmt.own(['C01'])

    sk.module('constants')
    for t in (dw_types or DW_TYPES):
        sk.add('constants', dw_consts(ctx, t), label=t)

    sk.module('endianity', 'use core::fmt::Debug;')
    sk.add('endianity', '''
pub trait Endianity: Debug + Default + Clone + Copy + PartialEq + Eq {
    spec fn big(self) -> bool;
    fn is_big_endian(self) -> (r: bool) ensures r == self.big();
}
''', label='Endianity')

    # ---- leb128
    sk.module('leb128')
    sk.add('leb128', lb.item(r'^const CONTINUATION_BIT').clean())
    sk.add('leb128', lb.item(r'^const SIGN_BIT').clean())
    low = lb.item(r'^fn low_bits_of_byte').clean()
    low.splice('low_bits_of_byte', ret='res', ensures=['res == byte & 0x7f', 'res < 128'],
               before=[('byte & !CONTINUATION_BIT', 'proof { assert(byte & !(1u8 << 7) == byte & 0x7f) by (bit_vector); assert(byte & 0x7f < 128) by (bit_vector); }')],
               owners=['C01', 'C09'])
    sk.add('leb128', low)
    lr = lb.item(r'^pub mod read \{', label='read').clean()
    lr.insert_after('pub mod read {', '\n    use vstd::prelude::*;\n    use crate::read::reader::*;\n    use crate::vspec::*;\n    broadcast use crate::vspec::group_seq_views;\n')
    PROG = '[C01:leb-progress] res is Ok ==> final(r).rv().bytes.len() < old(r).rv().bytes.len()'
    FRAME = '[C01:frame] within(old(r).rv(), final(r).rv())'
    lr.splice('skip', ret='res', ensures=[PROG, FRAME],
              loops={0: 'invariant within(old(r).rv(), r.rv()),\n decreases r.rv().bytes.len()'}, owners=['C01', 'C09'])
    BV = ('proof { assert(1u8 << 7 == 0x80u8) by (bit_vector); assert(1u8 << 6 == 0x40u8) by (bit_vector); '
          'assert(byte == 0u8 || byte == 1u8 ==> byte & 0x80u8 == 0u8) by (bit_vector); '
          'assert(byte == 0u8 || byte == 0x7fu8 ==> byte & 0x80u8 == 0u8) by (bit_vector); }')
    lr.splice('unsigned', ret='res', ensures=[PROG, FRAME],
              loops={0: 'invariant_except_break within(old(r).rv(), r.rv()), r.rv().bytes.len() < old(r).rv().bytes.len(), 7 <= shift <= 63, shift % 7 == 0, \n ensures false, decreases 70 - shift'},
              before=[('shift += 7;', BV)], owners=['C01', 'C09'])
    lr.splice('signed', ret='res', ensures=[PROG, FRAME],
              loops={0: 'invariant_except_break within(old(r).rv(), r.rv()), 0 <= shift <= 63, shift % 7 == 0,\n ensures within(old(r).rv(), r.rv()), r.rv().bytes.len() < old(r).rv().bytes.len(), 7 <= shift <= 70, shift % 7 == 0, decreases 70 - shift'},
              before=[('shift += 7;', BV)], owners=['C01', 'C09'])
    lr.splice('u16', ret='res', ensures=[PROG, FRAME],
              before=[('result += u16::from(byte) << 14;', 'proof { assert(byte <= 3u8 ==> (byte as u16) << 14u16 <= 0xc000u16) by (bit_vector); assert(forall|a: u16, b: u16| a < 128 && b < 128 ==> (a | (b << 7u16)) < 0x4000u16) by (bit_vector); }')],
              owners=['C01', 'C09'])
    sk.add('leb128', lr)

    # ---- read
    sk.module('read', '''use core::result;
use core::fmt;
use crate::constants;
use crate::common::*;
pub use self::reader::*;
pub use self::endian_slice::*;
pub type Result<T> = result::Result<T, Error>;''')
    sk.add('read', rmod.item(r'^pub enum Error \{').clean())
    sk.add('read', rmod.item(r'^impl Register \{').clean().own(['C01']))

    sk.module('read::reader', '''use core::fmt::Debug;
use core::hash::Hash;
use core::ops::{Add, AddAssign, Sub};
use core::convert::TryInto;
use crate::common::Format;
use crate::endianity::Endianity;
use crate::leb128;
use crate::read::{Error, Result};
use crate::vspec::*;
use vstd::arithmetic::power2::*;
broadcast use crate::vspec::group_seq_views;''')
    sk.add('read::reader', rds.item(r'^pub struct ReaderOffsetId').clean())
    rot = rds.item(r'^pub trait ReaderOffset:', label='ReaderOffset').clean()
    rot.insert_members('    spec fn as_nat(self) -> nat;')
    rot.splice('from_u8', ret='res', ensures=['res.as_nat() == offset'])
    rot.splice('from_u16', ret='res', ensures=['res.as_nat() == offset'])
    rot.splice('from_u32', ret='res', ensures=['res.as_nat() == offset'])
    rot.splice('from_u64', ret='res', ensures=['[C01:checked-width] res matches Ok(o) ==> o.as_nat() == offset', 'offset <= 0xffff_ffff ==> res is Ok'])
    rot.splice('into_u64', ret='res', ensures=['res == self.as_nat()'])
    sk.add('read::reader', rot)
    rou = rds.item(r'^impl ReaderOffset for usize', label='ReaderOffset for usize').clean()
    rou.insert_members('    open spec fn as_nat(self) -> nat { self as nat }')
    rou.own(['C01', 'C09'])
    sk.add('read::reader', rou)

    VAS = 'valid_address_size(size)'
    rat = rds.item(r'^pub\(crate\) trait ReaderAddress', label='ReaderAddress').clean()
    rat.insert_members('    spec fn val(self) -> u64;')
    rat.splice('add_sized', ret='res', requires=[VAS], ensures=[
        '[C01:checked-address][C04:add-sized][C08:add-sized] res matches Ok(a) ==> a.val() == self.val() + length && a.val() <= ones(size)',
        '[C01:checked-address][C04:add-sized][C08:add-sized] res is Err <==> self.val() + length > ones(size)'])
    rat.splice('wrapping_add_sized', ret='res', requires=[VAS], ensures=[
        '[C08:wrapping-add] res.val() == (self.val() as int + length as int) % (ones(size) as int + 1)'])
    rat.splice('zeros', ret='res', ensures=['res.val() == 0'])
    rat.splice('ones_sized', ret='res', requires=[VAS], ensures=['[C08:ones] res.val() == ones(size)'])
    rat.splice('min_tombstone', ret='res', requires=[VAS], ensures=['[C08:min-tombstone] res.val() == ones(size) - 1'],
               before=[('Self::zeros()', 'proof { assert((-2i64) as u64 == 0xffff_ffff_ffff_fffeu64) by (bit_vector); assert(0xffff_ffff_ffff_fffeint % 0x100 == 0xfe); assert(0xffff_ffff_ffff_fffeint % 0x10000 == 0xfffe); assert(0xffff_ffff_ffff_fffeint % 0x1_0000_0000 == 0xffff_fffe); assert(0xffff_ffff_ffff_fffeint % 0x1_0000_0000_0000_0000 == 0xffff_ffff_ffff_fffe); }')])
    rat.own(['C01', 'C08'])
    sk.add('read::reader', rat)
    rau = rds.item(r'^impl ReaderAddress for u64', label='ReaderAddress for u64').clean()
    rau.insert_members('    open spec fn val(self) -> u64 { self }')
    rau.splice('ones_sized', before=[('!0 >> (64 - size * 8)', 'proof { assert(!0u64 >> 56u64 == 0xff) by (bit_vector); assert(!0u64 >> 48u64 == 0xffff) by (bit_vector); assert(!0u64 >> 32u64 == 0xffff_ffff) by (bit_vector); assert(!0u64 >> 0u64 == 0xffff_ffff_ffff_ffff) by (bit_vector); }')])
    MASK_BV = ('proof { assert(address & !0xffu64 == 0 <==> address <= 0xffu64) by (bit_vector); assert(address & !0xffffu64 == 0 <==> address <= 0xffffu64) by (bit_vector); '
               'assert(address & !0xffff_ffffu64 == 0 <==> address <= 0xffff_ffffu64) by (bit_vector); assert(address & !0xffff_ffff_ffff_ffffu64 == 0) by (bit_vector); }')
    rau.splice('add_sized', before=[('if address & !mask != 0 {', MASK_BV)])
    rau.splice('wrapping_add_sized', before=[('self.wrapping_add(length) & mask', 'proof { let w = self.wrapping_add(length); assert(w & 0xffu64 == w % 0x100u64) by (bit_vector); assert(w & 0xffffu64 == w % 0x10000u64) by (bit_vector); assert(w & 0xffff_ffffu64 == w % 0x1_0000_0000u64) by (bit_vector); assert(w & 0xffff_ffff_ffff_ffffu64 == w) by (bit_vector); '
        'let x = self as int + length as int; assert(w as int == if x > 0xffff_ffff_ffff_ffff { x - 0x1_0000_0000_0000_0000 } else { x }); '
        'assert((x - 0x1_0000_0000_0000_0000) % 0x100 == x % 0x100); assert((x - 0x1_0000_0000_0000_0000) % 0x10000 == x % 0x10000); assert((x - 0x1_0000_0000_0000_0000) % 0x1_0000_0000 == x % 0x1_0000_0000); assert((x - 0x1_0000_0000_0000_0000) % 0x1_0000_0000_0000_0000 == x % 0x1_0000_0000_0000_0000); }')])
    rau.own(['C01', 'C08'])
    sk.add('read::reader', rau)

    # ---- trait Reader: real text + contract layer
    reader = rds.item(r'^pub trait Reader: Debug \+ Clone', label='Reader')
    reader.drop(['to_slice', 'to_string', 'to_string_lossy', 'read_u8_array'])
    reader.check_delegates('skip_leb128', r'\{leb128::read::skip\(self\)\}')
    reader.check_delegates('read_uleb128', r'\{leb128::read::unsigned\(self\)\}')
    reader.check_delegates('read_uleb128_u16', r'\{leb128::read::u16\(self\)\}')
    reader.check_delegates('read_sleb128', r'\{leb128::read::signed\(self\)\}')
    reader.check_delegates('read_uleb128_u32', r'\{leb128::read::unsigned\(self\)\?\.try_into\(\)\.map_err\(\|_\|Error::BadUnsignedLeb128\)\}')
    reader.required(INT_READS)
    reader.required(LEB_DELEG, rule='R-DELEGATE')
    reader.required(['is_empty'], rule='R-EQ')
    reader.clean(offset=False)
    reader.insert_after('type Offset: ReaderOffset;', GHOST)
    reader.own(['C01'])
    fixed_read(reader, 'read_u8', 1, 'v == old(self).rv().bytes[0]')
    fixed_read(reader, 'read_i8', 1, 'v as int == sext(old(self).rv().bytes[0] as nat, 8)')
    fixed_read(reader, 'read_u16', 2, 'v as nat == uint_of(old(self).rv().bytes.take(2), old(self).rv().be)')
    fixed_read(reader, 'read_i16', 2, 'v as int == sext(uint_of(old(self).rv().bytes.take(2), old(self).rv().be), 16)')
    fixed_read(reader, 'read_u32', 4, 'v as nat == uint_of(old(self).rv().bytes.take(4), old(self).rv().be)')
    fixed_read(reader, 'read_i32', 4, 'v as int == sext(uint_of(old(self).rv().bytes.take(4), old(self).rv().be), 32)')
    fixed_read(reader, 'read_u64', 8, 'v as nat == uint_of(old(self).rv().bytes.take(8), old(self).rv().be)')
    fixed_read(reader, 'read_i64', 8, 'v as int == sext(uint_of(old(self).rv().bytes.take(8), old(self).rv().be), 64)')
    fixed_read(reader, 'read_u128', 16, 'v as nat == uint_of(old(self).rv().bytes.take(16), old(self).rv().be)')
    fixed_read(reader, 'read_f32', 4, None)
    fixed_read(reader, 'read_f64', 8, None)
    reader.splice('read_uint', ret='res', requires=['[C09:read-uint-n] 1 <= n <= 8'], ensures=[
        '[C09:fixed-consume] res is Ok ==> adv(old(self).rv(), final(self).rv(), n as nat)',
        '[C01:err-no-consume] res is Err ==> unch(old(self).rv(), final(self).rv())',
        '[C01:eof-exact] res is Err <==> old(self).rv().bytes.len() < n',
        '[C09:fixed-value] res matches Ok(v) ==> v as nat == uint_of(old(self).rv().bytes.take(n as int), old(self).rv().be)'])
    reader.splice('endian', ret='res', ensures=['res.big() == self.rv().be'])
    reader.splice('len', ret='res', ensures=['res.as_nat() == self.rv().bytes.len()'])
    reader.splice('empty', ensures=['final(self).rv().bytes.len() == 0', 'final(self).rv().be == old(self).rv().be',
                                    'final(self).rv().tracks == old(self).rv().tracks', 'final(self).rv().sec == old(self).rv().sec'])
    reader.splice('truncate', ret='res', ensures=[
        '[C10:view] res is Ok ==> window(old(self).rv(), final(self).rv(), 0, len.as_nat())',
        '[C01:err-no-consume] res is Err ==> unch(old(self).rv(), final(self).rv())',
        '[C01:eof-exact] res is Err <==> old(self).rv().bytes.len() < len.as_nat()'])
    reader.splice('skip', ret='res', ensures=[
        '[C10:view] res is Ok ==> adv(old(self).rv(), final(self).rv(), len.as_nat())',
        '[C01:err-no-consume] res is Err ==> unch(old(self).rv(), final(self).rv())',
        '[C01:eof-exact] res is Err <==> old(self).rv().bytes.len() < len.as_nat()'])
    reader.splice('split', ret='res', ensures=[
        '[C10:view] res matches Ok(r) ==> adv(old(self).rv(), final(self).rv(), len.as_nat()) && window(old(self).rv(), r.rv(), 0, len.as_nat())',
        '[C01:err-no-consume] res is Err ==> unch(old(self).rv(), final(self).rv())',
        '[C01:eof-exact] res is Err <==> old(self).rv().bytes.len() < len.as_nat()'])
    reader.splice('find', ret='res', ensures=[
        'res matches Ok(i) ==> i.as_nat() < self.rv().bytes.len() && self.rv().bytes[i.as_nat() as int] == byte && forall|j: int| 0 <= j < i.as_nat() ==> self.rv().bytes[j] != byte',
        'res is Err ==> forall|j: int| 0 <= j < self.rv().bytes.len() ==> self.rv().bytes[j] != byte'])
    reader.splice('offset_from', ret='res', requires=['self.rv().tracks ==> base.rv().tracks && self.rv().sec == base.rv().sec && base.rv().pos <= self.rv().pos'],
                  ensures=['[C10:offset-from] self.rv().tracks ==> res.as_nat() == self.rv().pos - base.rv().pos'])
    reader.splice('read_slice', ret='res', ensures=[
        'res is Ok ==> adv(old(self).rv(), final(self).rv(), old(buf)@.len()) && final(buf)@ == old(self).rv().bytes.take(old(buf)@.len() as int)',
        'res is Err ==> unch(old(self).rv(), final(self).rv())', 'final(buf)@.len() == old(buf)@.len()',
        'res is Err <==> old(self).rv().bytes.len() < old(buf)@.len()'])
    # R-DELEGATE: LEB128 reads carry the spec of DESIGN A.1; proved on EndianSlice by Kani K-LEB (complete)
    reader.splice('skip_leb128', ret='res', ensures=[
        '[C09:leb-skip] res is Ok ==> leb_terminated(old(self).rv().bytes) && adv(old(self).rv(), final(self).rv(), leb_len(old(self).rv().bytes))',
        '[C01:frame] within(old(self).rv(), final(self).rv())', 'res is Err ==> !leb_terminated(old(self).rv().bytes)'])
    reader.splice('read_uleb128', ret='res', ensures=[
        '[C09:uleb-value] res matches Ok(v) ==> leb_terminated(old(self).rv().bytes) && adv(old(self).rv(), final(self).rv(), leb_len(old(self).rv().bytes)) && v as nat == uleb_value(old(self).rv().bytes)',
        '[C09:uleb-reject] res is Err ==> !leb_terminated(old(self).rv().bytes) || uleb_value(old(self).rv().bytes) > u64::MAX || leb_len(old(self).rv().bytes) > 10',
        '[C01:frame] within(old(self).rv(), final(self).rv())', 'leb_len(old(self).rv().bytes) >= 1'])
    reader.splice('read_uleb128_u32', ret='res', ensures=[
        '[C09:uleb-value] res matches Ok(v) ==> leb_terminated(old(self).rv().bytes) && adv(old(self).rv(), final(self).rv(), leb_len(old(self).rv().bytes)) && v as nat == uleb_value(old(self).rv().bytes)',
        '[C01:frame] within(old(self).rv(), final(self).rv())', 'leb_len(old(self).rv().bytes) >= 1'])
    reader.splice('read_uleb128_u16', ret='res', ensures=[
        '[C09:uleb-value] res matches Ok(v) ==> leb_terminated(old(self).rv().bytes) && adv(old(self).rv(), final(self).rv(), leb_len(old(self).rv().bytes)) && v as nat == uleb_value(old(self).rv().bytes)',
        '[C01:frame] within(old(self).rv(), final(self).rv())', 'leb_len(old(self).rv().bytes) >= 1'])
    reader.splice('read_sleb128', ret='res', ensures=[
        '[C09:sleb-value] res matches Ok(v) ==> leb_terminated(old(self).rv().bytes) && adv(old(self).rv(), final(self).rv(), leb_len(old(self).rv().bytes)) && v as int == sleb_value(old(self).rv().bytes)',
        '[C01:frame] within(old(self).rv(), final(self).rv())', 'leb_len(old(self).rv().bytes) >= 1'])
    reader.splice('is_empty', ret='res', ensures=['res == (self.rv().bytes.len() == 0)'])
    # default methods verified with their real bodies
    reader.splice('read_null_terminated_slice', ret='res', ensures=[
        '[C10:view] res matches Ok(r) ==> exists|n: nat| #![auto] n < old(self).rv().bytes.len() && old(self).rv().bytes[n as int] == 0 && (forall|j: int| 0 <= j < n ==> old(self).rv().bytes[j] != 0) && window(old(self).rv(), r.rv(), 0, n) && adv(old(self).rv(), final(self).rv(), n + 1)',
        '[C01:frame] within(old(self).rv(), final(self).rv())'])
    reader.splice('read_initial_length', ret='res', ensures=[
        '[C09:initial-length] res matches Ok(p) ==> ({ let w = uint_of(old(self).rv().bytes.take(4), old(self).rv().be); '
        '(w < 0xffff_fff0 ==> p.1 == Format::Dwarf32 && p.0.as_nat() == w && adv(old(self).rv(), final(self).rv(), 4)) && '
        '(w >= 0xffff_fff0 ==> w == 0xffff_ffff && p.1 == Format::Dwarf64 && p.0.as_nat() == uint_of(old(self).rv().bytes.subrange(4, 12), old(self).rv().be) && adv(old(self).rv(), final(self).rv(), 12)) })',
        '[C09:initial-length-reserved] old(self).rv().bytes.len() >= 4 && 0xffff_fff0 <= uint_of(old(self).rv().bytes.take(4), old(self).rv().be) < 0xffff_ffff ==> res is Err',
        '[C01:frame] within(old(self).rv(), final(self).rv())'])
    reader.splice('read_address_size', ret='res', ensures=[
        '[C01:address-size-validated] res matches Ok(s) ==> valid_address_size(s) && s == old(self).rv().bytes[0] && adv(old(self).rv(), final(self).rv(), 1)',
        '[C01:frame] within(old(self).rv(), final(self).rv())'])
    reader.splice('read_address', ret='res', before=[('match address_size {', 'proof { reveal_with_fuel(uint_le, 3); reveal_with_fuel(uint_be, 3); }')], ensures=[
        '[C09:address] res matches Ok(v) ==> valid_address_size(address_size) && adv(old(self).rv(), final(self).rv(), address_size as nat) && v as nat == uint_of(old(self).rv().bytes.take(address_size as int), old(self).rv().be)',
        '[C09:address-size-reject] !valid_address_size(address_size) ==> res is Err',
        '[C01:err-no-consume] res is Err ==> unch(old(self).rv(), final(self).rv())'])
    WORD = 'adv(old(self).rv(), final(self).rv(), word_size(format)) && v.as_nat() == uint_of(old(self).rv().bytes.take(word_size(format) as int), old(self).rv().be)'
    for n in ['read_word', 'read_length', 'read_offset']:
        reader.splice(n, ret='res', ensures=[
            f'[C09:word] res matches Ok(v) ==> {WORD}',
            '[C01:frame] within(old(self).rv(), final(self).rv())'])
    reader.splice('read_sized_offset', ret='res', before=[('match size {', 'proof { reveal_with_fuel(uint_le, 3); reveal_with_fuel(uint_be, 3); }')], ensures=[
        '[C09:sized-offset] res matches Ok(v) ==> valid_address_size(size) && adv(old(self).rv(), final(self).rv(), size as nat) && v.as_nat() == uint_of(old(self).rv().bytes.take(size as int), old(self).rv().be)',
        '[C09:sized-offset-reject] !valid_address_size(size) ==> res is Err',
        '[C01:frame] within(old(self).rv(), final(self).rv())'])
    sk.add('read::reader', reader)

    # ---- EndianSlice
    sk.module('read::endian_slice', '''use core::fmt;
use core::ops::{Deref, Range, RangeFrom, RangeTo};
use core::str;
use crate::endianity::Endianity;
use crate::read::{Error, Reader, ReaderOffsetId, Result};
use crate::read::reader::*;
use crate::vspec::*;
broadcast use crate::vspec::group_seq_views;''')
    ess = es.item(r'^pub struct EndianSlice<', label='EndianSlice').clean()
    ess.prepend('#[derive(Debug)]')
    sk.add('read::endian_slice', ess)
    esi = es.item(r"^impl<'input, Endian> EndianSlice<'input, Endian>", label='EndianSlice(inherent)')
    esi.drop(['to_string', 'to_string_lossy', 'find', 'offset_from', 'split_at'])
    esi.clean()
    esi.own(['C01', 'C10'])
    esi.splice('new', ret='res', ensures=['res.rv().bytes == slice@', 'res.rv().be == endian.big()'])
    esi.splice('slice', ret='res', ensures=['[C10:view] res@ == self.rv().bytes'])
    esi.splice('read_slice', ret='res', ensures=[
        '[C10:view] res matches Ok(v) ==> old(self).slice@.len() >= len && v@ == old(self).slice@.take(len as int) && final(self).slice@ == old(self).slice@.skip(len as int) && final(self).endian == old(self).endian',
        '[C01:bounds] res is Err ==> final(self).slice@ == old(self).slice@ && final(self).endian == old(self).endian && old(self).slice@.len() < len',
        'res is Err <==> old(self).slice@.len() < len'], canary=True)
    sk.add('read::endian_slice', esi)
    esr = es.item(r"^impl<'input, Endian> Reader for EndianSlice<'input, Endian>", label='Reader for EndianSlice')
    esr.drop(['to_slice', 'to_string', 'to_string_lossy'])
    esr.extbody(['offset_from', 'offset_id', 'lookup_offset_id', 'find'])
    esr.clean(offset=False)
    esr.own(['C01', 'C10'])
    VIEW = '''
    closed spec fn rv(&self) -> RView { RView { bytes: self.slice@, be: self.endian.big(), tracks: false, sec: 0, pos: 0 } }
'''
    sigs = {'read_u8': 'u8', 'read_i8': 'i8', 'read_u16': 'u16', 'read_i16': 'i16', 'read_u32': 'u32', 'read_i32': 'i32',
            'read_u64': 'u64', 'read_i64': 'i64', 'read_u128': 'u128', 'read_f32': 'f32', 'read_f64': 'f64',
            'read_uleb128': 'u64', 'read_uleb128_u32': 'u32', 'read_uleb128_u16': 'u16', 'read_sleb128': 'i64', 'skip_leb128': '()'}
    STUBS = ''
    for nm, ty in sigs.items():
        STUBS += f'    #[verifier::external_body]\n    fn {nm}(&mut self) -> Result<{ty}> {{ unimplemented!() }}\n'
        ctx.extbody.append(f'read/endian_slice.rs:Reader for EndianSlice::{nm} [R-STUB]')
    STUBS += '    #[verifier::external_body]\n    fn read_uint(&mut self, n: usize) -> Result<u64> { unimplemented!() }\n'
    ctx.extbody.append('read/endian_slice.rs:Reader for EndianSlice::read_uint [R-STUB]')
    ctx.count('R-STUB', len(sigs) + 1)
    esr.insert_after('type Offset = usize;', VIEW + STUBS)
    sk.add('read::endian_slice', esr)
    return sk


def build(ctx):
    sk = Skeleton(ctx, rd('prelude/crate.rs'))
    populate(ctx, sk)
    return sk
