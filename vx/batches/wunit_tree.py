"""B-wunit_tree: the entry ARENA of a written unit as a FOREST - tree building and tree reshaping (DESIGN.md 6 C11 "reads
back as the same forest", C15 "entry references: ULEB unit offsets need already-known offsets", reorder_base_types).

Build = core.populate; wcore.populate; wunit.populate(findings=False, part2=False) [types, ids, ghost accessors; wunit.py
itself untouched]; populate (this file).   Source: /repo/src/write/unit.rs.   Ghost specs: vx/specs/wunit_tree.rs.
wunit / wunit_layout verify the emission UNDER the assumption A-TREE ("the construction API gives a tree").  This batch puts
the construction API itself under contract: the data-structure invariant `wf_tree` and that every mutator preserves it.

wf_tree(u) (specs/wunit_tree.rs): root index in range, root has no parent, entries.len() <= reserved, and for every entry i:
  id == (unit base, i) [dense ids]; every child id is of this unit, in range, and the child's PARENT LINK POINTS BACK to i;
  no child listed twice; a parent link names an entry of the arena.   lemma_unique_occurrence [C11:tree-wf]: hence an entry
  occurs in at most one children list, at most once, and the root in none.

FUNCTIONS UNDER CONTRACT (real text, owned by C11; reorder_base_types by C11 + C15)
  write::Unit::{count, root, reserve, add_reserved, add, get, get_mut, reorder_base_types}
  write::DebuggingInformationEntry::{new_reserved, id, parent, tag, sibling, set_sibling}
  UnitEntryId::new (define_id!; contract added to wunit's item, ghost text only, X-CONTRACT)
  proof fns: lemma_unique_occurrence, lemma_partition_perm, lemma_perm_nodup, lemma_filter_elems, lemma_cnt_*,
             lemma_set_spec [C11:attr-set-unique], lemma_del_spec [C11:attr-delete]  (about the ASSUMED contracts below)
CONTRACTS
  reserve        returns (base, old reserved); reserved + 1; arena untouched; wf kept                      [C11:add-fresh-id][C11:tree-wf]
  add_reserved   requires wf, child is_unadded (documented "Panics if child is not a reserved entry": the two
                 debug_assert_eq! are obligations), parent is a materialised entry (documented "Panics if parent is invalid")
                 arena filled with BLANK entries (id == index) up to `reserved`                             [C11:add-fresh-id]
                 entries[child] has id child, parent link == parent, the tag, still no attrs / children     [C11:add-fresh-id]
                 parent's children == old children . child (appended LAST, to exactly that parent)          [C11:add-appends-last]
                 every other old entry is unchanged; the parent changes in its children only                [C11:add-appends-last]
                 wf kept                                                                                    [C11:tree-wf]
  add            the same for a fresh id: res == (base, old reserved) == index of the LAST entry of the arena [C11:add-fresh-id]
  get / get_mut  requires id of this unit and in range; the entry at that index; get_mut updates only it    [C11:tree-access]
  reorder_base_types  root's children == stable partition: all DW_TAG_base_type (0x24) children in their original
                 order, then all others in theirs (wunit's filter_by)                                      [C15:base-types-first]
                 the new list is a PERMUTATION of the old one (same length, same occurrence count per id)    [C15:reorder-permutation]
                 no other entry changes, root changes in its children only, len/root/reserved/base same      [C11:reorder-frame]
                 wf kept                                                                                    [C11:tree-wf]
  set_sibling    only the sibling flag changes                                                              [C11:sibling-flag]
ASSUMED (TRUSTED beyond wunit's): closures over iterators are outside Verus (R-EXTBODY; a rewrite to a loop would change the
  verified text), contract ASSUMED, body not verified:
  DebuggingInformationEntry::set          (`iter_mut().find(closure)`)  attrs become set_spec: value of the FIRST attribute
                                          of that name replaced in place, else appended; everything else unchanged
  DebuggingInformationEntry::delete       (`retain(closure)`)           attrs become del_spec (filter name != n, order kept)
  DebuggingInformationEntry::delete_child (`retain(closure)`)           children become filter_by(child != id); rest unchanged
  DebuggingInformationEntry::get          (`iter().find(closure).map`)  value of the first attribute of that name / None
  On top of these ASSUMED contracts the spec-level consequences are PROVED: lemma_set_spec (uniqueness of names kept, the
  value is set, other attributes keep value and position) and lemma_del_spec (no attribute of that name remains).
  unsafe impl Structural for UnitEntryId (wcore.ensure_structural: `==` of the derived PartialEq on the struct { BaseId, usize }
  is structural; needed for the R-ASSERT obligation debug_assert_eq!(entry.parent, None)).
SELF-TEST (scratch copies, each verified function re-run): second loop of reorder dropping children -> loop invariant
  [C15:base-types-first]; child pushed to the root's list -> [C11:add-appends-last] + [C11:tree-wf]; id = reserved + 1 ->
  [C11:add-fresh-id] + [C11:tree-wf] (reserve); reorder also clearing another entry's children -> [C11:reorder-frame] +
  [C11:tree-wf]; parent link := child -> [C11:add-fresh-id] + [C11:tree-wf].  A mutation OF a statement used as a ghost anchor
  (the two `if ... tag ==/!= DW_TAG_base_type {` lines, the final assignment of reorder, the push of add_reserved) is reported
  as a lost anchor (exit 2), not silently accepted.  `set` appending a duplicate is NOT detectable: its body is not verified.
PRECONDITIONS about the caller: `nreserved < usize::MAX` on reserve/add (A-FIT: 2^64 ids); those documented as panics above.
NOT DECIDED  Unit::new (establishes wf_tree; LineProgram/RangeListTable/BaseId::default are outside the projection);
  ACYCLICITY of parts detached from the root (wf_tree makes the part reachable from the root a tree: unique parents + root
  without parent; a cycle among detached entries needs add_reserved(c, p) with p reserved-but-not-added, which the
  documentation forbids; proving it needs a ghost rank - not done); that delete_child preserves wf_tree at Unit level (the
  method is on the entry, the arena is not in scope; with the assumed contract it follows from filter_by being a sub-list);
  DebuggingInformationEntry::get_mut, attrs, attrs_mut, children (iterators), reserve (Vec::reserve);
  in RELEASE builds the debug_assert_eq! of add_reserved vanish: adding the same reserved id twice gives it two parents.
FINDINGS none.
"""
from lib import *
from batches import core, wcore, wunit

# wunit.populate(part2=False) does not emit drain_fixups / usize::from(bool) ('get' is already in wunit's list by bare name)
TRUSTED = [t for t in wunit.TRUSTED if t not in ('drain_fixups', '<usize as core::convert::From<bool>>::from')] + ['set', 'delete', 'delete_child']
VERUS_ARGS = ['--rlimit', '40']
RETRY_RLIMIT = 120
OWN = ['C11']

O = 'old(self)'
F = 'final(self)'

ATTR_SPECS = '''
// ---- attribute list operations (the ASSUMED contracts of set / delete are stated with these)
pub closed spec fn mk_attr(name: constants::DwAt, value: AttributeValue) -> Attribute { Attribute { name, value } }

/// index of the first attribute named `name` at or after k; -1 if none
pub open spec fn first_named(a: Seq<Attribute>, name: constants::DwAt, k: int) -> int
    decreases a.len() - k
{
    if k < 0 || k >= a.len() { -1 } else if a[k].aname() == name { k } else { first_named(a, name, k + 1) }
}

pub open spec fn set_spec(a: Seq<Attribute>, name: constants::DwAt, v: AttributeValue) -> Seq<Attribute> {
    let i = first_named(a, name, 0);
    if i >= 0 { a.update(i, mk_attr(name, v)) } else { a.push(mk_attr(name, v)) }
}

pub open spec fn del_spec(a: Seq<Attribute>, name: constants::DwAt) -> Seq<Attribute> {
    filter_by(a, |x: Attribute| x.aname() != name, a.len() as int)
}

pub proof fn lemma_first_named(a: Seq<Attribute>, name: constants::DwAt, k: int)
    requires 0 <= k
    ensures ({ let i = first_named(a, name, k);
        (i >= 0 ==> k <= i < a.len() && a[i].aname() == name && forall|m: int| k <= m < i ==> a[m].aname() != name)
        && (i < 0 ==> forall|m: int| k <= m < a.len() ==> a[m].aname() != name) })
    decreases a.len() - k
{
    if k < a.len() && a[k].aname() != name { lemma_first_named(a, name, k + 1); }
}

/// [C11:attr-set-unique] consequences of the assumed contract of `set`
pub proof fn lemma_set_spec(a: Seq<Attribute>, name: constants::DwAt, v: AttributeValue)
    requires attrs_unique(a)
    ensures ({ let b = set_spec(a, name, v);
        attrs_unique(b) // [C11:attr-set-unique]
        && (exists|i: int| 0 <= i < b.len() && b[i].aname() == name && b[i].aval() == v) // [C11:attr-set-unique]
        && a.len() <= b.len() <= a.len() + 1
        && (b.len() == a.len() + 1 <==> forall|m: int| 0 <= m < a.len() ==> a[m].aname() != name) // [C11:attr-set-unique]
        && (forall|m: int| 0 <= m < a.len() && a[m].aname() != name ==> b[m] == a[m]) }) // [C11:attr-set-unique]
{
    lemma_first_named(a, name, 0);
    let i = first_named(a, name, 0);
    let b = set_spec(a, name, v);
    if i >= 0 { assert(b[i].aname() == name && b[i].aval() == v); } else { assert(b[a.len() as int].aname() == name && b[a.len() as int].aval() == v); }
}

/// [C11:attr-delete] consequences of the assumed contract of `delete`: no attribute of that name remains, every remaining
/// attribute was there (the order is that of filter_by: the original one)
pub proof fn lemma_del_spec(a: Seq<Attribute>, name: constants::DwAt, n: int)
    requires 0 <= n <= a.len()
    ensures ({ let b = filter_by(a, |x: Attribute| x.aname() != name, n);
        b.len() <= n
        && (forall|j: int| 0 <= j < b.len() ==> (#[trigger] b[j]).aname() != name) // [C11:attr-delete]
        && ((forall|m: int| 0 <= m < n ==> a[m].aname() != name) ==> b == a.take(n)) }) // [C11:attr-delete]
    decreases n
{
    if n > 0 {
        lemma_del_spec(a, name, n - 1);
        let p = |x: Attribute| x.aname() != name;
        assert(p(a[n - 1]) == (a[n - 1].aname() != name));
        if forall|m: int| 0 <= m < n ==> a[m].aname() != name {
            assert(filter_by(a, p, n) =~= a.take(n - 1).push(a[n - 1]));
            assert(a.take(n) =~= a.take(n - 1).push(a[n - 1]));
        }
    } else {
        assert(a.take(0) =~= Seq::<Attribute>::empty());
    }
}
'''


def frame_unit(a, b):
    return f'{b}.ubase() == {a}.ubase() && {b}.root_ix() == {a}.root_ix() && {b}.enc() == {a}.enc()'


def populate(ctx, sk):
    wunit.populate(ctx, sk, findings=False, part2=False)
    un = wcore.wsource('write/unit.rs', ctx)
    # exec `==` of the derived PartialEq on the field-only struct UnitEntryId { BaseId, usize } is structural
    # (debug_assert_eq!(entry.parent, None) compares Option<UnitEntryId>)
    wcore.ensure_structural(sk, 'write::unit', 'UnitEntryId')

    # ---- UnitEntryId::new (wunit extracted it without a contract): ghost-only extension of that item
    for idx, (item, lab, own) in enumerate(sk.mods['write::unit']['chunks']):
        if isinstance(item, Item) and (lab or item.label) == 'UnitEntryId(impl)':
            item.splice('new', ret='res', ensures=['res.base() == base_id && res.ix() == index'])
            if not item.provenance_ok():
                raise Lost('wunit_tree: contract extension touched source text of UnitEntryId::new')
            ctx.custom.append(('X-CONTRACT', item._where(''), 'ensures of UnitEntryId::new', 'ghost text only'))
            ctx.count('X-CONTRACT')
            break
    else:
        raise Lost('wunit_tree: item UnitEntryId(impl) of batch wunit not found')

    sk.add('write::unit', core.rd('specs/wunit_tree.rs'), label='wunit_tree-spec', owners=OWN)
    sk.add('write::unit', ATTR_SPECS, label='wunit_tree-attr-spec', owners=OWN)

    # ---- DebuggingInformationEntry: constructor, accessors, attribute operations
    di = un.item(r'^impl DebuggingInformationEntry \{', label='DebuggingInformationEntry(tree impl)')
    di.keep_only(['new_reserved', 'id', 'parent', 'tag', 'sibling', 'set_sibling', 'get', 'set', 'delete', 'delete_child'])
    di.extbody(['get', 'set', 'delete', 'delete_child'])
    di.clean()
    di.own(OWN)
    di.splice('new_reserved', ret='res', ensures=['[C11:add-fresh-id] is_blank(res, id)'])
    di.splice('id', ret='res', ensures=['res == self.eid()'])
    di.splice('parent', ret='res', ensures=['res == self.eparent()'])
    di.splice('tag', ret='res', ensures=['res == self.etag()'])
    di.splice('sibling', ret='res', ensures=['res == self.esibling()'])
    SAME_TREE = f'{F}.eid() == {O}.eid() && {F}.eparent() == {O}.eparent() && {F}.etag() == {O}.etag() && {F}.kids() == {O}.kids()'
    di.splice('set_sibling', ensures=[f'[C11:sibling-flag] {F}.esibling() == sibling && {F}.eattrs() == {O}.eattrs() && {SAME_TREE}'])
    # ASSUMED (R-EXTBODY): see the docstring
    di.splice('get', ret='res', ensures=[
        '({ let i = first_named(self.eattrs(), name, 0); if i >= 0 { res matches Some(v) && *v == self.eattrs()[i].aval() } else { res is None } })'])
    di.splice('set', requires=['name.0 != 0x01'],      # documented: Panics if `name` is DW_AT_sibling (0x01)
              ensures=[f'{F}.eattrs() == set_spec({O}.eattrs(), name, value)', f'{F}.esibling() == {O}.esibling() && {SAME_TREE}'])
    di.splice('delete', ensures=[f'{F}.eattrs() == del_spec({O}.eattrs(), name)', f'{F}.esibling() == {O}.esibling() && {SAME_TREE}'])
    di.splice('delete_child', ensures=[
        f'{F}.kids() == filter_by({O}.kids(), |c: UnitEntryId| c != id, {O}.kids().len() as int)',
        f'same_but_kids(*{F}, *{O})'])
    sk.add('write::unit', di)

    # ---- Unit: arena construction
    ui = un.item(r'^impl Unit \{', label='Unit(tree impl)')
    ui.keep_only(['count', 'root', 'reserve', 'add_reserved', 'add', 'get', 'get_mut', 'reorder_base_types'])
    ui.clean()
    ui.own(OWN)
    ui.own(['C11', 'C15'], fn='reorder_base_types')
    ui.splice('count', ret='res', ensures=['[C11:tree-access] res == self.ents().len()'])
    ui.splice('root', ret='res', ensures=['[C11:tree-access] res.ix() == self.root_ix()'])
    ARENA_SAME = f'{F}.ents() == {O}.ents() && {frame_unit(O, F)}'
    ui.splice('reserve', ret='res',
              requires=[f'{O}.nreserved() < usize::MAX'],
              ensures=[f'[C11:add-fresh-id] res.base() == {O}.ubase() && res.ix() == {O}.nreserved() && {F}.nreserved() == {O}.nreserved() + 1',
                       f'[C11:add-fresh-id] {ARENA_SAME}',
                       f'[C11:tree-wf] wf_tree(*{O}) ==> wf_tree(*{F}) && is_unadded(*{F}, res)'],
              after=[('self.reserved += 1;', 'proof { if wf_tree(*old(self)) { assert forall|i: int| 0 <= i < self.ents().len() implies #[trigger] tree_entry_ok(*self, i) by { '
                      'assert(tree_entry_ok(*old(self), i)); assert forall|j: int| 0 <= j < self.ents()[i].kids().len() implies #[trigger] tree_kid_ok(*self, i, j) by { assert(tree_kid_ok(*old(self), i, j)); } } } }')])
    # documented "Panics if `id` is invalid": explicit precondition (debug_assert_eq! on base_id, the index)
    ui.splice('get', ret='res', requires=['is_entry(*self, id)'],
              ensures=['[C11:tree-access] *res == self.ents()[id.ix() as int]'], canary=True)
    ui.splice('get_mut', ret='res', requires=[f'is_entry(*{O}, id)'],
              ensures=[f'[C11:tree-access] *res == {O}.ents()[id.ix() as int]',
                       f'[C11:tree-access] {F}.ents() == {O}.ents().update(id.ix() as int, *final(res))',
                       f'{frame_unit(O, F)} && {F}.nreserved() == {O}.nreserved()'], canary=True)

    N0 = f'{O}.ents().len()'
    PRE_ADD = [f'[C11:tree-wf] wf_tree(*{O})',
               # "Panics if `child` or `parent` is invalid, or if `child` is not a reserved entry"
               f'is_unadded(*{O}, child)',
               # "Until then [add_reserved], the id must not be used with any other methods of this unit": the parent is not
               # itself a reserved-but-not-added id (in particular parent != child)
               f'is_entry(*{O}, parent) && !is_unadded(*{O}, parent)']
    POST_ADD = [
        f'[C11:add-fresh-id] {F}.ents().len() == {O}.nreserved() && {F}.nreserved() == {O}.nreserved() && {frame_unit(O, F)}',
        f'[C11:add-fresh-id] ({{ let e = {F}.ents()[child.ix() as int]; e.eid() == child && e.eparent() == Some(parent) && e.etag() == tag '
        f'&& (child.ix() < {N0} ==> e.eattrs() == {O}.ents()[child.ix() as int].eattrs() && e.kids() == {O}.ents()[child.ix() as int].kids() '
        f'&& e.esibling() == {O}.ents()[child.ix() as int].esibling()) '
        f'&& (child.ix() >= {N0} ==> e.eattrs().len() == 0 && e.kids().len() == 0 && !e.esibling()) }})',
        f'[C11:add-fresh-id] forall|i: int| {N0} <= i < {F}.ents().len() && i != child.ix() ==> is_blank(#[trigger] {F}.ents()[i], {F}.ents()[i].eid()) '
        f'&& {F}.ents()[i].eid().ix() == i && {F}.ents()[i].eid().base() == {O}.ubase()',
        f'[C11:add-appends-last] {F}.ents()[parent.ix() as int].kids() == {O}.ents()[parent.ix() as int].kids().push(child) '
        f'&& same_but_kids({F}.ents()[parent.ix() as int], {O}.ents()[parent.ix() as int])',
        f'[C11:add-appends-last] forall|i: int| 0 <= i < {N0} && i != child.ix() && i != parent.ix() ==> #[trigger] {F}.ents()[i] == {O}.ents()[i]',
        f'[C11:tree-wf] wf_tree(*{F})']
    INV = ('invariant self.entries@.len() <= self.reserved || self.entries@.len() == old(self).entries@.len(), self.reserved == old(self).reserved, '
           'self.base_id == old(self).base_id, self.root == old(self).root, self.encoding == old(self).encoding, '
           'old(self).entries@.len() <= self.entries@.len(), '
           'forall|i: int| 0 <= i < old(self).entries@.len() ==> #[trigger] self.entries@[i] == old(self).entries@[i], '
           'forall|i: int| old(self).entries@.len() <= i < self.entries@.len() ==> is_blank(#[trigger] self.entries@[i], self.entries@[i].eid()) '
           '&& self.entries@[i].eid().ix() == i && self.entries@[i].eid().base() == self.base_id // [C11:add-fresh-id]\n'
           'decreases self.reserved - self.entries@.len()')
    ui.splice('add_reserved', requires=PRE_ADD, ensures=POST_ADD, loops={0: INV}, canary=True,
              before=[('let entry = self.get_mut(child);', 'let ghost u1 = *self; proof { assert(u1.ents().len() == old(self).nreserved()); '
                       'if child.ix() < old(self).ents().len() { assert(tree_entry_ok(*old(self), child.ix() as int)); assert(u1.ents()[child.ix() as int] == old(self).ents()[child.ix() as int]); } '
                       'else { assert(is_blank(u1.ents()[child.ix() as int], u1.ents()[child.ix() as int].eid())); } '
                       'assert(u1.ents()[child.ix() as int].eparent() is None); assert(u1.ents()[child.ix() as int].eid() == child); }'),
                      ('self.get_mut(parent).children.push(child);',
                       'let ghost u2 = *self; proof { assert(u2.ents() == u1.ents().update(child.ix() as int, u2.ents()[child.ix() as int])); }')],
              after=[('self.get_mut(parent).children.push(child);', f'proof {{ lemma_add_wf(*old(self), u1, u2, *self, child, parent); }}')])
    ui.splice('add', ret='res',
              requires=[f'[C11:tree-wf] wf_tree(*{O})', f'is_entry(*{O}, parent) && !is_unadded(*{O}, parent)', f'{O}.nreserved() < usize::MAX'],
              ensures=[
                  # a fresh id: the number of ids handed out so far == the index of the LAST entry of the arena afterwards
                  f'[C11:add-fresh-id] res.base() == {O}.ubase() && res.ix() == {O}.nreserved() && res.ix() == {F}.ents().len() - 1 '
                  f'&& {F}.nreserved() == {O}.nreserved() + 1 && {frame_unit(O, F)}',
                  f'[C11:add-fresh-id] ({{ let e = {F}.ents()[res.ix() as int]; e.eid() == res && e.eparent() == Some(parent) && e.etag() == tag '
                  f'&& e.eattrs().len() == 0 && e.kids().len() == 0 && !e.esibling() }})',
                  f'[C11:add-appends-last] {F}.ents()[parent.ix() as int].kids() == {O}.ents()[parent.ix() as int].kids().push(res) '
                  f'&& same_but_kids({F}.ents()[parent.ix() as int], {O}.ents()[parent.ix() as int])',
                  f'[C11:add-appends-last] forall|i: int| 0 <= i < {N0} && i != parent.ix() ==> #[trigger] {F}.ents()[i] == {O}.ents()[i]',
                  f'[C11:tree-wf] wf_tree(*{F})'], canary=True)
    reorder(ui)
    sk.add('write::unit', LEMMA_ADD, label='lemma_add_wf', owners=OWN)
    sk.add('write::unit', LEMMA_REORDER, label='lemma_reorder_wf', owners=['C11', 'C15'])
    sk.add('write::unit', ui)


LEMMA_ADD = '''
/// add_reserved step by step: u0 --fill with blanks--> u1 --entry child: parent link, tag--> u2 --push to parent's list--> u3
pub proof fn lemma_add_wf(u0: Unit, u1: Unit, u2: Unit, u3: Unit, child: UnitEntryId, parent: UnitEntryId)
    requires wf_tree(u0), is_unadded(u0, child), is_entry(u0, parent), child.ix() != parent.ix(),
        u1.ubase() == u0.ubase() && u1.root_ix() == u0.root_ix() && u1.nreserved() == u0.nreserved(),
        u2.ubase() == u0.ubase() && u2.root_ix() == u0.root_ix() && u2.nreserved() == u0.nreserved(),
        u3.ubase() == u0.ubase() && u3.root_ix() == u0.root_ix() && u3.nreserved() == u0.nreserved(),
        u1.ents().len() == u0.nreserved(),
        forall|i: int| 0 <= i < u0.ents().len() ==> #[trigger] u1.ents()[i] == u0.ents()[i],
        forall|i: int| u0.ents().len() <= i < u1.ents().len() ==> is_blank(#[trigger] u1.ents()[i], u1.ents()[i].eid())
            && u1.ents()[i].eid().ix() == i && u1.ents()[i].eid().base() == u0.ubase(),
        u2.ents() == u1.ents().update(child.ix() as int, u2.ents()[child.ix() as int]),
        ({ let e = u2.ents()[child.ix() as int]; let d = u1.ents()[child.ix() as int];
           e.eid() == d.eid() && e.eattrs() == d.eattrs() && e.kids() == d.kids() && e.eparent() == Some(parent) }),
        u3.ents() == u2.ents().update(parent.ix() as int, u3.ents()[parent.ix() as int]),
        same_but_kids(u3.ents()[parent.ix() as int], u2.ents()[parent.ix() as int]),
        u3.ents()[parent.ix() as int].kids() == u2.ents()[parent.ix() as int].kids().push(child),
    ensures wf_tree(u3)
{
    let n = u3.ents().len() as int;
    let c = child.ix() as int;
    let p = parent.ix() as int;
    // the child was in nobody's list: every listed entry has a parent link, the child had none
    assert forall|i: int, j: int| 0 <= i < u1.ents().len() && 0 <= j < u1.ents()[i].kids().len() implies u1.ents()[i].kids()[j] != child by {
        if i < u0.ents().len() {
            assert(tree_entry_ok(u0, i)); assert(tree_kid_ok(u0, i, j));
        }
    }
    assert forall|i: int| 0 <= i < n implies #[trigger] tree_entry_ok(u3, i) by {
        if i < u0.ents().len() { assert(tree_entry_ok(u0, i)); }
        let e = u3.ents()[i];
        assert forall|j: int| 0 <= j < e.kids().len() implies #[trigger] tree_kid_ok(u3, i, j) by {
            if i == p && j == e.kids().len() - 1 {
                assert(e.kids()[j] == child);
                lemma_eid_ext(u3.ents()[p].eid(), parent);
            } else {
                assert(i < u0.ents().len());
                assert(tree_kid_ok(u0, i, j));
                assert(u1.ents()[i].kids()[j] == e.kids()[j]);
            }
        }
        assert(no_dup(e.kids())) by {
            if i == p {
                assert forall|a: int, b: int| 0 <= a < b < e.kids().len() implies e.kids()[a] != e.kids()[b] by {
                    if b == e.kids().len() - 1 { assert(u1.ents()[p].kids()[a] != child); }
                }
            }
        }
    }
}
'''


def reorder(ui):
    """Unit::reorder_base_types (loop invariants as in wunit.reorder_contract; contract: C15 tags + permutation + wf)"""
    K0 = f'{O}.ents()[{O}.root_ix() as int].kids()'
    K1 = f'{F}.ents()[{O}.root_ix() as int].kids()'
    P = f'|c: UnitEntryId| {O}.ents()[c.ix() as int].etag().0 == 0x24'      # DW_TAG_base_type (DWARF 5 table 7.3)
    NP = f'|c: UnitEntryId| {O}.ents()[c.ix() as int].etag().0 != 0x24'
    ui.insert_after('for entry in ', 'it1: ', nth=0)
    ui.insert_after('for entry in ', 'it2: ', nth=1)
    COMMON = ('root.children@ == k0, self.root.index < self.entries@.len(), *root == self.entries@[self.root.index as int], '
              'self.entries@ == old(self).entries@, self.root == old(self).root, '
              'forall|j: int| 0 <= j < k0.len() ==> (#[trigger] k0[j]).ix() < self.entries@.len()')
    ui.splice('reorder_base_types',
              requires=[f'[C11:tree-wf] wf_tree(*{O})'],
              ensures=[
                  f'[C15:base-types-first] {K1} == filter_by({K0}, {P}, {K0}.len() as int) + filter_by({K0}, {NP}, {K0}.len() as int)',
                  f'[C15:reorder-permutation] is_perm({K1}, {K0})',
                  f'[C11:reorder-frame] {F}.ents().len() == {O}.ents().len() && {frame_unit(O, F)} && {F}.nreserved() == {O}.nreserved()',
                  f'[C11:reorder-frame] forall|i: int| 0 <= i < {O}.ents().len() && i != {O}.root_ix() ==> #[trigger] {F}.ents()[i] == {O}.ents()[i]',
                  f'[C11:reorder-frame] same_but_kids({F}.ents()[{O}.root_ix() as int], {O}.ents()[{O}.root_ix() as int])',
                  f'[C11:tree-wf] wf_tree(*{F})'],
              before=[('let mut root_children', f'let ghost k0 = {K0}; let ghost p = {P}; let ghost np = {NP}; '
                       'proof { assert(tree_entry_ok(*old(self), old(self).root_ix() as int)); '
                       'assert forall|j: int| 0 <= j < k0.len() implies (#[trigger] k0[j]).ix() < old(self).ents().len() by { assert(tree_kid_ok(*old(self), old(self).root_ix() as int, j)); } }'),
                      ('if self.entries[entry.index].tag == constants::DW_TAG_base_type {', 'proof { assert(*entry == k0[it1.index@]); assert(p(*entry) == (self.entries@[entry.index as int].tag.0 == 0x24)); }'),
                      ('if self.entries[entry.index].tag != constants::DW_TAG_base_type {', 'proof { assert(*entry == k0[it2.index@]); assert(np(*entry) == (self.entries@[entry.index as int].tag.0 != 0x24)); }')],
              after=[('self.entries[self.root.index].children = root_children;', 'proof { lemma_reorder_wf(*old(self), *self, p, np); }')],
              loops={0: f'invariant root_children@ == filter_by(k0, p, it1.index@), p == ({P}), {COMMON} // [C15:base-types-first]',
                     1: f'invariant root_children@ == filter_by(k0, p, k0.len() as int) + filter_by(k0, np, it2.index@), np == ({NP}), {COMMON} // [C15:base-types-first]'})


LEMMA_REORDER = '''
/// replacing the root's children by the stable partition of the same list keeps the arena well formed and is a permutation
pub proof fn lemma_reorder_wf(u0: Unit, u1: Unit, p: spec_fn(UnitEntryId) -> bool, np: spec_fn(UnitEntryId) -> bool)
    requires wf_tree(u0), forall|c: UnitEntryId| np(c) == !#[trigger] p(c),
        u1.ubase() == u0.ubase() && u1.root_ix() == u0.root_ix() && u1.nreserved() == u0.nreserved(),
        u1.ents().len() == u0.ents().len(),
        forall|i: int| 0 <= i < u0.ents().len() && i != u0.root_ix() ==> #[trigger] u1.ents()[i] == u0.ents()[i],
        same_but_kids(u1.ents()[u0.root_ix() as int], u0.ents()[u0.root_ix() as int]),
        ({ let k0 = u0.ents()[u0.root_ix() as int].kids();
           u1.ents()[u0.root_ix() as int].kids() == filter_by(k0, p, k0.len() as int) + filter_by(k0, np, k0.len() as int) }),
    ensures wf_tree(u1), is_perm(u1.ents()[u0.root_ix() as int].kids(), u0.ents()[u0.root_ix() as int].kids())
{
    let r = u0.root_ix() as int;
    let k0 = u0.ents()[r].kids();
    let n = k0.len() as int;
    let a = filter_by(k0, p, n);
    let b = filter_by(k0, np, n);
    let k1 = u1.ents()[r].kids();
    assert(k0.take(n) =~= k0);
    assert forall|x: UnitEntryId| cnt(k1, x) == cnt(k0, x) by {
        lemma_partition_perm(k0, p, np, n, x);
        lemma_cnt_add(a, b, x);
    }
    lemma_partition_perm(k0, p, np, n, k0[0]);
    assert(is_perm(k1, k0));
    assert(tree_entry_ok(u0, r));
    lemma_perm_nodup(k1, k0);
    lemma_filter_elems(k0, p, n);
    lemma_filter_elems(k0, np, n);
    assert forall|i: int| 0 <= i < u1.ents().len() implies #[trigger] tree_entry_ok(u1, i) by {
        assert(tree_entry_ok(u0, i));
        let e = u1.ents()[i];
        assert forall|j: int| 0 <= j < e.kids().len() implies #[trigger] tree_kid_ok(u1, i, j) by {
            if i == r {
                let k = if j < a.len() { choose|k: int| 0 <= k < n && k0[k] == a[j] } else { choose|k: int| 0 <= k < n && k0[k] == b[j - a.len()] };
                assert(k0[k] == k1[j]);
                assert(tree_kid_ok(u0, r, k));
            } else {
                assert(tree_kid_ok(u0, i, j));
            }
            // the child's entry: unchanged, or the root with the same parent link
            let c = e.kids()[j].ix() as int;
            assert(u1.ents()[c].eparent() == u0.ents()[c].eparent());
        }
    }
}
'''


def build(ctx):
    sk = Skeleton(ctx, core.rd('prelude/crate.rs'))
    core.populate(ctx, sk)
    wcore.populate(ctx, sk)
    populate(ctx, sk)
    return sk
