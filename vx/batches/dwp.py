"""B-dwp: split-DWARF package unit assembly (DESIGN.md 6 C17, mechanisms "contributions ... Section::dwp_range" and
"package unit assembly: DwarfPackage::{find_cu,find_tu,sections}"; safety/termination of every function below: C01).

Built on batch `index` (its populate_index() is reused: UnitIndex::{parse, find, sections}, UnitIndexSectionIterator::next
and the hash-table mathematics of vx/specs/index.rs).  Oracle for the per-unit contributions: vx/specs/dwp.rs
(`contrib`: the (offset, size) pair of the column of one section kind in a row of the contribution tables, DWARF 5 7.3.5.3,
with the proved theorems contrib-unique / contrib-absent: on a row whose section identifiers are distinct `contrib` is the
pair of THE column of that kind, and (0, 0) if the kind has no column).

Functions under contract (real text of /repo/src/read/{mod,dwarf,loclists,rnglists,...}.rs):
  mod.rs     trait Section<R>: reader (required; contract layer: the section's ghost view `sview()` is its reader's view),
             Section::dwp_range (default method; Ok => the result is exactly the window [offset, offset+size) of the section;
             Err <=> offset + size (mathematical, no wrap) exceeds the section length; never a clamped range)
             + the ghost law `law_from` every implementor PROVES from its real `From<R>` impl: `from(r)` is the section with
             view r (this is what `data.into()` in dwp_range relies on)
  16 section newtypes (DebugAbbrev, DebugAddr, DebugAranges, DebugInfo, DebugTypes, DebugLine, DebugStr, DebugStrOffsets,
             DebugLineStr, DebugMacinfo, DebugMacro, DebugNames, DebugLoc, DebugLocLists, DebugRanges, DebugRngLists):
             struct, `impl From<R>`, `impl Section<R>` (reader), each discharging law_from
  loclists.rs / rnglists.rs   LocationLists::new, RangeLists::{new, debug_ranges}
  dwarf.rs   DwarfPackage::sections   every contribution of the row goes to the section of ITS kind, sub-ranged with
                                      dwp_range(offset, size) of THAT column; kinds without a column -> empty section;
                                      .debug_str shared whole; .debug_addr / .debug_ranges inherited from the parent;
                                      .debug_aranges / .debug_line_str / .debug_names = the package's `empty`; file type Dwo;
                                      Err <=> some contribution lies outside its section
             DwarfPackage::{cu_sections, tu_sections}   row `index` (1-based) of the cu / tu index, Err on a row out of range
             DwarfPackage::{find_cu, find_tu}           the row the standard's hash search yields for exactly that id in the
                                                        cu_index resp. tu_index; Ok(None) iff the search finds nothing

Assumed (TRUSTED = core's ledger +):
  section_clone        R-CLONE for sections: `#[derive(Clone)]` of a generic newtype has no Verus specification; assumed: the
                       clone has the same ghost view (same assumption as reader_clone / cfi_entries.section_clone)
  AbbreviationsCache   the type is opaque (external_body struct: it wraps a BTreeMap, outside Verus' subset); its
  new                  constructor `AbbreviationsCache::new` is R-EXTBODY with no contract (nothing is claimed about it)
Rewrites beyond the standard rules, all logged: R-CLONE (reader / section clones), R-FORLOOP (`for section in sections` is
written as the loop it abbreviates, as filter_reserve.py: UnitIndexSectionIterator implements the contract-less twin trait
of batch index (R-IMPL), so Verus' `for` protocol does not apply), R-CTORFN (`.map(Some)` -> closure, as dwarf_ranges.py),
R-DROP (Section::{id, section_name, dwo_section_name, xcoff_section_name, load, lookup_offset_id}: name tables / loader
wiring, not part of this batch; DwarfPackage::{load, from_sections}).
No struct projection: `Dwarf` and `DwarfPackage` keep every field.

Not decided here: DwarfPackage::load / from_sections and DebugCuIndex/DebugTuIndex::index (loader wiring), Section::load,
SectionId name tables, that a row's section identifiers are distinct (UnitIndex::parse does not check it; the contracts are
stated with `contrib` = the LAST column of a kind and the two theorems tie that to the standard on well-formed rows),
`find_tu` for version 2 packages reads the tu_index exactly as for version 5 (the code has no separate debug_types logic;
the column DW_SECT_TYPES is routed to .debug_types by [C17:pkg-section-types]), equality of the assembled unit with the unit
of the standalone .dwo object (needs the object-file level; the byte windows are what is proved),
case_folding_djb_hash / djb_hash (src/case_fold.rs: not reached in the time budget).
"""
import re
from lib import *
from batches import core, index

TRUSTED = list(core.TRUSTED) + ['section_clone', 'AbbreviationsCache', 'new']
VERUS_ARGS = ['--rlimit', '40']
OWN = ['C01', 'C17']

SECTION_GHOST = '''
    // ---- contract layer of the trait
    /// the bytes of the section (the view of its reader)
    spec fn sview(&self) -> RView where R: Reader;
    /// law every implementor proves from its `From<R>` impl: `from(r)` wraps exactly r
    proof fn law_from() where R: Reader
        ensures <Self as FromSpec<R>>::obeys_from_spec(),
                forall|r: R| (#[trigger] <Self as FromSpec<R>>::from_spec(r)).sview() == r.rv();
'''

SECTION_CLONE = '''
// R-CLONE for sections: `#[derive(Clone)]` of a generic newtype has no Verus specification; assumed (TRUSTED): the clone
// has the same ghost view (derive(Clone) clones the reader; a cloned reader has the same view: core's reader_clone)
#[verifier::external_body]
pub fn section_clone<R: Reader, S: Section<R> + Clone>(s: &S) -> (res: S)
    ensures res.sview() == s.sview()
{ s.clone() }
'''

# (file, module, type)
SECTIONS = [('abbrev', 'DebugAbbrev'), ('addr', 'DebugAddr'), ('aranges', 'DebugAranges'), ('unit', 'DebugInfo'), ('unit', 'DebugTypes'),
            ('line', 'DebugLine'), ('str', 'DebugStr'), ('str', 'DebugStrOffsets'), ('str', 'DebugLineStr'), ('macros', 'DebugMacinfo'),
            ('macros', 'DebugMacro'), ('names', 'DebugNames'), ('loclists', 'DebugLoc'), ('loclists', 'DebugLocLists'),
            ('rnglists', 'DebugRanges'), ('rnglists', 'DebugRngLists')]

LISTS_GHOST = '''
impl<R: Reader<Offset = usize>> LocationLists<R> {
    pub closed spec fn v_loc(&self) -> RView { self.debug_loc.sview() }
    pub closed spec fn v_loclists(&self) -> RView { self.debug_loclists.sview() }
}
'''
RANGES_GHOST = '''
impl<R: Reader<Offset = usize>> RangeLists<R> {
    pub closed spec fn v_ranges(&self) -> RView { self.debug_ranges.sview() }
    pub closed spec fn v_rnglists(&self) -> RView { self.debug_rnglists.sview() }
}
'''

# the ten per-unit sections of a package: (tag, IndexSectionId variant, view of the package section, view in the result)
KINDS = [('info', 'DebugInfo', 'p.debug_info.sview()', 'd.debug_info.sview()'),
         ('abbrev', 'DebugAbbrev', 'p.debug_abbrev.sview()', 'd.debug_abbrev.sview()'),
         ('line', 'DebugLine', 'p.debug_line.sview()', 'd.debug_line.sview()'),
         ('loc', 'DebugLoc', 'p.debug_loc.sview()', 'd.locations.v_loc()'),
         ('loclists', 'DebugLocLists', 'p.debug_loclists.sview()', 'd.locations.v_loclists()'),
         ('str-offsets', 'DebugStrOffsets', 'p.debug_str_offsets.sview()', 'd.debug_str_offsets.sview()'),
         ('macinfo', 'DebugMacinfo', 'p.debug_macinfo.sview()', 'd.debug_macinfo.sview()'),
         ('macro', 'DebugMacro', 'p.debug_macro.sview()', 'd.debug_macro.sview()'),
         ('rnglists', 'DebugRngLists', 'p.debug_rnglists.sview()', 'd.ranges.v_rnglists()'),
         ('types', 'DebugTypes', 'p.debug_types.sview()', 'd.debug_types.sview()')]


def kind_clause(k, P='p', D='d'):
    tag, var, pv, dv = k
    pv = pv.replace('p.', P + '.'); dv = dv.replace('d.', D + '.')
    return f'({{ let c = contrib(ks, os, ss, IndexSectionId::{var}, ks.len() as int); window({pv}, {dv}, c.0, c.1) }})'


def pkg_spec():
    conj = '\n    &&& '.join(kind_clause(k) for k in KINDS)
    inb = '\n    &&& '.join(f'({{ let c = contrib(ks, os, ss, IndexSectionId::{k[1]}, ks.len() as int); c.0 + c.1 <= {k[2]}.len }})' for k in KINDS)
    return f'''
/// every contribution of the row (ks = section kinds of the columns, os / ss = the row of the offsets / sizes table) lies
/// inside the package section of its kind
pub open spec fn pkg_in_bounds<R: Reader<Offset = usize>>(p: &DwarfPackage<R>, ks: Seq<IndexSectionId>, os: RView, ss: RView) -> bool {{
    &&& {inb}
}}

/// `d` is the unit of package `p` described by that row (DWARF 5 7.3.5.3; GNU DebugFission v2), split from `parent`
pub open spec fn pkg_unit<R: Reader<Offset = usize>>(p: &DwarfPackage<R>, ks: Seq<IndexSectionId>, os: RView, ss: RView, parent: &Dwarf<R>, d: &Dwarf<R>) -> bool {{
    &&& {conj}
    &&& d.debug_str.sview() == p.debug_str.sview()
    &&& d.debug_addr.sview() == parent.debug_addr.sview() && d.ranges.v_ranges() == parent.ranges.v_ranges()
    &&& d.debug_aranges.sview() == p.empty.rv() && d.debug_line_str.sview() == p.empty.rv() && d.debug_names.sview() == p.empty.rv()
    &&& d.file_type == DwarfFileType::Dwo
}}

/// the part of a contribution table that starts with row `row` (1-based) of an index with n columns
pub open spec fn row_view(t: RView, row: int, n: int) -> RView {{
    let ro = ((row - 1) * n * 4) as nat;
    RView {{ root: t.root, start: t.start + ro, len: (t.len - ro) as nat, be: t.be }}
}}

/// `d` is the unit of row `row` of index `ix` of package `p`
pub open spec fn pkg_row<R: Reader<Offset = usize>>(p: &DwarfPackage<R>, ix: &UnitIndex<R>, row: int, parent: &Dwarf<R>, d: &Dwarf<R>) -> bool {{
    &&& 1 <= row <= ix.v_unit_count()
    &&& pkg_unit(p, ix.v_kinds(), row_view(ix.v_offsets(), row, ix.v_section_count() as int), row_view(ix.v_sizes(), row, ix.v_section_count() as int), parent, d)
}}
pub open spec fn pkg_row_in_bounds<R: Reader<Offset = usize>>(p: &DwarfPackage<R>, ix: &UnitIndex<R>, row: int) -> bool {{
    pkg_in_bounds(p, ix.v_kinds(), row_view(ix.v_offsets(), row, ix.v_section_count() as int), row_view(ix.v_sizes(), row, ix.v_section_count() as int))
}}
'''


def populate_sections(ctx, sk):
    rmod = Source('read/mod.rs', ctx)
    sk.mods['read']['uses'] += '\nuse crate::vspec::*;\nuse vstd::std_specs::convert::*;'
    tr = rmod.item(r'^pub trait Section<R>: From<R>', label='Section')
    tr.drop(['id', 'section_name', 'dwo_section_name', 'xcoff_section_name', 'load', 'lookup_offset_id'])
    tr.custom('R-CLONE', 'self.reader().clone()', 'reader_clone(self.reader())')
    # (no R-OFFSET here: the trait stays generic in R::Offset, as in the source; the Reader contracts speak about as_nat())
    tr.clean(offset=False)
    tr.own(OWN)
    tr.insert_members(SECTION_GHOST)
    tr.splice('reader', ret='res', ensures=['[C17:section-reader][C10:view] res.rv() == self.sview()'])
    tr.splice('dwp_range', ret='res', ensures=[
        '[C17:dwp-range][C10:view] res matches Ok(s) ==> window(self.sview(), s.sview(), offset as nat, size as nat)',
        '[C17:dwp-range-oob-err] res is Err <==> offset as nat + size as nat > self.sview().len',
    ], before=[('let mut data =', 'proof { Self::law_from(); }')])
    sk.add('read', tr)
    sk.add('read', SECTION_CLONE, label='section_clone')

    srcs = {}
    seen = set()
    for stem, ty in SECTIONS:
        if stem not in srcs:
            srcs[stem] = Source(f'read/{stem}.rs', ctx)
        src = srcs[stem]
        m = f'read::{stem}'
        if stem not in seen:
            seen.add(stem)
            sk.mods['read']['uses'] += f'\npub use self::{stem}::*;'
            sk.module(m, 'use crate::read::{Reader, Section};\nuse crate::vspec::*;\nuse vstd::std_specs::convert::*;')
        st = src.item(rf'^pub struct {ty}<R> \{{', label=ty)
        fld = re.search(r'\{\s*(?:pub\(crate\)\s+)?(\w+): R,', st.text).group(1)
        sk.add(m, st.clean())
        sk.add(m, f'''
impl<R> FromSpecImpl<R> for {ty}<R> {{
    open spec fn obeys_from_spec() -> bool {{ true }}
    closed spec fn from_spec(v: R) -> Self {{ {ty} {{ {fld}: v }} }}
}}
''', label=f'{ty}(ghost)')
        si = src.item(rf'^impl<R> Section<R> for {ty}<R>', label=f'Section for {ty}')
        si.drop(['id'])
        # R-WHERE: the impl omits the trait method's `where R: Reader` (Rust allows an impl to be less restrictive); Verus
        # needs the bound restated to relate the inherited contract (`res.rv()`) to the body.  The clause is the trait's own.
        si.custom('R-WHERE', 'fn reader(&self) -> &R {', 'fn reader(&self) -> &R where R: Reader {')
        si.clean(offset=False).own(OWN)
        si.insert_members(f'    closed spec fn sview(&self) -> RView where R: Reader {{ self.{fld}.rv() }}\n'
                          '    proof fn law_from() where R: Reader {}')
        sk.add(m, si)
        fi = src.item(rf'^impl<R> From<R> for {ty}<R>', label=f'From for {ty}').clean().own(OWN)
        sk.add(m, fi)

    # ---- LocationLists / RangeLists (the two-section holders of a Dwarf)
    ll = srcs['loclists']
    sk.add('read::loclists', ll.item(r'^pub struct LocationLists<R>', label='LocationLists').clean())
    sk.add('read::loclists', LISTS_GHOST, label='LocationLists(ghost)')
    li = ll.item(r'^impl<R> LocationLists<R> \{', label='LocationLists')
    li.keep_only(['new'])
    li.custom('R-OFFSET', 'impl<R> LocationLists<R> {', 'impl<R: Reader<Offset = usize>> LocationLists<R> {')
    li.clean().own(OWN)
    li.splice('new', ret='res', ensures=['[C17:pkg-lists-new] res.v_loc() == debug_loc.sview() && res.v_loclists() == debug_loclists.sview()'])
    sk.add('read::loclists', li)
    rl = srcs['rnglists']
    sk.add('read::rnglists', rl.item(r'^pub struct RangeLists<R>', label='RangeLists').clean())
    sk.add('read::rnglists', RANGES_GHOST, label='RangeLists(ghost)')
    ri = rl.item(r'^impl<R> RangeLists<R> \{', label='RangeLists')
    ri.keep_only(['new', 'debug_ranges'])
    ri.custom('R-OFFSET', 'impl<R> RangeLists<R> {', 'impl<R: Reader<Offset = usize>> RangeLists<R> {')
    ri.clean().own(OWN)
    ri.splice('new', ret='res', ensures=['[C17:pkg-lists-new] res.v_ranges() == debug_ranges.sview() && res.v_rnglists() == debug_rnglists.sview()'])
    ri.splice('debug_ranges', ret='res', ensures=['[C17:pkg-lists-new] res.sview() == self.v_ranges()'])
    sk.add('read::rnglists', ri)

    # ---- AbbreviationsCache: opaque (BTreeMap inside); only its constructor is called, nothing is claimed about it
    ab = srcs['abbrev']
    sk.mods['read::abbrev']['uses'] += '\nuse std::collections::btree_map;\nuse std::sync::Arc;\nuse crate::read::Result;'
    ac = ab.item(r'^pub struct AbbreviationsCache \{', label='AbbreviationsCache')
    # R-FIELDS is not applicable (private field of an opaque type): the struct is kept and marked external_body
    ac.custom('R-EXTTYPE', 'pub struct AbbreviationsCache {', '#[verifier::external_body]\npub struct AbbreviationsCache {')
    ac.custom('R-EXTTYPE', 'btree_map::BTreeMap<u64, Result<Arc<Abbreviations>>>', 'btree_map::BTreeMap<u64, u64>')
    sk.add('read::abbrev', ac.clean())
    ai = ab.item(r'^impl AbbreviationsCache \{', label='AbbreviationsCache')
    ai.keep_only(['new'])
    ai.extbody(['new'])
    sk.add('read::abbrev', ai.clean())


def populate_dwarf(ctx, sk):
    dw = Source('read/dwarf.rs', ctx)
    sk.mods['read']['uses'] += '\npub use self::dwarf::*;'
    sk.module('read::dwarf', '''use std::sync::Arc;
use crate::common::{DebugTypeSignature, DwarfFileType, DwoId};
use crate::read::{
    AbbreviationsCache, DebugAbbrev, DebugAddr, DebugAranges, DebugInfo, DebugLine, DebugLineStr, DebugLoc, DebugLocLists,
    DebugMacinfo, DebugMacro, DebugNames, DebugRanges, DebugRngLists, DebugStr, DebugStrOffsets, DebugTypes, Error,
    IndexSectionId, IteratorImpl, LocationLists, RangeLists, Reader, Result, Section, UnitIndex, UnitIndexSectionIterator,
};
use crate::read::{reader_clone, section_clone};
use crate::vspec::*;
use crate::vspec_index::*;
use crate::vspec_dwp::*;''')
    D = 'read::dwarf'
    sk.add(D, dw.item(r'^pub struct Dwarf<R> \{', label='Dwarf').clean())
    sk.add(D, dw.item(r'^pub struct DwarfPackage<R: Reader> \{', label='DwarfPackage').clean(rejrec=['R']))
    sk.add(D, pkg_spec(), label='pkg_spec', owners=['C17'])

    im = dw.item(r'^impl<R: Reader> DwarfPackage<R> \{', label='DwarfPackage')
    im.keep_only(['find_cu', 'find_tu', 'cu_sections', 'tu_sections', 'sections'])
    im.custom('R-CTORFN', '.map(Some)', '.map(|x| Some(x))', count=-1)
    im.custom('R-FORLOOP', 'for section in sections {',
              'let mut verif_sections = sections; loop { let Some(section) = verif_sections.next() else { break; };')
    im.custom('R-CLONE', 'self.debug_str.clone()', 'section_clone(&self.debug_str)')
    im.custom('R-CLONE', 'parent.debug_addr.clone()', 'section_clone(&parent.debug_addr)')
    im.custom('R-CLONE', 'parent.ranges.debug_ranges().clone()', 'section_clone(parent.ranges.debug_ranges())')
    im.custom('R-CLONE', 'self.empty.clone()', 'reader_clone(&self.empty)', count=3)
    im.clean()
    im.own(OWN)
    for k in range(2):
        im.insert_after('.map(|x| ', '-> (o: Option<Dwarf<R>>) ensures o == Some(x) { ', nth=k)
        im.insert_after(f'ensures o == Some(x) {{ {INS_C}Some(x)', ' }', nth=k)

    # ---- sections: ks/os/ss = the row handed in (kinds of the remaining columns, remaining offsets / sizes)
    LET = 'let ks = sections.kinds(); let os = sections.v_offsets(); let ss = sections.v_sizes(); let p = self; '
    ens = []
    for k in KINDS:
        ens.append(f'[C17:pkg-section-{k[0]}][C10:view] res matches Ok(d) ==> ({{ {LET} ' + kind_clause(k)[2:])
    ens += [
        '[C17:pkg-str-shared] res matches Ok(d) ==> d.debug_str.sview() == self.debug_str.sview()',
        '[C17:pkg-parent-addr] res matches Ok(d) ==> d.debug_addr.sview() == parent.debug_addr.sview() && d.ranges.v_ranges() == parent.ranges.v_ranges()',
        '[C17:pkg-empty] res matches Ok(d) ==> d.debug_aranges.sview() == self.empty.rv() && d.debug_line_str.sview() == self.empty.rv() '
        '&& d.debug_names.sview() == self.empty.rv() && d.file_type == DwarfFileType::Dwo',
        f'[C17:pkg-oob-err] ({{ {LET} res is Err <==> !pkg_in_bounds(p, ks, os, ss) }})',
        f'res matches Ok(d) ==> ({{ {LET} pkg_unit(p, ks, os, ss, parent, &d) }})',
    ]
    VARS = {'DebugAbbrev': 'abbrev', 'DebugInfo': 'info', 'DebugLine': 'line', 'DebugLoc': 'loc', 'DebugLocLists': 'loclists',
            'DebugMacinfo': 'macinfo', 'DebugMacro': 'macro', 'DebugStrOffsets': 'str_offsets', 'DebugRngLists': 'rnglists', 'DebugTypes': 'types'}
    TAGOF = {k[1]: k[0] for k in KINDS}
    inv = ('invariant_except_break verif_sections.wf(), verif_sections.kinds() == s0.kinds().skip(gi), '
           'adv(s0.v_offsets(), verif_sections.v_offsets(), (4 * gi) as nat), adv(s0.v_sizes(), verif_sections.v_sizes(), (4 * gi) as nat),\n'
           'invariant 0 <= gi <= s0.kinds().len(), s0 == sections,\n'
           + ''.join(f'  ({v}_offset as nat, {v}_size as nat) == contrib(s0.kinds(), s0.v_offsets(), s0.v_sizes(), IndexSectionId::{kd}, gi), // [C17:pkg-section-{TAGOF[kd]}]\n' for kd, v in VARS.items())
           + 'ensures gi == s0.kinds().len(),\ndecreases verif_sections.v_offsets().len')
    im.splice('sections', ret='res', requires=['[C17:section-iter-wf] sections.wf()'], ensures=ens, canary=True,
              loops={0: inv},
              before=[('let mut verif_sections = sections;', 'let ghost s0 = sections; let ghost mut gi = 0int;'),
                      ('match section.section {', 'proof { assert(s0.kinds()[gi] == s0.kinds().skip(gi)[0]); gi = gi + 1; }'),
                      ('let debug_aranges =', 'proof { DebugAranges::<R>::law_from(); DebugLineStr::<R>::law_from(); DebugNames::<R>::law_from(); }')])

    # ---- cu_sections / tu_sections / find_cu / find_tu
    for ix, fn_s, fn_f, idarg, t in [('cu_index', 'cu_sections', 'find_cu', 'id.0', 'cu'), ('tu_index', 'tu_sections', 'find_tu', 'signature.0', 'tu')]:
        IX = f'self.{ix}'
        im.splice(fn_s, ret='res', requires=[f'[C17:index-wf] {IX}.wf()'], ensures=[
            f'[C17:{t}-sections-row] res matches Ok(d) ==> pkg_row(self, &{IX}, index as int, parent, &d)',
            f'[C17:{t}-sections-row-range] (index == 0 || index > {IX}.v_unit_count()) ==> res is Err',
            f'[C17:pkg-oob-err] 1 <= index <= {IX}.v_unit_count() ==> (res is Err <==> !pkg_row_in_bounds(self, &{IX}, index as int))',
        ], canary=True)
        SR = f'search({IX}.ids(), {IX}.rows(), {idarg}, 0)'
        im.splice(fn_f, ret='res', requires=[f'[C17:index-wf] {IX}.wf()'], ensures=[
            f'[C17:find-{t}-row] res matches Ok(Some(d)) ==> ({SR} matches Some(r) && pkg_row(self, &{IX}, r as int, parent, &d))',
            f'[C17:find-{t}-row] {SR} matches Some(r) ==> ({idarg} != 0 && (r == 0 || r > {IX}.v_unit_count()) ==> res is Err)',
            f'[C17:find-{t}-row] {SR} matches Some(r) ==> ({idarg} != 0 && 1 <= r <= {IX}.v_unit_count() ==> (res is Err <==> !pkg_row_in_bounds(self, &{IX}, r as int)) && !(res matches Ok(None)))',
            f'[C17:find-{t}-none] !present({IX}.ids(), {idarg} as nat) ==> res matches Ok(None)',
            f'[C17:find-{t}-none] {idarg} == 0 ==> res matches Ok(None)',
            f'[C17:find-{t}-none] (res matches Ok(None)) && {idarg} != 0 ==> {SR} is None',
        ], canary=True)
    sk.add(D, im)


def populate(ctx, sk):
    index.strengthen_core(sk)
    sk.module('vspec_index', 'use crate::vspec::*;')
    sk.add('vspec_index', core.rd('specs/index.rs'), label='vspec_index', owners=['C17'])
    index.populate_index(ctx, sk)
    sk.module('vspec_dwp', 'use crate::vspec::*;\nuse crate::read::IndexSectionId;')
    sk.add('vspec_dwp', core.rd('specs/dwp.rs'), label='vspec_dwp', owners=['C17'])
    populate_sections(ctx, sk)
    populate_dwarf(ctx, sk)
    return sk


def build(ctx):
    sk = Skeleton(ctx, core.rd('prelude/crate.rs'))
    core.populate(ctx, sk)
    populate(ctx, sk)
    return sk
