"""B-wlists-add: table de-duplication of write::RangeListTable / write::LocationListTable (DESIGN.md 6 C16 "table de-duplication:
RangeListTable::add / LocationListTable::add (IndexSet)"; property statement: "equal lists share one identifier and one emitted
copy").  Written after the third-round seeded change C16-c (`add` returned `len() - 1` instead of the index `insert_full`
reports: adding A, B, A handed out B's id for the second A) was MISSED: batch `wlists` lists `add` as NOT DECIDED and replaces
the IndexSet by a Vec.

Build = core.populate; wcore.populate; populate.   Sources: /repo/src/write/range.rs, /repo/src/write/loc.rs, write/mod.rs.

FUNCTIONS UNDER CONTRACT (real text, owner C16)
  RangeListTable::add, LocationListTable::add                                                             TAGS
     the id returned names an element EQUAL to the argument (set_eq = the element type's derived Eq)      [C16:add-id-names-list]
     if an equal list is already in the table: the table is unchanged and the id is that list's index     [C16:add-dedup]
     otherwise the list is appended and gets the next index (= old length)                                 [C16:add-fresh]
     every id handed out before still names the same list (prefix of the table unchanged)                 [C16:add-ids-stable]
     the id carries the table's base id                                                                    [C16:add-base-id]
     table invariant `no_dup` (no two stored lists are equal) is preserved, GIVEN that set_eq is an equivalence
       (hypothesis of the clause; derive(PartialEq, Eq) of RangeList/LocationList)                        [C16:add-no-dup]
  RangeListId::new / LocationListId::new (define_id! expanded mechanically, as in wunit/wcfi_table): field-wise.

ASSUMED (TRUSTED beyond wcore's)
  FnvIndexSet + insert_full/len/get_index : the MODEL of indexmap::IndexSet of batch wcfi_table (imported text, identical):
      insert_full returns (index of the equal element, false) leaving the set unchanged, or appends and returns (old len, true);
      plus `insert` (same effect, returns only the bool) so that an `add` rewritten with insert + len() is judged, not rejected.
  RangeList, LocationList : opaque element types (`add` never inspects the list); their derived Eq is the uninterpreted `set_eq`.
NOT DECIDED  `get` (indexing `self.ranges[id.index]`: `Index` of IndexSet, not modelled), that the writers emit each stored list
  once (batch wlists: one emitted list per table element, in table order), `Default` (BaseId::default is a process-wide counter).
"""
from lib import *
from batches import core, wcore, wunit

TRUSTED = list(wcore.TRUSTED) + ['FnvIndexSet', 'insert_full', 'len', 'get_index', 'insert', 'RangeList', 'LocationList']
OWN = ['C16']
VERUS_ARGS = ['--rlimit', '40']

T0 = 'old(self)'
T1 = 'final(self)'

# same text as batch wcfi_table's model (kept here so that the two batches can evolve independently)
INDEXSET = '''
/// T's `Eq` (for CommonInformationEntry: derive(PartialEq, Eq, Hash)); uninterpreted
pub uninterp spec fn set_eq<T>(a: T, b: T) -> bool;

/// MODEL (TRUSTED, dependency): `FnvIndexSet<T>` = indexmap::IndexSet<T, FnvBuildHasher>, viewed as the sequence of its
/// elements in insertion order.  Only the three methods FrameTable uses are modelled, with indexmap's documented behaviour.
#[verifier::external_body]
#[verifier::accept_recursive_types(T)]
pub struct FnvIndexSet<T> { model_only: core::marker::PhantomData<T> }

impl<T> FnvIndexSet<T> {
    pub uninterp spec fn elems(&self) -> Seq<T>;

    pub open spec fn has(s: Seq<T>, v: T) -> bool {
        exists|j: int| 0 <= j < s.len() && set_eq(#[trigger] s[j], v)
    }

    /// "Insert the value into the set, and get its index. If an equivalent item already exists in the set, it returns the
    /// index of the existing item and false, leaving the original value in the set [...] Otherwise, it inserts the new
    /// item and returns the index of the inserted item and true." (indexmap)
    #[verifier::external_body]
    pub fn insert_full(&mut self, value: T) -> (res: (usize, bool))
        ensures
            Self::has(old(self).elems(), value) ==> final(self).elems() == old(self).elems() && !res.1
                && res.0 < old(self).elems().len() && set_eq(old(self).elems()[res.0 as int], value),
            !Self::has(old(self).elems(), value) ==> final(self).elems() == old(self).elems().push(value) && res.1
                && res.0 == old(self).elems().len(),
    { unimplemented!() }

    #[verifier::external_body]
    pub fn len(&self) -> (res: usize)
        ensures res == self.elems().len()
    { unimplemented!() }

    #[verifier::external_body]
    pub fn get_index(&self, index: usize) -> (res: Option<&T>)
        ensures
            index < self.elems().len() ==> res == Some(&self.elems()[index as int]),
            index >= self.elems().len() ==> res is None,
    { unimplemented!() }
}
'''

INDEXSET_MORE = '''
impl<T> FnvIndexSet<T> {
    /// "Insert the value into the set. If an equivalent item already exists in the set, it returns false leaving the original
    /// value in the set and without altering its insertion order. Otherwise, it inserts the new item and returns true."
    /// (indexmap; modelled so that an `add` written with `insert` + `len()` is JUDGED by the contract, not a front-end error)
    #[verifier::external_body]
    pub fn insert(&mut self, value: T) -> (res: bool)
        ensures
            Self::has(old(self).elems(), value) ==> final(self).elems() == old(self).elems() && !res,
            !Self::has(old(self).elems(), value) ==> final(self).elems() == old(self).elems().push(value) && res,
    { unimplemented!() }
}
'''

ELEM_MODEL = '''
/// MODEL (TRUSTED): opaque stand-in for `write::%(ty)s` (a Vec of entries; verified in batch wlists).  `add` only moves it.
#[verifier::external_body]
pub struct %(ty)s { model_only: () }
'''


def table(ctx, sk, mod, srcfile, table_ty, elem_ty, id_ty, fld, arg):
    src = Source(srcfile, ctx)
    sk.module(mod, 'use crate::write::{set_eq, BaseId, FnvIndexSet};')
    st, im = wunit.define_id(ctx, id_ty)
    im.own(OWN)
    im.insert_members('    pub closed spec fn base(&self) -> BaseId { self.base_id }\n'
                      '    pub closed spec fn ix(&self) -> usize { self.index }')
    im.splice('new', ret='res', ensures=['res.base() == base_id && res.ix() == index'])
    sk.add(mod, st)
    sk.add(mod, im)
    sk.add(mod, ELEM_MODEL % {'ty': elem_ty}, label=f'{elem_ty}(model)')
    tb = src.item(r'^pub struct %s \{' % table_ty, label=f'{table_ty}(struct)')
    tb.custom_re('R-DERIVE', r'#\[derive\([^\]]*\)\]', '')     # Debug/Default of the IndexSet model are not modelled
    sk.add(mod, tb.clean())
    ti = src.item(r'^impl %s \{' % table_ty, label=table_ty)
    ti.keep_only(['add'])
    ti.clean()
    ti.own(OWN)
    ti.insert_members(f'''    pub closed spec fn lists(&self) -> Seq<{elem_ty}> {{ self.{fld}.elems() }}
    pub closed spec fn tbase(&self) -> BaseId {{ self.base_id }}
    /// table invariant: no two stored lists are equal
    pub open spec fn no_dup(&self) -> bool {{
        forall|i: int, j: int| 0 <= i < j < self.lists().len() ==> !set_eq(#[trigger] self.lists()[i], #[trigger] self.lists()[j])
    }}''')
    L0, L1 = f'{T0}.lists()', f'{T1}.lists()'
    HAS = f'FnvIndexSet::<{elem_ty}>::has({L0}, {arg})'
    EQUIV = (f'(forall|a: {elem_ty}, b: {elem_ty}| #[trigger] set_eq(a, b) ==> set_eq(b, a)) && '
             f'(forall|a: {elem_ty}, b: {elem_ty}, c: {elem_ty}| #[trigger] set_eq(a, b) && #[trigger] set_eq(b, c) ==> set_eq(a, c))')
    ti.splice('add', ret='res', ensures=[
        f'[C16:add-id-names-list] res.ix() < {L1}.len() && ({HAS} ==> set_eq({L1}[res.ix() as int], {arg})) && (!{HAS} ==> {L1}[res.ix() as int] == {arg})',
        f'[C16:add-dedup] {HAS} ==> {L1} == {L0} && res.ix() < {L0}.len() && set_eq({L0}[res.ix() as int], {arg})',
        f'[C16:add-fresh] !{HAS} ==> {L1} == {L0}.push({arg}) && res.ix() == {L0}.len()',
        f'[C16:add-ids-stable] {L0}.len() <= {L1}.len() && forall|k: int| 0 <= k < {L0}.len() ==> #[trigger] {L1}[k] == {L0}[k]',
        f'[C16:add-base-id] res.base() == {T1}.tbase() && {T1}.tbase() == {T0}.tbase()',
        f'[C16:add-no-dup] ({EQUIV}) && {T0}.no_dup() ==> {T1}.no_dup()',
    ])
    sk.add(mod, ti)


def populate(ctx, sk):
    wmod = wcore.wsource('write/mod.rs', ctx)
    if not wcore._has(sk, 'write', 'struct BaseId'):
        sk.add('write', wmod.item(r'^struct BaseId\(usize\);', label='BaseId').clean())
    wcore.ensure_structural(sk, 'write', 'BaseId')
    sk.add('write', INDEXSET, label='FnvIndexSet(model)')
    sk.add('write', INDEXSET_MORE, label='FnvIndexSet(model, insert)')
    table(ctx, sk, 'write::range', 'write/range.rs', 'RangeListTable', 'RangeList', 'RangeListId', 'ranges', 'range_list')
    table(ctx, sk, 'write::loc', 'write/loc.rs', 'LocationListTable', 'LocationList', 'LocationListId', 'locations', 'loc_list')
    return sk


def build(ctx):
    sk = Skeleton(ctx, core.rd('prelude/crate.rs'))
    core.populate(ctx, sk)
    wcore.populate(ctx, sk)
    populate(ctx, sk)
    return sk
