"""B-cfi_uctx: the unwind context and its rule map, BODIES verified (DESIGN.md 6 C06 / C20 / C01); closes the hole left by B-cfi_unwind.

B-cfi_unwind verifies `UnwindTable::{evaluate,next_row}` against `cfa_step` but only ASSUMES (external_body, no checked partner: the
Kani harnesses time out) `RegisterRuleMap::{get,set,clear}` and `UnwindContext::{new_in,reset,row,row_mut,save_initial_rules,
get_initial_rule,push_row,pop_row}`, and does not extract `UnwindContext::initialize`.  Here those bodies are verified from the real
text of /repo/src/read/cfi.rs against THE SAME CLAUSES: the contract lists and ghost members are not copied but read out of
cfi_unwind.py (`assumed_contracts()` evaluates the `X.splice(...)` / `X.insert_members(...)` calls of `cfi_unwind.populate_unwind`
from its syntax tree), so every tagged sentence proved here is textually the sentence assumed there ([C06:rules-*], [C06:ctx-*],
[C06:initial-*], [C06:storage-nonempty], [C20:reset-fresh], [C20:new-fresh], [C06:row-observe]); a change of cfi_unwind.py changes
this batch's obligations, a change of its structure is a lost anchor (exit 2).  `abs()` / `hidden()` / `wf()` are cfi_unwind's
definitions over the real fields (0 / 1 / many initial rules, hidden bottom row), unchanged.

FUNCTIONS UNDER CONTRACT, VERIFIED FROM THEIR REAL TEXT
  RegisterRuleMap::get               [C06:rules-get]    lookup in the finite map `view()` (NOW DEFINED: rules_map(self.rules@), the
                                     first pair per register; vx/specs/cfi_uctx.rs)                       -- R-ITER rewrite, see below
  RegisterRuleMap::set               [C06:rules-set] view' == view.insert(register, rule) on Ok; [C06:rules-capacity] Err <==> NEW
                                     register and |view| >= capacity, then TooManyRegisterRules and nothing changed; keeps the
                                     no-duplicate invariant                                                -- R-FORMUT rewrite
  RegisterRuleMap::clear             [C06:rules-clear] Ok and view' == view.remove(register); keeps the invariant   -- R-ITER rewrite
  RegisterRuleMap::{default,is_default,clone}   [C06:rules-default] empty map / emptiness test; clone has the same pairs
  RegisterRuleMap as PartialEq::eq   verbatim, SAFETY ONLY (owner C01): the order-insensitive clause `res <==> view == rhs.view` is not
                                     statable for a generic T (see NOT DECIDED)
  CfaRule::{default,is_default}, UnwindTableRow::{default,is_default,clone}      [C20:cfa-default] [C20:row-default]
                                     [C20:row-is-default]: the default row is (0, 0, CFA = r0 + 0, no rules, args_size 0) -- every
                                     field, including saved_args_size, which is_default() itself does not look at
  UnwindTableRow::{start_address,end_address,contains,saved_args_size,cfa,register}   [C06:row-observe] (as in B-cfi_unwind)
  UnwindContext::new_in / reset      [C20:new-fresh] [C20:reset-fresh]: from ANY state (no precondition on the context) the abstract
                                     context is ACtx::fresh(): one row equal to the default row in every field, no initial rules
  UnwindContext::row / row_mut       [C06:ctx-row] the current row is the LAST row of the stack; writes through row_mut() replace it
  UnwindContext::save_initial_rules  [C06:initial-capture] captures the rules of the CURRENT TOP row, in the 0-rule (Some(None)) /
                                     1-rule (Some(Some(pair))) / many-rule (copy inserted as hidden row 0) representation, abstract
                                     stack unchanged; [C06:initial-capture-limit] StackFull exactly when a hidden row is needed and
                                     the storage is full, nothing changed then; [C06:initial-once]
  UnwindContext::get_initial_rule    [C06:initial-rule] reads the captured rules back (None before initialisation)
  UnwindContext::push_row / pop_row  [C06:ctx-push] [C06:ctx-push-limit] StackFull exactly at capacity (hidden row counted);
                                     [C06:ctx-pop] [C06:ctx-pop-limit] PopWithEmptyStack exactly when one visible row is left (the
                                     minimum depth is 2 with a hidden row, 1 without); errors change nothing
  UnwindContext::{start_address,set_start_address,set_register_rule,clear_register_rule,set_cfa,cfa_mut}   B-cfi_unwind's clauses,
                                     re-verified on top of the PROVED row()/row_mut()/set/clear
  UnwindContext::initialize          verbatim.  requires only [C06:storage-nonempty] and [C01:address-size-validated] -- NOTHING about
                                     the state of the context; [C20:initialize-resets-first] (tagged mid-point obligation before the CIE
                                     table is built): the context is ACtx::fresh() and wf() -- fails if reset() is removed, made
                                     conditional or moved; every later call (new_for_cie, next_row, save_initial_rules) has a context
                                     precondition that only reset()'s postcondition discharges; [C06:initialize-saves-initial-rules]
                                     on Ok the initial rules are the rules of the row the CIE program ended on; the `while` over
                                     next_row terminates (measure: remaining instruction bytes, last row not yet returned)
  UnwindTable::new_for_cie           verbatim; [C06:cie-table-starts-from-context] the CIE table works on the context it was given
  CommonInformationEntry::{code_alignment_factor,data_alignment_factor}

THE REPRESENTATION INVARIANT.  `set`/`clear`/the capacity clauses are only true for rule vectors WITHOUT DUPLICATE REGISTERS (with a
  duplicate, `clear` would uncover the second pair and |map| != len).  A Verus type invariant is not usable (it is checked when
  `iter_mut()` returns, before the writes), so `RegisterRuleMap::inv()` is carried explicitly: required/ensured by set/clear,
  established by default(), part of UnwindContext::repr_ok() (closed) for every row of the stack.  This costs six UNTAGGED helper
  clauses that differ from what B-cfi_unwind assumes (DELTAS below): inv through set/clear/row()/row_mut() -- row_mut() can only
  promise repr_ok() of the final context IF the row written back still satisfies inv --, `requires wf()` on get_initial_rule (it
  indexes stack[0]), and "next_row does not re-seat the context reference" (needed by initialize).  batches/cfi_uctx_link.py
  regenerates B-cfi_unwind's file with exactly these deltas and verifies all of it (parse, evaluate, next_row, accessors): exit 0,
  i.e. the assume/guarantee link closes and the added next_row clause is PROVED there from the real body.

ASSUMED (TRUSTED beyond core's ledger)
  ArrayVec (struct) + clear, try_push, try_insert, pop, swap_remove, default, deref, deref_mut, clone
                                     model of read/util.rs (unsafe: MaybeUninit, raw pointers): a sequence bounded by ArrayLike::cap();
                                     try_push/try_insert fail iff len >= cap; swap_remove/try_insert preconditions are the real
                                     code's asserts; Deref/DerefMut expose the sequence as a slice (DESIGN P27), so `.last()`,
                                     `.last_mut()`, `[0]`, `.len()`, `.is_empty()`, `.iter()`, `.iter_mut()` are vstd's slice specs.
                                     clone: same sequence (the real impl clones element-wise; the only element type cloned by
                                     extracted code is (Register, RegisterRule<T>)).  Kani K-AVEC checks the real code (bounded).
  axiom_iter_mut_has_resolved        dropping a slice::IterMut leaves the elements it has not yielded unchanged (vstd specifies
                                     IterMut::next/remaining but has no resolution axiom; needed for `return` inside the loop of set)
  <RegisterRule<T> as Clone>::clone, <CfaRule<T> as Clone>::clone    derived Clone (all payloads Copy) returns an equal value; Verus
                                     gives the derived Clone of a generic non-Copy type no specification (external_derive + assume)
  mul                                Wrapping<u64|i64> model taken from cfi_unwind.MODEL (only constructed here, never multiplied)
  next_row                           stub; its contract is the one VERIFIED by B-cfi_unwind (read from cfi_unwind.py) plus the
                                     same-context clause proved by cfi_uctx_link
  instructions (CIE)                 stub: the iterator over the CIE's initial instructions is well formed (bytes inside the section
                                     the expression offsets are counted from): established by CIE parsing, B-cfi_entries [C10:view]
  model text without contracts: `trait UnwindSection<R>: Clone + Debug {}` (bound only), `unsafe impl Structural for Vendor / Register`
  (as in B-cfi_unwind), `PartialEqSpecImpl for RegisterRuleMap` with obeys_eq_spec() = false (switches vstd's trait postcondition off)

EXTRACTION IS OPEN-ENDED: of the inherent impls of RegisterRuleMap / UnwindTableRow / UnwindContext (and CfaRule) EVERY method is
  extracted except an explicit drop-list (RegisterRuleMap::iter, UnwindTableRow::registers: RegisterRuleIter is not extracted).  A
  helper method added to one of these impls later is therefore in the generated file, verbatim and contract-less: its body is verified
  for safety and its callers learn nothing from it, so a clause that depended on what it does fails (exit 1), it is not a missing
  method (exit 2).  A `loop`/`while` this batch has no loop specification for (none on the pinned tree) gets `decreases 0int`
  (guard_unknown_loops): a failed termination obligation of its function instead of Verus' front-end error.

LOGGED REWRITES (Verus cannot take the original text; each keeps as much of it verbatim as possible so that edits reach the verifier)
  R-ITER     get:   `self.rules.iter().find(|rule| P).map(|rule| F)`  ->  `for rule in self.rules.iter() { if P { return Some(F); } } None`
             clear: `iter().enumerate().find(|&(_, r)| P).map(|(i, _)| i)` -> explicit `iter()/next()` loop counting positions (no
             indexing); P and F are regex groups, i.e. verbatim
  R-FORMUT   set:   `for &mut (reg, ref mut old_rule) in &mut *self.rules {` (ref pattern, mutable iteration) -> the desugaring of that
             `for` (`iter_mut()` / `next()` / `break`) with the two bindings as `let`s; the loop BODY is verbatim.  An index loop is not
             used.  `#[verifier::loop_isolation(false)]` on set and initialize: without it Verus forgets, inside a loop, which field a
             borrow taken before the loop came from, and no postcondition about `self` is provable at a `return` inside the loop.
  R-SLICEPAT save_initial_rules: `match *E { [] => A, [ref rule] => B, _ => C }` -> `match E.len() { 0 => A, 1 => { let rule = &E[0]; B } _ => C }`
             (E, A, B, C verbatim)
  R-CLONE    save_initial_rules: `rule.clone()` on a tuple -> `(rule.0, rule.1.clone())` (no built-in tuple Clone in Verus)
  R-CLOSURE-SPEC  `.map_err(|_| Error::X)` gets its contract written out (3 sites)
  with_attrs=False on RegisterRuleMap / UnwindTableRow / UnwindContext / UnwindTable (derives over the model ArrayVec)

NOT DECIDED HERE
  * RegisterRuleMap == as order-insensitive map equality: the derived PartialEq of RegisterRule<T> for a generic T: ReaderOffset has no
    usable specification (T's own `eq` is abstract); only the safety of the real `eq` is verified.
  * `initialize` is history-free in the sense above (no precondition on, and a pinned fresh state of, the context); "its result is a
    function of the CIE bytes" additionally needs next_row == iterated cfa_step over the decoded stream (not decided in B-cfi_unwind).
    After an error the context is left dirty by design; the next initialize() resets it ([C20:initialize-resets-first]).
  * RegisterRuleMap::{iter, from_iter} (RegisterRuleIter wraps slice::Iter; from_iter is test-only), UnwindTableRow::registers,
    UnwindContext::new / Default (delegate to new_in), derived Clone/PartialEq of UnwindContext.
  * `set` stores RegisterRule::Undefined like any other rule (it does not remove the entry); this is what B-cfi_unwind's clause and
    `cfa_step` (DW_CFA_undefined sets the rule `undefined`, distinct from the default rule) say, so no clause about removal exists.
  * preconditions stated, not proved at the API boundary: storage with at least one row ([C06:storage-nonempty], reproducer
    native/src/bin/f_cfi_unwind_1.rs of B-cfi_unwind), address_size in {1,2,4,8} ([C01:address-size-validated]).
"""
import ast
import re
from lib import *
from batches import core
from batches import cfi_unwind as cu

TRUSTED = list(core.TRUSTED) + [
    'ArrayVec', 'clear', 'try_push', 'try_insert', 'pop', 'swap_remove', 'default', 'deref', 'deref_mut', 'clone',
    'axiom_iter_mut_has_resolved', '<RegisterRule<T> as Clone>::clone', '<CfaRule<T> as Clone>::clone',
    'mul', 'instructions', 'next_row',
]
VERUS_ARGS = ['--rlimit', '40']
RETRY_RLIMIT = 120
MULTIPLE_ERRORS = 6

OWN = ['C01', 'C06', 'C20']
OWN_CTX = ['C01', 'C06', 'C20']

# ---- where the PROVED contracts differ from the sentences B-cfi_unwind assumes (all untagged helper clauses; every tagged clause is
#      taken over unchanged).  (item label, fn) -> (requires added, ensures dropped, ensures added).  Used here and by the link check
#      batches/cfi_uctx_link.py, which re-verifies everything B-cfi_unwind verifies on top of exactly these contracts.
DELTAS = {
    ('RegisterRuleMap', 'set'): (['old(self).inv()'], [], ['final(self).inv()']),
    ('RegisterRuleMap', 'clear'): (['old(self).inv()'], [], ['final(self).inv()']),
    ('UnwindContext', 'row'): ([], [], ['res.inv()']),
    ('UnwindContext', 'row_mut'): ([], ['final(self).repr_ok()'], ['res.inv()', 'final(res).inv() ==> final(self).repr_ok()']),
    ('UnwindContext', 'get_initial_rule'): (['self.wf()'], [], []),
    ('UnwindTable', 'next_row'): ([], [], ['final(self).g_fctx() == old(self).g_fctx()']),
}


def with_delta(label, name, c):
    """contract record c of cfi_unwind with the delta of (label, name) applied"""
    req, drop, add = DELTAS.get((label, name), ([], [], []))
    ens = [e for e in c['ensures'] if e not in drop]
    if len(ens) != len(c['ensures']) - len(drop):
        raise Lost(f'cfi_unwind.py: clause to replace not found in {label}::{name}')
    return dict(requires=list(c['requires']) + list(req), ensures=ens + list(add))


# ----------------------------------------------------------------------------------------------------------------------
# 0. the assumed contracts of B-cfi_unwind, read from its source
# ----------------------------------------------------------------------------------------------------------------------
def assumed_contracts():
    """{(item variable, fn): {'requires': [...], 'ensures': [...]}} and {item variable: ghost member text} of
    cfi_unwind.populate_unwind, obtained by evaluating the keyword arguments of its `X.splice('fn', ...)` and the argument of its
    `X.insert_members(...)` calls (string constants / f-strings over module constants and earlier local string assignments)."""
    src = open(cu.__file__).read()
    tree = ast.parse(src)
    fn = [n for n in tree.body if isinstance(n, ast.FunctionDef) and n.name == 'populate_unwind']
    if len(fn) != 1:
        raise Lost('cfi_unwind.py: populate_unwind')
    env = dict(vars(cu))
    contracts, members = {}, {}

    def ev(node):
        return eval(compile(ast.Expression(node), cu.__file__, 'eval'), env)

    for st in ast.walk(fn[0]):
        if isinstance(st, ast.Assign) and len(st.targets) == 1 and isinstance(st.value, (ast.Constant, ast.JoinedStr, ast.List, ast.Tuple)):
            tgt = st.targets[0]
            try:
                if isinstance(tgt, ast.Name):
                    env[tgt.id] = ev(st.value)
                elif isinstance(tgt, ast.Tuple) and all(isinstance(e, ast.Name) for e in tgt.elts):
                    for e, v in zip(tgt.elts, ev(st.value)):
                        env[e.id] = v
            except Exception:
                pass
    for st in ast.walk(fn[0]):
        if isinstance(st, ast.Call) and isinstance(st.func, ast.Attribute) and isinstance(st.func.value, ast.Name):
            var = st.func.value.id
            if st.func.attr == 'splice':
                name = ev(st.args[0])
                rec = {'requires': [], 'ensures': [], 'before': []}
                for kw in st.keywords:
                    if kw.arg in ('requires', 'ensures', 'before'):
                        rec[kw.arg] = list(ev(kw.value))
                contracts[(var, name)] = rec
            elif st.func.attr == 'insert_members':
                members[var] = ev(st.args[0])
    return contracts, members


def drop_listed(it, names):
    """extract EVERY method of an impl except the explicit drop-list `names` (methods Verus cannot take / types not extracted):
    a helper method added to the impl later is extracted verbatim, contract-less -- its body is verified for safety and its callers
    see no postcondition.  A listed method that does not exist any more is a lost anchor."""
    have = it.fns()
    for n in names:
        if n not in have:
            raise Lost(f'{it._where(n)}: method on the drop-list not found')
    return it.drop(list(names))


UNKNOWN_LOOP = 'decreases 0int'


def guard_unknown_loops(it, known):
    """every `loop` / `while` of the impl that this batch has no loop specification for (known: {fn: [ordinals]}) -- none on the
    pinned tree -- gets the measure `decreases 0int`: a loop added later is then a FAILED termination obligation of its function
    (exit 1, owners of the item) instead of Verus' front-end error `loop must have a decreases clause` (exit 2, undecided), and its
    function is still verified against its contract.  Must run before the contract splices (ordinals are textual)."""
    for name in it.fns():
        s0, e0 = method_span(it.text, name)
        k = re.search(r'\bfn\s+%s\b' % re.escape(name), it.text[s0:e0]).start() + s0
        b = body_open(it.text, k)
        if it.text[b] != '{':
            continue
        body = it.text[b:e0]
        extra = {n: UNKNOWN_LOOP for n, m in enumerate(LOOP_RE.finditer(body))
                 if m.group(1) in ('loop', 'while') and n not in known.get(name, [])}
        if extra:
            it.splice(name, loops=extra)
    return it


def need(d, key):
    if key not in d:
        raise Lost(f'cfi_unwind.py: contract of {key} not found')
    return d[key]


# ----------------------------------------------------------------------------------------------------------------------
# 1. trusted prelude: model of read/util.rs (ArrayLike / ArrayVec), derived Clone, the IterMut drop axiom
# ----------------------------------------------------------------------------------------------------------------------
MODEL = r"""
// ---- model of read/util.rs: ArrayLike (capacity) and ArrayVec (a sequence bounded by the capacity).  TRUSTED: the real code is
//      unsafe (MaybeUninit, raw pointers); it is checked against the same statements by Kani K-AVEC (bounded).
pub trait ArrayLike { type Item; spec fn cap() -> nat; }
impl<T, const N: usize> ArrayLike for [T; N] { type Item = T; open spec fn cap() -> nat { N as nat } }
impl<T, const N: usize> ArrayLike for Box<[T; N]> { type Item = T; open spec fn cap() -> nat { N as nat } }
#[derive(Clone, Copy, Debug)]
pub struct CapacityFull;
#[verifier::external_body]
#[verifier::reject_recursive_types(A)]
pub struct ArrayVec<A: ArrayLike> { x: core::marker::PhantomData<A> }
impl<A: ArrayLike> ArrayVec<A> {
    pub uninterp spec fn view(&self) -> Seq<A::Item>;
    /// forget every element
    #[verifier::external_body] pub fn clear(&mut self)
        ensures final(self).view() == Seq::<A::Item>::empty(),
    { unimplemented!() }
    /// append; fails iff the storage is full (array storages do not grow)
    #[verifier::external_body] pub fn try_push(&mut self, value: A::Item) -> (res: core::result::Result<(), CapacityFull>)
        ensures
            res is Err <==> old(self).view().len() >= A::cap(),
            res is Ok ==> final(self).view() == old(self).view().push(value),
            res is Err ==> final(self).view() == old(self).view(),
    { unimplemented!() }
    /// insert before position `index` (documented panic `index <= len` is a precondition); fails iff the storage is full
    #[verifier::external_body] pub fn try_insert(&mut self, index: usize, element: A::Item) -> (res: core::result::Result<(), CapacityFull>)
        requires index <= old(self).view().len(),
        ensures
            res is Err <==> old(self).view().len() >= A::cap(),
            res is Ok ==> final(self).view() == old(self).view().insert(index as int, element),
            res is Err ==> final(self).view() == old(self).view(),
    { unimplemented!() }
    /// remove the last element, None iff empty
    #[verifier::external_body] pub fn pop(&mut self) -> (res: Option<A::Item>)
        ensures
            res is None <==> old(self).view().len() == 0,
            res matches Some(v) ==> v == old(self).view().last() && final(self).view() == old(self).view().drop_last(),
            res is None ==> final(self).view() == old(self).view(),
    { unimplemented!() }
    /// move the last element into position `index` and return what was there (panics of the real code -- empty vector, index out
    /// of range -- are the precondition)
    #[verifier::external_body] pub fn swap_remove(&mut self, index: usize) -> (res: A::Item)
        requires index < old(self).view().len(),
        ensures
            res == old(self).view()[index as int],
            final(self).view() == old(self).view().update(index as int, old(self).view().last()).drop_last(),
    { unimplemented!() }
}
impl<A: ArrayLike> Default for ArrayVec<A> {
    #[verifier::external_body] fn default() -> (res: Self)
        ensures res.view().len() == 0,
    { unimplemented!() }
}
impl<A: ArrayLike> core::ops::Deref for ArrayVec<A> {
    type Target = [A::Item];
    #[verifier::external_body] fn deref(&self) -> (res: &[A::Item])
        ensures res@ == self.view(), self.view().len() <= usize::MAX,
    { unimplemented!() }
}
impl<A: ArrayLike> core::ops::DerefMut for ArrayVec<A> {
    #[verifier::external_body] fn deref_mut(&mut self) -> (res: &mut [A::Item])
        ensures res@ == old(self).view(), final(res)@ == final(self).view(),
    { unimplemented!() }
}
/// the real impl pushes `value.clone()` for every element; the only element type cloned by extracted code is
/// (Register, RegisterRule<T>), whose derived Clone is a structural copy (the real bound `A::Item: Clone` is omitted: Verus
/// does not recognise a trait bound on an associated type projection; rustc checks it on the real code)
impl<A: ArrayLike> Clone for ArrayVec<A> {
    #[verifier::external_body] fn clone(&self) -> (res: Self)
        ensures res.view() == self.view(),
    { unimplemented!() }
}

// ---- dropping a slice::IterMut ends the borrows of the elements it has not yielded without writing to them (vstd specifies
//      `next`/`remaining` of IterMut but has no resolution axiom for it).  TRUSTED.
#[verifier::external_body]
pub broadcast proof fn axiom_iter_mut_has_resolved<'a, X>(it: core::slice::IterMut<'a, X>)
    ensures #[trigger] has_resolved(it) ==> (forall|i: int| 0 <= i < it.remaining().len() ==> *final(#[trigger] it.remaining()[i]) == *it.remaining()[i]),
{}
"""

# derived Clone of the two rule enums (all payloads are Copy): structural copy.  TRUSTED (Verus gives the derived Clone of a
# generic non-Copy type no specification).
CLONE_SPECS = r"""
pub assume_specification<T: ReaderOffset + Clone>[ <RegisterRule<T> as Clone>::clone ](r: &RegisterRule<T>) -> (res: RegisterRule<T>)
    ensures res == *r;
pub assume_specification<T: ReaderOffset + Clone>[ <CfaRule<T> as Clone>::clone ](r: &CfaRule<T>) -> (res: CfaRule<T>)
    ensures res == *r;
"""

PAIR = '(Register, RegisterRule<T>)'
DEFAULT_CFA = '(CfaRule::<T>::RegisterAndOffset { register: Register(0), offset: 0 })'
DEFAULT_ROW = f'(ARow::<T> {{ start: 0, end: 0, cfa: {DEFAULT_CFA}, rules: Map::empty(), args_size: 0 }})'


def closure_spec(err):
    """Un-annotated closures have no specification in Verus: `|_| Error::X` gets its (obvious) contract written out."""
    return (f'.map_err(|_| Error::{err})',
            f'.map_err(|_verif_unused: CapacityFull| -> (verif_e: Error) ensures verif_e == Error::{err} {{ Error::{err} }})')


def populate(ctx, sk):
    cfi = Source('read/cfi.rs', ctx)
    rmod = Source('read/mod.rs', ctx)
    C, M = assumed_contracts()
    sk.mods['read']['uses'] += '\npub use self::cfi::*;'
    sk.module('read::cfi', '''use core::fmt::Debug;
use crate::common::{Format, Register, Vendor};
use crate::constants::{self, DwEhPe};
use crate::read::{Error, Reader, ReaderAddress, ReaderOffset, Result};
use crate::read::StoreOnHeap;
use crate::vspec::*;
use vstd::std_specs::iter::IteratorSpec;''')
    sk.add('read', rmod.item(r'^pub struct StoreOnHeap;').clean())
    sk.add('common', 'unsafe impl Structural for Vendor {}\nunsafe impl Structural for Register {}', label='Structural')
    sk.add('read::cfi', cfi.item(r'^pub struct UnwindExpression<').clean())
    sk.add('read::cfi', cfi.item(r'^pub enum CallFrameInstruction<').clean(rejrec=['T']))
    sk.add('read::cfi', MODEL, label='model')
    sk.add('read::cfi', cfi.item(r'^pub enum CfaRule<').clean(rejrec=['T']).prepend('#[verifier::external_derive(Clone)]'))
    sk.add('read::cfi', cfi.item(r'^pub enum RegisterRule<').clean(rejrec=['T']).prepend('#[verifier::external_derive(Clone)]'))
    sk.add('read::cfi', CLONE_SPECS, label='derived-clone')
    sk.add('read::cfi', core.rd('specs/cfi_unwind.rs'), label='cfa_step')
    sk.add('read::cfi', core.rd('specs/cfi_uctx.rs'), label='rules_map')
    sk.add('read::cfi', cfi.item(r'^pub trait UnwindContextStorage<').clean())

    populate_cfa_rule(ctx, sk, cfi)
    populate_rule_map(ctx, sk, cfi, C, M)
    populate_row(ctx, sk, cfi, C, M)
    populate_initialize_env(ctx, sk, cfi, C, M)
    populate_context(ctx, sk, cfi, C, M)
    return sk


# ----------------------------------------------------------------------------------------------------------------------
# 2. CfaRule::{default, is_default}
# ----------------------------------------------------------------------------------------------------------------------
def populate_cfa_rule(ctx, sk, cfi):
    d = cfi.item(r'^impl<T: ReaderOffset> Default for CfaRule<T>', label='CfaRule-Default').clean()
    d.splice('default', ret='res', ensures=[f'[C20:cfa-default] res == {DEFAULT_CFA}'])
    d.own(OWN_CTX)
    sk.add('read::cfi', d)
    i = cfi.item(r'^impl<T: ReaderOffset> CfaRule<T> \{', label='CfaRule').clean()
    i.splice('is_default', ret='res', ensures=[f'[C20:cfa-default] res == (*self == {DEFAULT_CFA})'])
    i.own(OWN_CTX)
    sk.add('read::cfi', i)


# ----------------------------------------------------------------------------------------------------------------------
# 3. RegisterRuleMap
# ----------------------------------------------------------------------------------------------------------------------
RRM_VIEW_ASSUMED = 'pub uninterp spec fn view(&self) -> Map<Register, RegisterRule<T>>;'
RRM_VIEW_DEFINED = ('pub closed spec fn view(&self) -> Map<Register, RegisterRule<T>> { rules_map(self.rules.view()) }\n'
                    '    /// representation invariant: no register occurs twice (established by default(), preserved by set/clear/clone;\n'
                    '    /// `rules` is private and written by no other function)\n'
                    '    pub closed spec fn inv(&self) -> bool { rules_nodup(self.rules.view()) }\n'
                    '    /// the pairs as stored (ghost accessor for contracts of trait impls)\n'
                    '    pub closed spec fn seq(&self) -> Seq<(Register, RegisterRule<T>)> { self.rules.view() }')

SET_LOOP_OLD = 'for &mut (reg, ref mut old_rule) in &mut *self.rules {'
SET_LOOP_NEW = ('let verif_slice = &mut *self.rules; let mut verif_iter = verif_slice.iter_mut();\n'
                '        loop { let verif_entry = match verif_iter.next() { Some(verif_e) => verif_e, None => break }; '
                'let reg = verif_entry.0; let old_rule = &mut verif_entry.1;')

SET_INV = '''invariant_except_break
                verif_r0.len() == verif_os.len(), 0 <= verif_k <= verif_os.len(), verif_fs.len() == verif_os.len(),
                forall|i: int| 0 <= i < verif_r0.len() ==> *(#[trigger] verif_r0[i]) == verif_os[i],
                forall|i: int| 0 <= i < verif_r0.len() ==> *final(#[trigger] verif_r0[i]) == verif_fs[i],
                verif_iter.remaining().len() + verif_k == verif_r0.len(),
                forall|j: int| 0 <= j < verif_iter.remaining().len() ==> #[trigger] verif_iter.remaining()[j] == verif_r0[verif_k + j],
                forall|i: int| 0 <= i < verif_k ==> (#[trigger] verif_os[i]).0 != register,
                forall|i: int| 0 <= i < verif_k ==> #[trigger] verif_fs[i] == verif_os[i],
            ensures
                verif_k == verif_os.len(), // [C06:rules-set]
                verif_fs.len() == verif_os.len(),
                forall|i: int| 0 <= i < verif_k ==> (#[trigger] verif_os[i]).0 != register,
                forall|i: int| 0 <= i < verif_k ==> #[trigger] verif_fs[i] == verif_os[i],
            decreases verif_os.len() - verif_k'''

# the hit path (`*old_rule = rule; return Ok(())` in the real body) is supported by two facts that are NOT anchored in the body text,
# so that an edit of the body reaches the verifier instead of losing an anchor:
SET_PRE = '''proof {
            assert forall|i0: int| rules_first_at(verif_os, register, i0) implies
                #[trigger] rules_map(verif_os.update(i0, (register, rule))) == rules_map(verif_os).insert(register, rule)
                && rules_nodup(verif_os.update(i0, (register, rule))) && rules_map(verif_os).contains_key(register) by {
                lemma_rules_update(verif_os, register, i0, rule);
                lemma_rules_get(verif_os, register, i0);
            }
        }'''

SET_STEP = '''proof {
                verif_k = verif_k + 1;
                let i0 = verif_k - 1;
                // if this entry ends up holding (register, rule) and the iterator is dropped, the slice is os[i0 := (register, rule)]
                assert(has_resolved(verif_iter) && *final(verif_r0[i0]) == (register, rule) ==> verif_fs =~= verif_os.update(i0, (register, rule))) by {
                    if has_resolved(verif_iter) && *final(verif_r0[i0]) == (register, rule) {
                        axiom_iter_mut_has_resolved(verif_iter);
                        assert forall|i: int| 0 <= i < verif_os.len() implies #[trigger] verif_fs[i] == verif_os.update(i0, (register, rule))[i] by {
                            if i > i0 { assert(verif_iter.remaining()[i - verif_k] == verif_r0[i]); }
                        }
                    }
                }
                if verif_os[i0].0 == register { assert(rules_first_at(verif_os, register, i0)); lemma_rules_get(verif_os, register, i0); }
            }'''

SET_MISS = '''proof {
            // guarded so that a body that leaves the loop early fails the tagged clauses, not this hint
            if verif_k == verif_os.len() && (forall|i: int| 0 <= i < verif_k ==> (#[trigger] verif_os[i]).0 != register) {
                lemma_rules_push(verif_os, register, rule);
                lemma_rules_miss(verif_os, register);
                lemma_rules_len(verif_os);
            }
            assert(verif_k == verif_os.len() && verif_fs.len() == verif_os.len() && (forall|i: int| 0 <= i < verif_k ==> #[trigger] verif_fs[i] == verif_os[i])
                   ==> verif_fs =~= verif_os);
        }'''


def populate_rule_map(ctx, sk, cfi, C, M):
    sk.add('read::cfi', cfi.item(r'^struct RegisterRuleMap<', with_attrs=False).clean(rejrec=['T', 'S']))

    cl = cfi.item(r'^impl<T, S> Clone for RegisterRuleMap<T, S>', label='RegisterRuleMap-Clone').clean()
    cl.splice('clone', ret='res', ensures=['res.seq() == self.seq()'])
    cl.own(OWN)
    sk.add('read::cfi', cl)

    df = cfi.item(r'^impl<T, S> Default for RegisterRuleMap<T, S>', label='RegisterRuleMap-Default').clean()
    df.splice('default', ret='res', ensures=[f'[C06:rules-default] res.view() == Map::<Register, RegisterRule<T>>::empty()', 'res.inv()'],
              before=[('RegisterRuleMap {', f'proof {{ assert forall|s: Seq<{PAIR}>| s.len() == 0 implies #[trigger] rules_map(s) == Map::<Register, RegisterRule<T>>::empty() && rules_nodup(s) by {{ lemma_rules_empty(s); }} }}')])
    df.own(OWN)
    sk.add('read::cfi', df)

    rrm = cfi.item(r'^impl<T, S> RegisterRuleMap<T, S>', label='RegisterRuleMap')
    drop_listed(rrm, ['iter'])       # returns RegisterRuleIter (wrapper of slice::Iter, not extracted)
    # R-ITER (get): `iter().find(p).map(f)` is an iterator adapter chain outside Verus; it is rewritten to the `for` loop it
    # abbreviates, with the two closure bodies kept verbatim (regex groups), so an edit of either closure reaches the verifier.
    rrm.custom_re('R-ITER', r'self\s*\.rules\s*\.iter\(\)\s*\.find\(\|rule\| ([^\n]+)\)\n\s*\.map\(\|rule\| ([^\n]+)\)\n',
                  r'for rule in verif_it: self.rules.iter() { if \1 { return Some(\2); } }\n        None\n')
    # R-ITER (clear): `iter().enumerate().find(p).map(|(i, _)| i)`: the loop it abbreviates, counting positions alongside the
    # slice iterator (no indexing); the predicate body is kept verbatim.
    rrm.custom_re('R-ITER', r'let idx = self\s*\.rules\s*\.iter\(\)\s*\.enumerate\(\)\s*\.find\(\|&\(_, r\)\| ([^\n]+)\)\n\s*\.map\(\|\(i, _\)\| i\);',
                  r'let mut idx = None; let mut verif_n = 0usize; let mut verif_iter = self.rules.iter();\n'
                  r'        loop { let r = match verif_iter.next() { Some(verif_e) => verif_e, None => break }; if \1 { idx = Some(verif_n); break; } verif_n += 1; }')
    # R-FORMUT (set): `for &mut (reg, ref mut old_rule) in &mut *self.rules` (ref patterns; mutable iteration) is replaced by the
    # desugaring of that `for` (explicit iter_mut() / next() / break) with the pattern's two bindings as `let`s; the loop BODY
    # (`if reg == register { *old_rule = rule; return Ok(()); }`) stays verbatim.
    rrm.custom('R-FORMUT', SET_LOOP_OLD, SET_LOOP_NEW)
    rrm.custom('R-CLOSURE-SPEC', *closure_spec('TooManyRegisterRules'))
    rrm.clean()
    ghost = need(M, 'rrm')
    if RRM_VIEW_ASSUMED not in ghost:
        raise Lost('cfi_unwind.py: RegisterRuleMap ghost members')
    rrm.insert_members(ghost.replace(RRM_VIEW_ASSUMED, RRM_VIEW_DEFINED))
    guard_unknown_loops(rrm, {'get': [0], 'clear': [0], 'set': [0]})

    rrm.splice('is_default', ret='res', ensures=['[C06:rules-default] res == (self.view() == Map::<Register, RegisterRule<T>>::empty())'],
               before=[('self.rules.is_empty()', 'proof { if self.rules.view().len() == 0 { lemma_rules_empty(self.rules.view()); } else { lemma_rules_nonempty(self.rules.view()); } }')])
    g = need(C, ('rrm', 'get'))
    rrm.splice('get', ret='res', requires=g['requires'], ensures=g['ensures'],
               loops={0: '''invariant
                verif_it.seq().len() == self.rules.view().len(),
                forall|i: int| 0 <= i < verif_it.seq().len() ==> *(#[trigger] verif_it.seq()[i]) == self.rules.view()[i],
                forall|i: int| 0 <= i < verif_it.index@ ==> (#[trigger] self.rules.view()[i]).0 != register,'''},
               before=[('return Some(', 'proof { assert(rules_first_at(self.rules.view(), register, verif_it.index@ as int)); lemma_rules_get(self.rules.view(), register, verif_it.index@ as int); }'),
                       ('None\n', 'proof { lemma_rules_miss(self.rules.view(), register); }')])
    c = need(C, ('rrm', 'clear'))
    rrm.splice('clear', ret='res', canary=True, **with_delta('RegisterRuleMap', 'clear', c),
               loops={0: '''invariant_except_break
                idx is None, verif_n + verif_iter.remaining().len() == verif_s.len(), verif_n <= verif_s.len(), verif_s.len() <= usize::MAX,
                forall|j: int| 0 <= j < verif_iter.remaining().len() ==> *(#[trigger] verif_iter.remaining()[j]) == verif_s[verif_n + j],
                forall|i: int| 0 <= i < verif_n ==> (#[trigger] verif_s[i]).0 != register,
            ensures
                idx matches Some(i) ==> rules_first_at(verif_s, register, i as int),
                idx is None ==> (forall|i: int| 0 <= i < verif_s.len() ==> (#[trigger] verif_s[i]).0 != register),
            decreases verif_s.len() - verif_n'''},
               before=[('let mut idx = None;', 'let ghost verif_s = self.rules.view();'),
                       ('if let Some(idx) = idx {', '''proof {
            if idx is Some { lemma_rules_swap_remove(verif_s, idx->0 as int); }
            else { lemma_rules_miss(verif_s, register); assert(rules_map(verif_s).remove(register) =~= rules_map(verif_s)); }
        }''')])
    s = need(C, ('rrm', 'set'))
    push_anchor = re.search(r'self\s*\.rules\s*\.try_push\(\(register, rule\)\)', rrm.text)
    if not push_anchor:
        raise Lost('RegisterRuleMap::set: try_push anchor')
    rrm.splice('set', ret='res', canary=True, **with_delta('RegisterRuleMap', 'set', s),
               loops={0: SET_INV}, attrs='#[verifier::loop_isolation(false)]\n    #[verifier::allow_complex_invariants]',
               before=[('let verif_slice = &mut *self.rules;', 'let ghost verif_os = self.rules.view();\n        ' + SET_PRE),
                       ('let mut verif_iter = verif_slice.iter_mut();', 'let ghost verif_fs = final(verif_slice)@;'),
                       (push_anchor.group(0), SET_MISS)],
               after=[('let mut verif_iter = verif_slice.iter_mut();', 'let ghost verif_r0 = verif_iter.remaining(); let ghost mut verif_k: int = 0;'),
                      ('let old_rule = &mut verif_entry.1;', SET_STEP)])
    rrm.own(OWN)
    sk.add('read::cfi', rrm)
    # PartialEq::eq: real text, safety obligations only (no panic, no out-of-bounds; `for` loops over slices terminate).  The
    # functional clause `res <==> self.view() == rhs.view()` is NOT stated: it would have to be relative to the (abstract) equality
    # of a generic T: ReaderOffset inside RegisterRule<T>; vstd's trait postcondition of `eq` is switched off by obeys_eq_spec() = false.
    sk.add('read::cfi', '''impl<T, S> vstd::std_specs::cmp::PartialEqSpecImpl for RegisterRuleMap<T, S>
where T: ReaderOffset + PartialEq, S: UnwindContextStorage<T> {
    open spec fn obeys_eq_spec() -> bool { false }
    open spec fn eq_spec(&self, other: &Self) -> bool { true }
}''', label='RegisterRuleMap-PartialEqSpec')
    pe = cfi.item(r'^impl<T, S> PartialEq for RegisterRuleMap<T, S>', label='RegisterRuleMap-PartialEq').clean()
    pe.own(['C01'])
    sk.add('read::cfi', pe)


# ----------------------------------------------------------------------------------------------------------------------
# 4. UnwindTableRow
# ----------------------------------------------------------------------------------------------------------------------
def populate_row(ctx, sk, cfi, C, M):
    sk.add('read::cfi', cfi.item(r'^pub struct UnwindTableRow<', with_attrs=False).clean(rejrec=['T', 'S']))
    cl = cfi.item(r'^impl<T, S> Clone for UnwindTableRow<T, S>', label='UnwindTableRow-Clone').clean()
    cl.splice('clone', ret='res', ensures=['res.abs() == self.abs()', 'self.inv() ==> res.inv()'])
    cl.own(OWN)
    sk.add('read::cfi', cl)
    df = cfi.item(r'^impl<T, S> Default for UnwindTableRow<T, S>', label='UnwindTableRow-Default').clean()
    df.splice('default', ret='res', ensures=[f'[C20:row-default] res.abs() == {DEFAULT_ROW}', 'res.inv()'])
    df.own(OWN_CTX)
    sk.add('read::cfi', df)

    row = cfi.item(r'^impl<T, S> UnwindTableRow<T, S>', label='UnwindTableRow')
    obs = ['start_address', 'end_address', 'contains', 'saved_args_size', 'cfa', 'register']
    drop_listed(row, ['registers']).clean()      # `registers` returns RegisterRuleIter (not extracted)
    row.insert_members(need(M, 'row') + ROW_GHOST_EXTRA)
    guard_unknown_loops(row, {})
    row.splice('is_default', ret='res', ensures=[
        f'[C20:row-is-default] res == (self.abs().start == 0 && self.abs().end == 0 && self.abs().cfa == {DEFAULT_CFA} '
        '&& self.abs().rules == Map::<Register, RegisterRule<T>>::empty())'])
    for f in obs:
        c = need(C, ('row', f))
        row.splice(f, ret='res', requires=c['requires'], ensures=c['ensures'])
    row.own(OWN_CTX)
    sk.add('read::cfi', row)



# ----------------------------------------------------------------------------------------------------------------------
# 5. what UnwindContext::initialize needs: the CIE (struct + the three accessors it is read through), UnwindTable::new_for_cie
#    (verified), UnwindTable::next_row (stub carrying the contract VERIFIED by B-cfi_unwind, read from cfi_unwind.py)
# ----------------------------------------------------------------------------------------------------------------------
UNWIND_SECTION_MODEL = """
// model of `trait UnwindSection<R>: Clone + Debug + _UnwindSectionPrivate<R>`: only the bound is needed here (the section is
// handed through to CommonInformationEntry::instructions, a stub); the real trait is under contract in B-cfi_entries
pub trait UnwindSection<R: Reader>: Clone + Debug {}
"""



UT_GHOST_EXTRA = ('\n    /// the value the borrowed context will have when this table gives it back\n'
                  '    #[verifier::prophetic] pub closed spec fn g_fctx(&self) -> UnwindContext<R::Offset, S> { *final(self.ctx) }')
ROW_GHOST_EXTRA = '\n    /// the rule map of this row is well formed\n    pub closed spec fn inv(&self) -> bool { self.registers.inv() }'


def wrapping_model():
    mark = '// ---- model of read/util.rs'
    if mark not in cu.MODEL or 'pub struct Wrapping<T>' not in cu.MODEL:
        raise Lost('cfi_unwind.MODEL: Wrapping model')
    return cu.MODEL.split(mark)[0]


def populate_initialize_env(ctx, sk, cfi, C, M):
    sk.mods['read::cfi']['uses'] += '\nuse vstd::std_specs::ops::*;'
    sk.add('read::cfi', wrapping_model(), label='Wrapping')
    sk.add('read::cfi', cfi.item(r'^pub struct SectionBaseAddresses').clean())
    sk.add('read::cfi', cfi.item(r'^pub struct BaseAddresses').clean())
    sk.add('read::cfi', cfi.item(r'^pub enum Pointer \{').clean())
    sk.add('read::cfi', cfi.item(r'^pub struct Augmentation \{').clean())
    sk.add('read::cfi', UNWIND_SECTION_MODEL, label='UnwindSection-model')
    sk.add('read::cfi', cfi.item(r'^pub struct CommonInformationEntry<R, Offset').clean(offset=False, rejrec=['R', 'Offset']).prepend('#[verifier::external_derive(Clone)]'))
    ci = cfi.item(r'^impl<R: Reader> CommonInformationEntry<R> \{(?=\s*pub fn offset)', label='CommonInformationEntry')
    ci.keep_only(['instructions', 'code_alignment_factor', 'data_alignment_factor']).extbody(['instructions']).clean(offset=False)
    ci.insert_members('    pub closed spec fn g_caf(&self) -> u64 { self.code_alignment_factor }\n'
                      '    pub closed spec fn g_daf(&self) -> i64 { self.data_alignment_factor }\n'
                      '    pub closed spec fn g_instr(&self) -> RView { self.initial_instructions.rv() }')
    ci.splice('instructions', ret='res', ensures=['res.wf()', 'res.inp() == self.g_instr()'])
    ci.splice('code_alignment_factor', ret='res', ensures=['res == self.g_caf()'])
    ci.splice('data_alignment_factor', ret='res', ensures=['res == self.g_daf()'])
    ci.own(OWN)
    sk.add('read::cfi', ci)
    sk.add('read::cfi', cfi.item(r'^struct PointerEncodingParameters<').clean(offset=False, rejrec=['R']))
    sk.add('read::cfi', cfi.item(r'^pub struct CallFrameInstructionIter<').clean(offset=False, rejrec=['R']))
    sk.add('read::cfi', "impl<'a, R: Reader> CallFrameInstructionIter<'a, R> {\n" + need(M, 'it') + '\n}', label='CallFrameInstructionIter-ghost')

    sk.add('read::cfi', cfi.item(r"^pub struct UnwindTable<'a, 'ctx, R, S = StoreOnHeap>", with_attrs=False).clean(offset=False, rejrec=['R', 'S']))
    ut = cfi.item(r"^impl<'a, 'ctx, R, S> UnwindTable<'a, 'ctx, R, S>", label='UnwindTable')
    ut.keep_only(['new_for_cie', 'next_row']).extbody(['next_row']).clean(offset=False)
    ut.insert_members(need(M, 'ut') + UT_GHOST_EXTRA)
    nr = need(C, ('ut', 'next_row'))
    # the one sentence added to next_row's (verified-elsewhere) contract: it never re-seats the context reference
    ut.splice('next_row', ret='res', **with_delta('UnwindTable', 'next_row', nr))
    ut.splice('new_for_cie', ret='res',
              requires=['old(ctx).wf()', '[C01:address-size-validated] valid_address_size(cie.address_size)'],
              ensures=['res.g_wf()', '[C06:cie-table-starts-from-context] res.g_ctx() == old(ctx).abs()', '!res.g_done()', 'res.g_next() == 0',
                       '*final(res.ctx) == *final(ctx)'],
              owners=OWN_CTX, canary=True)
    ut.own(OWN)
    sk.add('read::cfi', ut)

# ----------------------------------------------------------------------------------------------------------------------
# 6. UnwindContext
# ----------------------------------------------------------------------------------------------------------------------
REPR_OLD = 'pub closed spec fn repr_ok(&self) -> bool { self.stack.view().len() >= (if self.hidden() { 2nat } else { 1nat }) }'
REPR_NEW = ('pub closed spec fn repr_ok(&self) -> bool { self.stack.view().len() >= (if self.hidden() { 2nat } else { 1nat })\n'
            '        && (forall|i: int| 0 <= i < self.stack.view().len() ==> (#[trigger] self.stack.view()[i]).inv()) }')

ROWS = 'self.stack.view()'
ABSF = '|r: UnwindTableRow<T, S>| r.abs()'


def populate_context(ctx, sk, cfi, C, M):
    sk.add('read::cfi', cfi.item(r'^pub struct UnwindContext<', with_attrs=False).clean(rejrec=['T', 'S']))
    uc = cfi.item(r'^impl<T, S> UnwindContext<T, S>', label='UnwindContext')
    # R-SLICEPAT: slice patterns are outside Verus.  `match *E { [] => A, [ref rule] => B, _ => C }` becomes the equivalent match on
    # E.len() with `rule` bound to &E[0]; the scrutinee E and the three arms are kept verbatim (regex groups).
    uc.custom_re('R-SLICEPAT', r'match \*([^\n{]+?) \{\n(\s*)\[\] => ([^\n]+),\n\s*\[ref rule\] => ([^\n]+),\n',
                 r'match \1.len() {\n\g<2>0 => \3,\n\g<2>1 => { let rule = &\1[0]; \4 }\n')
    # R-CLONE: Verus has no built-in Clone for tuples; `rule.clone()` on &(Register, RegisterRule<T>) is written component-wise
    uc.custom('R-CLONE', 'Some(Some(rule.clone()))', 'Some(Some((rule.0, rule.1.clone())))')
    old, new = closure_spec('StackFull')
    uc.custom('R-CLOSURE-SPEC', old, new, count=2)
    uc.clean()
    ghost = need(M, 'uc')
    if REPR_OLD not in ghost:
        raise Lost('cfi_unwind.py: UnwindContext::repr_ok')
    uc.insert_members(ghost.replace(REPR_OLD, REPR_NEW))
    guard_unknown_loops(uc, {'initialize': [0]})

    def contract(name):
        return with_delta('UnwindContext', name, need(C, ('uc', name)))

    uc.splice('new_in', ret='res', canary=True, **contract('new_in'))
    # initialize: NO precondition on the state of the context (only the static storage capacity and the validated address size of
    # the CIE): every later call in its body (new_for_cie, next_row, save_initial_rules) has a precondition on the context that can
    # only be discharged from reset()'s postcondition, and the tagged mid-point assertion pins the state the CIE table starts from.
    uc.splice('initialize', ret='res',
              requires=['[C06:storage-nonempty] Self::max_rows() >= 1', '[C01:address-size-validated] valid_address_size(cie.address_size)'],
              ensures=['[C06:initialize-saves-initial-rules] res is Ok ==> final(self).wf() && final(self).abs().initial == Some(final(self).abs().top().rules)'],
              loops={0: '''invariant
                table.g_wf(), table.g_ctx().initial is None, *final(table.ctx) == verif_f0,
            decreases table.g_inp().len, (if table.g_done() { 0nat } else { 1nat })'''},
              before=[('let mut table = UnwindTable::new_for_cie(', 'assert(self.abs() == ACtx::<T>::fresh() && self.wf()); // [C20:initialize-resets-first]')],
              after=[('let mut table = UnwindTable::new_for_cie(section, bases, self, cie);', 'let ghost verif_f0 = *final(table.ctx);')],
              attrs='#[verifier::loop_isolation(false)]', owners=OWN_CTX, canary=True)
    uc.splice('reset', canary=True, **contract('reset'),
              after=[('self.is_initialized = false;', f'proof {{ assert({ROWS}.len() == 1 ==> {ROWS}.map_values({ABSF}) =~= seq![{ROWS}[0].abs()]); }}')])
    uc.splice('row', ret='res', canary=True, **contract('row'),
              before=[('self.stack.last().unwrap()', 'proof { broadcast use group_seq_abs; }')])
    # row_mut: the caller may write anything through the returned reference, so the row invariant of the final context is
    # conditional on the final value of that row (cfi_unwind assumes `final(self).repr_ok()` outright, with the length-only repr_ok)
    uc.splice('row_mut', ret='res', canary=True, **contract('row_mut'),
              before=[('self.stack.last_mut().unwrap()', 'proof { broadcast use group_seq_abs; }')])
    uc.splice('save_initial_rules', ret='res', canary=True, **contract('save_initial_rules'),
              before=[('crate::verif_assert(!self.is_initialized);', '''proof {
            broadcast use group_seq_abs;
            let verif_rs = self.stack.view().last().registers.rules.view();
            assert(self.stack.view().last().inv());
            lemma_rules_len(verif_rs);
            if verif_rs.len() == 0 { lemma_rules_empty(verif_rs); } else if verif_rs.len() == 1 { lemma_rules_single(verif_rs); }
        }''')])
    for f in ['start_address', 'set_start_address', 'set_register_rule', 'clear_register_rule', 'set_cfa', 'cfa_mut']:
        c = need(C, ('uc', f))
        uc.splice(f, ret='res' if f in ('start_address', 'set_register_rule', 'clear_register_rule', 'cfa_mut') else None,
                  requires=c['requires'], ensures=c['ensures'], before=c['before'])
    uc.splice('get_initial_rule', ret='res', canary=True, **contract('get_initial_rule'))
    uc.splice('push_row', ret='res', canary=True, **contract('push_row'),
              before=[('let new_row = self.row().clone();', 'proof { broadcast use group_seq_abs; }')])
    uc.splice('pop_row', ret='res', canary=True, **contract('pop_row'),
              before=[('if self.stack.len() <=', 'proof { broadcast use group_seq_abs; }')])
    uc.own(OWN_CTX)
    sk.add('read::cfi', uc)


def build(ctx):
    sk = Skeleton(ctx, core.rd('prelude/crate.rs') + '\npub use crate::read::cfi::CallFrameInstruction;\n')
    core.populate(ctx, sk)
    populate(ctx, sk)
    return sk
