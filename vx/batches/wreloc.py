"""B-wreloc: relocation transparency on the write side (DESIGN.md 6 C18; C09 for the plain default bodies).

Built on `wcore` (trait `Writer` with the EVENT contracts). This batch adds
1. `write::plain::PlainWriter` - the text of `trait Writer` again (R-IMPL: only the trait name is changed, so that it
   can live next to the event-contract trait) in which the five relocatable methods `write_address`, `write_offset`,
   `write_offset_at`, `write_eh_pointer`, `write_reference` KEEP THEIR DEFAULT BODIES and are verified against the
   "plain writer" contracts: the field written is `plain_lower(event, position)` (constant address => `wu(val,size)`,
   symbol => Err(InvalidAddress), offset => `wu(val,size)`, offset_at => `PatchU`, eh pointer => the value relative to
   the field position for pcrel, encoded per format, any other application => Err(UnsupportedPointerEncoding);
   reference => Err(InvalidReference)). This is what every writer that does not override them (EndianVec) does.
2. `write::relocate`: `Relocation`, `RelocationTarget`, `trait RelocateWriter` (contract layer: ghost `inner()` = the
   wrapped writer, ghost `relocs()` = the relocation log; `writer/writer_mut/relocate` contracts are assumptions on
   implementations: `relocate` appends exactly its argument and does not touch the inner writer, `writer_mut` hands out
   the inner writer and leaves the log alone), and `impl<T: RelocateWriter> Writer for T` with its REAL bodies
   (R-IMPL: emitted as `impl WriterImpl for T`, a generated contract-less trait with the same signatures - the ghost
   event log `wv().ops` of the contract trait is a history variable that a blanket impl has no state to store, so
   the impl is verified against the LOWERED form of the event contracts): for every overridden method
   `Ok ==> reloc_lower(event, len-before) == Some((field, reloc))`, the inner writer received exactly `field`
   and the log grew by exactly `reloc`; Err ==> nothing written; `write`/`write_at`/`len`/`endian` pass through and record
   nothing. Constant addresses: same field as the plain writer, no relocation. Symbolic addresses / every
   write_offset(_at) / symbolic eh pointers: ZERO of the given size + `Relocation{offset: len-before (or the patch
   offset), size, target, addend, eh_pe}`.
3. The C18 lemmas (vx/specs/wreloc.rs): applying the recorded relocation to the zero field gives the plain writer's
   field (`lemma_c18_offset`, `_offset_at`, `_address`, `_constant`, `_eh_pointer`).
Refinement argument (not mechanised): with the history variable `ops` := the sequence of events of the calls made,
`reloc_lower` maps it to (inner log, relocation log); each clause above is one simulation step.

TRUSTED: nothing beyond core's. OBSERVATIONS: (a) a RelocateWriter records the relocation BEFORE the placeholder
write; if that write fails (unsupported size) the log keeps a relocation for bytes that were never written
(clause `reloc-err-log` states exactly this: on Err the log is unchanged or has that one extra entry).
(b) `write_offset(val, .., size)` on a RelocateWriter accepts a `val` that does not fit `size` (the plain writer returns
ValueTooLarge): the overflow is left to whoever applies the relocation. (c) `addend: val as i64` wraps for val >= 2^63.
NOT DECIDED: that default methods not overridden by the blanket impl (write_udata, write_u8.., write_uleb128 ..) record
no relocation on a RelocateWriter - they reach the section only through `write`/`write_at`, which are verified to
record nothing; the remaining step (the default bodies call nothing else) is by inspection of `trait Writer`.
"""
from lib import *
from batches import core, wcore
from batches.wcore import O, F, ERR_UNCH, OWN

TRUSTED = list(wcore.TRUSTED)

WRITER_IMPL = """
/// R-IMPL: contract-less twin of `trait Writer` with the signatures the blanket impl provides
pub trait WriterImpl {
    type Endian: Endianity;
    fn endian(&self) -> Self::Endian;
    fn len(&self) -> usize;
    fn write(&mut self, bytes: &[u8]) -> Result<()>;
    fn write_at(&mut self, offset: usize, bytes: &[u8]) -> Result<()>;
    fn write_address(&mut self, address: Address, size: u8) -> Result<()>;
    fn write_offset(&mut self, val: usize, section: SectionId, size: u8) -> Result<()>;
    fn write_offset_at(&mut self, offset: usize, val: usize, section: SectionId, size: u8) -> Result<()>;
    fn write_eh_pointer(&mut self, address: Address, eh_pe: constants::DwEhPe, size: u8) -> Result<()>;
}
"""

RW_GHOST = '''
    // ---- ghost view (contract layer): the wrapped writer and the relocation log
    spec fn inner(&self) -> Self::Writer;
    spec fn relocs(&self) -> Seq<Relocation>;
'''

IO = 'old(self).inner().wv()'
IF = 'final(self).inner().wv()'
R0 = 'old(self).relocs()'
R1 = 'final(self).relocs()'


def plain_contracts(wr):
    def plain(ev):
        return [f'[C18:plain-field] res is Ok ==> (plain_lower({ev}, {O}.len) matches Some(op) && emitted({O}, {F}, op))',
                f'[C18:plain-refuse] plain_lower({ev}, {O}.len) is None ==> res is Err',
                ERR_UNCH]
    wr.splice('write_address', ret='res', ensures=plain('WOp::Address { address, size }') + [
        '[C18:plain-symbol] address is Symbol ==> res == Err::<(), Error>(Error::InvalidAddress)',
        '[C09:udata-fit] res is Ok ==> (address matches Address::Constant(v) && wsize_ok(size as nat) && ufits(v as nat, size as nat))'])
    wr.splice('write_offset', ret='res', ensures=plain('WOp::Offset { val, section: _section, size }') + [
        '[C09:udata-fit] res is Ok ==> wsize_ok(size as nat) && ufits(val as nat, size as nat)',
        '[C09:udata-too-large] wsize_ok(size as nat) && !ufits(val as nat, size as nat) ==> res == Err::<(), Error>(Error::ValueTooLarge)'])
    wr.splice('write_offset_at', ret='res', ensures=plain('WOp::PatchOffset { offset, val, section: _section, size }') + [
        f'[C09:udata-at-fit] res is Ok ==> wsize_ok(size as nat) && ufits(val as nat, size as nat) && offset + size <= {O}.len',
        '[C09:udata-at-too-large] wsize_ok(size as nat) && !ufits(val as nat, size as nat) ==> res == Err::<(), Error>(Error::ValueTooLarge)'])
    wr.splice('write_eh_pointer', ret='res', ensures=plain('WOp::EhPointer { address, eh_pe, size }') + [
        '[C18:plain-symbol] address is Symbol ==> res == Err::<(), Error>(Error::InvalidAddress)',
        f'[C09:eh-application] (address matches Address::Constant(v) && eh_plain_value(v, eh_pe, {O}.len) is None) ==> res == Err::<(), Error>(Error::UnsupportedPointerEncoding(eh_pe))',
        f'[C09:eh-data] res is Ok ==> (address matches Address::Constant(v) && eh_plain_value(v, eh_pe, {O}.len) matches Some(pv) && eh_data_fits(pv, crate::constants::DwEhPe(eh_format(eh_pe)), size))'],
        after=[('let offset = self.len() as u64;', 'proof { let x = val as int - old(self).wv().len as int; '
                 'assert(old(self).wv().len <= usize::MAX); '
                 'if x >= 0 { vstd::arithmetic::div_mod::lemma_small_mod(x as nat, 0x1_0000_0000_0000_0000); } '
                 'else { vstd::arithmetic::div_mod::lemma_mod_multiples_vanish(1, x, 0x1_0000_0000_0000_0000); vstd::arithmetic::div_mod::lemma_small_mod((x + 0x1_0000_0000_0000_0000) as nat, 0x1_0000_0000_0000_0000); assert(0x1_0000_0000_0000_0000 * 1 + x == x + 0x1_0000_0000_0000_0000); } }')])
    wr.splice('write_reference', ret='res', ensures=[
        '[C18:plain-reference] res == Err::<(), Error>(Error::InvalidReference)', ERR_UNCH])


def populate(ctx, sk):
    wrs = Source('write/writer.rs', ctx)
    rel = Source('write/relocate.rs', ctx)
    wcore.ensure_dwehpe(ctx, sk)
    wcore.ensure_structural(sk, 'constants', 'DwEhPe')   # `match eh_pe.application() { constants::DW_EH_PE_absptr => ..`

    sk.mods['write']['uses'] += '\npub use self::relocate::*;'
    sk.module('write::relocate', '''use crate::common::SectionId;
use crate::constants;
use crate::endianity::Endianity;
use crate::write::{Address, Error, Result, Writer};
use crate::wspec::*;
use crate::wrspec::*;''')
    sk.add('write::relocate', rel.item(r'^pub struct Relocation \{', label='Relocation').clean())
    sk.add('write::relocate', rel.item(r'^pub enum RelocationTarget \{', label='RelocationTarget').clean())

    sk.module('wrspec')
    sk.add('wrspec', core.rd('specs/wreloc.rs'), label='wrspec')

    # ---- 1. the plain writer: default bodies of the five relocatable methods
    sk.module('write::plain', '''use crate::common::{Format, SectionId};
use crate::constants;
use crate::endianity::Endianity;
use crate::leb128::write::Leb128;
use crate::write::{Address, Error, Result};
use crate::vspec::*;
use crate::wspec::*;
use crate::wrspec::*;''')
    pw = wrs.item(r'^pub trait Writer \{', label='PlainWriter')
    pw.required(wcore.PRIMS)
    pw.drop(['write_initial_length', 'write_initial_length_at'])   # construct the private InitialLengthOffset; verified in wcore
    pw.custom('R-IMPL', 'pub trait Writer {', 'pub trait PlainWriter {')
    pw.clean()
    wcore.writer_contracts(pw, plain=True)
    plain_contracts(pw)
    sk.add('write::plain', pw)

    # ---- 2. RelocateWriter
    rw = rel.item(r'^pub trait RelocateWriter \{', label='RelocateWriter').clean()
    rw.insert_after('type Writer: Writer;', RW_GHOST)
    rw.splice('writer', ret='res', ensures=['*res == self.inner()'])
    rw.splice('writer_mut', ret='res', ensures=[
        '*res == old(self).inner()', 'final(self).inner() == *final(res)',
        '[C18:reloc-log-owner] final(self).relocs() == old(self).relocs()'])
    rw.splice('relocate', ensures=[
        '[C18:reloc-log-owner] final(self).relocs() == old(self).relocs().push(relocation)',
        'final(self).inner().wv() == old(self).inner().wv()'])
    sk.add('write::relocate', rw)
    sk.add('write::relocate', WRITER_IMPL, label='WriterImpl')

    bi = rel.item(r'^impl<T: RelocateWriter> Writer for T \{', label='Writer for RelocateWriter')
    bi.custom('R-IMPL', 'impl<T: RelocateWriter> Writer for T {', 'impl<T: RelocateWriter> WriterImpl for T {')
    bi.clean()
    bi.own(['C18'])
    SAME_LOG = f'[C18:reloc-nothing-else] {R1} == {R0}'
    IERR = f'[C18:reloc-err] res is Err ==> wunch({IO}, {IF})'
    bi.splice('endian', ret='res', ensures=['res.big() == self.inner().wv().be'])
    bi.splice('len', ret='res', ensures=['[C18:reloc-pass] res as nat == self.inner().wv().len'])
    bi.splice('write', ret='res', ensures=[
        f'[C18:reloc-pass] res is Ok ==> emitted({IO}, {IF}, WOp::Bytes(bytes@))', IERR, SAME_LOG])
    bi.splice('write_at', ret='res', ensures=[
        f'[C18:reloc-pass] res is Ok ==> emitted({IO}, {IF}, WOp::PatchBytes {{ offset: offset as nat, bytes: bytes@ }})', IERR, SAME_LOG])

    def lowered(ev, pos):
        return [f'[C18:reloc-field] res is Ok ==> (reloc_lower({ev}, {pos}) matches Some(p) && emitted({IO}, {IF}, p.0) && {R1} == relocs_after({R0}, p.1))',
                f'[C18:reloc-refuse] reloc_lower({ev}, {pos}) is None ==> res is Err && {R1} == {R0}',
                IERR,
                f'[C18:reloc-err-log] res is Err ==> {R1} == {R0} || (reloc_lower({ev}, {pos}) matches Some(p) && {R1} == relocs_after({R0}, p.1))']
    bi.splice('write_address', ret='res', ensures=lowered('WOp::Address { address, size }', f'{IO}.len') + [
        f'[C18:reloc-constant] res is Ok && address is Constant ==> {R1} == {R0} && (plain_lower(WOp::Address {{ address, size }}, {IO}.len) matches Some(op) && emitted({IO}, {IF}, op))',
        f'[C18:reloc-zero] res is Ok && address is Symbol ==> emitted({IO}, {IF}, wu(0, size as nat)) && {R1}.len() == {R0}.len() + 1 && {R1}.last().offset == {IO}.len && {R1}.last().size == size'])
    bi.splice('write_offset', ret='res', ensures=lowered('WOp::Offset { val, section, size }', f'{IO}.len') + [
        f'[C18:reloc-zero] res is Ok ==> emitted({IO}, {IF}, wu(0, size as nat)) && {R1}.len() == {R0}.len() + 1 && {R1}.last().offset == {IO}.len && {R1}.last().size == size '
        f'&& {R1}.last().target == RelocationTarget::Section(section) && {R1}.last().addend == val as i64'])
    bi.splice('write_offset_at', ret='res', ensures=lowered('WOp::PatchOffset { offset, val, section, size }', f'{IO}.len') + [
        f'[C18:reloc-zero] res is Ok ==> emitted({IO}, {IF}, WOp::PatchU {{ offset: offset as nat, val: 0, size: size as nat }}) && {R1}.len() == {R0}.len() + 1 && {R1}.last().offset == offset && {R1}.last().size == size'])
    bi.splice('write_eh_pointer', ret='res', ensures=lowered('WOp::EhPointer { address, eh_pe, size }', f'{IO}.len') + [
        f'[C18:reloc-constant] res is Ok && address is Constant ==> {R1} == {R0} && emitted({IO}, {IF}, WOp::EhPointer {{ address, eh_pe, size }})',
        f'[C18:reloc-zero] res is Ok && address is Symbol ==> (eh_reloc_size(eh_pe, size) matches Some(sz) && emitted({IO}, {IF}, wu(0, sz as nat)) && {R1}.len() == {R0}.len() + 1 && {R1}.last().offset == {IO}.len && {R1}.last().size == sz && {R1}.last().eh_pe == Some(eh_pe))',
        f'[C18:reloc-eh-leb] (address is Symbol && eh_reloc_size(eh_pe, size) is None) ==> res == Err::<(), Error>(Error::UnsupportedPointerEncoding(eh_pe))'])
    sk.add('write::relocate', bi)
    return sk


def build(ctx):
    sk = Skeleton(ctx, core.rd('prelude/crate.rs'))
    core.populate(ctx, sk)
    wcore.populate(ctx, sk)
    populate(ctx, sk)
    return sk
