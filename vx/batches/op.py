"""B-op (decode part): read::Operation::parse, compute_pc, OperationIter  (DESIGN.md 6 C07/C01/C10).

The postconditions of `Operation::parse` are generated from OPS below, a table written from DWARF 5 section 2.5 /
7.7.1 (plus the GNU and WebAssembly extensions gimli documents): opcode -> operand layout -> decoded operation.
[C07:decode-total] (one clause per encoded size, generated from the same table): an operation whose operands all have a fixed
size decodes successfully whenever its bytes are present (no spurious rejection); B-op-eval builds its step totality on it.
"""
from lib import *
from batches import core

TRUSTED = list(core.TRUSTED)
# Operation::parse: ~80 clauses x ~180 match arms; the default rlimit (10) is not enough when an obligation fails
VERUS_ARGS = ['--rlimit', '40']
RETRY_RLIMIT = 120

# operand kinds: u1 s1 u2 s2 u4 s4 u8 s8 addr word uleb sleb ; blk(k) = block whose length is operand k ; v2addr = address-size when version 2 else word
# pattern: Rust pattern on `op` binding fields f0..; constraints: spec expression over operand values o0.. and fields
OPS = [
    (['DW_OP_addr'], ['addr'], 'Operation::Address { address }', 'address == o0'),
    (['DW_OP_deref'], [], 'Operation::Deref { base_type, size, space }', 'base_type.0.as_nat() == 0 && size == encoding.address_size && !space'),
    (['DW_OP_const1u'], ['u1'], 'Operation::UnsignedConstant { value }', 'value == o0'),
    (['DW_OP_const1s'], ['s1'], 'Operation::SignedConstant { value }', 'value == o0'),
    (['DW_OP_const2u'], ['u2'], 'Operation::UnsignedConstant { value }', 'value == o0'),
    (['DW_OP_const2s'], ['s2'], 'Operation::SignedConstant { value }', 'value == o0'),
    (['DW_OP_const4u'], ['u4'], 'Operation::UnsignedConstant { value }', 'value == o0'),
    (['DW_OP_const4s'], ['s4'], 'Operation::SignedConstant { value }', 'value == o0'),
    (['DW_OP_const8u'], ['u8'], 'Operation::UnsignedConstant { value }', 'value == o0'),
    (['DW_OP_const8s'], ['s8'], 'Operation::SignedConstant { value }', 'value == o0'),
    (['DW_OP_constu'], ['uleb'], 'Operation::UnsignedConstant { value }', 'value == o0'),
    (['DW_OP_consts'], ['sleb'], 'Operation::SignedConstant { value }', 'value == o0'),
    (['DW_OP_dup'], [], 'Operation::Pick { index }', 'index == 0'),
    (['DW_OP_drop'], [], 'Operation::Drop', 'true'),
    (['DW_OP_over'], [], 'Operation::Pick { index }', 'index == 1'),
    (['DW_OP_pick'], ['u1'], 'Operation::Pick { index }', 'index == o0'),
    (['DW_OP_swap'], [], 'Operation::Swap', 'true'),
    (['DW_OP_rot'], [], 'Operation::Rot', 'true'),
    (['DW_OP_xderef'], [], 'Operation::Deref { base_type, size, space }', 'base_type.0.as_nat() == 0 && size == encoding.address_size && space'),
    (['DW_OP_abs'], [], 'Operation::Abs', 'true'),
    (['DW_OP_and'], [], 'Operation::And', 'true'),
    (['DW_OP_div'], [], 'Operation::Div', 'true'),
    (['DW_OP_minus'], [], 'Operation::Minus', 'true'),
    (['DW_OP_mod'], [], 'Operation::Mod', 'true'),
    (['DW_OP_mul'], [], 'Operation::Mul', 'true'),
    (['DW_OP_neg'], [], 'Operation::Neg', 'true'),
    (['DW_OP_not'], [], 'Operation::Not', 'true'),
    (['DW_OP_or'], [], 'Operation::Or', 'true'),
    (['DW_OP_plus'], [], 'Operation::Plus', 'true'),
    (['DW_OP_plus_uconst'], ['uleb'], 'Operation::PlusConstant { value }', 'value == o0'),
    (['DW_OP_shl'], [], 'Operation::Shl', 'true'),
    (['DW_OP_shr'], [], 'Operation::Shr', 'true'),
    (['DW_OP_shra'], [], 'Operation::Shra', 'true'),
    (['DW_OP_xor'], [], 'Operation::Xor', 'true'),
    (['DW_OP_bra'], ['s2'], 'Operation::Bra { target }', 'target == o0'),
    (['DW_OP_eq'], [], 'Operation::Eq', 'true'),
    (['DW_OP_ge'], [], 'Operation::Ge', 'true'),
    (['DW_OP_gt'], [], 'Operation::Gt', 'true'),
    (['DW_OP_le'], [], 'Operation::Le', 'true'),
    (['DW_OP_lt'], [], 'Operation::Lt', 'true'),
    (['DW_OP_ne'], [], 'Operation::Ne', 'true'),
    (['DW_OP_skip'], ['s2'], 'Operation::Skip { target }', 'target == o0'),
    (['lit'], [], 'Operation::UnsignedConstant { value }', 'value == b0.at(0) - 0x30'),
    (['reg'], [], 'Operation::Register { register }', 'register.0 == b0.at(0) - 0x50'),
    (['breg'], ['sleb'], 'Operation::RegisterOffset { register, offset, base_type }', 'register.0 == b0.at(0) - 0x70 && offset == o0 && base_type.0.as_nat() == 0'),
    (['DW_OP_regx'], ['uleb'], 'Operation::Register { register }', 'register.0 == o0'),
    (['DW_OP_fbreg'], ['sleb'], 'Operation::FrameOffset { offset }', 'offset == o0'),
    (['DW_OP_bregx'], ['uleb', 'sleb'], 'Operation::RegisterOffset { register, offset, base_type }', 'register.0 == o0 && offset == o1 && base_type.0.as_nat() == 0'),
    (['DW_OP_piece'], ['uleb'], 'Operation::Piece { size_in_bits, bit_offset }', 'size_in_bits == 8 * o0 && bit_offset is None'),
    (['DW_OP_deref_size'], ['u1'], 'Operation::Deref { base_type, size, space }', 'base_type.0.as_nat() == 0 && size == o0 && !space'),
    (['DW_OP_xderef_size'], ['u1'], 'Operation::Deref { base_type, size, space }', 'base_type.0.as_nat() == 0 && size == o0 && space'),
    (['DW_OP_nop'], [], 'Operation::Nop', 'true'),
    (['DW_OP_push_object_address'], [], 'Operation::PushObjectAddress', 'true'),
    (['DW_OP_call2'], ['u2'], 'Operation::Call { offset: DieReference::UnitRef(UnitOffset(v)) }', 'v.as_nat() == o0'),
    (['DW_OP_call4'], ['u4'], 'Operation::Call { offset: DieReference::UnitRef(UnitOffset(v)) }', 'v.as_nat() == o0'),
    (['DW_OP_call_ref'], ['word'], 'Operation::Call { offset: DieReference::DebugInfoRef(DebugInfoOffset(v)) }', 'v.as_nat() == o0'),
    (['DW_OP_GNU_variable_value'], ['word'], 'Operation::VariableValue { offset: DebugInfoOffset(v) }', 'v.as_nat() == o0'),
    (['DW_OP_form_tls_address', 'DW_OP_GNU_push_tls_address'], [], 'Operation::TLS', 'true'),
    (['DW_OP_call_frame_cfa'], [], 'Operation::CallFrameCFA', 'true'),
    (['DW_OP_bit_piece'], ['uleb', 'uleb'], 'Operation::Piece { size_in_bits, bit_offset }', 'size_in_bits == o0 && bit_offset == Some(o1 as u64)'),
    (['DW_OP_implicit_value'], ['uleb', 'blk0'], 'Operation::ImplicitValue { data }', 'window(b0, data.rv(), p1 as nat, o0 as nat)'),
    (['DW_OP_stack_value'], [], 'Operation::StackValue', 'true'),
    (['DW_OP_implicit_pointer', 'DW_OP_GNU_implicit_pointer'], ['v2addr', 'sleb'], 'Operation::ImplicitPointer { value: DebugInfoOffset(v), byte_offset }', 'v.as_nat() == o0 && byte_offset == o1'),
    (['DW_OP_addrx', 'DW_OP_GNU_addr_index'], ['uleb'], 'Operation::AddressIndex { index: DebugAddrIndex(v) }', 'v.as_nat() == o0'),
    (['DW_OP_constx', 'DW_OP_GNU_const_index'], ['uleb'], 'Operation::ConstantIndex { index: DebugAddrIndex(v) }', 'v.as_nat() == o0'),
    (['DW_OP_entry_value', 'DW_OP_GNU_entry_value'], ['uleb', 'blk0'], 'Operation::EntryValue { expression }', 'window(b0, expression.rv(), p1 as nat, o0 as nat)'),
    (['DW_OP_GNU_parameter_ref'], ['u4'], 'Operation::ParameterRef { offset: UnitOffset(v) }', 'v.as_nat() == o0'),
    (['DW_OP_const_type', 'DW_OP_GNU_const_type'], ['uleb', 'u1', 'blk1'], 'Operation::TypedLiteral { base_type: UnitOffset(v), value }', 'v.as_nat() == o0 && window(b0, value.rv(), p2 as nat, o1 as nat)'),
    (['DW_OP_regval_type', 'DW_OP_GNU_regval_type'], ['uleb', 'uleb'], 'Operation::RegisterOffset { register, offset, base_type }', 'register.0 == o0 && offset == 0 && base_type.0.as_nat() == o1'),
    (['DW_OP_deref_type', 'DW_OP_GNU_deref_type'], ['u1', 'uleb'], 'Operation::Deref { base_type, size, space }', 'size == o0 && base_type.0.as_nat() == o1 && !space'),
    (['DW_OP_xderef_type'], ['u1', 'uleb'], 'Operation::Deref { base_type, size, space }', 'size == o0 && base_type.0.as_nat() == o1 && space'),
    (['DW_OP_convert', 'DW_OP_GNU_convert'], ['uleb'], 'Operation::Convert { base_type }', 'base_type.0.as_nat() == o0'),
    (['DW_OP_reinterpret', 'DW_OP_GNU_reinterpret'], ['uleb'], 'Operation::Reinterpret { base_type }', 'base_type.0.as_nat() == o0'),
    (['DW_OP_GNU_uninit'], [], 'Operation::Uninitialized', 'true'),
]

FIXED = {'u1': 1, 's1': 1, 'u2': 2, 's2': 2, 'u4': 4, 's4': 4, 'u8': 8, 's8': 8}


def opcode_cond(names):
    cs = []
    for n in names:
        if n == 'lit':
            cs.append('(0x30 <= b0.at(0) <= 0x4f)')
        elif n == 'reg':
            cs.append('(0x50 <= b0.at(0) <= 0x6f)')
        elif n == 'breg':
            cs.append('(0x70 <= b0.at(0) <= 0x8f)')
        else:
            cs.append(f'b0.at(0) == constants::{n}.0')
    return '(' + ' || '.join(cs) + ')'


def operand_lets(kinds):
    """spec let-chain computing operand values o_i, start positions p_i and the total size"""
    s = 'let p0 = 1int; '
    for i, k in enumerate(kinds):
        p = f'p{i}'
        if k in FIXED:
            n = FIXED[k]
            if k == 'u1':
                s += f'let o{i} = b0.at({p}) as int; '
            elif k == 's1':
                s += f'let o{i} = sext(b0.at({p}) as nat, 8); '
            elif k[0] == 'u':
                s += f'let o{i} = b0.u({p}, {n}) as int; '
            else:
                s += f'let o{i} = b0.s({p}, {n}); '
            s += f'let p{i + 1} = {p} + {n}; '
        elif k == 'addr':
            s += f'let o{i} = b0.u({p}, encoding.address_size as int) as int; let p{i + 1} = {p} + encoding.address_size as int; '
        elif k == 'word':
            s += f'let o{i} = b0.u({p}, word_size(encoding.format) as int) as int; let p{i + 1} = {p} + word_size(encoding.format) as int; '
        elif k == 'v2addr':
            s += (f'let w{i} = if encoding.version == 2 {{ encoding.address_size as int }} else {{ word_size(encoding.format) as int }}; '
                  f'let o{i} = b0.u({p}, w{i}) as int; let p{i + 1} = {p} + w{i}; ')
        elif k == 'uleb':
            s += f'let o{i} = b0.uleb({p}) as int; let p{i + 1} = {p} + b0.leb_len({p}) as int; '
        elif k == 'sleb':
            s += f'let o{i} = b0.sleb({p}); let p{i + 1} = {p} + b0.leb_len({p}) as int; '
        elif k.startswith('blk'):
            j = int(k[3:])
            s += f'let o{i} = 0int; let p{i + 1} = {p} + o{j}; '
    s += f'let total = p{len(kinds)}; '
    return s


def parse_clauses():
    out = []
    for names, kinds, pat, cons in OPS:
        tag = names[0].replace('DW_OP_', '')
        body = (f'({{ let b0 = old(bytes).rv(); {opcode_cond(names)} ==> ({{ {operand_lets(kinds)} '
                f'(op matches {pat} && ({cons}) && adv(b0, final(bytes).rv(), total as nat)) }}) }})')
        out.append(f'[C07:decode-{tag}]' + ('[C10:view]' if 'window' in cons else '') + f' res matches Ok(op) ==> {body}')
    # WebAssembly locations (4 sub-forms)
    for sub, kind, var in [(0, 'uleb', 'WasmLocal'), (1, 'uleb', 'WasmGlobal'), (2, 'uleb', 'WasmStack'), (3, 'u4', 'WasmGlobal')]:
        val = 'b0.uleb(2) as int' if kind == 'uleb' else 'b0.u(2, 4) as int'
        size = 'b0.leb_len(2) as int' if kind == 'uleb' else '4int'
        out.append(f'[C07:decode-WASM_location-{sub}] res matches Ok(op) ==> ({{ let b0 = old(bytes).rv(); '
                   f'b0.at(0) == constants::DW_OP_WASM_location.0 && b0.at(1) == {sub} ==> (op matches Operation::{var} {{ index }} && index == {val} && adv(b0, final(bytes).rv(), (2 + {size}) as nat)) }})')
    out.append('[C07:decode-WASM_location-invalid] old(bytes).rv().len > 1 && old(bytes).rv().at(0) == constants::DW_OP_WASM_location.0 && old(bytes).rv().at(1) > 3 ==> res is Err')
    known = ' || '.join(opcode_cond(n) for n, _, _, _ in OPS) + ' || b0.at(0) == constants::DW_OP_WASM_location.0'
    out.append(f'[C07:decode-unknown-opcode] old(bytes).rv().len > 0 ==> ({{ let b0 = old(bytes).rv(); !({known}) ==> res is Err }})')
    # totality on the fixed-size part of the table: an operation whose operands all have a fixed size decodes whenever its
    # bytes are there (no spurious rejection); one clause per encoded size, generated from OPS
    by_size = {}
    for names, kinds, _, _ in OPS:
        if all(k in FIXED for k in kinds):
            by_size.setdefault(1 + sum(FIXED[k] for k in kinds), []).append(opcode_cond(names))
    for size in sorted(by_size):
        out.append(f'[C07:decode-total] ({{ let b0 = old(bytes).rv(); b0.len >= {size} && ({" || ".join(by_size[size])}) ==> res is Ok }})')
    out.append('[C01:frame] within(old(bytes).rv(), final(bytes).rv())')
    out.append('[C01:progress] res is Ok ==> final(bytes).rv().len < old(bytes).rv().len')
    return out


OP_SPECS = ''


def populate(ctx, sk):
    op = Source('read/op.rs', ctx)
    sk.mods['read']['uses'] += '\npub use self::op::*;'
    sk.module('read::op', '''use core::mem;
use crate::common::{DebugAddrIndex, DebugInfoOffset, Encoding, Register, Format};
use crate::constants;
use crate::read::{Error, Reader, ReaderOffset, Result, UnitOffset};
use crate::read::reader_clone;
use crate::vspec::*;''')
    sk.add('read::op', op.item(r'^pub enum DieReference<').clean())
    sk.add('read::op', op.item(r'^pub enum Operation<R, Offset').clean(rejrec=['R', 'Offset']))
    gt = op.item(r'^fn generic_type<').clean()
    gt.splice('generic_type', ret='res', ensures=['res.0.as_nat() == 0'], owners=['C01', 'C07'])
    sk.add('read::op', gt)
    cpc = op.item(r'^fn compute_pc<').custom('R-CLONE', 'bytecode.clone()', 'reader_clone(bytecode)').clean()
    cpc.splice('compute_pc', ret='res',
               requires=['[C07:pc-inside-bytecode] inside(bytecode.rv(), pc.rv())'],
               ensures=[
                   '[C07:branch-target] bytecode.rv().len <= isize::MAX ==> ({ let t = (pc.rv().start - bytecode.rv().start) as int + offset as int; '
                   '(0 <= t <= bytecode.rv().len ==> (res matches Ok(r) && adv(bytecode.rv(), r.rv(), t as nat))) && (res is Ok ==> 0 <= t <= bytecode.rv().len) })',
                   '[C07:branch-target-view] res matches Ok(r) ==> within(bytecode.rv(), r.rv())'],
               owners=['C01', 'C07'])
    sk.add('read::op', cpc)
    imp = op.item(r'^impl<R, Offset> Operation<R, Offset>', label='Operation').clean()
    imp.splice('parse', ret='res', ensures=parse_clauses(), owners=['C01', 'C07'])
    sk.add('read::op', imp)
    return sk


def build(ctx):
    sk = Skeleton(ctx, core.rd('prelude/crate.rs'))
    core.populate(ctx, sk)
    populate(ctx, sk)
    return sk
