"""B-attrs: attribute forms, the size table, skip == read, value normalisation  (DESIGN.md 6 C03, Appendix A.2;
safety C01; views C10).  All functions are owned by C01 + C03 (built-in overflow / bounds / unwrap / termination obligations).

Functions under contract (verbatim text of /repo/src, rewrite rules of lib.py only):
  read/abbrev.rs  AttributeSpecification::{new, name, form, implicit_const_value, size, parse}, get_attribute_size
  read/unit.rs    allow_section_offset, parse_attribute (R-SPLIT: 5 verified verbatim copies), skip_attributes,
                  AttributeValue::{u8_value, u16_value, udata_value, sdata_value, offset_value, exprloc_value},
                  Attribute::{name, form, raw_value, value, u8_value, u16_value, udata_value, sdata_value, offset_value,
                  exprloc_value},  UnitHeader::encoding (only as the argument of AttributeSpecification::size)
  read/line.rs    parse_attribute (the line-table variant: [C03:line-decode-<form>] for ALL forms of FORMS - whatever it
                  decodes it decodes as the table says; [C03:line-decode-total-*] for its form subset LINE_FORMS)
  types           AttributeSpecification, AttributeValue, Attribute, Expression, UnitType, UnitHeader (R-FIELDS: `section`)

One source of truth: the per-form postconditions of `parse_attribute` and `get_attribute_size` AND the spec functions
`fixed_size` / `var_len` / `known_form` (vx/specs/attrs.rs, marker /*GENERATED*/) that `skip_attributes`,
`AttributeSpecification::size` and the clause [C03:read-len] are stated against are generated from ONE Python table
(FORMS), written from DWARF 5 table 7.5/7.6 with NUMERIC form codes (a changed constant in constants.rs is caught too)
plus the GNU forms.  The value-normalisation clauses of `Attribute::value` come from the tables SECPTR / EXPRLOC_NAMES /
ENUM_NAMES / UDATA_NAMES (table 7.5: class of each attribute name, numeric DW_AT codes).

skip == read is one-directional (DESIGN C03): `skip_attributes` Ok ==> advanced by exactly attrs_end(..), the recursive
spec of what reading the specs one by one consumes ([C03:read-len] says parse_attribute Ok ==> advanced by attr_end(..)).
"read fails ==> skip fails" is false of the code by design (skip_leb128 accepts over-long LEB128; an address size outside
{1,2,4,8} is skipped but not read) and is not claimed.
Totality ([C03:decode-total-*], [C03:skip-total-*]): every clause above is conditional on Ok, so a form dropped from a switch
would go unnoticed; for directly specified forms whose primitives have an exact error condition in the Reader contract
layer (fixed-size reads, split/skip, read_uleb128, skip_leb128) a complete well-formed encoding must decode / be skipped.
Under the fallible Reader contract the error KIND of a primitive is unconstrained, so "UnknownForm only for unknown forms"
cannot be stated; address / word / SLEB128 / string reads have no exact error condition and get no totality clause.

Finding F2 (C01/C03, FIXED in /repo by commit 1bb5f6f): skip_attributes `skip_bytes += R::Offset::from_u8(len)` possible
arithmetic overflow - the obligation fails on the tree before that commit.  Native reproducer native/src/bin/f_attrs_1.rs.
On the fixed tree the batch exits 0.

Assumed (TRUSTED = core's ledger, nothing added):
  verif_unreachable, Result::and_then, reader_clone            (core batch)
  A-DERIVE-EQ (ghost text, not an external_body): `==` of #[derive(PartialEq)] on DwForm / DwAt / Format is structural
              equality (PartialEqSpecImpl).  Verus gives derived PartialEq no spec; without it `form == DW_FORM_x` is opaque.
  R-CLONE     4 logged rewrites: `x.clone()` on AttributeValue<R> / Expression<R> / R (derived Clone of a generic type has
              no spec in Verus) -> attrvalue_clone / expression_clone / reader_clone.  The first two are VERIFIED models of
              what derive(Clone) generates; they rest only on reader_clone.
  closure contracts of `|val| u8::try_from(val).ok()` / u16: inserted annotation, verified against the closure body.
Not decided here: Abbreviation::parse_attributes / Attributes (batch
units), AttributeValue::string_value* (need DebugStr), EntriesRaw wrappers, readers with Offset != usize (A-OFFSET),
agreement with llvm-dwarfdump.
"""
from lib import *
from batches import core

TRUSTED = list(core.TRUSTED)
VERUS_ARGS = ['--rlimit', '40']
RETRY_RLIMIT = 120
MULTIPLE_ERRORS = 6

OWN = ['C01', 'C03']

# ---------------------------------------------------------------------------------------------------------------------
# FORMS: (code, name, layout, Rust pattern on the decoded value `val`, constraint over the operand `o` / offset `p`)
# layout kinds:
#   u1 u2 u3 u4 u8 u16   fixed-size unsigned field of that many bytes         (o = its value)
#   addr                 address_size bytes                                   (o = its value)
#   word                 4 bytes in 32-bit DWARF, 8 in 64-bit DWARF           (o = its value)
#   refaddr              address_size bytes in DWARF 2, else word             (o = its value)
#   zero                 no bytes (flag_present)
#   implicit             no bytes, value is in the abbreviation (implicit_const)
#   uleb / sleb          LEB128                                               (o = its value)
#   blk1 blk2 blk4 blku  length prefix (1/2/4 bytes / ULEB128) + that many bytes   (o = length, q = offset of the data)
#   cstr                 bytes up to and including the first NUL               (o = length without the NUL)
#   indirect             ULEB128 form code, then that form
#   data4 / data8        4 / 8 bytes; class constant, or (DWARF 2/3 legacy) a section offset
OFF = 'x as nat == o'
FORMS = [
    (0x01, 'DW_FORM_addr', 'addr', 'AttributeValue::Addr(x)', 'x as nat == o'),
    (0x03, 'DW_FORM_block2', 'blk2', 'AttributeValue::Block(r)', 'window(b0, r.rv(), q as nat, o)'),
    (0x04, 'DW_FORM_block4', 'blk4', 'AttributeValue::Block(r)', 'window(b0, r.rv(), q as nat, o)'),
    (0x05, 'DW_FORM_data2', 'u2', 'AttributeValue::Data2(x)', 'x as nat == o'),
    (0x06, 'DW_FORM_data4', 'data4', None, None),
    (0x07, 'DW_FORM_data8', 'data8', None, None),
    (0x08, 'DW_FORM_string', 'cstr', 'AttributeValue::String(r)',
     'window(b0, r.rv(), p as nat, o) && p + o < b0.len && b0.at(p + o) == 0 && (forall|j: int| p <= j < p + o ==> #[trigger] b0.at(j) != 0)'),
    (0x09, 'DW_FORM_block', 'blku', 'AttributeValue::Block(r)', 'window(b0, r.rv(), q as nat, o)'),
    (0x0a, 'DW_FORM_block1', 'blk1', 'AttributeValue::Block(r)', 'window(b0, r.rv(), q as nat, o)'),
    (0x0b, 'DW_FORM_data1', 'u1', 'AttributeValue::Data1(x)', 'x as nat == o'),
    (0x0c, 'DW_FORM_flag', 'u1', 'AttributeValue::Flag(x)', 'x == (o != 0)'),
    (0x0d, 'DW_FORM_sdata', 'sleb', 'AttributeValue::Sdata(x)', 'x as int == o'),
    (0x0e, 'DW_FORM_strp', 'word', 'AttributeValue::DebugStrRef(DebugStrOffset(x))', OFF),
    (0x0f, 'DW_FORM_udata', 'uleb', 'AttributeValue::Udata(x)', 'x as nat == o'),
    (0x10, 'DW_FORM_ref_addr', 'refaddr', 'AttributeValue::DebugInfoRef(DebugInfoOffset(x))', OFF),
    (0x11, 'DW_FORM_ref1', 'u1', 'AttributeValue::UnitRef(UnitOffset(x))', OFF),
    (0x12, 'DW_FORM_ref2', 'u2', 'AttributeValue::UnitRef(UnitOffset(x))', OFF),
    (0x13, 'DW_FORM_ref4', 'u4', 'AttributeValue::UnitRef(UnitOffset(x))', OFF),
    (0x14, 'DW_FORM_ref8', 'u8', 'AttributeValue::UnitRef(UnitOffset(x))', OFF),
    (0x15, 'DW_FORM_ref_udata', 'uleb', 'AttributeValue::UnitRef(UnitOffset(x))', OFF),
    (0x16, 'DW_FORM_indirect', 'indirect', None, None),
    (0x17, 'DW_FORM_sec_offset', 'word', 'AttributeValue::SecOffset(x)', OFF),
    (0x18, 'DW_FORM_exprloc', 'blku', 'AttributeValue::Exprloc(Expression(r))', 'window(b0, r.rv(), q as nat, o)'),
    (0x19, 'DW_FORM_flag_present', 'zero', 'AttributeValue::Flag(x)', 'x'),
    (0x1a, 'DW_FORM_strx', 'uleb', 'AttributeValue::DebugStrOffsetsIndex(DebugStrOffsetsIndex(x))', OFF),
    (0x1b, 'DW_FORM_addrx', 'uleb', 'AttributeValue::DebugAddrIndex(DebugAddrIndex(x))', OFF),
    (0x1c, 'DW_FORM_ref_sup4', 'u4', 'AttributeValue::DebugInfoRefSup(DebugInfoOffset(x))', OFF),
    (0x1d, 'DW_FORM_strp_sup', 'word', 'AttributeValue::DebugStrRefSup(DebugStrOffset(x))', OFF),
    (0x1e, 'DW_FORM_data16', 'u16', 'AttributeValue::Data16(x)', 'x as nat == o'),
    (0x1f, 'DW_FORM_line_strp', 'word', 'AttributeValue::DebugLineStrRef(DebugLineStrOffset(x))', OFF),
    (0x20, 'DW_FORM_ref_sig8', 'u8', 'AttributeValue::DebugTypesRef(DebugTypeSignature(x))', 'x as nat == o'),
    (0x21, 'DW_FORM_implicit_const', 'implicit', 'AttributeValue::Sdata(x)', 'spec.sform().0 == 0x21 && x == spec.sconst()'),
    (0x22, 'DW_FORM_loclistx', 'uleb', 'AttributeValue::DebugLocListsIndex(DebugLocListsIndex(x))', OFF),
    (0x23, 'DW_FORM_rnglistx', 'uleb', 'AttributeValue::DebugRngListsIndex(DebugRngListsIndex(x))', OFF),
    (0x24, 'DW_FORM_ref_sup8', 'u8', 'AttributeValue::DebugInfoRefSup(DebugInfoOffset(x))', OFF),
    (0x25, 'DW_FORM_strx1', 'u1', 'AttributeValue::DebugStrOffsetsIndex(DebugStrOffsetsIndex(x))', OFF),
    (0x26, 'DW_FORM_strx2', 'u2', 'AttributeValue::DebugStrOffsetsIndex(DebugStrOffsetsIndex(x))', OFF),
    (0x27, 'DW_FORM_strx3', 'u3', 'AttributeValue::DebugStrOffsetsIndex(DebugStrOffsetsIndex(x))', OFF),
    (0x28, 'DW_FORM_strx4', 'u4', 'AttributeValue::DebugStrOffsetsIndex(DebugStrOffsetsIndex(x))', OFF),
    (0x29, 'DW_FORM_addrx1', 'u1', 'AttributeValue::DebugAddrIndex(DebugAddrIndex(x))', OFF),
    (0x2a, 'DW_FORM_addrx2', 'u2', 'AttributeValue::DebugAddrIndex(DebugAddrIndex(x))', OFF),
    (0x2b, 'DW_FORM_addrx3', 'u3', 'AttributeValue::DebugAddrIndex(DebugAddrIndex(x))', OFF),
    (0x2c, 'DW_FORM_addrx4', 'u4', 'AttributeValue::DebugAddrIndex(DebugAddrIndex(x))', OFF),
    (0x1f01, 'DW_FORM_GNU_addr_index', 'uleb', 'AttributeValue::DebugAddrIndex(DebugAddrIndex(x))', OFF),
    (0x1f02, 'DW_FORM_GNU_str_index', 'uleb', 'AttributeValue::DebugStrOffsetsIndex(DebugStrOffsetsIndex(x))', OFF),
    (0x1f20, 'DW_FORM_GNU_ref_alt', 'word', 'AttributeValue::DebugInfoRefSup(DebugInfoOffset(x))', OFF),
    (0x1f21, 'DW_FORM_GNU_strp_alt', 'word', 'AttributeValue::DebugStrRefSup(DebugStrOffset(x))', OFF),
]


# ---------------------------------------------------------------------------------------------------------------------
# AttributeValue variants: (variant, payload kind).  num: an integer; flag: a bool; view: a reader; expr: Expression(reader);
# w:T  newtype T around an integer/offset; dw:T  dw! constant newtype.  Used to generate the ghost `payload` projection,
# the `same_value` relation and the spec'd clone (derived Clone of a generic type has no spec in Verus).
VARIANTS = [
    ('Addr', 'num'), ('Block', 'view'), ('Data1', 'num'), ('Data2', 'num'), ('Data4', 'num'), ('Data8', 'num'), ('Data16', 'num'),
    ('Sdata', 'num'), ('Udata', 'num'), ('Exprloc', 'expr'), ('Flag', 'flag'), ('SecOffset', 'off'),
    ('DebugAddrBase', 'wo:DebugAddrBase'), ('DebugAddrIndex', 'wo:DebugAddrIndex'), ('UnitRef', 'wo:UnitOffset'),
    ('DebugInfoRef', 'wo:DebugInfoOffset'), ('DebugInfoRefSup', 'wo:DebugInfoOffset'), ('DebugLineRef', 'wo:DebugLineOffset'),
    ('LocationListsRef', 'wo:LocationListsOffset'), ('DebugLocListsBase', 'wo:DebugLocListsBase'),
    ('DebugLocListsIndex', 'wo:DebugLocListsIndex'), ('DebugMacinfoRef', 'wo:DebugMacinfoOffset'),
    ('DebugMacroRef', 'wo:DebugMacroOffset'), ('RangeListsRef', 'wo:RawRangeListsOffset'),
    ('DebugRngListsBase', 'wo:DebugRngListsBase'), ('DebugRngListsIndex', 'wo:DebugRngListsIndex'),
    ('DebugTypesRef', 'w:DebugTypeSignature'), ('DebugStrRef', 'wo:DebugStrOffset'), ('DebugStrRefSup', 'wo:DebugStrOffset'),
    ('DebugStrOffsetsBase', 'wo:DebugStrOffsetsBase'), ('DebugStrOffsetsIndex', 'wo:DebugStrOffsetsIndex'),
    ('DebugLineStrRef', 'wo:DebugLineStrOffset'), ('String', 'view'),
    ('Encoding', 'dw:DwAte'), ('DecimalSign', 'dw:DwDs'), ('Endianity', 'dw:DwEnd'), ('Accessibility', 'dw:DwAccess'),
    ('Visibility', 'dw:DwVis'), ('Virtuality', 'dw:DwVirtuality'), ('Language', 'dw:DwLang'), ('AddressClass', 'dw:DwAddr'),
    ('IdentifierCase', 'dw:DwId'), ('CallingConvention', 'dw:DwCc'), ('Inline', 'dw:DwInl'), ('Ordering', 'dw:DwOrd'),
    ('FileIndex', 'num'), ('DwoId', 'w:DwoId'),
]

# Attribute names (DWARF 5 table 7.5: code, classes).  Only the classes that gimli's AttributeValue distinguishes matter:
#   a section-offset class says WHICH section a DW_FORM_sec_offset value of that attribute points into (the "target");
#   exprloc says a DW_FORM_block* value (DWARF 2/3 encoding of expressions) is an expression.
SECPTR = {
    'lineptr': ('DebugLineRef', 'DebugLineOffset', [0x10]),                                     # stmt_list
    'loclist': ('LocationListsRef', 'LocationListsOffset',
                [0x02, 0x19, 0x2a, 0x38, 0x40, 0x46, 0x48, 0x4a, 0x4d]),                        # location string_length return_addr data_member_location frame_base segment static_link use_location vtable_elem_location
    'rnglist': ('RangeListsRef', 'RawRangeListsOffset', [0x2c, 0x55]),                          # start_scope ranges
    'macptr(macinfo)': ('DebugMacinfoRef', 'DebugMacinfoOffset', [0x43]),                       # macro_info
    'macptr(macro)': ('DebugMacroRef', 'DebugMacroOffset', [0x79]),                             # macros
    'stroffsetsptr': ('DebugStrOffsetsBase', 'DebugStrOffsetsBase', [0x72]),                    # str_offsets_base
    'addrptr': ('DebugAddrBase', 'DebugAddrBase', [0x73, 0x2133]),                              # addr_base GNU_addr_base
    'rnglistsptr': ('DebugRngListsBase', 'DebugRngListsBase', [0x74, 0x2132]),                  # rnglists_base GNU_ranges_base
    'loclistsptr': ('DebugLocListsBase', 'DebugLocListsBase', [0x8c]),                          # loclists_base
}
# attributes with class exprloc in table 7.5 (DWARF 2/3 producers encode these expressions as DW_FORM_block*)
# (0x7f DW_AT_call_origin: table 7.5 of DWARF 5 lists class exprloc, although section 3.4.1 describes a reference)
EXPRLOC_NAMES = [0x02, 0x0b, 0x0c, 0x0d, 0x19, 0x22, 0x2a, 0x2e, 0x2f, 0x37, 0x38, 0x40, 0x46, 0x48, 0x4a, 0x4d, 0x4e, 0x4f,
                 0x50, 0x51, 0x71, 0x7e, 0x7f, 0x83, 0x84, 0x85, 0x86]
# enumerated constant attributes: name -> (variant, dw type, max of the constant's storage type)
ENUM_NAMES = [(0x09, 'Ordering', 'DwOrd', 0xff), (0x13, 'Language', 'DwLang', 0xffff), (0x17, 'Visibility', 'DwVis', 0xff),
              (0x20, 'Inline', 'DwInl', 0xff), (0x32, 'Accessibility', 'DwAccess', 0xff),
              (0x33, 'AddressClass', 'DwAddr', 0xffff_ffff_ffff_ffff), (0x36, 'CallingConvention', 'DwCc', 0xff),
              (0x3e, 'Encoding', 'DwAte', 0xff), (0x42, 'IdentifierCase', 'DwId', 0xff), (0x4c, 'Virtuality', 'DwVirtuality', 0xff),
              (0x5e, 'DecimalSign', 'DwDs', 0xff), (0x65, 'Endianity', 'DwEnd', 0xff)]
# unsigned constant attributes that are reported as Udata / FileIndex / DwoId
UDATA_NAMES = [0x0b, 0x0c, 0x0d, 0x12, 0x2e, 0x38, 0x39, 0x3b, 0x51, 0x57, 0x59]
FILE_NAMES = [0x3a, 0x58]
DWOID_NAMES = [0x2131]


def gen_value_specs():
    pay, same, clone = [], [], []
    for v, k in VARIANTS:
        A = f'AttributeValue::{v}'
        if k == 'num':
            pay.append(f'        {A}(x) => Payload::Num(x as int),')
            clone.append(f'        {A}(x) => {A}(*x),')
        elif k == 'flag':
            pay.append(f'        {A}(x) => Payload::Num(if x {{ 1 }} else {{ 0 }}),')
            clone.append(f'        {A}(x) => {A}(*x),')
        elif k == 'view':
            pay.append(f'        {A}(r) => Payload::View(r.rv()),')
            same.append(f'        {A}(r) => b matches {A}(r2) && r2.rv() == r.rv(),')
            clone.append(f'        {A}(r) => {A}(reader_clone(r)),')
        elif k == 'expr':
            pay.append(f'        {A}(e) => Payload::View(e.0.rv()),')
            same.append(f'        {A}(e) => b matches {A}(e2) && e2.0.rv() == e.0.rv(),')
            clone.append(f'        {A}(e) => {A}(expression_clone(e)),')
        elif k == 'off':
            pay.append(f'        {A}(x) => Payload::Num(x.as_nat() as int),')
            clone.append(f'        {A}(x) => {A}(*x),')
        elif k.startswith('wo:'):
            pay.append(f'        {A}(x) => Payload::Num(x.0.as_nat() as int),')
            clone.append(f'        {A}(x) => {A}(*x),')
        else:
            pay.append(f'        {A}(x) => Payload::Num(x.0 as int),')
            clone.append(f'        {A}(x) => {A}(*x),')
    NL = '\n'
    return f"""
// ---- ghost projections of AttributeValue (GENERATED from VARIANTS)
pub ghost enum Payload {{ Num(int), View(RView) }}

/// numeric payload / target offset / view of a value, without its class label
pub open spec fn payload<R: Reader<Offset = Offset>, Offset: ReaderOffset>(v: AttributeValue<R, Offset>) -> Payload {{
    match v {{
{NL.join(pay)}
    }}
}}

/// equal up to the identity of reader values (a cloned reader is the same view)
pub open spec fn same_value<R: Reader<Offset = Offset>, Offset: ReaderOffset>(a: AttributeValue<R, Offset>, b: AttributeValue<R, Offset>) -> bool {{
    match a {{
{NL.join(same)}
        _ => a == b,
    }}
}}

/// unsigned reading of a constant-class value: dataN are zero-extended, a negative sdata has none
pub open spec fn unum<R: Reader<Offset = Offset>, Offset: ReaderOffset>(v: AttributeValue<R, Offset>) -> Option<int> {{
    match v {{
        AttributeValue::Data1(d) => Some(d as int),
        AttributeValue::Data2(d) => Some(d as int),
        AttributeValue::Data4(d) => Some(d as int),
        AttributeValue::Data8(d) => Some(d as int),
        AttributeValue::Udata(d) => Some(d as int),
        AttributeValue::Sdata(d) => if d < 0 {{ None }} else {{ Some(d as int) }},
        _ => None,
    }}
}}

/// signed reading: dataN are two's complement at their own width, a udata above i64::MAX has none
pub open spec fn snum<R: Reader<Offset = Offset>, Offset: ReaderOffset>(v: AttributeValue<R, Offset>) -> Option<int> {{
    match v {{
        AttributeValue::Data1(d) => Some(if d >= 0x80 {{ d as int - 0x100 }} else {{ d as int }}),
        AttributeValue::Data2(d) => Some(if d >= 0x8000 {{ d as int - 0x1_0000 }} else {{ d as int }}),
        AttributeValue::Data4(d) => Some(if d >= 0x8000_0000 {{ d as int - 0x1_0000_0000 }} else {{ d as int }}),
        AttributeValue::Data8(d) => Some(if d >= 0x8000_0000_0000_0000 {{ d as int - 0x1_0000_0000_0000_0000 }} else {{ d as int }}),
        AttributeValue::Sdata(d) => Some(d as int),
        AttributeValue::Udata(d) => if d > 0x7fff_ffff_ffff_ffff {{ None }} else {{ Some(d as int) }},
        _ => None,
    }}
}}

// ---- spec'd clones (R-CLONE): Verus gives the derived Clone of a generic type no specification.  These are VERIFIED
// models of what #[derive(Clone)] generates, on top of the one assumption `reader_clone` (a cloned reader has the same view).
pub fn expression_clone<R: Reader>(e: &Expression<R>) -> (res: Expression<R>)
    ensures res.0.rv() == e.0.rv()
{{
    Expression(reader_clone(&e.0))
}}

pub fn attrvalue_clone<R: Reader<Offset = usize>>(v: &AttributeValue<R>) -> (res: AttributeValue<R>)
    ensures same_value(*v, res), payload(res) == payload(*v)
{{
    match v {{
{NL.join(clone)}
    }}
}}
"""


def name_in(codes):
    return '(' + ' || '.join(f'self.sname().0 == {c:#x}' for c in codes) + ')'


def value_clauses():
    RAW = 'self.sval()'
    out = [f'[C03:value-payload] payload(res) == payload({RAW})']
    allnames = set()
    for cls, (var, wrap, codes) in SECPTR.items():
        allnames.update(codes)
        for c in codes:
            out.append(f'[C03:value-target-{cls}-{c:#x}] self.sname().0 == {c:#x} ==> ({RAW} matches AttributeValue::SecOffset(o) ==> '
                       f'(res matches AttributeValue::{var}({wrap}(x)) && x == o))')
    allnames.update(EXPRLOC_NAMES)
    out.append(f'[C03:value-exprloc][C10:view] {name_in(EXPRLOC_NAMES)} ==> ({RAW} matches AttributeValue::Block(r) ==> '
               '(res matches AttributeValue::Exprloc(Expression(r2)) && r2.rv() == r.rv()))')
    for c, var, ty, mx in ENUM_NAMES:
        allnames.add(c)
        out.append(f'[C03:value-enum-{var}] self.sname().0 == {c:#x} ==> (unum({RAW}) matches Some(v) ==> '
                   f'(if v <= {mx:#x} {{ res matches AttributeValue::{var}(constants::{ty}(x)) && x as int == v }} else {{ same_value({RAW}, res) }}))')
    for codes, var, pat in [(UDATA_NAMES, 'udata', 'AttributeValue::Udata(x)'), (FILE_NAMES, 'file-index', 'AttributeValue::FileIndex(x)'),
                            (DWOID_NAMES, 'dwo-id', 'AttributeValue::DwoId(DwoId(x))')]:
        allnames.update(codes)
        out.append(f'[C03:value-{var}] {name_in(codes)} ==> (unum({RAW}) matches Some(v) ==> (res matches {pat} && x as int == v))')
    # values that no class conversion applies to are returned as they are
    out.append(f'[C03:value-relabel-scope] !({RAW} is SecOffset || {RAW} is Block || unum({RAW}) is Some) ==> same_value({RAW}, res)')
    out.append(f'[C03:value-other-names] !{name_in(sorted(allnames))} ==> same_value({RAW}, res)')
    return out

FIXED = {'u1': 1, 'u2': 2, 'u3': 3, 'u4': 4, 'u8': 8, 'u16': 16, 'data4': 4, 'data8': 8, 'zero': 0, 'implicit': 0}
ENC = 'encoding'


def fixed_expr(kind, enc):
    """spec expression (nat) of the size of a fixed-size layout, None for variable layouts"""
    if kind in FIXED:
        return f'{FIXED[kind]}nat'
    if kind == 'addr':
        return f'{enc}.address_size as nat'
    if kind == 'word':
        return f'word_size({enc}.format)'
    if kind == 'refaddr':
        return f'ref_addr_size({enc})'
    return None


def var_expr(kind):
    """spec expression (nat) of the length of a variable layout at offset p of view v"""
    return {'uleb': 'v.leb_len(p)', 'sleb': 'v.leb_len(p)',
            'blk1': '1 + v.at(p) as nat', 'blk2': '2 + v.u(p, 2)', 'blk4': '4 + v.u(p, 4)',
            'blku': 'v.leb_len(p) + v.uleb(p)', 'cstr': 'cstr_len(v, p) + 1'}.get(kind)


def gen_specs():
    fs = ['/// GENERATED from FORMS: size of the forms whose value has a size fixed by the encoding alone (None otherwise)',
          'pub open spec fn fixed_size(form: nat, enc: crate::common::Encoding) -> Option<nat> {']
    vs = ['/// GENERATED from FORMS: length of the value of a variable-length form at offset p (0 for all other forms)',
          'pub open spec fn var_len(v: RView, form: nat, p: int) -> nat {']
    k1 = k2 = 'if'
    for code, name, kind, _, _ in FORMS:
        fe = fixed_expr(kind, 'enc')
        if fe is not None:
            fs.append(f'    {k1} form == {code:#x} {{ Some({fe}) }}  // {name}')
            k1 = 'else if'
        ve = var_expr(kind)
        if ve is not None:
            vs.append(f'    {k2} form == {code:#x} {{ {ve} }}  // {name}')
            k2 = 'else if'
    fs.append('    else { None }\n}')
    vs.append('    else { 0 }\n}')
    known = ' || '.join(f'form == {c:#x}' for c, _, _, _, _ in FORMS)
    kn = ['/// GENERATED from FORMS: the forms of DWARF 2-5 and the GNU extensions',
          f'pub open spec fn known_form(form: nat) -> bool {{\n    {known}\n}}']
    return '\n'.join(fs) + '\n\n' + '\n'.join(vs) + '\n\n' + '\n'.join(kn) + '\n'


def operand_lets(kind):
    """spec lets for operand value o (nat/int), data offset q (blocks), and size n of the value at offset p of b0"""
    if kind in ('u1', 'u2', 'u3', 'u4', 'u8', 'u16'):
        n = FIXED[kind]
        if n == 1:
            return 'let o = b0.at(p) as nat; let n = 1int;'
        return f'let o = b0.u(p, {n}); let n = {n}int;'
    if kind == 'addr':
        return f'let o = b0.u(p, {ENC}.address_size as int); let n = {ENC}.address_size as int;'
    if kind == 'word':
        return f'let o = b0.u(p, word_size({ENC}.format) as int); let n = word_size({ENC}.format) as int;'
    if kind == 'refaddr':
        return f'let o = b0.u(p, ref_addr_size({ENC}) as int); let n = ref_addr_size({ENC}) as int;'
    if kind in ('zero', 'implicit'):
        return 'let n = 0int;'
    if kind == 'uleb':
        return 'let o = b0.uleb(p); let n = b0.leb_len(p) as int;'
    if kind == 'sleb':
        return 'let o = b0.sleb(p); let n = b0.leb_len(p) as int;'
    if kind in ('blk1', 'blk2', 'blk4'):
        k = int(kind[3])
        if k == 1:
            return 'let o = b0.at(p) as nat; let q = p + 1; let n = 1 + o;'
        return f'let o = b0.u(p, {k}); let q = p + {k}; let n = {k} + o;'
    if kind == 'blku':
        return 'let o = b0.uleb(p); let q = p + b0.leb_len(p); let n = b0.leb_len(p) + o;'
    if kind == 'cstr':
        return 'let o = cstr_len(b0, p); let n = o + 1;'
    raise KeyError(kind)


HEAD = ('res matches Ok(attr) ==> ({ let b0 = old(input).rv(); let val = attr.sval(); '
        'let f = ind_form(b0, spec.sform().0 as nat, 0); let p = ind_pos(b0, spec.sform().0 as nat, 0); ')


def legacy_clause(code, name, n, fmt):
    """DW_FORM_data4 / data8: class constant, except in the DWARF 2/3 reading as a section offset (A.2)"""
    return (f'[C03:decode-{name[8:]}] {HEAD} f == {code:#x} ==> ({{ let o = b0.u(p, {n}); '
            f'let so = {ENC}.format == Format::{fmt} && sec_offset_attr(spec.sname().0, {ENC}.version); '
            f'(so ==> (val matches AttributeValue::SecOffset(x) && x as nat == o)) && '
            f'(!so ==> (val matches AttributeValue::Data{n}(x) && x as nat == o)) && '
            f'adv(b0, final(input).rv(), (p + {n}) as nat) }}) }})')


# forms whose decoded value passes through ReaderOffset::from_u64 (contract: Ok at least for values <= 0xffff_ffff)
VIA_FROM_U64 = {'DW_FORM_strx3', 'DW_FORM_addrx3', 'DW_FORM_ref8', 'DW_FORM_ref_sup8', 'DW_FORM_ref_udata', 'DW_FORM_strx', 'DW_FORM_addrx', 'DW_FORM_loclistx',
                'DW_FORM_rnglistx', 'DW_FORM_GNU_addr_index', 'DW_FORM_GNU_str_index', 'DW_FORM_block', 'DW_FORM_exprloc'}


def total_clauses():
    """Totality: a well-formed, complete encoding of a (directly specified) form decodes - so a dropped or mis-keyed arm of
    the decode switch is caught although every other clause is conditional on Ok.  Stated exactly where the Reader
    contract layer gives an exact error condition for the primitives involved (fixed-size reads, split, read_uleb128);
    address / word / SLEB128 / string reads only have the fallible contract, for them nothing can be claimed."""
    out = []
    B0 = 'old(input).rv()'
    for code, name, kind, _, _ in FORMS:
        fit = ' && o <= 0xffff_ffff' if name in VIA_FROM_U64 else ''
        if kind in ('u1', 'u2', 'u3', 'u4', 'u8', 'u16', 'data4', 'data8'):
            n = FIXED[kind]
            val = f'let o = b0.u(0, {n}); ' if fit else ''
            cond = f'b0.len >= {n}{fit}'
            if kind in ('data4', 'data8'):      # the legacy section-offset reading goes through read_offset (fallible contract only)
                fmt = 'Dwarf32' if kind == 'data4' else 'Dwarf64'
                cond += f' && !({ENC}.format == Format::{fmt} && sec_offset_attr(spec.sname().0, {ENC}.version))'
        elif kind == 'zero':
            val, cond = '', 'true'
        elif kind == 'implicit':
            val, cond = '', 'true'
        elif kind == 'uleb':
            val, cond = 'let o = b0.uleb(0); ', f'b0.leb_ok(0) && b0.leb_len(0) <= 10 && o <= u64::MAX{fit}'
        elif kind in ('blk1', 'blk2', 'blk4'):
            k = int(kind[3])
            val = 'let o = b0.at(0) as nat; ' if k == 1 else f'let o = b0.u(0, {k}); '
            cond = f'b0.len >= {k} + o'
        elif kind == 'blku':
            val, cond = 'let o = b0.uleb(0); ', f'b0.leb_ok(0) && b0.leb_len(0) <= 10 && b0.len >= b0.leb_len(0) + o{fit}'
        else:
            continue
        out.append(f'[C03:decode-total-{name[8:]}] spec.sform().0 == {code:#x} ==> ({{ let b0 = {B0}; {val}{cond} ==> res is Ok }})')
    return out


def skip_total_clauses():
    """Totality of skipping for a one-attribute list with a directly specified form (same idea as total_clauses): catches
    a form dropped from, or mis-sized in, the skipper's own switch, which the one-directional skip == read cannot."""
    out = []
    B0 = 'old(input).rv()'
    for code, name, kind, _, _ in FORMS:
        fit = ' && o <= 0xffff_ffff' if name in ('DW_FORM_block', 'DW_FORM_exprloc') else ''
        fe = fixed_expr(kind, ENC)
        if fe is not None:
            val, cond = '', f'b0.len >= {fe}'
        elif kind in ('uleb', 'sleb'):
            val, cond = '', 'b0.leb_ok(0)'
        elif kind in ('blk1', 'blk2', 'blk4'):
            k = int(kind[3])
            val = 'let o = b0.at(0) as nat; ' if k == 1 else f'let o = b0.u(0, {k}); '
            cond = f'b0.len >= {k} + o'
        elif kind == 'blku':
            val, cond = 'let o = b0.uleb(0); ', f'b0.leb_ok(0) && b0.leb_len(0) <= 10 && b0.len >= b0.leb_len(0) + o{fit}'
        else:
            continue
        out.append(f'[C03:skip-total-{name[8:]}] specs@.len() == 1 && specs@[0].sform().0 == {code:#x} ==> ({{ let b0 = {B0}; {val}{cond} ==> res is Ok }})')
    return out


def parse_clauses():
    out = []
    for code, name, kind, pat, cons in FORMS:
        short = name[8:]
        if kind == 'indirect':
            continue
        if kind == 'data4':
            out.append(legacy_clause(code, name, 4, 'Dwarf32'))
            continue
        if kind == 'data8':
            out.append(legacy_clause(code, name, 8, 'Dwarf64'))
            continue
        view = '[C10:view]' if 'window' in cons else ''
        out.append(f'[C03:decode-{short}]{view} {HEAD} f == {code:#x} ==> ({{ {operand_lets(kind)} '
                   f'(val matches {pat} && ({cons}) && adv(b0, final(input).rv(), (p + n) as nat)) }}) }})')
    # R-SPLIT partitions the list round-robin (clause i goes to copy i % SPLIT); lay the list out so that the copies are:
    # the decode clauses in SPLIT-2 groups, one copy with the size-function clause and the error/frame clauses, and one
    # copy with the totality clauses (padding with `true` keeps the round-robin aligned)
    misc = [
        # ties reading to the generated size functions (what skip_attributes is proved against)
        '[C03:read-len] res is Ok ==> adv(old(input).rv(), final(input).rv(), '
        f'attr_end(old(input).rv(), {ENC}, spec.sform().0 as nat, 0) as nat)',
        '[C03:unknown-form] !known_form(ind_form(old(input).rv(), spec.sform().0 as nat, 0)) ==> res is Err',
        # the value of an implicit const lives in the abbreviation; reached through DW_FORM_indirect there is none
        '[C03:implicit-const-indirect] spec.sform().0 != 0x21 && ind_form(old(input).rv(), spec.sform().0 as nat, 0) == 0x21 ==> res is Err',
        '[C03:attr-name] res matches Ok(attr) ==> attr.sname() == spec.sname() && attr.sform() == spec.sform()',
        '[C01:frame] within(old(input).rv(), final(input).rv())']
    k = SPLIT - 2
    groups = [out[i::k] for i in range(k)] + [misc, total_clauses()]
    n = max(len(g) for g in groups)
    res = []
    for i in range(n):
        for g in groups:
            res.append(g[i] if i < len(g) else 'true')
    return res


SPLIT = 5


# forms the line-number-program header decoder (read/line.rs parse_attribute; DWARF 5 6.2.4.1 entry formats) accepts
LINE_FORMS = ['DW_FORM_block1', 'DW_FORM_block2', 'DW_FORM_block4', 'DW_FORM_block', 'DW_FORM_data1', 'DW_FORM_data2',
              'DW_FORM_data4', 'DW_FORM_data8', 'DW_FORM_data16', 'DW_FORM_udata', 'DW_FORM_sdata', 'DW_FORM_flag',
              'DW_FORM_sec_offset', 'DW_FORM_string', 'DW_FORM_strp', 'DW_FORM_strp_sup', 'DW_FORM_GNU_strp_alt',
              'DW_FORM_line_strp', 'DW_FORM_strx', 'DW_FORM_GNU_str_index', 'DW_FORM_strx1', 'DW_FORM_strx2', 'DW_FORM_strx3',
              'DW_FORM_strx4']


def line_clauses():
    """read/line.rs parse_attribute against the SAME table: whatever form it decodes, it decodes as FORMS says (clauses for
    ALL forms, vacuous where the line variant rejects the form).  Differences that follow from the context, not the code:
    no abbreviation (implicit_const has no value, indirect is not a content form -> Err), no attribute name (data4/data8
    are always constants), and DW_FORM_data16 (MD5) is handed out as a 16-byte view instead of a u128."""
    out = []
    HEADL = 'res matches Ok(val) ==> ({ let b0 = old(input).rv(); let p = 0int; '
    for code, name, kind, pat, cons in FORMS:
        short = name[8:]
        if kind in ('indirect', 'implicit'):
            out.append(f'[C03:line-decode-{short}] form.0 == {code:#x} ==> res is Err')
            continue
        if kind in ('data4', 'data8'):
            n = FIXED[kind]
            out.append(f'[C03:line-decode-{short}] {HEADL} form.0 == {code:#x} ==> ({{ let o = b0.u(0, {n}); '
                       f'(val matches AttributeValue::Data{n}(x) && x as nat == o && adv(b0, final(input).rv(), {n})) }}) }})')
            continue
        if name == 'DW_FORM_data16':
            out.append(f'[C03:line-decode-{short}][C10:view] {HEADL} form.0 == {code:#x} ==> '
                       '(val matches AttributeValue::Block(r) && window(b0, r.rv(), 0, 16) && adv(b0, final(input).rv(), 16)) })')
            continue
        cons2 = cons.replace('spec.sform().0 == 0x21 && x == spec.sconst()', 'false')
        view = '[C10:view]' if 'window' in cons else ''
        out.append(f'[C03:line-decode-{short}]{view} {HEADL} form.0 == {code:#x} ==> ({{ {operand_lets(kind)} '
                   f'(val matches {pat} && ({cons2}) && adv(b0, final(input).rv(), n as nat)) }}) }})')
    out.append('[C03:line-unknown-form] !known_form(form.0 as nat) ==> res is Err')
    # totality for the accepted subset (where the primitives have an exact error condition)
    for c in total_clauses():
        m = re.match(r'\[C03:decode-total-(\w+)\] spec\.sform\(\)\.0 == ', c)
        if 'DW_FORM_' + m.group(1) in LINE_FORMS and 'sec_offset_attr' not in c:
            out.append(c.replace('[C03:decode-total-', '[C03:line-decode-total-').replace('spec.sform().0 ==', 'form.0 =='))
    for n in (4, 8):
        out.append(f'[C03:line-decode-total-data{n}] form.0 == {0x06 if n == 4 else 0x07:#x} ==> (old(input).rv().len >= {n} ==> res is Ok)')
    out.append('[C01:frame] within(old(input).rv(), final(input).rv())')
    return out


def size_clauses():
    out = []
    for code, name, kind, _, _ in FORMS:
        fe = fixed_expr(kind, ENC)
        if fe is not None:
            out.append(f'[C03:size-{name[8:]}] form.0 == {code:#x} ==> (res matches Some(n) && n as nat == {fe})')
        else:
            out.append(f'[C03:size-{name[8:]}] form.0 == {code:#x} ==> res is None')
    out.append('[C03:size-unknown-form] !known_form(form.0 as nat) ==> res is None')
    out.append('res is Some ==> form.0 != 0x16')
    out.append(f'[C03:size-table] (res matches Some(n) ==> fixed_size(form.0 as nat, {ENC}) == Some(n as nat)) && '
               f'(res is None ==> fixed_size(form.0 as nat, {ENC}) is None)')
    return out


SPEC_GHOST = '''
    pub closed spec fn sname(&self) -> constants::DwAt { self.name }
    pub closed spec fn sform(&self) -> constants::DwForm { self.form }
    /// the stored implicit-const operand (meaningful when the form is DW_FORM_implicit_const)
    pub closed spec fn sconst(&self) -> i64 { self.implicit_const_value }
'''

ATTR_GHOST = '''
    pub closed spec fn sname(&self) -> constants::DwAt { self.name }
    pub closed spec fn sform(&self) -> constants::DwForm { self.form }
    pub closed spec fn sval(&self) -> AttributeValue<R> { self.value }
'''


def derived_eq(ty):
    """A-DERIVE-EQ: `==` of a #[derive(PartialEq)] type without type parameters is structural equality (the language
    definition of the derive).  Verus gives the derived impl no spec, so the exec comparisons `form == DW_FORM_x`,
    `encoding.format == Format::Dwarf32` would be opaque.  Ghost text only; not an external_body."""
    return (f'impl vstd::std_specs::cmp::PartialEqSpecImpl for {ty} {{\n'
            f'    open spec fn obeys_eq_spec() -> bool {{ true }}\n'
            f'    open spec fn eq_spec(&self, other: &{ty}) -> bool {{ *self == *other }}\n}}')


SIGN_BV = 'proof { ' + ' '.join(
    f'assert(forall|d: u{w}| d >= {1 << (w - 1):#x} ==> #[trigger] (d as i{w}) as int == d as int - {1 << w:#x}) by (bit_vector); '
    f'assert(forall|d: u{w}| d < {1 << (w - 1):#x} ==> #[trigger] (d as i{w}) as int == d as int) by (bit_vector);'
    for w in (8, 16, 32, 64)) + ' }'


def value_fn_contracts(it, V, off):
    """contracts of the *_value accessors, on AttributeValue (V = *self) and on Attribute (V = self.sval())"""
    it.splice('udata_value', ret='res', ensures=[
        f'[C03:udata-value] (res matches Some(x) ==> unum({V}) == Some(x as int)) && (res is None ==> unum({V}) is None)'])
    it.splice('sdata_value', ret='res', ensures=[
        f'[C03:sdata-value] (res matches Some(x) ==> snum({V}) == Some(x as int)) && (res is None ==> snum({V}) is None)'],
        before=[('Some(match *self {', SIGN_BV)] if V == '*self' else None)
    it.splice('u8_value', ret='res', ensures=[
        f'[C03:u8-value] (res matches Some(x) ==> unum({V}) == Some(x as int)) && (res is None ==> (unum({V}) matches Some(v) ==> v > 0xff))'])
    it.splice('u16_value', ret='res', ensures=[
        f'[C03:u16-value] (res matches Some(x) ==> unum({V}) == Some(x as int)) && (res is None ==> (unum({V}) matches Some(v) ==> v > 0xffff))'])
    it.splice('offset_value', ret='res', ensures=[
        f'[C03:offset-value] res == (match {V} {{ AttributeValue::SecOffset(o) => Some(o), _ => None::<{off}> }})'])
    it.splice('exprloc_value', ret='res', ensures=[
        f'[C03:exprloc-value][C10:view] match {V} {{ AttributeValue::Block(r) => res matches Some(Expression(r2)) && r2.rv() == r.rv(), '
        f'AttributeValue::Exprloc(e) => res matches Some(e2) && e2.0.rv() == e.0.rv(), _ => res is None }}'])


def populate(ctx, sk):
    sk.add('constants', derived_eq('DwForm') + '\n' + derived_eq('DwAt'), label='derived-eq')
    sk.add('common', derived_eq('Format'), label='derived-eq')
    ab = Source('read/abbrev.rs', ctx)
    un = Source('read/unit.rs', ctx)
    op = Source('read/op.rs', ctx)

    sk.module('aspec', 'use crate::vspec::*;')
    sk.add('aspec', core.rd('specs/attrs.rs').replace('/*GENERATED*/', gen_specs()), label='aspec')

    sk.mods['read']['uses'] += '\npub use self::abbrev::*;\npub use self::unit::*;'
    if 'read::op' not in sk.mods:
        sk.mods['read']['uses'] += '\npub use self::op::*;'
        sk.module('read::op', 'use crate::read::Reader;')
    sk.add('read::op', op.item(r'^pub struct Expression<').clean(offset=False, rejrec=['R']))

    # ---- read::abbrev
    sk.module('read::abbrev', '''use crate::common::Encoding;
use crate::constants;
use crate::read::{Error, Reader, ReaderOffset, Result, UnitHeader};
use crate::vspec::*;
use crate::aspec::*;''')
    sk.add('read::abbrev', ab.item(r'^pub struct AttributeSpecification \{').clean())
    asi = ab.item(r'^impl AttributeSpecification \{', label='AttributeSpecification')
    asi.clean()
    asi.own(OWN)
    asi.insert_members(SPEC_GHOST)
    asi.splice('new', ret='res',
               requires=['[C03:spec-new-pre] (form == constants::DW_FORM_implicit_const) == (implicit_const_value is Some)'],
               ensures=['res.sname() == name', 'res.sform() == form',
                        '[C03:implicit-const-stored] implicit_const_value matches Some(c) ==> res.sconst() == c'], canary=True)
    asi.splice('name', ret='res', ensures=['res == self.sname()'])
    asi.splice('form', ret='res', ensures=['res == self.sform()'])
    asi.splice('implicit_const_value', ret='res', ensures=[
        '[C03:implicit-const-value] res == (if self.sform().0 == 0x21 { Some(self.sconst()) } else { None::<i64> })'])
    B0 = 'old(input).rv()'
    # the advertised size of a form is the size table's entry for the unit's encoding
    asi.splice('size', ret='res', ensures=[
        '[C03:advertised-size] (res matches Some(n) ==> fixed_size(self.sform().0 as nat, header.sencoding()) == Some(n as nat)) && '
        '(res is None ==> fixed_size(self.sform().0 as nat, header.sencoding()) is None)'])
    asi.splice('parse', ret='res', ensures=[
        # DWARF 5 7.5.3: a series of attribute specifications: ULEB name, ULEB form, and for DW_FORM_implicit_const a
        # third SLEB operand holding the value; the series ends with an entry containing 0 for the name and 0 for the form
        f'[C03:spec-parse] res matches Ok(Some(s)) ==> ({{ let b0 = {B0}; let p1 = b0.leb_len(0) as int; let p2 = p1 + b0.leb_len(p1); '
        's.sname().0 as nat == b0.uleb(0) && s.sform().0 as nat == b0.uleb(p1) && s.sname().0 != 0 && s.sform().0 != 0 && '
        '(s.sform().0 == 0x21 ==> s.sconst() as int == b0.sleb(p2) && adv(b0, final(input).rv(), (p2 + b0.leb_len(p2)) as nat)) && '
        '(s.sform().0 != 0x21 ==> adv(b0, final(input).rv(), p2 as nat)) })',
        f'[C03:spec-parse-null] res matches Ok(None) ==> ({{ let b0 = {B0}; let p1 = b0.leb_len(0) as int; '
        'b0.uleb(0) == 0 && b0.uleb(p1) == 0 && adv(b0, final(input).rv(), (p1 + b0.leb_len(p1)) as nat) })',
        f'[C01:frame] within({B0}, final(input).rv())',
        f'[C01:progress] res is Ok ==> final(input).rv().len < {B0}.len'])
    sk.add('read::abbrev', asi)
    gas = ab.item(r'^pub\(crate\) fn get_attribute_size').clean()
    gas.splice('get_attribute_size', ret='res', ensures=size_clauses(), owners=OWN)
    sk.add('read::abbrev', gas)

    # ---- read::unit
    sk.module('read::unit', '''use crate::common::{
    DebugAbbrevOffset, DebugAddrBase, DebugAddrIndex, DebugInfoOffset, DebugLineOffset,
    DebugLineStrOffset, DebugLocListsBase, DebugLocListsIndex, DebugMacinfoOffset,
    DebugMacroOffset, DebugRngListsBase, DebugRngListsIndex, DebugStrOffset, DebugStrOffsetsBase,
    DebugStrOffsetsIndex, DebugTypeSignature, DebugTypesOffset, DwoId, Encoding, Format,
    LocationListsOffset, RawRangeListsOffset, UnitSectionOffset,
};
use crate::constants;
use crate::read::abbrev::get_attribute_size;
use crate::read::{AttributeSpecification, Error, Expression, Reader, ReaderOffset, Result, UnitOffset};
use crate::read::reader_clone;
use crate::vspec::*;
use crate::aspec::*;''')
    # UnitHeader: only what AttributeSpecification::size needs (the header itself belongs to batch `units`)
    sk.add('read::unit', un.item(r'^pub enum UnitType<Offset>').clean(rejrec=['Offset']))
    uh = un.item(r'^pub struct UnitHeader<R, Offset', label='UnitHeader')
    uh.custom('R-FIELDS', 'section: SectionId,', '')     # no extracted function touches it
    uh.clean(rejrec=['R', 'Offset'])
    sk.add('read::unit', uh)
    uhi = un.item(r'^impl<R, Offset> UnitHeader<R, Offset>\nwhere\n[^{]*\{\s*pub fn section', label='UnitHeader(instance)')
    uhi.keep_only(['encoding'])
    uhi.clean(offset=False)
    uhi.own(OWN)
    uhi.insert_members('    pub closed spec fn sencoding(&self) -> Encoding { self.encoding }')
    uhi.splice('encoding', ret='res', ensures=['res == self.sencoding()'])
    sk.add('read::unit', uhi)
    sk.add('read::unit', un.item(r'^pub enum AttributeValue<R, Offset').clean(rejrec=['R', 'Offset']))
    sk.add('read::unit', un.item(r'^pub struct Attribute<R: Reader>').clean(rejrec=['R']))
    sk.add('read::unit', gen_value_specs(), label='value-specs')

    # ---- AttributeValue::{u8_value .. exprloc_value}: arithmetic specs (sign rules at the width boundaries)
    SV = '*self'
    avi = un.item(r'^impl<R, Offset> AttributeValue<R, Offset>', label='AttributeValue')
    avi.drop(['string_value', 'string_value_sup'])       # need DebugStr (batch units/str)
    avi.custom('R-CLONE', 'Expression(data.clone())', 'Expression(reader_clone(data))', count=-1)
    avi.custom('R-CLONE', 'AttributeValue::Exprloc(ref data) => data.clone()', 'AttributeValue::Exprloc(ref data) => expression_clone(data)')
    avi.clean(offset=False)
    avi.own(OWN)
    value_fn_contracts(avi, SV, 'Offset')
    # closure contracts: Verus does not infer the postcondition of a closure; the annotation is inserted (ghost) text
    for k, (ty, mx) in enumerate([('u8', '0xff'), ('u16', '0xffff')]):
        avi.insert_after('and_then(|val', ': u64', nth=k)
        avi.insert_before(f'{ty}::try_from(val).ok()', f'-> (o: Option<{ty}>) ensures (o matches Some(x) ==> x as u64 == val) && (o is None ==> val > {mx}) {{ ')
        avi.insert_after(f'{ty}::try_from(val).ok()', ' }')
    sk.add('read::unit', avi)

    ati = un.item(r'^impl<R: Reader> Attribute<R> \{', label='Attribute')
    ati.drop(['string_value', 'string_value_sup'])
    ati.custom('R-CLONE', 'self.value.clone()', 'attrvalue_clone(&self.value)', count=2)
    ati.clean()
    ati.own(OWN)
    ati.insert_members(ATTR_GHOST)
    ati.splice('name', ret='res', ensures=['res == self.sname()'])
    ati.splice('form', ret='res', ensures=['res == self.sform()'])
    ati.splice('raw_value', ret='res', ensures=['[C03:raw-value] same_value(self.sval(), res)'])
    value_fn_contracts(ati, 'self.sval()', 'usize')
    ati.splice('value', ret='res', ensures=value_clauses())
    sk.add('read::unit', ati)

    aso = un.item(r'^fn allow_section_offset').clean()
    aso.splice('allow_section_offset', ret='res', ensures=['[C03:legacy-sec-offset-attrs] res == sec_offset_attr(name.0, version)'], owners=OWN)
    sk.add('read::unit', aso)

    pa = un.item(r'^pub\(crate\) fn parse_attribute<').clean()
    P = '(input.rv().start - old(input).rv().start)'
    pa.splice('parse_attribute', ret='res', ensures=parse_clauses(), owners=OWN, split=SPLIT,
              loops={0: f'''invariant within(old(input).rv(), input.rv()),
                  ind_form(old(input).rv(), spec.sform().0 as nat, 0) == ind_form(old(input).rv(), form.0 as nat, {P}),
                  ind_pos(old(input).rv(), spec.sform().0 as nat, 0) == ind_pos(old(input).rv(), form.0 as nat, {P}),
                  spec.sform().0 != 0x16 ==> form == spec.sform() && input.rv() == old(input).rv(),
                  decreases input.rv().len'''},
              before=[('let dynamic_form = input.read_uleb128_u16()?;',
                       f'proof {{ lemma_ind_step(old(input).rv(), {P} as int); }}'),
                      ('let string = input.read_null_terminated_slice()?;', 'let ghost v0 = input.rv();'),
                      ('let attr = Attribute {', 'proof { reveal(attr_end); }')],
              after=[('let string = input.read_null_terminated_slice()?;',
                      'proof { lemma_cstr_len0(v0, string.rv().len); let b0 = old(input).rv(); let p0 = v0.start - b0.start; '
                      'assert forall|j: int| p0 <= j < p0 + string.rv().len implies #[trigger] b0.at(j) != 0 by { assert(v0.at(j - p0) != 0); } }')])
    sk.add('read::unit', pa)

    # ---- read::line: the line-table variant of the decode switch (form subset, no indirection, no abbreviation)
    ln = Source('read/line.rs', ctx)
    sk.mods['read']['uses'] += '\npub use self::line::*;' if 'read::line' not in sk.mods else ''
    sk.module('read::line', '''use crate::common::*;
use crate::constants;
use crate::read::{AttributeValue, Error, Expression, Reader, ReaderOffset, Result, UnitOffset};
use crate::vspec::*;
use crate::aspec::*;''')
    lpa = ln.item(r'^fn parse_attribute<').clean()
    lpa.splice('parse_attribute', ret='res', ensures=line_clauses(), owners=OWN,
               before=[('let string = input.read_null_terminated_slice()?;', 'let ghost v0 = input.rv();')],
               after=[('let string = input.read_null_terminated_slice()?;', 'proof { lemma_cstr_len0(v0, string.rv().len); }')])
    sk.add('read::line', lpa)

    # ---- skip == read (one-directional, DESIGN C03): when skipping succeeds it has consumed exactly what reading the
    # attributes one by one consumes (attrs_end is built from the same generated size functions as [C03:read-len]).
    # Pending-skip abstraction: the position the skipper has logically reached is input position + skip_bytes.
    sa = un.item(r'^pub\(crate\) fn skip_attributes<').clean()
    sa.insert_after('for spec in ', 'it: ')
    B = 'old(input).rv()'
    PEND = f'(input.rv().start - {B}.start + skip_bytes)'
    TOTAL = f'attrs_end({B}, encoding, specs@, 0, 0)'
    main = [f'[C03:skip-eq-read] res is Ok ==> adv({B}, final(input).rv(), {TOTAL} as nat)',
            f'[C01:frame] within({B}, final(input).rv())']
    tot = skip_total_clauses()
    # (not R-SPLIT: the split original is external_body, where the ghost iterator `it` of the for loop does not exist)
    sa.splice('skip_attributes', ret='res', owners=OWN, ensures=main + tot,
        loops={0: f'''invariant within({B}, input.rv()),
                   it.index == 0 ==> skip_bytes == 0 && input.rv() == {B},
                   {TOTAL} == attrs_end({B}, encoding, specs@, it.index as int, {PEND}), // [C03:skip-eq-read]
''',
               1: f'''invariant_except_break within({B}, input.rv()),
                   0 <= it.index@ < specs@.len(), spec == specs@[it.index@],
                   it.index@ == 0 && spec.sform().0 != 0x16 ==> form == spec.sform() && skip_bytes == 0 && input.rv() == {B},
                   {TOTAL} == attrs_end({B}, encoding, specs@, it.index@ + 1, attr_end({B}, encoding, form.0 as nat, {PEND})), // [C03:skip-eq-read]
                   ensures within({B}, input.rv()), 0 <= it.index@ < specs@.len(),
                   {TOTAL} == attrs_end({B}, encoding, specs@, it.index@ + 1, {PEND}), // [C03:skip-eq-read]
                   decreases input.rv().len'''},
        before=[('let dynamic_form = input.read_uleb128_u16()?;', f'proof {{ lemma_attr_end_indirect({B}, encoding, {PEND} as int); }}'),
                ('match form {', f'proof {{ lemma_attr_end_var({B}, encoding, form.0 as nat, {PEND} as int); }}'),
                ('let _ = input.read_null_terminated_slice()?;', 'let ghost v0 = input.rv();')],
        after=[('if let Some(len) = get_attribute_size(form, encoding) {', f'proof {{ lemma_attr_end_fixed({B}, encoding, form.0 as nat, {PEND} as int, len as nat); }}'),
               ('let _ = input.read_null_terminated_slice()?;', 'proof { lemma_cstr_len0(v0, (input.rv().start - v0.start - 1) as nat); }')])
    # after the loop, for the one-attribute totality clauses: the pending position is attr_end of that attribute
    sa.insert_before('if skip_bytes != R::Offset::from_u8(0) {', 'proof { if specs@.len() == 1 { reveal(attr_end); reveal_with_fuel(attrs_end, 3); } }\n    ', nth=1)
    sk.add('read::unit', sa)
    return sk


def build(ctx):
    sk = Skeleton(ctx, core.rd('prelude/crate.rs'))
    core.populate(ctx, sk)
    populate(ctx, sk)
    return sk
