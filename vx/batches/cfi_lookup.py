"""B-cfi_lookup: address lookup in .eh_frame / .debug_frame and through the .eh_frame_hdr search table  (DESIGN.md 6 C05
"lookups"; C01).  Closes the two gaps batch cfi_entries lists under NOT DECIDED: (G1) the RESULT of the binary search
`EhHdrTable::lookup`, (G2) "group 4": the lookups of `UnwindSection` and `EhHdrTable`.

Built on top of cfi_entries: `cfi_entries.populate()` is called unchanged (every function of that batch is verified again here,
same contracts), then
  * its `impl EhHdrTable` item is REPLACED by a fresh extraction of the same source item that keeps all five methods
    (iter / pointer_to_offset: contracts copied from cfi_entries.group3; lookup: the contract below),
  * `CfiEntriesIter::next` gets ONE more proved postcondition (the partial FDE handed out carries the section's address size),
  * the six default methods of `trait UnwindSection` that cfi_entries drops are extracted again (R-TRAITSPLIT, below).
Spec functions: vx/specs/cfi_lookup.rs (written from LSB Core generic 10.6.2: "binary search table ... sorted by initial
location, entries: initial location, address" in `table_enc`), plus `sec_from` / `fde_at_offset` in this file.

FUNCTIONS UNDER CONTRACT (real bodies verified; owners C01+C05 for safety/termination/callee preconditions)
  EhHdrTable::lookup          ghost decoding of the table: tbl_key(i) / tbl_fde(i) = the two `table_enc` pointers of row i decoded
                              exactly as parse_encoded_pointer specifies (base per application bits incl. pcrel-to-the-field,
                              zero/sign extension, wrap at the address size), row i at byte offset i * 2 * field_size of hdr.table.
                              [C05:lookup-result]  tbl_sorted (non-decreasing keys) ==> Ok(p) ==> p is the FDE pointer of a row j
                                                   with tbl_pick(j): key(j) <= address and (key(j+1) > address or key(j) == address
                                                   [the `Equal` hit stops at ANY row whose key equals the address]); j = 0 if
                                                   key(0) > address or the table is empty.  For strictly increasing keys j is the
                                                   LAST row with key <= address == the linear scan (lemma_pick_is_scan, proved).
                                                   Stated as an implication, not a `requires`: the table is untrusted input and
                                                   fde_for_address must be callable on it.
                              [C05:lookup-in-table] Ok(p) ==> p is the FDE pointer (field 1, with the indirect flag of table_enc) of
                                                   some row < fde_count (row 0 of whatever follows the header if fde_count == 0)
                              [C05:lookup-total]   searchable field size, all rows present (table < 4 GiB), base defined, direct
                                                   pointers ==> Ok   (rejects a search that runs out of rows it discarded)
                              [C05:lookup-encoding] (from cfi_entries) non-fixed-size encodings are rejected
                              Loop invariant: ghost `lo` = row the reader stands at; window = rows [lo, lo+len);
                              lo > 0 ==> key(lo) <= address; every row >= lo+len has key > address; reader holds >= len rows.
  EhHdrTable::fde_for_address [C05:lookup-contains] Ok(f) ==> f.covers(address); [C05:lookup-entry] f is the FDE encoded at its
                              offset of `frame`; [C05:hdr-lookup-row] sorted ==> that offset is tbl_fde(j) - eh_frame_ptr for the
                              picked row j (lookup + pointer_to_offset + fde_from_offset compose)
  EhHdrTable::unwind_info_for_address, UnwindSection::unwind_info_for_address
                              safety + [C05:unwind-fde-covers]: the FDE handed to FrameDescriptionEntry::unwind_info_for_address
                              covers the address (obligation placed as `requires` of the stub)
  UnwindSection::entries      [C05:entries-start] iterator over the whole section, same bases/address size
  UnwindSection::cie_from_offset / partial_fde_from_offset / fde_from_offset
                              [C05:cie-from-offset] [C05:pfde-from-offset] [C05:fde-from-offset]: the entry decoded at exactly
                              that section offset (cie_at / PartialFDE::at / fde_at_offset), [C05:fde-cie-binding] CIE = what
                              get_cie answered for the offset the CIE_pointer designates, [C05:from-offset-oob] offset past the end
  UnwindSection::fde_for_address
                              [C05:lookup-contains] [C05:lookup-entry] [C05:fde-cie-binding];
                              [C05:lookup-exhaustive] an assertion in front of EVERY `Err(NoUnwindInfoForAddress)` of the method:
                              the entries iterator is exhausted there (a post-state clause cannot say it: `entries` is a local);
                              termination by the iterator's remaining input.

LOGGED REWRITES
  R-TRAITSPLIT  `pub trait UnwindSection<R>: Clone + Debug + _UnwindSectionPrivate<R> { type Offset; <6 default methods> }` is
                emitted as the (method-less) trait of cfi_entries plus `pub trait UnwindSectionLookup<R>: UnwindSection<R>` holding
                the six methods with their text unchanged (`self`, `Self::Offset` keep their meaning through the supertrait), and
                `impl UnwindSectionLookup<R> for DebugFrame<R> / EhFrame<R>` (gimli: the two impls of UnwindSection).  Inside
                UnwindSection Verus rejects the bodies (they call functions bounded by `Section: UnwindSection<R>`: definition
                cycle).  Method-call syntax at the call sites (`frame.fde_from_offset(..)`) is untouched; no R-SELF-FREE needed.
  R-CLONE       `self.clone()` -> section_clone(self), `self.section().clone()` / `reader.clone()` -> reader_clone(..)
  R-ETA         as cfi_entries
  `#[verifier::loop_isolation(false)]` on UnwindSection::fde_for_address (attribute insertion): the loop re-borrows
                `&mut get_cie`; relating the closure variable inside the loop to the parameter the postcondition names needs the
                facts from before the loop (ghost g0, invariant get_cie == g0).  The re-borrow itself is fine in this Verus build.

ASSUMED (TRUSTED ledger = cfi_entries' + the three below)
  UnwindContext, UnwindTableRow   MODEL structs (external_body, no fields) and the marker trait UnwindContextStorage: stand-ins for
                  the types batch cfi_unwind owns; the lookups only pass `&mut UnwindContext` through.
  unwind_info_for_address   = FrameDescriptionEntry::unwind_info_for_address, R-EXTBODY: signature from the source, body (UnwindTable
                  rows) not verified here, NO postcondition assumed; its `requires` is proved at both call sites.
  API-misuse preconditions (explicit `requires`): configured address size of the section in {1,2,4,8}; `get_cie` callable for every
  offset on a section value with the same data and address size as `self` (the iterator hands out a clone of the section).

NOT DECIDED here
  * "succeeds EXACTLY when some FDE covers the address" / agreement of the three lookup paths: `Err(NoUnwindInfoForAddress)` is
    tied to an exhausted iterator, not to "no FDE of the section covers" (needs the iterator-as-sequence specification of the whole
    section, DESIGN C05 ND); that the search table lists every FDE of .eh_frame and is sorted is the producer's obligation
    (tbl_sorted is a hypothesis of [C05:lookup-result] / [C05:hdr-lookup-row]).
  * error VALUES propagated from the iterator / get_cie / the reader layer (unconstrained by the contract layer).
  * what unwind_info_for_address returns (row of the FDE's table containing the address): batch cfi_unwind / C06.
  * with duplicate keys equal to the address the row returned is one of the duplicates, not necessarily the last (stated, see
    tbl_pick); readelf agreement.
Kani: group K-EHHDR (kani/src/ehhdr.rs) checks lookup == linear scan through the public API on EndianSlice for 2..5 rows.
"""
from lib import *
from batches import core
from batches import cfi_entries

TRUSTED = list(cfi_entries.TRUSTED) + ['UnwindContext', 'UnwindTableRow', 'unwind_info_for_address']
VERUS_ARGS = ['--rlimit', '40']
RETRY_RLIMIT = 120

OWN = ['C01', 'C05']
SPEC_TEXT = core.rd('specs/cfi_lookup.rs')

H = 'self.s_hdr()'
ENC = 'self.hdr.table_enc.0'
TBL = 'self.hdr.table.rv()'

# facts that do not change in the loop (the loop is verified on its own: everything it relies on is restated)
LOOKUP_STATIC = (
    'self.hdr.wf(), size == 2 || size == 4 || size == 8, row_size == 2 * size, '
    f'hdr_field_size({ENC}) == Some(size as nat), '
    'parameters.bases == &bases.eh_frame_hdr, parameters.func_base is None, parameters.address_size == self.hdr.address_size, '
    'parameters.section.rv() == self.hdr.section.rv(), '
    f'pe_params_ok(&parameters, reader.rv()), inside({TBL}, reader.rv()), '
    # the reader is positioned at row `lo` of the table
    f'reader.rv().start == {TBL}.start + tbl_off({ENC}, lo, 0), tbl_row(self.hdr, lo)')
# the search window is rows [lo, lo + len): everything from lo + len on has a greater key; row lo (once the window has moved)
# has a key <= address.  With `Less` keeping the pivot row inside the window the upper end must not move: `len - len / 2`.
LOOKUP_WINDOW = (
    '(self.hdr.fde_count == 0 ==> len == 0 && lo == 0), (self.hdr.fde_count > 0 ==> len >= 1 && lo + len <= self.hdr.fde_count), '
    '(tbl_sorted(self.hdr, bases) ==> (lo > 0 ==> tbl_key(self.hdr, bases, lo) <= address)), '
    '(tbl_sorted(self.hdr, bases) ==> forall|i: nat| lo + len <= i < self.hdr.fde_count ==> #[trigger] tbl_key(self.hdr, bases, i) > address)')
# totality: the rows of the window are all there (a `Greater` step continues in `head`, which holds exactly len / 2 rows)
LOOKUP_TOTAL = f'(total ==> reader.rv().len >= tbl_off({ENC}, if len == 0 {{ 1 }} else {{ len as nat }}, 0))'
LOOKUP_LOOP = (f'invariant_except_break {LOOKUP_WINDOW}, // [C05:lookup-result]\n {LOOKUP_TOTAL}, // [C05:lookup-total]\n'
               f' invariant {LOOKUP_STATIC}, total == tbl_total(self.hdr, bases),\n'
               ' ensures (tbl_sorted(self.hdr, bases) ==> tbl_pick(self.hdr, bases, address, lo)), // [C05:lookup-result]\n'
               f' (total ==> reader.rv().len >= tbl_off({ENC}, 1, 0)), // [C05:lookup-total]\n decreases len')


def eh_hdr_table(ctx, sk):
    """EhHdrTable with the functional contract of `lookup` (replaces the safety-only contract of batch cfi_entries)"""
    cfi = Source('read/cfi.rs', ctx)
    M = 'read::cfi'
    # remove cfi_entries' copy of the impl (same source item, extracted again below with the lookups kept)
    chunks = sk.mods[M]['chunks']
    old = [c for c in chunks if isinstance(c[0], Item) and c[0].label == 'EhHdrTable']
    if len(old) != 1:
        raise Lost('cfi_entries no longer emits exactly one `EhHdrTable` item')
    chunks.remove(old[0])
    ctx.items.remove(old[0][0])
    # ... and its entries in the rewrite log (the fresh extraction below logs its own; nothing of EhHdrTable is dropped here)
    where = old[0][0]._where('')
    for rec in [c for c in ctx.custom if c[1] == where]:
        ctx.custom.remove(rec)
        ctx.rules[rec[0]] -= 1
    for rec in [d for d in ctx.dropped if d.startswith(where)]:
        ctx.dropped.remove(rec)
        ctx.rules['R-DROP'] -= 1
    sk.add(M, SPEC_TEXT, label='ghost(lookup)')

    ht = cfi.item(r"^impl<'a, R: Reader \+ 'a> EhHdrTable<'a, R> \{", label='EhHdrTable')
    ht.custom('R-CLONE', 'table: self.hdr.table.clone(),', 'table: reader_clone(&self.hdr.table),')
    ht.custom('R-CLONE', 'let mut reader = self.hdr.table.clone();', 'let mut reader = reader_clone(&self.hdr.table);')
    ht.custom('R-CLONE', 'let tail = reader.clone();', 'let tail = reader_clone(&reader);')
    ht.custom('R-ETA', '.map(EhFrameOffset)', '.map(|o: usize| -> (r: EhFrameOffset<usize>) ensures r.0 == o { EhFrameOffset(o) })')
    ht.clean().own(OWN)
    ht.insert_members(cfi_entries.TAB_GHOST)
    # (contracts of iter / pointer_to_offset: as in cfi_entries.group3)
    ht.splice('iter', ret='res', requires=['self.s_hdr().wf()'],
              ensures=['[C05:hdr-iter] res.wf() && res.s_hdr() == self.s_hdr() && res.s_bases() == bases && res.s_remain() == self.s_hdr().s_fde_count() && res.s_table() == self.s_hdr().s_table()'])
    ht.splice('pointer_to_offset', ret='res', requires=[f'{H}.wf()'],
              ensures=[f'[C05:ptr-to-offset] res matches Ok(o) ==> (ptr matches Pointer::Direct(p) && {H}.s_eh_frame_ptr() matches Pointer::Direct(e) && p >= e && o.0 == p - e)',
                       f'[C05:ptr-to-offset-indirect] ptr is Indirect || {H}.s_eh_frame_ptr() is Indirect ==> res is Err'])

    MID = '(lo + (len / 2) as nat) as nat'
    # the pointer returned is read at field 1 of row `lo` (second occurrence of the call: the tail expression)
    ht.insert_before('parse_encoded_pointer(self.hdr.table_enc, &parameters, &mut reader)',
                     f'proof {{ reveal(tbl_val); assert(reader.rv().start == {TBL}.start + tbl_off({ENC}, lo, 1)); }} // [C05:lookup-result]\n', nth=1)
    ht.splice('lookup', ret='res', canary=True, requires=[f'{H}.wf()'],
              ensures=[
                  f'[C05:lookup-encoding] hdr_field_size({H}.s_table_enc()) is None ==> res is Err',
                  f'[C05:lookup-in-table] res matches Ok(p) ==> exists|j: nat| #[trigger] tbl_row({H}, j) && tbl_answer({H}, bases, j, p)',
                  f'[C05:lookup-result] tbl_sorted({H}, bases) ==> (res matches Ok(p) ==> exists|j: nat| #[trigger] tbl_pick({H}, bases, address, j) && tbl_answer({H}, bases, j, p))',
                  f'[C05:lookup-total] tbl_total({H}, bases) ==> res is Ok',
              ],
              loops={0: LOOKUP_LOOP},
              before=[('let mut reader = reader_clone(&self.hdr.table);', 'let ghost mut lo: nat = 0; let ghost total = tbl_total(self.hdr, bases);'),
                      # the only products with two variable factors are (len / 2) * row_size and size * 2: name them by cases
                      ('let head_len = ',
                       f'proof {{ let e = {ENC}; let hl = (len / 2) as nat; '
                       'assert((len / 2) * row_size == tbl_off(e, hl, 0)) by { '
                       'if size == 2 { assert((len / 2) * row_size == (len / 2) * 4) by (nonlinear_arith) requires row_size == 4; } '
                       'else if size == 4 { assert((len / 2) * row_size == (len / 2) * 8) by (nonlinear_arith) requires row_size == 8; } '
                       'else { assert((len / 2) * row_size == (len / 2) * 16) by (nonlinear_arith) requires row_size == 16; } } '
                       'assert(tbl_off(e, lo + hl, 0) == tbl_off(e, lo, 0) + tbl_off(e, hl, 0)); '
                       'assert(tbl_off(e, len as nat, 0) == tbl_off(e, hl, 0) + tbl_off(e, (len - len / 2) as nat, 0)); '
                       'assert(tbl_off(e, hl, 0) >= tbl_off(e, 1, 0)); }')],
              after=[
                  ('let tail = reader_clone(&reader);',
                   'let ghost rmid = reader.rv();\n'
                   f'proof {{ assert(rmid.start == {TBL}.start + tbl_off({ENC}, lo + (len / 2) as nat, 0)); }}'),
                  ('.direct()?;', f'proof {{ assert(pivot as int == tbl_key(self.hdr, bases, {MID})) by {{ reveal(tbl_val); }} }} // [C05:lookup-result]'),
                  ('Ordering::Equal => {', f'proof {{ lo = {MID}; }}'),
                  ('Ordering::Less => {', f'proof {{ lo = {MID}; }}'),
              ])
    FOFF = 'f.s_offset() as nat'
    GC = ('forall|s: &EhFrame<R>, o: EhFrameOffset<usize>| s.sec() == frame.sec() && s.asz() == frame.asz() ==> #[trigger] get_cie.requires((s, bases, o))')
    FASZ = '[C01:address-size-config] valid_address_size(frame.asz())'
    ht.splice('fde_for_address', ret='res', canary=True, requires=[f'{H}.wf()', FASZ, GC],
              ensures=['[C05:lookup-contains] res matches Ok(f) ==> f.covers(address)',
                       f'[C05:lookup-entry] res matches Ok(f) ==> fde_at_offset(f, frame.sec(), true, {FOFF}, bases)',
                       # the FDE is the one the picked row of the search table designates: fde address == eh_frame_ptr + offset
                       f'[C05:hdr-lookup-row] tbl_sorted({H}, bases) ==> (res matches Ok(f) ==> exists|j: nat| #[trigger] tbl_pick({H}, bases, address, j) && '
                       f'({H}.s_eh_frame_ptr() matches Pointer::Direct(e) && tbl_fde({H}, bases, j) == e + f.s_offset()))'])
    ht.splice('unwind_info_for_address', ret='res', requires=[f'{H}.wf()', FASZ, GC])
    sk.add(M, ht)


SECTION_LOOKUP_SPEC = """
/// view of the section from section offset `off` to its end: where the entry at that offset is decoded from
pub open spec fn sec_from(sec: RView, off: nat) -> RView { rv_from(sec, sec.start + off, sec.end()) }
/// `f` is the FDE encoded at offset `off` of a section with view `sec`: common prefix fields (not a CIE id), and the body
/// decoded under the parameters of the CIE it carries
pub open spec fn fde_at_offset<R: Reader<Offset = usize>>(f: FrameDescriptionEntry<R>, sec: RView, is_eh: bool, off: nat, bases: &BaseAddresses) -> bool {
    let b = sec_from(sec, off);
    f.s_offset() as nat == off && f.s_length() as nat == px_len(b) && f.s_format() == px_format(b)
    && !id_is_cie(is_eh, px_is64(b), px_id(b, is_eh)) && fde_body(f, px_rest(b, is_eh), sec, bases)
}
/// R-TRAITSPLIT: both unwind sections have the lookup methods (gimli: they are default methods of UnwindSection itself, which
/// has exactly these two implementations)
impl<R: Reader<Offset = usize>> UnwindSectionLookup<R> for DebugFrame<R> {}
impl<R: Reader<Offset = usize>> UnwindSectionLookup<R> for EhFrame<R> {}
"""

GETCIE_OK = ('forall|s: &Self, o: Self::Offset| s.sec() == self.sec() && s.asz() == self.asz() ==> #[trigger] get_cie.requires((s, bases, o))')
ASZ_OK = '[C01:address-size-config] valid_address_size(self.asz())'


def cie_bound(f, sec, off):
    """the CIE carried by FDE `f` is what get_cie answered for the offset the FDE's CIE_pointer designates"""
    return (f'exists|s: &Self, o: Self::Offset| s.sec() == self.sec() && s.asz() == self.asz() '
            f'&& o.off() as int == px_cie_offset(sec_from({sec}, {off}), Self::is_eh(), {off}) '
            f'&& #[trigger] get_cie.ensures((s, bases, o), Ok::<CommonInformationEntry<R>, Error>({f}.s_cie()))')


def section_lookups(ctx, sk):
    """UnwindSection::{entries, cie_from_offset, partial_fde_from_offset, fde_from_offset, fde_for_address}.
    R-TRAITSPLIT: the default methods move, text unchanged, into a sub-trait `UnwindSectionLookup<R>: UnwindSection<R>` that is
    implemented for DebugFrame and EhFrame.  Inside UnwindSection itself Verus rejects them: their bodies call functions bounded
    by `Section: UnwindSection<R>` (definition cycle)."""
    cfi = Source('read/cfi.rs', ctx)
    M = 'read::cfi'
    us = cfi.item(r'^pub trait UnwindSection<', label='UnwindSection(lookups)')
    # cfi_entries emitted the trait without its six default methods and logged them as dropped; here they are verified
    for rec in [d for d in ctx.dropped if d.startswith('read/cfi.rs:UnwindSection::')]:
        ctx.dropped.remove(rec)
        ctx.rules['R-DROP'] -= 1
    us.custom('R-TRAITSPLIT', 'pub trait UnwindSection<R: Reader>: Clone + Debug + _UnwindSectionPrivate<R> {',
              'pub trait UnwindSectionLookup<R: Reader>: UnwindSection<R> {')
    us.custom('R-TRAITSPLIT', 'type Offset: UnwindOffset<R::Offset>;', '')
    us.custom('R-CLONE', 'section: self.clone(),', 'section: section_clone(self),')
    us.custom('R-CLONE', 'input: self.section().clone(),', 'input: reader_clone(self.section()),')
    us.custom('R-CLONE', 'let input = &mut self.section().clone();', 'let input = &mut reader_clone(self.section());', count=2)
    us.clean().own(OWN)
    SEC = 'self.sec()'
    OFF = 'offset.off() as nat'
    us.splice('entries', ret='res', canary=True, requires=[ASZ_OK],
              ensures=[f'[C05:entries-start] res.wf() && res.inp() == {SEC} && res.s_section().sec() == {SEC} && res.s_section().asz() == self.asz() && res.s_bases() == bases'])
    us.splice('cie_from_offset', ret='res', canary=True, requires=[ASZ_OK],
              ensures=[f'[C05:cie-from-offset] res matches Ok(c) ==> cie_at(c, sec_from({SEC}, {OFF}), {SEC}, Self::is_eh(), self.asz(), bases)',
                       f'[C05:from-offset-oob] {OFF} > {SEC}.len ==> res is Err'])
    us.splice('partial_fde_from_offset', ret='res', canary=True, requires=[ASZ_OK],
              ensures=[f'[C05:pfde-from-offset][C10:view] res matches Ok(f) ==> f.at(sec_from({SEC}, {OFF})) && f.wf() && f.s_section().sec() == {SEC} && f.s_section().asz() == self.asz() && f.s_bases() == bases',
                       f'[C05:from-offset-oob] {OFF} > {SEC}.len ==> res is Err'])
    us.splice('fde_from_offset', ret='res', canary=True, requires=[ASZ_OK, GETCIE_OK],
              ensures=[f'[C05:fde-from-offset] res matches Ok(f) ==> fde_at_offset(f, {SEC}, Self::is_eh(), {OFF}, bases)',
                       f'[C05:fde-cie-binding] res matches Ok(f) ==> ' + cie_bound('f', SEC, OFF),
                       f'[C05:from-offset-oob] {OFF} > {SEC}.len ==> res is Err'])
    # every `Err(NoUnwindInfoForAddress)` of fde_for_address is reached only with the entries iterator exhausted
    # (every occurrence in the method, wherever an edit puts one; as a statement before the `return` if there is one)
    s, e = method_span(us.text, 'fde_for_address')
    hits = [s + m.start() for m in re.finditer(r'(return\s+)?Err\(Error::NoUnwindInfoForAddress\)', us.text[s:e])]
    for k in reversed(hits):
        us.text = us.text[:k] + ins('proof { assert(entries.inp().len == 0); } // [C05:lookup-exhaustive]\n') + us.text[k:]
    FOFF = 'f.s_offset() as nat'
    us.splice('fde_for_address', ret='res', canary=True, requires=[ASZ_OK, GETCIE_OK],
              ensures=['[C05:lookup-contains] res matches Ok(f) ==> f.covers(address)',
                       f'[C05:lookup-entry] res matches Ok(f) ==> fde_at_offset(f, {SEC}, Self::is_eh(), {FOFF}, bases)',
                       f'[C05:fde-cie-binding] res matches Ok(f) ==> ' + cie_bound('f', SEC, FOFF)],
              # loop_isolation(false): the postcondition speaks about the closure passed in, the loop about the variable it
              # re-borrows (`&mut get_cie`); only a non-isolated loop can relate the two (ghost g0 = value on entry)
              attrs='#[verifier::loop_isolation(false)]',
              before=[('let mut entries = self.entries(bases);', 'let ghost g0 = get_cie;')],
              loops={0: f'invariant get_cie == g0, entries.wf(), entries.s_bases() == bases, entries.s_section().sec() == {SEC}, entries.s_section().asz() == self.asz(), '
                        f'entries.inp().len == 0 || within({SEC}, entries.inp()),\n'
                        ' decreases entries.inp().len'})
    us.splice('unwind_info_for_address', ret='res', requires=[ASZ_OK, GETCIE_OK])
    sk.add(M, us)
    sk.add(M, SECTION_LOOKUP_SPEC, label='ghost(section lookups)')


UNWIND_MODEL = """
// MODEL (not gimli text): opaque stand-ins for the unwind context types, which batch cfi_unwind owns.  The lookups only pass a
// `&mut UnwindContext` through and hand the resulting row reference back.
pub trait UnwindContextStorage<T: ReaderOffset>: Sized {}
#[verifier::external_body]
#[verifier::reject_recursive_types(T)]
#[verifier::reject_recursive_types(S)]
pub struct UnwindContext<T: ReaderOffset, S: UnwindContextStorage<T>> { _p: core::marker::PhantomData<(T, S)> }
#[verifier::external_body]
#[verifier::reject_recursive_types(T)]
#[verifier::reject_recursive_types(S)]
pub struct UnwindTableRow<T: ReaderOffset, S: UnwindContextStorage<T>> { _p: core::marker::PhantomData<(T, S)> }
"""


def unwind_stub(ctx, sk):
    """FrameDescriptionEntry::unwind_info_for_address: signature from the source, body outside this batch (R-EXTBODY; UnwindTable
    evaluation is batch cfi_unwind).  Nothing is assumed about its result; its `requires` is an obligation of the callers here:
    the FDE handed to the row search covers the address."""
    cfi = Source('read/cfi.rs', ctx)
    M = 'read::cfi'
    sk.add(M, UNWIND_MODEL, label='model(unwind context)')
    st = cfi.item(r'^impl<R: Reader> FrameDescriptionEntry<R> \{\s*fn parse_rest', label='FrameDescriptionEntry(unwind stub)')
    st.keep_only(['unwind_info_for_address'])
    st.extbody(['unwind_info_for_address'])
    st.clean()
    st.splice('unwind_info_for_address', ret='res', requires=['[C05:unwind-fde-covers] self.covers(address)'])
    sk.add(M, st)


def extend_iter_next(ctx, sk):
    """CfiEntriesIter::next (contract of batch cfi_entries) + one more proved fact the lookups need: the partial FDE handed out
    carries the section's configured address size (the iterator's section is a copy of it)."""
    its = [c[0] for c in sk.mods['read::cfi']['chunks'] if isinstance(c[0], Item) and c[0].label == 'CfiEntriesIter']
    if len(its) != 1:
        raise Lost('cfi_entries no longer emits exactly one `CfiEntriesIter` item')
    it = its[0]
    a = it.text.find('[C05:iter-eh-terminator]')
    b = it.text.find(INS_C, a)
    if a < 0 or b < 0:
        raise Lost('CfiEntriesIter::next: end of the ensures list not found')
    # a further clause of the same ensures list, right after cfi_entries' inserted specification
    it.insert_after(it.text[a:b + len(INS_C)],
                    '    res matches Ok(Some(CieOrFde::Fde(f))) ==> f.s_section().asz() == old(self).s_section().asz(),\n')


def pin_core_order(ctx, sk):
    """Work-around for an ordering hazard of the core layer (reported; the fix belongs in core.py): the obligations of
    `impl ReaderAddress for u64` are stated by the trait in terms of `val()`, but the bodies never mention u64's own `val`, so
    Verus' call graph does not order `<u64 as ReaderAddress>::val` before them; whether its defining axiom is already in the
    solver context when `ones_sized` / `wrapping_add_sized` are checked then depends on unrelated items of the crate.  Observed:
    adding the default method `cie_from_offset` to the crate makes both fail `[C08:ones]` / `[C08:wrapping-add]` deterministically
    (same axioms, different order; reseeding does not help), and a ghost mention of `(0u64).val()` in `ones_sized` - an edge in the
    call graph, nothing else - makes both pass again."""
    its = [c[0] for c in sk.mods['read::reader']['chunks'] if isinstance(c[0], Item) and c[0].label == 'ReaderAddress for u64']
    if len(its) != 1:
        raise Lost('core no longer emits exactly one `ReaderAddress for u64` item')
    its[0].insert_before('!0 >> (64 - size * 8)', 'proof { assert((0u64).val() == 0u64); }\n')


def populate(ctx, sk):
    cfi_entries.populate(ctx, sk)
    pin_core_order(ctx, sk)
    extend_iter_next(ctx, sk)
    eh_hdr_table(ctx, sk)
    section_lookups(ctx, sk)
    unwind_stub(ctx, sk)
    return sk


def build(ctx):
    sk = Skeleton(ctx, core.rd('prelude/crate.rs'))
    core.populate(ctx, sk)
    populate(ctx, sk)
    return sk
