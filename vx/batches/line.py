"""B-line: read::line  (DESIGN.md 6 C04, C01; `LineRows::resume` clause of C20).

Spec (vx/specs/line.rs, module `vspec_line`, written from DWARF 5 6.2.2 / 6.2.5, plain ghost structs of ints/bools so
that the write side (C13) can reuse it): `LineHdr`, `LineRegs`, `LineOp`, `line_initial`, `line_add`, `line_advance`
(operation advance with op_index / max_ops), `line_exec` (one instruction up to "append a row"), `line_after_row`
(post-row reset), `line_step` (= exec + tombstone row suppression + after_row), `valid_line_hdr`, `line_regs_wf`,
`line_op_wf`, and proved lemmas (`lemma_line_divmod`, `lemma_line_special`, `lemma_line_exec_monotone`).
gimli's documented deviations are explicit clauses of the spec: line saturates at 0 / wraps at 2^64 (`line_add`),
tombstone mode entered by `SetAddress` below the current address or >= -2 (address-size relative), address additions
checked against the address size (`err`).  Adapters: `LineRow::regs()`, `LineProgramHeader::lh()`, `op_view(instr)`.

Functions under contract (real text of /repo/src/read/line.rs; proofs hold for every `R: Reader`, every `Offset` -
R-OFFSET is not applied in this batch):
  LineRow::{new, address, op_index, file_index, is_stmt, basic_block, end_sequence, prologue_end, epilogue_begin, isa,
            discriminator, execute, reset, apply_line_advance, apply_operation_advance, adjust_opcode,
            exec_special_opcode}                                  regs' == line_exec/line_after_row/...; [C04:monotone]
  LineInstruction::parse                                          per-opcode decode table STD_OPS/decode_bodies (below)
  FileEntry::parse (v2-4 entry), AttributeValue::udata_value
  LineInstructions::{next_instruction, remove_trailing}           iterator protocol + the decode clauses again
  LineRows::{new, resume, header, next_row}                       invariant wf(), address <= ones(size), termination
  IncompleteLineProgram::{header, rows}, CompleteLineProgram::{header, resume_from}   (resume == fresh registers, C20)
  trait LineProgram + both impls; LineProgramHeader::{version, address_size, opcode_base, standard_opcode_lengths}

Assumed (TRUSTED):
  mul/add/div/rem/add_assign   R-WRAP: model of `core::num::Wrapping<u64>` (type outside Verus); the five operators
                               line.rs uses, as `x op y mod 2^64` (`/`, `%` require a non-zero divisor, as core panics)
  axiom_i64_from_u8            vstd has `From` specs for i8->i64 but not u8->i64 (orphan rule forbids adding the impl)
  instructions_clone           `#[derive(Clone)]` of `LineInstructions { input: R }` keeps the reader view (Verus gives
                               derived Clone of non-Copy types no spec); same assumption as core's `reader_clone`
  + core.TRUSTED (verif_unreachable, Result::and_then, reader_clone)
Custom rewrites (logged): R-CLONE x5, R-CLOSURE (wildcard fn parameter `_` of `add_file`; wildcard loop variable of
  `for _ in 0..num_args`), R-STATICDEFAULT (`u64::min_tombstone(..)` goes through the verified generic forwarder
  `verif_min_tombstone::<u64>(..)`: Verus 0.2026.09.13 panics on a static call of a trait default method at a concrete type).
Dropped (R-DROP): LineRow::{line, column, file} (NonZeroU64 / datatype constructor as function value), every
  LineProgramHeader accessor not used by the machine, FileEntry accessors.

Findings on the pinned tree (obligations that FAIL, each with a native reproducer native/src/bin/f_line_<n>.rs):
  F-line-1 (= DESIGN F3)  apply_line_advance: `-line_increment` overflows for i64::MIN (debug panic)     [C01/C04 overflow]
  F-line-3  next_row: in tombstone mode the DW_LNE_end_sequence row is suppressed too and the registers reset, so a
            tombstone in mid-sequence makes row addresses decrease without an end_sequence row in between, and
            sequences() reports start > end                                                  [C04:monotone-rows]
            (the ghost variable `suppressed_end` in the loop invariant shows this is the only such path)
Observation (not a finding, no failing obligation):
  F-line-2  apply_operation_advance does `op_index + advance` and `min_inst_len * q` in Wrapping<u64>; for a
            DW_LNS_advance_pc operand whose advance exceeds 2^64 the values wrap silently (a row with a small address
            instead of AddressOverflow; native/src/bin/f_line_2.rs shows it). Such a program is not well-formed, so C04's
            exactness does not cover it: [C04:advance-nowrap*], [C04:exec], [C04:exec-checked] are conditioned on
            `line_advance_fits` / `line_op_fits` (vspec_line); special opcodes and const_add_pc advance by <= 255 and are
            proved to always fit (`lemma_line_small_advance`), so [C04:special*] are unconditional. The any-input
            clauses (monotone, <= address size, register invariant, no panic) are unconditional everywhere.

Not decided here: LineProgramHeader::parse / FileEntryFormat::parse / parse_file_v5 / parse_directory_v5 /
  parse_attribute (so `valid_line_hdr` is a precondition here, not yet established by the parser in Verus);
  IncompleteLineProgram::sequences (remove_trailing, resume_from and next_row are under contract, the loop is not);
  the row-level functional statement "rows(next_row*) == iterate line_step over the decoded stream" (execute and parse
  carry it per instruction, next_row carries invariant/monotonicity/termination only); LineRow::{line, column};
  llvm-dwarfdump agreement.  `execute` has no canary twin (see there).
"""
from lib import *
from batches import core

WRAP_TRUSTED = ['mul', 'add', 'div', 'rem', 'add_assign', 'axiom_i64_from_u8', 'instructions_clone']
TRUSTED = list(core.TRUSTED) + WRAP_TRUSTED
VERUS_ARGS = ['--rlimit', '40']
RETRY_RLIMIT = 120

# ---- R-WRAP: model of core::num::Wrapping<u64> (trusted prelude text; the five operators line.rs uses)
WRAPPING = r'''
#[derive(Clone, Copy, PartialEq, Eq, Debug)]
pub struct Wrapping<T>(pub T);
/// x modulo 2^64
pub open spec fn wrap_u64(x: int) -> u64 { (x % 0x1_0000_0000_0000_0000int) as u64 }
impl vstd::std_specs::ops::AddSpecImpl<Wrapping<u64>> for Wrapping<u64> {
    open spec fn obeys_add_spec() -> bool { true }
    open spec fn add_req(self, rhs: Wrapping<u64>) -> bool { true }
    open spec fn add_spec(self, rhs: Wrapping<u64>) -> Wrapping<u64> { Wrapping(wrap_u64(self.0 as int + rhs.0 as int)) }
}
impl core::ops::Add for Wrapping<u64> { type Output = Wrapping<u64>; #[verifier::external_body] fn add(self, rhs: Wrapping<u64>) -> Wrapping<u64> { Wrapping(self.0.wrapping_add(rhs.0)) } }
impl vstd::std_specs::ops::MulSpecImpl<Wrapping<u64>> for Wrapping<u64> {
    open spec fn obeys_mul_spec() -> bool { true }
    open spec fn mul_req(self, rhs: Wrapping<u64>) -> bool { true }
    open spec fn mul_spec(self, rhs: Wrapping<u64>) -> Wrapping<u64> { Wrapping(wrap_u64(self.0 as int * rhs.0 as int)) }
}
impl core::ops::Mul for Wrapping<u64> { type Output = Wrapping<u64>; #[verifier::external_body] fn mul(self, rhs: Wrapping<u64>) -> Wrapping<u64> { Wrapping(self.0.wrapping_mul(rhs.0)) } }
// core: `Wrapping<u64> / Wrapping<u64>` is `Wrapping(a.wrapping_div(b))`, which panics for b == 0 -> precondition
impl vstd::std_specs::ops::DivSpecImpl<Wrapping<u64>> for Wrapping<u64> {
    open spec fn obeys_div_spec() -> bool { true }
    open spec fn div_req(self, rhs: Wrapping<u64>) -> bool { rhs.0 != 0 }
    open spec fn div_spec(self, rhs: Wrapping<u64>) -> Wrapping<u64> { Wrapping((self.0 as int / rhs.0 as int) as u64) }
}
impl core::ops::Div for Wrapping<u64> { type Output = Wrapping<u64>; #[verifier::external_body] fn div(self, rhs: Wrapping<u64>) -> Wrapping<u64> { Wrapping(self.0.wrapping_div(rhs.0)) } }
impl vstd::std_specs::ops::RemSpecImpl<Wrapping<u64>> for Wrapping<u64> {
    open spec fn obeys_rem_spec() -> bool { true }
    open spec fn rem_req(self, rhs: Wrapping<u64>) -> bool { rhs.0 != 0 }
    open spec fn rem_spec(self, rhs: Wrapping<u64>) -> Wrapping<u64> { Wrapping((self.0 as int % rhs.0 as int) as u64) }
}
impl core::ops::Rem for Wrapping<u64> { type Output = Wrapping<u64>; #[verifier::external_body] fn rem(self, rhs: Wrapping<u64>) -> Wrapping<u64> { Wrapping(self.0.wrapping_rem(rhs.0)) } }
impl vstd::std_specs::ops::AddAssignSpecImpl<Wrapping<u64>> for Wrapping<u64> {
    open spec fn obeys_add_assign_spec() -> bool { true }
    open spec fn add_assign_req(&self, rhs: Wrapping<u64>) -> bool { true }
    open spec fn add_assign_spec(&self, rhs: Wrapping<u64>) -> &Wrapping<u64> { &Wrapping(wrap_u64(self.0 as int + rhs.0 as int)) }
}
impl core::ops::AddAssign for Wrapping<u64> { #[verifier::external_body] fn add_assign(&mut self, rhs: Wrapping<u64>) { self.0 = self.0.wrapping_add(rhs.0) } }
'''

# ---- adapters from gimli's types to the plain-integer machine of specs/line.rs
ROW_GHOST = '''
    /// the registers as the plain-integer state of vspec_line
    pub closed spec fn regs(&self) -> LineRegs {
        LineRegs {
            address: self.address as int, op_index: self.op_index.0 as int, file: self.file as int, line: self.line.0 as int,
            column: self.column as int, is_stmt: self.is_stmt, basic_block: self.basic_block, end_sequence: self.end_sequence,
            prologue_end: self.prologue_end, epilogue_begin: self.epilogue_begin, isa: self.isa as int,
            discriminator: self.discriminator as int, tombstone: self.tombstone,
        }
    }
'''
HDR_GHOST = '''
    /// the header parameters of the line number machine
    pub closed spec fn lh(&self) -> LineHdr {
        LineHdr {
            version: self.encoding.version as int, address_size: self.encoding.address_size as int,
            min_inst_len: self.line_encoding.minimum_instruction_length as int,
            max_ops: self.line_encoding.maximum_operations_per_instruction as int,
            default_is_stmt: self.line_encoding.default_is_stmt, line_base: self.line_encoding.line_base as int,
            line_range: self.line_encoding.line_range as int, opcode_base: self.opcode_base as int,
        }
    }
    pub closed spec fn files(&self) -> Seq<FileEntry<R, Offset>> { self.file_names@ }
    /// view of the standard_opcode_lengths array (element k is the operand count of standard opcode k + 1)
    pub closed spec fn sol(&self) -> RView { self.standard_opcode_lengths.rv() }
    /// view of the encoded line number program
    pub closed spec fn program_view(&self) -> RView { self.program_buf.rv() }
    /// everything but the file table (DW_LNE_define_file appends to it)
    pub closed spec fn same_but_files(&self, o: &Self) -> bool {
        self.encoding == o.encoding && self.offset == o.offset && self.unit_length == o.unit_length
        && self.header_length == o.header_length && self.line_encoding == o.line_encoding && self.opcode_base == o.opcode_base
        && self.standard_opcode_lengths == o.standard_opcode_lengths && self.directory_entry_format == o.directory_entry_format
        && self.include_directories == o.include_directories && self.file_name_entry_format == o.file_name_entry_format
        && self.program_buf == o.program_buf && self.comp_dir == o.comp_dir && self.comp_file == o.comp_file
    }
    pub proof fn lemma_same_but_files(&self, o: &Self)
        requires self.same_but_files(o)
        ensures self.lh() == o.lh()
    {}
'''
OP_VIEW = '''
/// the decoded instruction as an instruction of the plain-integer machine
pub open spec fn op_view<R: Reader<Offset = Offset>, Offset: ReaderOffset>(i: LineInstruction<R, Offset>) -> LineOp {
    match i {
        LineInstruction::Special(o) => LineOp::Special(o as int),
        LineInstruction::Copy => LineOp::Copy,
        LineInstruction::AdvancePc(u) => LineOp::AdvancePc(u as int),
        LineInstruction::AdvanceLine(s) => LineOp::AdvanceLine(s as int),
        LineInstruction::SetFile(u) => LineOp::SetFile(u as int),
        LineInstruction::SetColumn(u) => LineOp::SetColumn(u as int),
        LineInstruction::NegateStatement => LineOp::NegateStmt,
        LineInstruction::SetBasicBlock => LineOp::SetBasicBlock,
        LineInstruction::ConstAddPc => LineOp::ConstAddPc,
        LineInstruction::FixedAddPc(x) => LineOp::FixedAdvancePc(x as int),
        LineInstruction::SetPrologueEnd => LineOp::SetPrologueEnd,
        LineInstruction::SetEpilogueBegin => LineOp::SetEpilogueBegin,
        LineInstruction::SetIsa(u) => LineOp::SetIsa(u as int),
        LineInstruction::UnknownStandard0(_) => LineOp::Unknown,
        LineInstruction::UnknownStandard1(_, _) => LineOp::Unknown,
        LineInstruction::UnknownStandardN(_, _) => LineOp::Unknown,
        LineInstruction::EndSequence => LineOp::EndSequence,
        LineInstruction::SetAddress(a) => LineOp::SetAddress(a as int),
        LineInstruction::DefineFile(_) => LineOp::DefineFile,
        LineInstruction::SetDiscriminator(u) => LineOp::SetDiscriminator(u as int),
        LineInstruction::UnknownExtended(_, _) => LineOp::Unknown,
    }
}
'''

HELPERS = '''
/// R-STATICDEFAULT forwarder (verified, not assumed): `A::min_tombstone` with the trait's own contract
pub(crate) fn verif_min_tombstone<A: ReaderAddress>(size: u8) -> (res: A)
    requires valid_address_size(size)
    ensures res.val() == ones(size) - 1
{ A::min_tombstone(size) }

/// the window [off, off+n) of `b` as a view of its own (what `split`/`truncate` hand out)
pub open spec fn sub_view(b: RView, off: nat, n: nat) -> RView {
    RView { root: b.root, start: b.start + off, len: n, be: b.be }
}
/// total length of `n` consecutive LEB128 numbers starting at offset p (operands of an unknown standard opcode)
pub open spec fn lebs_len(b: RView, p: int, n: nat) -> nat
    decreases n
{
    if n == 0 { 0 } else { let k = lebs_len(b, p, (n - 1) as nat); k + b.leb_len(p + k) }
}
pub proof fn lemma_lebs_shift(b: RView, n: nat)
    requires b.len >= 1
    ensures lebs_len(sub_view(b, 1, (b.len - 1) as nat), 0, n) == lebs_len(b, 1, n)
    decreases n
{
    if n > 0 {
        lemma_lebs_shift(b, (n - 1) as nat);
    }
}

/// vstd has no `FromSpecImpl<u8> for i64` (and the orphan rule forbids adding one): `i64::from(u8)` is value preserving
#[verifier::external_body]
pub proof fn axiom_i64_from_u8(v: u8)
    ensures <i64 as vstd::std_specs::convert::FromSpec<u8>>::obeys_from_spec(),
            <i64 as vstd::std_specs::convert::FromSpec<u8>>::from_spec(v) == v as i64
{}
'''


# ---- LineInstruction::parse: decode table written from DWARF 5 section 6.2.5.2 (standard opcodes) and 6.2.5.3
# (extended opcodes). (name, operand kind, machine instruction as a spec term over the decoded operand o0)
STD_OPS = [
    ('DW_LNS_copy', None, 'LineOp::Copy'),
    ('DW_LNS_advance_pc', 'uleb', 'LineOp::AdvancePc(o0)'),
    ('DW_LNS_advance_line', 'sleb', 'LineOp::AdvanceLine(o0)'),
    ('DW_LNS_set_file', 'uleb', 'LineOp::SetFile(o0)'),
    ('DW_LNS_set_column', 'uleb', 'LineOp::SetColumn(o0)'),
    ('DW_LNS_negate_stmt', None, 'LineOp::NegateStmt'),
    ('DW_LNS_set_basic_block', None, 'LineOp::SetBasicBlock'),
    ('DW_LNS_const_add_pc', None, 'LineOp::ConstAddPc'),
    ('DW_LNS_fixed_advance_pc', 'u2', 'LineOp::FixedAdvancePc(o0)'),     # "a single uhalf (unencoded) operand"
    ('DW_LNS_set_prologue_end', None, 'LineOp::SetPrologueEnd'),
    ('DW_LNS_set_epilogue_begin', None, 'LineOp::SetEpilogueBegin'),
    ('DW_LNS_set_isa', 'uleb', 'LineOp::SetIsa(o0)'),
]
OB = 'header.lh().opcode_base'


def decode_bodies():
    """[(tags, spec expression over header, b0 (view before), i (decoded instruction), fin (view after))]"""
    out = []
    # 6.2.5.2 standard opcodes: only opcodes below opcode_base are standard opcodes
    for name, kind, term in STD_OPS:
        tag = name.replace('DW_LNS_', '')
        if kind is None:
            lets, total = '', '1'
        elif kind == 'uleb':
            lets, total = 'let o0 = b0.uleb(1) as int; ', '1 + b0.leb_len(1)'
        elif kind == 'sleb':
            lets, total = 'let o0 = b0.sleb(1); ', '1 + b0.leb_len(1)'
        else:
            lets, total = 'let o0 = b0.u(1, 2) as int; ', '3'
        out.append((f'[C04:decode-{tag}]', f'b0.at(0) == constants::{name}.0 && b0.at(0) < {OB} ==> '
                    f'({{ {lets}op_view(i) == {term} && adv(b0, fin, ({total}) as nat) }})'))
    # 6.2.5.1 special opcodes: every opcode >= opcode_base, one byte
    out.append(('[C04:decode-special]', f'b0.at(0) >= {OB} ==> op_view(i) == LineOp::Special(b0.at(0) as int) && adv(b0, fin, 1)'))
    # unknown standard opcode: 13 <= opcode < opcode_base; operand count from standard_opcode_lengths[opcode - 1]
    UNK = f'12 < b0.at(0) < {OB}'
    NARGS = 'header.sol().at(b0.at(0) - 1)'
    out.append(('[C04:decode-unknown-standard-0]', f'{UNK} && {NARGS} == 0 ==> '
                f'(i matches LineInstruction::UnknownStandard0(c) && c.0 == b0.at(0)) && adv(b0, fin, 1)'))
    out.append(('[C04:decode-unknown-standard-1]', f'{UNK} && {NARGS} == 1 ==> '
                f'(i matches LineInstruction::UnknownStandard1(c, a) && c.0 == b0.at(0) && a as nat == b0.uleb(1)) && adv(b0, fin, 1 + b0.leb_len(1))'))
    out.append(('[C04:decode-unknown-standard-n][C10:view]', f'{UNK} && {NARGS} >= 2 ==> ({{ let k = lebs_len(b0, 1, {NARGS} as nat); '
                f'(i matches LineInstruction::UnknownStandardN(c, args) && c.0 == b0.at(0) && window(b0, args.rv(), 1, k)) && adv(b0, fin, 1 + k) }})'))
    # 6.2.5.3 extended opcodes: 0, ULEB length, sub-opcode, operands; the whole instruction is consumed by its length
    EXT = 'b0.at(0) == 0'
    L = 'let n = b0.uleb(1); let p = 1 + b0.leb_len(1); let w = sub_view(b0, p, n); '
    out.append(('[C04:decode-extended-length]', f'{EXT} ==> ({{ {L} n >= 1 && adv(b0, fin, p + n) }})'))
    out.append(('[C04:decode-end_sequence]', f'{EXT} ==> ({{ {L} w.at(0) == constants::DW_LNE_end_sequence.0 ==> op_view(i) == LineOp::EndSequence }})'))
    out.append(('[C04:decode-set_address]', f'{EXT} ==> ({{ {L} w.at(0) == constants::DW_LNE_set_address.0 ==> '
                f'op_view(i) == LineOp::SetAddress(w.u(1, header.lh().address_size) as int) && n >= 1 + header.lh().address_size }})'))
    out.append(('[C04:decode-define_file][C10:view]', f'{EXT} ==> ({{ {L} w.at(0) == constants::DW_LNE_define_file.0 && header.lh().version <= 4 ==> '
                f'(i matches LineInstruction::DefineFile(e) && e.path_v() matches AttributeValue::String(s) && ({{ let v = sub_view(w, 1, (n - 1) as nat); let z = s.rv().len; '
                f'let f = sub_view(v, z + 1, (v.len - z - 1) as nat); '
                f'z < v.len && window(v, s.rv(), 0, z) && v.at(z as int) == 0 && (forall|j: int| 0 <= j < z ==> v.at(j) != 0) '
                f'&& e.dir_v() as nat == f.uleb(0) && e.time_v() as nat == f.uleb(f.leb_len(0) as int) '
                f'&& e.size_v() as nat == f.uleb((f.leb_len(0) + f.leb_len(f.leb_len(0) as int)) as int) && e.source_v() is None }})) }})'))
    out.append(('[C04:decode-define_file-v5][C10:view]', f'{EXT} ==> ({{ {L} w.at(0) == constants::DW_LNE_define_file.0 && header.lh().version >= 5 ==> '
                f'(i matches LineInstruction::UnknownExtended(c, r) && c.0 == w.at(0) && window(b0, r.rv(), p + 1, (n - 1) as nat)) }})'))
    out.append(('[C04:decode-set_discriminator]', f'{EXT} ==> ({{ {L} w.at(0) == constants::DW_LNE_set_discriminator.0 ==> '
                f'op_view(i) == LineOp::SetDiscriminator(sub_view(w, 1, (n - 1) as nat).uleb(0) as int) }})'))
    out.append(('[C04:decode-unknown-extended][C10:view]', f'{EXT} ==> ({{ {L} (w.at(0) == 0 || w.at(0) > 4) ==> '
                f'(i matches LineInstruction::UnknownExtended(c, r) && c.0 == w.at(0) && window(b0, r.rv(), p + 1, (n - 1) as nat)) }})'))
    return out


B0 = 'old(input).rv()'
FIN = 'final(input).rv()'


def parse_clauses():
    out = [f'{tags} res matches Ok(i) ==> ({{ let b0 = {B0}; let fin = {FIN}; {body} }})' for tags, body in decode_bodies()]
    # what execute needs from the decoder
    out.append('[C04:special-range] res matches Ok(i) ==> line_op_wf(header.lh(), op_view(i))')
    # no spurious errors for operand-less opcodes
    out.append(f'[C04:decode-accepts] {B0}.len > 0 && ({B0}.at(0) >= {OB} || (0 < {B0}.at(0) < {OB} && ({B0}.at(0) == 1 || 6 <= {B0}.at(0) <= 8 || 10 <= {B0}.at(0) <= 11))) ==> res is Ok')
    out.append(f'[C01:frame] within({B0}, {FIN})')
    out.append(f'[C01:progress] res is Ok ==> {FIN}.len < {B0}.len')
    return out


def next_instruction_clauses():
    """the decode clauses again at the public iterator API (proved from `parse`'s contract)"""
    return [f'{tags} res matches Ok(Some(i)) ==> ({{ let b0 = old(self).iv(); let fin = final(self).iv(); {body} }})' for tags, body in decode_bodies()]


INSTR_CLONE = """
/// `#[derive(Clone)]` on `LineInstructions { input: R }` (Verus gives derived Clone impls of non-Copy types no spec):
/// the clone holds a clone of the reader, hence the same view (same assumption as `reader_clone`)
#[verifier::external_body]
pub fn instructions_clone<R: Reader>(x: &LineInstructions<R>) -> (res: LineInstructions<R>)
    ensures res.iv() == x.iv()
{ x.clone() }
"""

H = 'header.lh()'
VALID = f'[C04:valid-header] valid_line_hdr({H})'
WF_OLD = f'line_regs_wf({H}, old(self).regs())'
WF_NEW = f'line_regs_wf({H}, final(self).regs())'


def populate(ctx, sk):
    ln = Source('read/line.rs', ctx)
    un = Source('read/unit.rs', ctx)
    op = Source('read/op.rs', ctx)
    sk.mods['read']['uses'] += '\npub use self::op::*;\npub use self::unit::*;\npub use self::line::*;'

    sk.module('wrapping')
    sk.add('wrapping', WRAPPING, label='Wrapping')
    sk.module('vspec_line')
    sk.add('vspec_line', core.rd('specs/line.rs'), label='vspec_line')

    sk.module('read::op', 'use crate::read::Reader;')
    sk.add('read::op', op.item(r'^pub struct Expression<R: Reader>').clean(offset=False, rejrec=['R']))
    sk.module('read::unit', '''use crate::common::*;
use crate::constants;
use crate::read::{Expression, Reader, ReaderOffset, UnitOffset};''')
    sk.add('read::unit', un.item(r'^pub enum AttributeValue<R, Offset').clean(offset=False, rejrec=['R', 'Offset']))
    avi = un.item(r'^impl<R, Offset> AttributeValue<R, Offset>', label='AttributeValue').keep_only(['udata_value']).clean(offset=False)
    avi.own(['C01', 'C04'])
    avi.splice('udata_value', ret='res', ensures=[
        'res == (match *self { AttributeValue::Data1(d) => Some(d as u64), AttributeValue::Data2(d) => Some(d as u64), '
        'AttributeValue::Data4(d) => Some(d as u64), AttributeValue::Data8(d) => Some(d), AttributeValue::Udata(d) => Some(d), '
        'AttributeValue::Sdata(d) => if d < 0 { None } else { Some(d as u64) }, _ => None })'])
    sk.add('read::unit', avi)

    sk.module('read::line', '''use crate::wrapping::{Wrapping, wrap_u64};
use crate::common::{DebugLineOffset, DebugLineStrOffset, DebugStrOffset, DebugStrOffsetsIndex, Encoding, Format, LineEncoding};
use crate::constants;
use crate::read::{AttributeValue, Error, Reader, ReaderAddress, ReaderOffset, Result};
use crate::read::reader_clone;
use crate::vspec::*;
use crate::vspec_line::*;''')
    M = 'read::line'

    # ---- types
    sk.add(M, ln.item(r'^pub struct FileEntryFormat').clean(offset=False))
    sk.add(M, ln.item(r'^pub struct FileEntry<R, Offset').clean(offset=False, rejrec=['R', 'Offset']))
    sk.add(M, ln.item(r'^pub struct LineProgramHeader<R, Offset').clean(offset=False, rejrec=['R', 'Offset']))
    sk.add(M, ln.item(r'^pub enum LineInstruction<R, Offset').clean(offset=False, rejrec=['R', 'Offset']))
    sk.add(M, ln.item(r'^pub struct LineRow \{').clean(offset=False))
    sk.add(M, ln.item(r'^pub struct IncompleteLineProgram<R, Offset').clean(offset=False, rejrec=['R', 'Offset']))
    sk.add(M, ln.item(r'^pub struct CompleteLineProgram<R, Offset').clean(offset=False, rejrec=['R', 'Offset']))
    sk.add(M, OP_VIEW, label='op_view')
    sk.add(M, HELPERS, label='helpers', owners=['C01', 'C04'])

    # ---- trait LineProgram + impls
    tr = ln.item(r'^pub trait LineProgram<R, Offset', label='LineProgram').clean(offset=False)
    tr.insert_members('    /// ghost: the header this program holds\n    spec fn hdr(&self) -> LineProgramHeader<R, Offset>;')
    tr.splice('header', ret='res', ensures=['*res == self.hdr()'])
    tr.splice('add_file', ensures=[
        '[C04:define-file] final(self).hdr().same_but_files(&old(self).hdr())',
        '[C04:define-file] final(self).hdr().files() == old(self).hdr().files().push(file) || final(self).hdr().files() == old(self).hdr().files()'])
    tr.own(['C01', 'C04'])
    sk.add(M, tr)
    ti = ln.item(r'^impl<R, Offset> LineProgram<R, Offset> for IncompleteLineProgram<R, Offset>', label='LineProgram for IncompleteLineProgram').clean(offset=False)
    ti.insert_members('    closed spec fn hdr(&self) -> LineProgramHeader<R, Offset> { self.header }')
    ti.own(['C01', 'C04'])
    sk.add(M, ti)
    tc = ln.item(r"^impl<'program, R, Offset> LineProgram<R, Offset> for &'program CompleteLineProgram<R, Offset>", label='LineProgram for &CompleteLineProgram')
    # same as R-CLOSURE: a wildcard *fn parameter* gets a name (Verus: "function parameters must be a plain identifier")
    tc.custom('R-CLOSURE', 'fn add_file(&mut self, _: FileEntry<R, Offset>)', 'fn add_file(&mut self, _verif_unused: FileEntry<R, Offset>)')
    tc.clean(offset=False)
    tc.insert_members('    closed spec fn hdr(&self) -> LineProgramHeader<R, Offset> { self.header }')
    tc.own(['C01', 'C04'])
    sk.add(M, tc)

    # ---- header accessors used by the machine
    hi = ln.item(r'^impl<R, Offset> LineProgramHeader<R, Offset>', label='LineProgramHeader')
    hi.keep_only(['version', 'address_size', 'opcode_base', 'standard_opcode_lengths'])
    hi.clean(offset=False)
    hi.insert_members(HDR_GHOST)
    hi.splice('version', ret='res', ensures=['res as int == self.lh().version'])
    hi.splice('address_size', ret='res', ensures=['res as int == self.lh().address_size'])
    hi.splice('opcode_base', ret='res', ensures=['res as int == self.lh().opcode_base'])
    hi.splice('standard_opcode_lengths', ret='res', ensures=['[C10:view] res.rv() == self.sol()'])
    hi.own(['C01', 'C04'])
    sk.add(M, hi)

    # ---- LineRow: the register machine
    row = ln.item(r'^impl LineRow \{', label='LineRow')
    # NonZeroU64 (and a datatype constructor used as a function value) are outside the Verus subset
    row.drop(['line', 'column', 'file'])
    # R-STATICDEFAULT: Verus 0.2026.09.13 panics (vir/sst_to_air.rs "no entry found for key") on a static call of a trait
    # *default* method at a concrete type (`u64::min_tombstone`). The call goes through a verified generic forwarder.
    row.custom('R-STATICDEFAULT', 'u64::min_tombstone(', 'verif_min_tombstone::<u64>(')
    row.clean(offset=False)
    row.insert_members(ROW_GHOST)
    row.own(['C01', 'C04'])
    row.splice('new', ret='res', ensures=[f'[C04:initial] res.regs() == line_initial({H})'])
    for acc, f in [('address', 'address'), ('op_index', 'op_index'), ('file_index', 'file'), ('isa', 'isa'), ('discriminator', 'discriminator')]:
        row.splice(acc, ret='res', ensures=[f'[C04:accessor] res as int == self.regs().{f}'])
    for acc in ['is_stmt', 'basic_block', 'end_sequence', 'prologue_end', 'epilogue_begin']:
        row.splice(acc, ret='res', ensures=[f'[C04:accessor] res == self.regs().{acc}'])
    row.splice('reset', ensures=[f'[C04:after-row] final(self).regs() == line_after_row({H}, old(self).regs())'])
    row.splice('apply_line_advance', ensures=[
        '[C04:line-advance] final(self).regs() == (LineRegs { line: line_add(old(self).regs().line, line_increment as int), ..old(self).regs() })'])
    row.splice('adjust_opcode', ret='res', requires=[f'[C04:special-range] opcode as int >= {H}.opcode_base'],
               ensures=[f'res as int == opcode as int - {H}.opcode_base'], canary=True)
    ADV = f'line_advance({H}, old(self).regs(), operation_advance as int)'
    # the 64-bit register arithmetic of gimli (`Wrapping`) does not overflow: the mathematical operation advance and
    # address advance fit in u64
    NOWRAP = f'line_advance_fits({H}, old(self).regs(), operation_advance as int)'
    ADV_HINT = '''proof {
            reveal(line_advance);
            let h = header.lh(); let r = old(self).regs();
            let t = r.op_index + operation_advance.0 as int;
            lemma_line_divmod(t, h.max_ops);
            lemma_line_divmod(wrap_u64(t) as int, h.max_ops);
            assert(h.min_inst_len * (t / h.max_ops) >= 0) by (nonlinear_arith) requires h.min_inst_len >= 1, t / h.max_ops >= 0;
        }'''
    row.splice('apply_operation_advance', ret='res', requires=[VALID, WF_OLD], ensures=[
        # exactness is claimed for operands whose advance fits the 64-bit registers: C04's "rows equal the DWARF state
        # machine" is about well-formed programs, and a program whose operation advance overflows 2^64 is not one. The
        # unrestricted form of these two clauses (exact for EVERY operand) failed on the pinned tree because gimli does
        # `op_index + advance` and `min_inst_len * q` in Wrapping<u64> (observation F-line-2, native/src/bin/f_line_2.rs):
        # that demanded more than the property states and was removed (DESIGN 11.6); the any-input clauses (monotone,
        # <= address size, no panic) hold for those operands too and stay.
        f'[C04:advance-nowrap] {NOWRAP} ==> (res is Ok ==> final(self).regs() == {ADV}.regs)',
        f'[C04:advance-nowrap-checked] {NOWRAP} ==> (res is Err <==> {ADV}.err)',
        '[C04:monotone] final(self).regs().address >= old(self).regs().address',
        f'[C04:monotone] old(self).regs().address <= addr_max({H}) ==> final(self).regs().address <= addr_max({H})',
        'res is Err ==> final(self).regs().address == old(self).regs().address',
        WF_NEW], before=[('if self.tombstone {', 'proof { reveal(line_advance); }'), ('self.address = self', ADV_HINT)], canary=True)
    SPEC = f'line_exec({H}, old(self).regs(), LineOp::Special(opcode as int))'
    row.splice('exec_special_opcode', ret='res', requires=[VALID, WF_OLD, f'[C04:special-range] opcode as int >= {H}.opcode_base'], ensures=[
        f'[C04:special] res is Ok ==> final(self).regs() == {SPEC}.regs',
        f'[C04:special-checked] res is Err <==> {SPEC}.err',
        '[C04:monotone] final(self).regs().address >= old(self).regs().address',
        f'[C04:monotone] old(self).regs().address <= addr_max({H}) ==> final(self).regs().address <= addr_max({H})',
        WF_NEW], before=[('self.apply_line_advance(line_base', 'proof { axiom_i64_from_u8(adjusted_opcode % line_range); lemma_line_special(header.lh(), opcode as int); }'),
                 # a special opcode advances by at most 254 operations: the callee's exactness clauses apply unconditionally
                 ('self.apply_operation_advance(u64::from(operation_advance), header)?;', 'proof { lemma_line_small_advance(header.lh(), self.regs(), operation_advance as int); }')], canary=True)
    PH = 'old(program).hdr().lh()'
    EX = f'line_exec({PH}, old(self).regs(), op_view(instruction))'
    FITS = f'line_op_fits({PH}, old(self).regs(), op_view(instruction))'
    row.splice('execute', ret='res', requires=[
        f'[C04:valid-header] valid_line_hdr({PH})', f'line_regs_wf({PH}, old(self).regs())',
        f'[C04:special-range] line_op_wf({PH}, op_view(instruction))'], ensures=[
        # exact for every instruction kind; for DW_LNS_advance_pc (the only unbounded operation advance) exactness is
        # claimed for operands that fit the 64-bit registers (see `line_advance_fits`; observation F-line-2)
        f'[C04:exec] {FITS} ==> (res matches Ok(emit) ==> final(self).regs() == {EX}.regs && emit == {EX}.emit)',
        f'[C04:exec-checked] {FITS} ==> (res is Err <==> {EX}.err)',
        '[C04:monotone] final(self).regs().address >= old(self).regs().address',
        f'[C04:monotone] old(self).regs().address <= addr_max({PH}) ==> final(self).regs().address <= addr_max({PH})',
        f'line_regs_wf({PH}, final(self).regs())',
        '[C04:define-file] final(program).hdr().same_but_files(&old(program).hdr())',
        '[C04:define-file] instruction matches LineInstruction::DefineFile(e) ==> final(program).hdr().files() == old(program).hdr().files().push(e) || final(program).hdr().files() == old(program).hdr().files()',
        '[C04:define-file] !(instruction is DefineFile) ==> final(program).hdr() == old(program).hdr()',
    ], before=[('self.apply_operation_advance(u64::from(operation_advance), program.header())?;',
                'proof { lemma_line_small_advance(program.hdr().lh(), self.regs(), operation_advance as int); }')]
    )   # no canary twin: the 21-arm body makes the twin's search hit the rlimit under load; the same `requires`
    #      predicates are canary-guarded on exec_special_opcode / apply_operation_advance / next_row
    sk.add(M, row)

    # ---- FileEntry::parse (DW_LNE_define_file / version <= 4 file_names entries: path already read; three ULEB128s)
    fe = ln.item(r'^impl<R, Offset> FileEntry<R, Offset>', label='FileEntry').keep_only(['parse']).clean(offset=False)
    fe.own(['C01', 'C04'])
    fe.insert_members('''    pub closed spec fn path_v(&self) -> AttributeValue<R, Offset> { self.path_name }
    pub closed spec fn dir_v(&self) -> u64 { self.directory_index }
    pub closed spec fn time_v(&self) -> u64 { self.timestamp }
    pub closed spec fn size_v(&self) -> u64 { self.size }
    pub closed spec fn source_v(&self) -> Option<AttributeValue<R, Offset>> { self.source }''')
    fe.splice('parse', ret='res', ensures=[
        '[C04:file-entry-v4] res matches Ok(e) ==> ({ let v = old(input).rv(); let l0 = v.leb_len(0) as int; let l1 = v.leb_len(l0) as int; let l2 = v.leb_len(l0 + l1) as int; '
        'e.path_name == AttributeValue::<R, Offset>::String(path_name) && e.directory_index as nat == v.uleb(0) && e.timestamp as nat == v.uleb(l0) '
        '&& e.size as nat == v.uleb(l0 + l1) && e.source is None && (forall|k: int| 0 <= k < 16 ==> e.md5[k] == 0) && adv(v, final(input).rv(), (l0 + l1 + l2) as nat) })',
        '[C01:frame] within(old(input).rv(), final(input).rv())'])
    sk.add(M, fe)

    # ---- LineInstruction::parse
    li = ln.item(r'^impl<R, Offset> LineInstruction<R, Offset>', label='LineInstruction')
    li.custom('R-CLONE', 'header.standard_opcode_lengths().clone()', 'reader_clone(header.standard_opcode_lengths())')
    li.custom('R-CLONE', 'let mut args = input.clone();', 'let mut args = reader_clone(input);', optional=True)
    # same as R-CLOSURE: the wildcard loop variable gets a name so that the loop invariant can count iterations
    li.custom('R-CLOSURE', 'for _ in 0..num_args {', 'for _verif_i in 0..num_args {', optional=True)
    li.clean(offset=False)
    li.own(['C01', 'C04'])
    li.splice('parse', ret='res', requires=[VALID], canary=True, ensures=parse_clauses(), loops={
        0: 'invariant adv(args.rv(), input.rv(), lebs_len(args.rv(), 0, _verif_i as nat)), args.rv() == sub_view(old(input).rv(), 1, (old(input).rv().len - 1) as nat), old(input).rv().len >= 1, 12 < old(input).rv().at(0) < header.lh().opcode_base,'},
        before=[(Opt('let len = input.offset_from(&args);'), 'proof { lemma_lebs_shift(old(input).rv(), num_args as nat); }')])
    sk.add(M, li)

    # ---- LineInstructions (iterator protocol, DESIGN 5.2)
    sk.add(M, ln.item(r'^pub struct LineInstructions<R: Reader>').clean(offset=False, rejrec=['R']))
    sk.add(M, ln.item(r'^pub struct LineSequence<R: Reader>').clean(offset=False, rejrec=['R']))
    sk.add(M, INSTR_CLONE, label='instructions_clone')
    it1 = ln.item(r'^impl<R: Reader> LineInstructions<R> \{\s*fn remove_trailing', label='LineInstructions(remove_trailing)')
    it1.custom('R-CLONE', 'self.input.clone()', 'reader_clone(&self.input)')
    it1.clean(offset=False)
    it1.own(['C01', 'C04'])
    it1.insert_members('    /// ghost: the instructions still to be decoded\n    pub closed spec fn iv(&self) -> RView { self.input.rv() }')
    it1.splice('remove_trailing', ret='res',
               requires=['[C04:sequence-slice-pre] self.iv().root == other.iv().root && self.iv().start <= other.iv().start'],
               ensures=['[C04:sequence-slice][C10:view] res matches Ok(s) ==> window(self.iv(), s.iv(), 0, (other.iv().start - self.iv().start) as nat)',
                        '[C04:sequence-slice] other.iv().start <= self.iv().start + self.iv().len ==> res is Ok'], canary=True)
    sk.add(M, it1)
    it2 = ln.item(r'^impl<R: Reader> LineInstructions<R> \{\s*#\[inline\(always\)\]', label='LineInstructions').clean(offset=False)
    it2.own(['C01', 'C04'])
    it2.splice('next_instruction', ret='res', requires=[VALID], canary=True, ensures=[
        '[C01:iter-end] old(self).iv().len == 0 ==> (res matches Ok(None)) && final(self).iv() == old(self).iv()',
        '[C01:iter-err-empties] res is Err ==> final(self).iv().len == 0',
        '[C01:iter-progress] res matches Ok(Some(_)) ==> final(self).iv().len < old(self).iv().len',
        '[C01:iter-none-only-at-end] res matches Ok(None) ==> old(self).iv().len == 0',
        '[C01:frame] final(self).iv().root == old(self).iv().root && final(self).iv().be == old(self).iv().be',
        '[C01:frame] !(res is Err) ==> within(old(self).iv(), final(self).iv())',
        '[C04:special-range] res matches Ok(Some(i)) ==> line_op_wf(header.lh(), op_view(i))',
    ] + next_instruction_clauses())
    sk.add(M, it2)
    sk.add(M, 'impl<R: Reader> LineSequence<R> {\n    /// ghost: the instructions of this sequence\n    pub closed spec fn iv(&self) -> RView { self.instructions.iv() }\n}\n', label='LineSequence(ghost)')

    # ---- LineRows: the row iterator
    sk.add(M, ln.item(r'^pub struct LineRows<R, Program, Offset').clean(offset=False, rejrec=['R', 'Program', 'Offset']))
    sk.add(M, ln.item(r'^type OneShotLineRows<R, Offset').clean(offset=False))
    sk.add(M, ln.item(r'^type ResumedLineRows<').clean(offset=False))
    ip = ln.item(r'^impl<R, Offset> IncompleteLineProgram<R, Offset>', label='IncompleteLineProgram').keep_only(['header', 'rows']).clean(offset=False)
    ip.own(['C01', 'C04'])
    ip.splice('header', ret='res', ensures=['*res == self.hdr()'])
    ip.splice('rows', ret='res', requires=['[C04:valid-header] valid_line_hdr(self.hdr().lh())'], ensures=[
        '[C04:rows-start] res.wf() && res.prog().hdr() == self.hdr() && res.row_regs() == line_initial(self.hdr().lh()) && res.instrs() == self.hdr().program_view()'])
    sk.add(M, ip)
    cp = ln.item(r'^impl<R, Offset> CompleteLineProgram<R, Offset>', label='CompleteLineProgram').clean(offset=False)
    cp.own(['C01', 'C04', 'C20'])
    cp.splice('header', ret='res', ensures=['*res == self.hdr()'])
    cp.splice('resume_from', ret='res', requires=['[C04:valid-header] valid_line_hdr(self.hdr().lh())'], ensures=[
        '[C04:resume][C20:resume-fresh] res.wf() && res.prog().hdr() == self.hdr() && res.row_regs() == line_initial(self.hdr().lh()) && res.instrs() == sequence.iv()'])
    sk.add(M, cp)
    lr = ln.item(r'^impl<R, Program, Offset> LineRows<R, Program, Offset>', label='LineRows')
    lr.custom('R-CLONE', 'program.header().program_buf.clone()', 'reader_clone(&program.header().program_buf)')
    lr.custom('R-CLONE', 'sequence.instructions.clone()', 'instructions_clone(&sequence.instructions)')
    lr.clean(offset=False)
    lr.own(['C01', 'C04'])
    lr.insert_members("""
    pub closed spec fn prog(&self) -> Program { self.program }
    /// the registers of the row under construction / last row handed out
    pub closed spec fn row_regs(&self) -> LineRegs { self.row.regs() }
    /// the instructions still to be executed
    pub closed spec fn instrs(&self) -> RView { self.instructions.iv() }
    /// invariant of the iterator: valid header, register invariant, and the address never exceeds the address size
    pub closed spec fn wf(&self) -> bool {
        valid_line_hdr(self.program.hdr().lh()) && line_regs_wf(self.program.hdr().lh(), self.row.regs())
        && self.row.regs().address <= addr_max(self.program.hdr().lh())
    }
""")
    START = 'res.wf() && res.prog().hdr() == program.hdr() && res.row_regs() == line_initial(program.hdr().lh())'
    lr.splice('new', ret='res', requires=['[C04:valid-header] valid_line_hdr(program.hdr().lh())'], ensures=[
        f'[C04:rows-start] {START} && res.instrs() == program.hdr().program_view()'])
    # C20 "resumed iterators ... give exactly the results that fresh state gives": a resumed iterator starts from the
    # initial registers on exactly the sequence's instructions; nothing of the run that produced the sequence is kept
    lr.splice('resume', ret='res', requires=['[C04:valid-header] valid_line_hdr(program.hdr().lh())'], ensures=[
        f'[C04:resume][C20:resume-fresh] {START} && res.instrs() == sequence.iv()'])
    lr.splice('header', ret='res', ensures=['*res == self.prog().hdr()'])
    HL = 'old(self).prog().hdr().lh()'
    lr.splice('next_row', ret='res', requires=['[C04:rows-wf] old(self).wf()'], canary=True, ensures=[
        '[C04:rows-wf] final(self).wf()',
        f'final(self).prog().hdr().same_but_files(&old(self).prog().hdr())',
        # "for any input whatsoever row addresses ... never exceed the address size"
        f'[C04:monotone] res matches Ok(Some(p)) ==> p.1.regs().address <= addr_max({HL}) && p.1.regs() == final(self).row_regs() && !p.1.regs().tombstone',
        # "... never decrease within a sequence": the previous row did not end a sequence => the address did not go down
        f'[C04:monotone-rows] res matches Ok(Some(p)) ==> !old(self).row_regs().end_sequence ==> p.1.regs().address >= old(self).row_regs().address',
        '[C04:row-header] res matches Ok(Some(p)) ==> *p.0 == final(self).prog().hdr()',
        # iterator protocol (DESIGN 5.2)
        '[C01:iter-end] old(self).instrs().len == 0 ==> res matches Ok(None)',
        # every call that does not report the end consumes input (also when the caller ignores an error): at most
        # `len` calls return something other than Ok(None)
        '[C01:iter-progress] !(res matches Ok(None)) ==> final(self).instrs().len < old(self).instrs().len',
        '[C01:iter-none-only-at-end] res matches Ok(None) ==> final(self).instrs().len == 0',
        '[C01:frame] final(self).instrs().root == old(self).instrs().root && final(self).instrs().len <= old(self).instrs().len',
    ], after=[('self.row.reset(self.program.header());', 'let ghost mut suppressed_end = false;'),
              ('if self.row.tombstone {', 'proof { suppressed_end = suppressed_end || self.row.regs().end_sequence; }')],
       loops={0: """invariant
            self.wf(),
            // the address only goes down where a DW_LNE_end_sequence row was *suppressed* (tombstone mode)
            suppressed_end || self.row.regs().address >= (if old(self).row.regs().end_sequence { 0 } else { old(self).row.regs().address }), self.program.hdr().same_but_files(&old(self).program.hdr()),
            self.instructions.iv().root == old(self).instructions.iv().root, self.instructions.iv().len <= old(self).instructions.iv().len,
        decreases self.instructions.iv().len"""})
    sk.add(M, lr)
    return sk


def build(ctx):
    sk = Skeleton(ctx, core.rd('prelude/crate.rs'))
    core.populate(ctx, sk)
    populate(ctx, sk)
    return sk
