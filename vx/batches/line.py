"""B-line: read::line  (DESIGN.md 6 C04, C01; LineRows::resume clause of C20).

WORK IN PROGRESS header - replaced at the end.
"""
from lib import *
from batches import core

WRAP_TRUSTED = ['mul', 'add', 'div', 'rem', 'add_assign']
TRUSTED = list(core.TRUSTED) + WRAP_TRUSTED
VERUS_ARGS = ['--rlimit', '40']
RETRY_RLIMIT = 120

# ---- R-WRAP: model of core::num::Wrapping<u64> (trusted prelude text; the five operators line.rs uses)
WRAPPING = r'''
#[derive(Clone, Copy, PartialEq, Eq, Debug)]
pub struct Wrapping<T>(pub T);
/// x modulo 2^64
pub open spec fn wrap_u64(x: int) -> u64 { (x % 0x1_0000_0000_0000_0000int) as u64 }
impl vstd::std_specs::ops::AddSpecImpl<Wrapping<u64>> for Wrapping<u64> {
    open spec fn obeys_add_spec() -> bool { true }
    open spec fn add_req(self, rhs: Wrapping<u64>) -> bool { true }
    open spec fn add_spec(self, rhs: Wrapping<u64>) -> Wrapping<u64> { Wrapping(wrap_u64(self.0 as int + rhs.0 as int)) }
}
impl core::ops::Add for Wrapping<u64> { type Output = Wrapping<u64>; #[verifier::external_body] fn add(self, rhs: Wrapping<u64>) -> Wrapping<u64> { Wrapping(self.0.wrapping_add(rhs.0)) } }
impl vstd::std_specs::ops::MulSpecImpl<Wrapping<u64>> for Wrapping<u64> {
    open spec fn obeys_mul_spec() -> bool { true }
    open spec fn mul_req(self, rhs: Wrapping<u64>) -> bool { true }
    open spec fn mul_spec(self, rhs: Wrapping<u64>) -> Wrapping<u64> { Wrapping(wrap_u64(self.0 as int * rhs.0 as int)) }
}
impl core::ops::Mul for Wrapping<u64> { type Output = Wrapping<u64>; #[verifier::external_body] fn mul(self, rhs: Wrapping<u64>) -> Wrapping<u64> { Wrapping(self.0.wrapping_mul(rhs.0)) } }
// core: `Wrapping<u64> / Wrapping<u64>` is `Wrapping(a.wrapping_div(b))`, which panics for b == 0 -> precondition
impl vstd::std_specs::ops::DivSpecImpl<Wrapping<u64>> for Wrapping<u64> {
    open spec fn obeys_div_spec() -> bool { true }
    open spec fn div_req(self, rhs: Wrapping<u64>) -> bool { rhs.0 != 0 }
    open spec fn div_spec(self, rhs: Wrapping<u64>) -> Wrapping<u64> { Wrapping((self.0 as int / rhs.0 as int) as u64) }
}
impl core::ops::Div for Wrapping<u64> { type Output = Wrapping<u64>; #[verifier::external_body] fn div(self, rhs: Wrapping<u64>) -> Wrapping<u64> { Wrapping(self.0.wrapping_div(rhs.0)) } }
impl vstd::std_specs::ops::RemSpecImpl<Wrapping<u64>> for Wrapping<u64> {
    open spec fn obeys_rem_spec() -> bool { true }
    open spec fn rem_req(self, rhs: Wrapping<u64>) -> bool { rhs.0 != 0 }
    open spec fn rem_spec(self, rhs: Wrapping<u64>) -> Wrapping<u64> { Wrapping((self.0 as int % rhs.0 as int) as u64) }
}
impl core::ops::Rem for Wrapping<u64> { type Output = Wrapping<u64>; #[verifier::external_body] fn rem(self, rhs: Wrapping<u64>) -> Wrapping<u64> { Wrapping(self.0.wrapping_rem(rhs.0)) } }
impl vstd::std_specs::ops::AddAssignSpecImpl<Wrapping<u64>> for Wrapping<u64> {
    open spec fn obeys_add_assign_spec() -> bool { true }
    open spec fn add_assign_req(&self, rhs: Wrapping<u64>) -> bool { true }
    open spec fn add_assign_spec(&self, rhs: Wrapping<u64>) -> &Wrapping<u64> { &Wrapping(wrap_u64(self.0 as int + rhs.0 as int)) }
}
impl core::ops::AddAssign for Wrapping<u64> { #[verifier::external_body] fn add_assign(&mut self, rhs: Wrapping<u64>) { self.0 = self.0.wrapping_add(rhs.0) } }
'''

# ---- adapters from gimli's types to the plain-integer machine of specs/line.rs
ROW_GHOST = '''
    /// the registers as the plain-integer state of vspec_line
    pub closed spec fn regs(&self) -> LineRegs {
        LineRegs {
            address: self.address as int, op_index: self.op_index.0 as int, file: self.file as int, line: self.line.0 as int,
            column: self.column as int, is_stmt: self.is_stmt, basic_block: self.basic_block, end_sequence: self.end_sequence,
            prologue_end: self.prologue_end, epilogue_begin: self.epilogue_begin, isa: self.isa as int,
            discriminator: self.discriminator as int, tombstone: self.tombstone,
        }
    }
'''
HDR_GHOST = '''
    /// the header parameters of the line number machine
    pub closed spec fn lh(&self) -> LineHdr {
        LineHdr {
            version: self.encoding.version as int, address_size: self.encoding.address_size as int,
            min_inst_len: self.line_encoding.minimum_instruction_length as int,
            max_ops: self.line_encoding.maximum_operations_per_instruction as int,
            default_is_stmt: self.line_encoding.default_is_stmt, line_base: self.line_encoding.line_base as int,
            line_range: self.line_encoding.line_range as int, opcode_base: self.opcode_base as int,
        }
    }
    pub closed spec fn files(&self) -> Seq<FileEntry<R, Offset>> { self.file_names@ }
    /// everything but the file table (DW_LNE_define_file appends to it)
    pub closed spec fn same_but_files(&self, o: &Self) -> bool {
        self.encoding == o.encoding && self.offset == o.offset && self.unit_length == o.unit_length
        && self.header_length == o.header_length && self.line_encoding == o.line_encoding && self.opcode_base == o.opcode_base
        && self.standard_opcode_lengths == o.standard_opcode_lengths && self.directory_entry_format == o.directory_entry_format
        && self.include_directories == o.include_directories && self.file_name_entry_format == o.file_name_entry_format
        && self.program_buf == o.program_buf && self.comp_dir == o.comp_dir && self.comp_file == o.comp_file
    }
    pub proof fn lemma_same_but_files(&self, o: &Self)
        requires self.same_but_files(o)
        ensures self.lh() == o.lh()
    {}
'''
OP_VIEW = '''
/// the decoded instruction as an instruction of the plain-integer machine
pub open spec fn op_view<R: Reader<Offset = Offset>, Offset: ReaderOffset>(i: LineInstruction<R, Offset>) -> LineOp {
    match i {
        LineInstruction::Special(o) => LineOp::Special(o as int),
        LineInstruction::Copy => LineOp::Copy,
        LineInstruction::AdvancePc(u) => LineOp::AdvancePc(u as int),
        LineInstruction::AdvanceLine(s) => LineOp::AdvanceLine(s as int),
        LineInstruction::SetFile(u) => LineOp::SetFile(u as int),
        LineInstruction::SetColumn(u) => LineOp::SetColumn(u as int),
        LineInstruction::NegateStatement => LineOp::NegateStmt,
        LineInstruction::SetBasicBlock => LineOp::SetBasicBlock,
        LineInstruction::ConstAddPc => LineOp::ConstAddPc,
        LineInstruction::FixedAddPc(x) => LineOp::FixedAdvancePc(x as int),
        LineInstruction::SetPrologueEnd => LineOp::SetPrologueEnd,
        LineInstruction::SetEpilogueBegin => LineOp::SetEpilogueBegin,
        LineInstruction::SetIsa(u) => LineOp::SetIsa(u as int),
        LineInstruction::UnknownStandard0(_) => LineOp::Unknown,
        LineInstruction::UnknownStandard1(_, _) => LineOp::Unknown,
        LineInstruction::UnknownStandardN(_, _) => LineOp::Unknown,
        LineInstruction::EndSequence => LineOp::EndSequence,
        LineInstruction::SetAddress(a) => LineOp::SetAddress(a as int),
        LineInstruction::DefineFile(_) => LineOp::DefineFile,
        LineInstruction::SetDiscriminator(u) => LineOp::SetDiscriminator(u as int),
        LineInstruction::UnknownExtended(_, _) => LineOp::Unknown,
    }
}
'''

H = 'header.lh()'
VALID = f'[C04:valid-header] valid_line_hdr({H})'
WF_OLD = f'line_regs_wf({H}, old(self).regs())'
WF_NEW = f'line_regs_wf({H}, final(self).regs())'


def populate(ctx, sk):
    ln = Source('read/line.rs', ctx)
    un = Source('read/unit.rs', ctx)
    op = Source('read/op.rs', ctx)
    sk.mods['read']['uses'] += '\npub use self::op::*;\npub use self::unit::*;\npub use self::line::*;'

    sk.module('wrapping')
    sk.add('wrapping', WRAPPING, label='Wrapping')
    sk.module('vspec_line')
    sk.add('vspec_line', core.rd('specs/line.rs'), label='vspec_line')

    sk.module('read::op', 'use crate::read::Reader;')
    sk.add('read::op', op.item(r'^pub struct Expression<R: Reader>').clean(offset=False, rejrec=['R']))
    sk.module('read::unit', '''use crate::common::*;
use crate::constants;
use crate::read::{Expression, Reader, ReaderOffset, UnitOffset};''')
    sk.add('read::unit', un.item(r'^pub enum AttributeValue<R, Offset').clean(rejrec=['R', 'Offset']))
    avi = un.item(r'^impl<R, Offset> AttributeValue<R, Offset>', label='AttributeValue').keep_only(['udata_value']).clean()
    avi.own(['C01', 'C04'])
    avi.splice('udata_value', ret='res', ensures=[
        'res == (match *self { AttributeValue::Data1(d) => Some(d as u64), AttributeValue::Data2(d) => Some(d as u64), '
        'AttributeValue::Data4(d) => Some(d as u64), AttributeValue::Data8(d) => Some(d), AttributeValue::Udata(d) => Some(d), '
        'AttributeValue::Sdata(d) => if d < 0 { None } else { Some(d as u64) }, _ => None })'])
    sk.add('read::unit', avi)

    sk.module('read::line', '''use crate::wrapping::Wrapping;
use crate::common::{DebugLineOffset, DebugLineStrOffset, DebugStrOffset, DebugStrOffsetsIndex, Encoding, Format, LineEncoding};
use crate::constants;
use crate::read::{AttributeValue, Error, Reader, ReaderAddress, ReaderOffset, Result};
use crate::read::reader_clone;
use crate::vspec::*;
use crate::vspec_line::*;''')
    M = 'read::line'

    # ---- types
    sk.add(M, ln.item(r'^pub struct FileEntryFormat').clean())
    sk.add(M, ln.item(r'^pub struct FileEntry<R, Offset').clean(rejrec=['R', 'Offset']))
    sk.add(M, ln.item(r'^pub struct LineProgramHeader<R, Offset').clean(rejrec=['R', 'Offset']))
    sk.add(M, ln.item(r'^pub enum LineInstruction<R, Offset').clean(rejrec=['R', 'Offset']))
    sk.add(M, ln.item(r'^pub struct LineRow \{').clean())
    sk.add(M, ln.item(r'^pub struct IncompleteLineProgram<R, Offset').clean(rejrec=['R', 'Offset']))
    sk.add(M, ln.item(r'^pub struct CompleteLineProgram<R, Offset').clean(rejrec=['R', 'Offset']))
    sk.add(M, OP_VIEW, label='op_view')

    # ---- trait LineProgram + impls
    tr = ln.item(r'^pub trait LineProgram<R, Offset', label='LineProgram').clean()
    tr.insert_members('    /// ghost: the header this program holds\n    spec fn hdr(&self) -> LineProgramHeader<R, Offset>;')
    tr.splice('header', ret='res', ensures=['*res == self.hdr()'])
    tr.splice('add_file', ensures=[
        '[C04:define-file] final(self).hdr().same_but_files(&old(self).hdr())',
        '[C04:define-file] final(self).hdr().files() == old(self).hdr().files().push(file) || final(self).hdr().files() == old(self).hdr().files()'])
    tr.own(['C01', 'C04'])
    sk.add(M, tr)
    ti = ln.item(r'^impl<R, Offset> LineProgram<R, Offset> for IncompleteLineProgram<R, Offset>', label='LineProgram for IncompleteLineProgram').clean()
    ti.insert_members('    closed spec fn hdr(&self) -> LineProgramHeader<R, Offset> { self.header }')
    ti.own(['C01', 'C04'])
    sk.add(M, ti)
    tc = ln.item(r"^impl<'program, R, Offset> LineProgram<R, Offset> for &'program CompleteLineProgram<R, Offset>", label='LineProgram for &CompleteLineProgram')
    # same as R-CLOSURE: a wildcard *fn parameter* gets a name (Verus: "function parameters must be a plain identifier")
    tc.custom('R-CLOSURE', 'fn add_file(&mut self, _: FileEntry<R, Offset>)', 'fn add_file(&mut self, _verif_unused: FileEntry<R, Offset>)')
    tc.clean()
    tc.insert_members('    closed spec fn hdr(&self) -> LineProgramHeader<R, Offset> { self.header }')
    tc.own(['C01', 'C04'])
    sk.add(M, tc)

    # ---- header accessors used by the machine
    hi = ln.item(r'^impl<R, Offset> LineProgramHeader<R, Offset>', label='LineProgramHeader')
    hi.keep_only(['version', 'address_size', 'opcode_base', 'standard_opcode_lengths'])
    hi.clean()
    hi.insert_members(HDR_GHOST)
    hi.splice('version', ret='res', ensures=['res as int == self.lh().version'])
    hi.splice('address_size', ret='res', ensures=['res as int == self.lh().address_size'])
    hi.splice('opcode_base', ret='res', ensures=['res as int == self.lh().opcode_base'])
    hi.own(['C01', 'C04'])
    sk.add(M, hi)

    # ---- LineRow: the register machine
    row = ln.item(r'^impl LineRow \{', label='LineRow')
    # NonZeroU64 (and a datatype constructor used as a function value) are outside the Verus subset
    row.drop(['line', 'column', 'file'])
    row.clean()
    row.insert_members(ROW_GHOST)
    row.own(['C01', 'C04'])
    row.splice('new', ret='res', ensures=[f'[C04:initial] res.regs() == line_initial({H})'])
    for acc, f in [('address', 'address'), ('op_index', 'op_index'), ('file_index', 'file'), ('isa', 'isa'), ('discriminator', 'discriminator')]:
        row.splice(acc, ret='res', ensures=[f'[C04:accessor] res as int == self.regs().{f}'])
    for acc in ['is_stmt', 'basic_block', 'end_sequence', 'prologue_end', 'epilogue_begin']:
        row.splice(acc, ret='res', ensures=[f'[C04:accessor] res == self.regs().{acc}'])
    row.splice('reset', ensures=[f'[C04:after-row] final(self).regs() == line_after_row({H}, old(self).regs())'])
    row.splice('apply_line_advance', ensures=[
        '[C04:line-advance] final(self).regs() == (LineRegs { line: line_add(old(self).regs().line, line_increment as int), ..old(self).regs() })'])
    row.splice('adjust_opcode', ret='res', requires=[f'[C04:special-range] opcode as int >= {H}.opcode_base'],
               ensures=[f'res as int == opcode as int - {H}.opcode_base'], canary=True)
    ADV = f'line_advance({H}, old(self).regs(), operation_advance as int)'
    row.splice('apply_operation_advance', ret='res', requires=[VALID, WF_OLD], ensures=[
        f'[C04:advance] res is Ok ==> final(self).regs() == {ADV}.regs',
        f'[C04:advance-checked] res is Err <==> {ADV}.err',
        '[C04:monotone] final(self).regs().address >= old(self).regs().address',
        f'[C04:monotone] old(self).regs().address <= addr_max({H}) ==> final(self).regs().address <= addr_max({H})',
        'res is Err ==> final(self).regs().address == old(self).regs().address',
        WF_NEW], canary=True)
    SPEC = f'line_exec({H}, old(self).regs(), LineOp::Special(opcode as int))'
    row.splice('exec_special_opcode', ret='res', requires=[VALID, WF_OLD, f'[C04:special-range] opcode as int >= {H}.opcode_base'], ensures=[
        f'[C04:special] res is Ok ==> final(self).regs() == {SPEC}.regs',
        f'[C04:special-checked] res is Err <==> {SPEC}.err',
        '[C04:monotone] final(self).regs().address >= old(self).regs().address',
        f'[C04:monotone] old(self).regs().address <= addr_max({H}) ==> final(self).regs().address <= addr_max({H})',
        WF_NEW], canary=True)
    PH = 'old(program).hdr().lh()'
    EX = f'line_exec({PH}, old(self).regs(), op_view(instruction))'
    row.splice('execute', ret='res', requires=[
        f'[C04:valid-header] valid_line_hdr({PH})', f'line_regs_wf({PH}, old(self).regs())',
        f'[C04:special-range] line_op_wf({PH}, op_view(instruction))'], ensures=[
        f'[C04:exec] res matches Ok(emit) ==> final(self).regs() == {EX}.regs && emit == {EX}.emit',
        f'[C04:exec-checked] res is Err <==> {EX}.err',
        '[C04:monotone] final(self).regs().address >= old(self).regs().address',
        f'[C04:monotone] old(self).regs().address <= addr_max({PH}) ==> final(self).regs().address <= addr_max({PH})',
        f'line_regs_wf({PH}, final(self).regs())',
        '[C04:define-file] final(program).hdr().same_but_files(&old(program).hdr())',
        '[C04:define-file] instruction matches LineInstruction::DefineFile(e) ==> final(program).hdr().files() == old(program).hdr().files().push(e) || final(program).hdr().files() == old(program).hdr().files()',
        '[C04:define-file] !(instruction is DefineFile) ==> final(program).hdr() == old(program).hdr()',
    ], canary=True)
    sk.add(M, row)
    return sk


def build(ctx):
    sk = Skeleton(ctx, core.rd('prelude/crate.rs'))
    core.populate(ctx, sk)
    populate(ctx, sk)
    return sk
