"""B-wline-prog: write::line, the INSTRUCTION-EMISSION part of `LineProgram::write` (DESIGN.md 6 C13 "header and table emission
per version ... LineProgram::write"; the part wline_insn left NOT DECIDED: "the loop over `instructions`").
Build = core.populate; wcore.populate; wline_insn.populate (UNCHANGED: LineInstruction::write, LineString::write, FileId,
DebugLine, Leb128::unsigned with all their clauses); populate.   Source: /repo/src/write/line.rs.

WHY.  wline_insn proves `LineInstruction::write(w, encoding)` per instruction: e.g. [C13:insn-set_file] the DW_LNS_set_file operand
is `FileId::raw(encoding.version)` (1-based for versions 2-4, 0-based for 5).  Nothing decided WHICH encoding `LineProgram::write`
hands to it.  The header / directory / file tables are written for the line program's OWN encoding (`self.encoding`), the
parameter `encoding` is the OWNING UNIT's (documented: "not used for writing the line number program, but is used to check for
compatibility").  A version 2-4 program written under a version 5 unit with the unit's encoding gets a 1-based file table and
0-based set_file operands: every row reads back one file too early (seeded defect C13-b).

RULE R-TAIL (statement-range cut; logged through `Item.custom`, twice, with the complete old and new text, so the provenance
check `text without insertions == text after the logged rewrites` still holds).  `LineProgram::write` as a whole is outside
Verus (capturing closure `write_file`, IndexMap / IndexSet iteration, `find_map`).  Its body is, at brace depth 0,
      <header part> A1 <emission part> A2 <closing part>
  A1 = the statement `w.write_udata_at(header_length_offset, header_length, self.format().word_size())?;` (the header_length patch:
       the header is complete), A2 = the statement `let length = (w.len() - length_base) as u64;` (the unit_length computation).
  Each anchor must occur exactly once, at depth 0, A1 before A2; anything else is Lost = exit 2.
  The rule turns the method into a helper method OF THE SAME impl:
      fn write_verif_tail<GENERICS VERBATIM>(PARAMETER LIST VERBATIM) -> Result<()> { <emission part VERBATIM> Ok(()) }
  MOVED verbatim: the emission part (today: the `for instruction in &self.instructions { .. }` loop), the generics and the whole
       parameter list of `write` (`&self, w: &mut DebugLine<W>, encoding: Encoding, line_strings, strings`: the loop sees exactly
       the `self` / `w` / `encoding` the real function has, so "the wrong one of the two encodings" stays expressible).
  DROPPED: the header part up to and including A1 (assert!(!is_none), compatibility check, unit_length placeholder, version ..
       file tables, header_length patch) and the closing part from A2 (unit_length patch, `Ok(offset)`); visibility `pub`.
  GENERATED (not source text): the name `write_verif_tail`, the return type `Result<()>`, the final `Ok(())`.
  GUARDS (syntactic, Lost = exit 2): the emission part uses no local bound by a `let` / closure parameter of the header part and
       none of those shadows `w` / `encoding` (the rule carries parameters only); it does not name the fields R-FIELDS projects away
       (`directories`, `files`); NEITHER dropped part mentions `instructions` / `LineInstruction` (every use of the instruction list
       by `write` is inside the verified range); the emission part contains exactly one `for <x> in ` loop (the ghost iterator
       binding `it: ` and the invariant are insertions on it; hints sit at the loop-body brace positions, not on statement text,
       so a changed call inside the loop is a FAILED CLAUSE, not a lost anchor).
  What the rule does NOT give: that the emission part runs after the header on every path (it does: `?`-exits only), the value
  of `w` at its start (universally quantified here: any section), the header / closing parts themselves.

X-HEADER-ENC (build time, PURELY SYNTACTIC anchor check, Lost = exit 2; not a proof):  in the dropped header part
  * the first field after `write_initial_length` is `w.write_u16(self.version())?;` and `fn version(&self)` is `self.encoding.version`,
    `fn format` / `fn address_size` are `self.encoding.format` / `.address_size` (the version / format / address size in the header
    are the line program's own);
  * every `X.write(w, <form>, <encoding>, line_strings, strings)` call (LineString::write for directories / files / source) passes
    `self.encoding`;
  * the parameter `encoding` (the unit's) occurs ONLY in the compatibility check
    `if encoding.version < 5 && self.version() >= 5 || encoding.address_size != self.address_size() { return Err(..) }`.

FUNCTIONS UNDER CONTRACT (real text, owner C13)
  LineProgram::write[emission part] as `write_verif_tail`                                                     TAGS
     on Ok the fields appended to .debug_line are EXACTLY the concatenation, in order, of the fields of every instruction of
     `self.instructions` under the line program's OWN encoding: wrote(old w, final w, insns_ops(self.encoding, instructions)),
     insns_ops = fold of wline_insn's per-instruction table (`insn_ops`, GENERATED from wline_insn.INSNS with the same field
     expressions its [C13:insn-*] clauses are generated from); never the unit's `encoding`            [C13:program-insns-own-encoding]
     section length grows by exactly the sum of wline_insn's `insn_size` under self.encoding          [C13:program-insns-len]
     on every path (Ok, Err): nothing logged is lost, no shrink, byte order kept (grew)               [C13:program-insns-frame]
     requires: wline_insn's A-MEM precondition lifted to the list                                     [C13:insn-file-pre]
  proof fns (generated / written here, proved): lemma_insn_wrote (what LineInstruction::write ensures for i == wrote(insn_ops(i))),
     lemma_insns_step (prefix k+1 = prefix k + instruction k).
  + everything wline_insn has under contract (re-verified unchanged in this build).
ASSUMED (TRUSTED): nothing beyond wline_insn's (`offset` of the two string-table models, wcore's / core's).
NOT DECIDED
  * the header part and the closing part of `LineProgram::write` (header fields, directory / file tables, FileInfo, the two length
    patches, the Err(IncompatibleLineProgramEncoding) check, `assert!(!self.is_none())`): only X-HEADER-ENC (syntactic) looks at them;
  * that `self.instructions` is what generate_row / end_sequence / begin_sequence produced (wline, K-LINEGEN) - the clause is about
    whatever the list holds; that the unit's DW_AT_stmt_list points here (wunit_layout);
  * `Ok` is never guaranteed.  On Err the emitted prefix is not characterised beyond `grew`.
SELF-ATTACK (scratch copies of /repo/src under /tmp, GIMLI_REPO; 2026-09-24; "own" = program-insns-own-encoding, "len" = program-insns-len)
  seeded C13-b `instruction.write(w, encoding)?`                        -> exit 1: own, len (invariants), insn-file-pre (at the call)
  `instruction.write(w, Encoding { version: 5, ..self.encoding })?`     -> own, len
  call written twice in the loop body                                   -> own, len
  result discarded (`let _unused = instruction.write(..);`, no `?`)     -> own, len
  `w.write_u8(0)?;` after the loop (inside the emission part)           -> own, len (postconditions)
  `for instruction in self.instructions.iter().rev()`                   -> own, len, insn-file-pre (Verus 0.2026.09 ACCEPTS rev/skip
  `for instruction in self.instructions.iter().skip(1)`                 -> own, len, insn-file-pre   as for-loop iterators)
  `if let SetDiscriminator(_) = *instruction { continue; }`             -> exit 2 (Verus: "for-loops do not yet support continue")
  header: `w.write_u16(encoding.version)?`                              -> exit 2 (X-HEADER-ENC, Lost)
  `let length = ..` renamed                                             -> exit 2 (R-TAIL anchor A2, Lost)
"""
import re
from lib import *
from batches import core, wcore, wline_insn
from batches.wline_insn import fields_of, active_rows, enum_variants

TRUSTED = list(wline_insn.TRUSTED)
OWN = ['C13']
VERUS_ARGS = ['--rlimit', '40']
RETRY_RLIMIT = 120

HELPER = 'write_verif_tail'
W0 = 'old(w).0.wv()'
W1 = 'final(w).0.wv()'
WC = 'w.0.wv()'

# ----------------------------------------------------------------------------- R-TAIL
A_START = r'w\s*\.write_udata_at\(\s*header_length_offset,\s*header_length,\s*self\.format\(\)\.word_size\(\),?\s*\)\?;'
A_END = r'let\s+length\s*=\s*\(w\.len\(\)\s*-\s*length_base\)\s*as\s+u64;'
COMPAT = (r'if\s+encoding\.version\s*<\s*5\s*&&\s*self\.version\(\)\s*>=\s*5\s*\|\|\s*encoding\.address_size\s*!=\s*'
          r'self\.address_size\(\)\s*\{\s*return\s+Err\(Error::IncompatibleLineProgramEncoding\);\s*\}')


def _depth(text, pos):
    """bracket depth of `pos` inside `text` (strings neutralised)"""
    s = strip_strings(text[:pos])
    return sum(s.count(c) for c in '([{') - sum(s.count(c) for c in ')]}')


def _unique(pat, text, what):
    ms = list(re.finditer(pat, text))
    if len(ms) != 1:
        raise Lost(f'R-TAIL: anchor {what} found {len(ms)} times in LineProgram::write (expected exactly once)')
    if _depth(text, ms[0].start()) != 0:
        raise Lost(f'R-TAIL: anchor {what} is not a top-level statement of LineProgram::write')
    return ms[0]


def split_write(text, where):
    """(start of method incl. attrs/visibility, index of body `{`, header part, emission part, closing part, index of body `}`)"""
    s, e = method_span(text, 'write')
    k = re.search(r'\bfn\s+write\b', text[s:e]).start() + s
    b = body_open(text, k)
    if text[b] != '{':
        raise Lost(f'{where}: LineProgram::write has no body')
    close = match_close(text, b)
    body = text[b + 1:close]
    m1 = _unique(A_START, body, 'A1 (header_length patch)')
    m2 = _unique(A_END, body, 'A2 (`let length = ..`)')
    if not m1.end() <= m2.start():
        raise Lost('R-TAIL: A1 (header_length patch) does not precede A2 (unit_length computation)')
    return s, k, b, body[:m1.end()], body[m1.end():m2.start()], body[m2.start():], close


def bound_names(part):
    """names bound by `let` patterns / closure parameters / `for` patterns of a statement list (over-approximation, syntactic)"""
    names = set()
    for m in re.finditer(r'\blet\s+(?:mut\s+)?([^=;]+?)\s*(?::[^=;]+)?=', part):
        names |= set(re.findall(r'\b[a-z_]\w*\b', m.group(1)))
    for m in re.finditer(r'\|([^|]*)\|', part):
        names |= set(re.findall(r'\b([a-z_]\w*)\s*:', m.group(1)))
    for m in re.finditer(r'\bfor\s+(.+?)\s+in\b', part):
        names |= set(re.findall(r'\b[a-z_]\w*\b', m.group(1)))
    return names - {'mut', 'ref'}


def check_header_encoding(ctx, impl_text, head):
    """X-HEADER-ENC: purely syntactic anchors on the DROPPED header part (see the module docstring)"""
    def bad(msg):
        raise Lost('X-HEADER-ENC (syntactic check of the header part of LineProgram::write): ' + msg)
    for name, field in [('version', 'version'), ('format', 'format'), ('address_size', 'address_size')]:
        s, e = method_span(impl_text, name)
        k = re.search(r'\bfn\s+%s\b' % name, impl_text[s:e]).start() + s
        body = norm_ws(impl_text[body_open(impl_text, k):e])
        if body != '{self.encoding.%s}' % field:
            bad(f'`fn {name}` is `{body}`, expected `{{self.encoding.{field}}}`')
    # the version field: first thing written after the initial length
    m = re.search(r'w\s*\.write_initial_length\(self\.format\(\)\)\?;', head)
    if not m:
        bad('`w.write_initial_length(self.format())?;` not found')
    writes = re.findall(r'\bw\s*\.(write\w*)\(\s*([^;]*?)\s*\)\?;', head[m.end():])
    if not writes or writes[0] != ('write_u16', 'self.version()'):
        bad(f'the first field after the initial length is `{writes[:1]}`, expected `w.write_u16(self.version())?;`')
    if len([w for w in writes if w[0] == 'write_u16']) != 1:
        bad('more than one write_u16 in the header part')
    # LineString::write calls: X.write(w, form, ENCODING, line_strings, strings)
    calls = re.findall(r'\b\w+\s*\.write\(\s*w,\s*([^,()]+(?:\([^()]*\))?[^,()]*),\s*([^,]+?),\s*line_strings,\s*strings,?\s*\)', head)
    if len(calls) < 4:
        bad(f'only {len(calls)} LineString::write calls recognised in the header part (expected >= 4)')
    for form, enc in calls:
        if norm_ws(enc) != 'self.encoding':
            bad(f'a LineString::write call passes `{enc.strip()}`, expected `self.encoding`')
    # the unit's `encoding` occurs only in the compatibility check
    if len(re.findall(COMPAT, head)) != 1:
        bad('the compatibility check `if encoding.version < 5 && self.version() >= 5 || encoding.address_size != self.address_size()` changed')
    rest = re.sub(COMPAT, '', head)
    m = re.search(r'(?<![.\w])encoding\b', rest)
    if m:
        bad(f'the unit\'s `encoding` is used outside the compatibility check: `..{rest[max(0, m.start() - 40):m.end() + 20]}..`')
    ctx.count('X-HEADER-ENC', 3 + len(calls) + 2)


def cut_tail(ctx, im, full_impl_text):
    """R-TAIL on the impl item `im` (after keep_only(['write']), before clean)."""
    where = im._where('write')
    t = im.text
    s, k, b, head, rng, tail, close = split_write(t, where)
    if not rng.strip():
        raise Lost('R-TAIL: the emission part of LineProgram::write is empty')
    for part, what in ((head, 'header part'), (tail, 'closing part')):
        m = re.search(r'\binstructions\b|\bLineInstruction\b|\binstruction\b', part)
        if m:
            raise Lost(f'R-TAIL: the dropped {what} of LineProgram::write mentions `{m.group(0)}`: the instruction list is used outside the verified range')
    bn = bound_names(head)
    for p in ('w', 'encoding', 'self'):
        if p in bn:
            raise Lost(f'R-TAIL: the header part rebinds `{p}`; the rule carries parameters only')
    for n in sorted(bn):
        if re.search(r'(?<![.\w])%s\b' % re.escape(n), rng):
            raise Lost(f'R-TAIL: the emission part uses the local `{n}` of the header part; the rule carries parameters only')
    if re.search(r'self\s*\.\s*(directories|files)\b', rng):
        raise Lost('R-TAIL: the emission part names a field projected away by R-FIELDS')
    loops = list(re.finditer(r'\bfor\s+(\w+)\s+in\s+', rng))
    if len(loops) != 1 or re.search(r'\b(while|loop)\b', rng):
        raise Lost(f'R-TAIL: the emission part must contain exactly one `for <x> in ` loop, found {len(loops)} (or a while/loop)')
    check_header_encoding(ctx, full_impl_text, head)
    header = t[k:b]
    i = header.index('(')
    j = match_close(header, i)
    generics, params = header[len('fn write'):i], header[i:j + 1]
    if not re.match(r'fn\s+write\b', header) or not re.search(r'->\s*Result<DebugLineOffset>\s*$', header[j + 1:]):
        raise Lost(f'R-TAIL: unexpected signature of LineProgram::write: `{one_line(header)}`')
    old1 = t[s:b + 1] + head
    old2 = tail + '}'
    if t[close - len(tail):close + 1] != old2 or t.count(old1) != 1 or t.count(old2) != 1:
        raise Lost('R-TAIL: cut points are not unique')
    im.custom('R-TAIL', old1, f'\n    fn {HELPER}{generics}{params} -> Result<()> {{')
    im.custom('R-TAIL', old2, 'Ok(())\n    }')
    return loops[0].group(0), loops[0].group(1)


# ----------------------------------------------------------------------------- ghost text (generated from wline_insn.INSNS)
def gen_specs(rows):
    def seq(fs):
        return 'seq![' + ', '.join(fs) + ']'

    def pushes(fs):
        return 'a.ops' + ''.join(f'.push({f})' for f in fs)

    def em(fs):
        n = len(fs)
        return f'emitted{n if n > 1 else ""}(a, b, {", ".join(fs)})'
    ops_arms = '\n'.join(f'        {r["pat"]} => {seq(fields_of(r)[0])},' for r in rows)
    em_conj = '\n'.join(f'    &&& (i matches {r["pat"]} ==> {em(fields_of(r)[0])})' for r in rows)
    pf_arms = '\n'.join(f'            {r["pat"]} => {{ assert({pushes(fields_of(r)[0])} =~= a.ops + {seq(fields_of(r)[0])}); }}' for r in rows)
    return ('''
/// GENERATED from wline_insn.INSNS (same field expressions as the [C13:insn-*] clauses of LineInstruction::write):
/// the fields of the DWARF 5 6.2.5 encoding of `i`, in order
spec fn insn_ops(i: LineInstruction, encoding: Encoding) -> Seq<WOp> {
    match i {
''' + ops_arms + '''
    }
}
/// GENERATED: what `LineInstruction::write(i, w, encoding)` guarantees on Ok (the conjunction of its [C13:insn-*] field clauses)
spec fn insn_emitted(i: LineInstruction, encoding: Encoding, a: WView, b: WView) -> bool {
''' + em_conj + '''
}
/// helper precondition A-MEM of LineInstruction::write ([C13:insn-file-pre]) for one instruction
spec fn insn_pre(i: LineInstruction, encoding: Encoding) -> bool {
    i matches LineInstruction::SetFile(f) ==> f.reg(encoding.version) <= u64::MAX
}
/// the fields of a whole instruction list: the concatenation, in order, of the fields of every instruction under `encoding`
spec fn insns_ops(encoding: Encoding, s: Seq<LineInstruction>) -> Seq<WOp>
    decreases s.len()
{
    if s.len() == 0 { Seq::<WOp>::empty() } else { insns_ops(encoding, s.drop_last()) + insn_ops(s.last(), encoding) }
}
/// ... and their size in bytes
spec fn insns_size(encoding: Encoding, s: Seq<LineInstruction>) -> nat
    decreases s.len()
{
    if s.len() == 0 { 0 } else { insns_size(encoding, s.drop_last()) + insn_size(s.last(), encoding) }
}
/// GENERATED: the per-variant field clauses say `wrote(.., insn_ops(i))`
proof fn lemma_insn_wrote(i: LineInstruction, encoding: Encoding, a: WView, b: WView)
    ensures insn_emitted(i, encoding, a, b) ==> wrote(a, b, insn_ops(i, encoding))
{
    if insn_emitted(i, encoding, a, b) {
        match i {
''' + pf_arms + '''
        }
    }
}
proof fn lemma_insns_step(encoding: Encoding, s: Seq<LineInstruction>, k: int)
    requires 0 <= k < s.len()
    ensures
        insns_ops(encoding, s.take(k + 1)) == insns_ops(encoding, s.take(k)) + insn_ops(s[k], encoding),
        insns_size(encoding, s.take(k + 1)) == insns_size(encoding, s.take(k)) + insn_size(s[k], encoding),
{
    assert(s.take(k + 1).drop_last() =~= s.take(k));
    assert(s.take(k + 1).last() == s[k]);
}
''')


def _find(sk, path, label):
    for c in sk.mods[path]['chunks']:
        if isinstance(c[0], Item) and c[0].label == label:
            return c[0]
    raise Lost(f'wline_insn: item {path}::{label} not in the skeleton')


def insert_at(it, idx, ghost):
    """ghost insertion at a computed position of the item text (loop-body braces: no statement text to anchor on)"""
    check_ghost(ghost)
    it.text = it.text[:idx] + ins(ghost) + it.text[idx:]


def populate(ctx, sk):
    wl = Source('write/line.rs', ctx)
    M = 'write::line'
    rows = active_rows(enum_variants(_find(sk, M, 'LineInstruction').text))

    # ---- struct LineProgram (R-FIELDS as in wline: the two tables the emission part does not touch) and LineRow
    sk.add(M, wl.item(r'^pub struct LineRow \{', label='LineRow').clean())
    lp = wl.item(r'^pub struct LineProgram \{', label='LineProgram')
    lp.custom('R-FIELDS', 'directories: FnvIndexSet<LineString>,', '')
    lp.custom('R-FIELDS', 'files: FnvIndexMap<(LineString, DirectoryId), FileInfo>,', '')
    lp.clean()
    sk.add(M, lp)
    sk.add(M, gen_specs(rows), label='insns_ops(generated)', owners=OWN)

    # ---- LineProgram::write, emission part (R-TAIL)
    im = wl.item(r'^impl LineProgram \{', label='LineProgram(impl:write-tail)')
    full = im.text
    im.keep_only(['write'])
    loop_hdr, x = cut_tail(ctx, im, full)
    im.clean()
    im.own(OWN)
    im.insert_after(loop_hdr, 'it: ')
    # hints at the loop-body braces (positions computed on the text: the statements inside the loop are NOT anchors)
    t = im.text
    p = t.index(loop_hdr)
    ob = t.index('{', p)
    if _depth(t[p:ob], ob - p) != 0:
        raise Lost('R-TAIL: loop header of the emission part not understood')
    cb = match_close(t, ob)
    S = 'self.instructions@'
    ENC = 'self.encoding'          # the line program's OWN encoding: the only one the specification mentions
    insert_at(im, cb,
              f'proof {{ let k = it.index@; lemma_insn_wrote(*{x}, {ENC}, wprev, {WC}); lemma_insns_step({ENC}, {S}, k); '
              f'if insn_emitted(*{x}, {ENC}, wprev, {WC}) {{ lemma_wrote_wrote({W0}, wprev, {WC}, insns_ops({ENC}, {S}.take(k)), insn_ops(*{x}, {ENC})); }} }}\n        ')
    # (no assertion about `*{x}` here: a failed hint would be ASSUMED afterwards and mask the clause; that the loop variable is
    # element it.index@ of the list is what Verus' for-loop encoding of `&Vec` gives - for any other iterator the invariant fails)
    insert_at(im, ob + 1, f'\n            let ghost wprev = {WC}; proof {{ assert(insn_pre({S}[it.index@], {ENC})); }} // [C13:insn-file-pre]')
    im.splice(HELPER, ret='res', canary=True,
              requires=[f'[C13:insn-file-pre] forall|k: int| 0 <= k < {S}.len() ==> #[trigger] insn_pre({S}[k], {ENC})'],
              ensures=[
                  # DWARF 5 6.2.4 / 6.2.5: the opcodes follow the header they are decoded under - version (file numbering,
                  # 6.2.4 #11 vs 6.2.4.1) and address size are the ones in THAT header, i.e. the line program's own encoding
                  f'[C13:program-insns-own-encoding] res is Ok ==> wrote({W0}, {W1}, insns_ops({ENC}, {S}))',
                  f'[C13:program-insns-len] res is Ok ==> {W1}.len == {W0}.len + insns_size({ENC}, {S})',
                  f'[C13:program-insns-frame] grew({W0}, {W1})'],
              before=[(loop_hdr, f'proof {{ lemma_wrote_nil({WC}); assert({S}.take(0).len() == 0); }}'),
                      ('Ok(())', f'proof {{ assert({S}.take({S}.len() as int) =~= {S}); }}')],
              loops={0: 'invariant\n'
                        f'    wrote({W0}, {WC}, insns_ops({ENC}, {S}.take(it.index@))), // [C13:program-insns-own-encoding]\n'
                        f'    {WC}.len == {W0}.len + insns_size({ENC}, {S}.take(it.index@)), // [C13:program-insns-len]\n'
                        f'    grew({W0}, {WC}), // [C13:program-insns-frame]\n'
                        f'    forall|k: int| 0 <= k < {S}.len() ==> #[trigger] insn_pre({S}[k], {ENC}), // [C13:insn-file-pre]\n'
                        f'    0 <= it.index@ <= {S}.len(),'})
    sk.add(M, im)
    return sk


def build(ctx):
    sk = Skeleton(ctx, core.rd('prelude/crate.rs'))
    core.populate(ctx, sk)
    wcore.populate(ctx, sk)
    wline_insn.populate(ctx, sk)
    populate(ctx, sk)
    return sk
