"""B-wop: written expressions (DESIGN.md 6 C15; C18 for the relocatable operands).

Built on `wcore` (trait `Writer` with the field-log contracts).  Source: write/op.rs, `UnitOffsets` of write/unit.rs,
`write_expression` of write/loc.rs.

The per-opcode contracts are GENERATED from the table WOPS below: write::Operation variant -> the opcode the writer
must choose (incl. the shorter encodings lit0..31 / reg0..31 / breg0..31 / dup / over, DW_OP_* vs DW_OP_GNU_* by version)
-> operand fields.  WOPS is written from DWARF 5 section 2.5 / 2.6 / 7.7.1 and is CROSS-CHECKED AT BUILD TIME against the
READ side's table `op.OPS` (vx/batches/op.py, from which the postconditions of `read::Operation::parse` are generated):
for every case (43) the opcode must be a row of OPS, the operand KINDS (u1/s2/u4/uleb/sleb/addr/word/v2addr/blk) must be
the reader's for that opcode, the decoded operation kind must be the one named here, every operand must be bound by the
reader's constraint to the decoded field of the same name (`offset == o1`, `size_in_bits == 8 * o0`, ..), a block's
length operand must be the length of the block that follows, and the short forms must be `base + n, n < 32` with the
base the reader subtracts.  A disagreement raises `TableMismatch` (a `Lost`: exit 2).  So "decodes to the same operation"
holds by construction of the two tables, and each side is verified against its own table.  `op_size`, `op_resolved`,
`op_sized`, `op_refs_valid` (spec fns) are generated from the same table.

FUNCTIONS UNDER CONTRACT (all owned by C15)
  write::op::Operation::size       verified (real body; the closure `base_size` gets a contract by insertion only)
  write::op::Operation::write      verified (real body; closure `entry_offset` likewise); R-SPLIT over 10 verbatim copies
  write::op::Expression::size      verified (sum of operation sizes; mutual recursion with EntryValue: `decreases`)
  write::op::Expression::write     R-EXTBODY: contract ASSUMED (iterator adapters zip/copied, Option::as_deref_mut)
  write::op::Expression::{op, op_* (32 builders), op_skip, op_bra, next_index, set_target}   verified
  write::unit::UnitOffsets::{debug_info_offset, unit_offset}                                   verified
  write::loc::write_expression     verified (length prefix: 2-byte for DWARF <= 4, ULEB128 for DWARF 5, == bytes emitted)
TAGS  C15: size-value, size-total, size-sum, ref-error-kind (size fns) | size-eq-len, fields-<opcode> (one per encoding, 52),
  branch-target-in-bounds (requires), branch-range-err, const-type-len-err, call-offset-err, ref-unresolved-err,
  ref-needs-fixups-err, fixups-only-for-refs, fixups-frame, frame (Operation::write) | ref-unit-relative (unit_offset) |
  builder-<name>, builder-keeps-targets, builder-next-index, set-target | length-prefix, length-prefix-too-large.
  C18: expr-address-reloc (DW_OP_addr operand is a `WOp::Address`), expr-ref-reloc (`.debug_info` references are a
  relocatable `WOp::Reference` or a zero placeholder + exactly one `DebugInfoFixup{offset of the field, unit, entry, size}`).

ASSUMED
  TRUSTED `write` = Expression::write (see above).  Its contract: Ok ==> every reference resolved, emitted length ==
     spec_size(), the field log and the fix-up log only grew; requires branch targets in bounds (`targets_ok`).
     (DESIGN 6 C15: Kani group K-EXPRW is planned to check it on the real text with <= 3 operations.)  Verifying it
     here was tried: the `zip` loop and `as_deref_mut` can be replaced by an indexed loop and a `match` reborrow, but the
     loop invariant needs to relate the reborrowed `Option<&mut Vec>` to the parameter's final value, which this Verus
     version could not express (prophecy of a reference moved into a `mut` local that a loop havocs).
  A-MEM  helper preconditions `section length + encoded size <= isize::MAX` and `offsets[i] <= isize::MAX`: byte counts of
     data that is held in memory (Vec/Box contents), Rust's allocation limit.  Without them the `usize as i64` casts and
     the `+` of sizes are flagged (they cannot overflow on any real machine).
  A-IDS  helper precondition `refs_valid`: entry ids in the expression belong to the unit whose `UnitOffsets` is passed
     (`UnitOffsets::debug_info_offset` debug_asserts the id space and indexes the table without a check), and
     `UnitOffsets::wf` (recorded entry offsets are 0 or >= the unit's offset; `unit_offset` subtracts unchecked).
  The macro `define_id!` is expanded mechanically (R-MACRO); `BaseId` is the debug-assertions variant (R-CFG true).
  R-VIS: `enum Operation` is made pub(crate) (contract visibility rule of Verus; no body changes); R-ORPAT: the
  `Skip(ref mut t) | Branch(ref mut t)` arm of `set_target` is duplicated per alternative; R-DERIVE: derive(Debug) only.
NOT DECIDED
  * that `Expression::write` hands each operation the running sum of sizes as `offsets` (assumed contract, see above);
    hence "every branch lands on the intended operation" is decided per operation (displacement == offsets[target] -
    end of the branch operation, as a 2-byte signed field, out of i16 range => Err) but not for the expression as a whole.
  * `Operation::Simple(opcode)` writes the single opcode byte it is given: `Expression::op` documents that it must only
    be used for operand-less opcodes; this is not checked by gimli and not by this batch.  `Operation::Raw` bytes are
    written as they are.  The Wasm forms are checked against the reader's inline rule (0xed, sub-opcode 0/1/2, uleb).
  * evaluation equivalence of built vs emitted programs (follows from decode equality, C07).
  * the other length-prefix sites (`AttributeValue::Exprloc` arm of write/unit.rs, the `*Expression` arms of write/cfi.rs)
    are arms of large functions of C11/C14 and are not in this batch; they have the same shape as `write_expression`.
  * `Ok` is never guaranteed (the Writer may fail for its own reasons): error clauses are "this condition ==> Err".
FINDING CANDIDATE F-wop-1 (documented misuse, therefore a precondition and not a failing clause): `Expression::op_skip/op_bra`
  push `Skip(!0)`/`Branch(!0)`; when `set_target` is never called, `Operation::write` indexes `offsets[usize::MAX]` and
  PANICS instead of returning an error (obligation [C15:branch-target-in-bounds]; without that precondition Verus reports
  the index obligation of `offsets[target]`; native reproducer native/src/bin/f_wop_1.rs, through FrameTable and Dwarf::write).
  In release builds `set_target` accepts any `new_target` (debug_assert only) with the same delayed panic.
OBSERVATION  `Operation::size` succeeds for `Call`/`ParameterRef` whose entry offset is unknown (fixed 4-byte operand)
  while `write` fails with UnsupportedExpressionForwardReference: hence two predicates, `op_sized` and `op_resolved`.
"""
import os
from lib import *
from lib import _split_top
from batches import core, wcore, op as rop
from batches.wcore import wsource

TRUSTED = list(wcore.TRUSTED) + ['write']
OWN = ['C15']
VERUS_ARGS = ['--rlimit', '40']
RETRY_RLIMIT = 120
# Operation::write: ~70 postconditions x ~100 `?` exits in one VC need rlimit ~340M / 80 s; R-SPLIT over 10 verbatim copies: < 8 s each
SPLIT_WRITE = int(os.environ.get('WOP_SPLIT', '10'))


class TableMismatch(Lost):
    """the writer's table and the reader's table (op.OPS) disagree -> exit 2 at build time"""


def debug_only(it):
    """R-DERIVE: the mutually recursive Expression/Operation pair keeps only derive(Debug) (Verus rejects the derived
    Clone/PartialEq of mutually recursive types as a cyclic definition; no extracted function clones or compares them)"""
    return it.custom_re('R-DERIVE', r'#\[derive\([^\]]*\)\]', '#[derive(Debug)]')


def define_id(ctx, wmod, name):
    """R-MACRO: mechanical expansion of `define_id!(name, docs)` (write/mod.rs): `$name` substituted, doc attribute dropped"""
    m = wmod.item(r'^macro_rules! define_id \{', label='define_id!')
    t = m.text
    a = t.index('=> {') + 4
    b = t.rindex('};')
    body = t[a:b].replace('#[doc=$docs]', '')
    if '$name' not in body or 'base_id: BaseId' not in body:
        raise Lost('define_id! changed shape')
    body = re.sub(r'\$name\b', name, body)
    if '$' in body:
        raise Lost('define_id!: unexpected macro variable')
    ctx.items.remove(m)
    it = Item(ctx, 'write/mod.rs', f'define_id!({name})', body, label=name)
    ctx.custom.append(('R-MACRO', f'write/mod.rs:define_id!({name})', 'macro invocation', 'expansion'))
    ctx.count('R-MACRO')
    return it


# ----------------------------------------------------------------------------- the writer's table
# operand kinds (the reader's vocabulary, op.py): u1 s2 u4 uleb sleb addr word v2addr blk<k>; writer-side refinements:
#   entry    = uleb operand holding the unit offset of an entry (needs a resolved reference)      -> reader kind uleb
#   entry4   = u4 operand holding the unit offset of an entry                                     -> reader kind u4
#   uleb0    = the single byte 0x00 written with write_u8: it IS the ULEB128 encoding of 0        -> reader kind uleb
#   word/v2addr operands hold a `.debug_info` reference (DebugInfoRef): relocatable Reference or zero placeholder + fix-up
# values are spec expressions over the bindings of `pat`, `enc` (Encoding), `uo` (unit offsets), `offs`, `pos`.
V5 = 'enc.version >= 5'
V4 = 'enc.version < 5'


def case(cond, name, operands, opcode=None):
    return {'cond': cond, 'name': name, 'operands': operands, 'opcode': opcode}


def by_version(dw, gnu, operands, extra=None):
    pre = (extra + ' && ') if extra else ''
    return [case(pre + V5, dw, operands), case(pre + V4, gnu, operands)]


WOPS = [
    # (tag, pattern, decoded read::Operation kind, cases)
    ('Address', 'Operation::Address(address)', 'Address', [case('true', 'DW_OP_addr', [('addr', 'address')])]),
    ('UnsignedConstant', 'Operation::UnsignedConstant(value)', 'UnsignedConstant', [
        case('value < 32', 'lit', [], opcode='(constants::DW_OP_lit0.0 + value) as nat'),
        case('value >= 32', 'DW_OP_constu', [('uleb', 'value')])]),
    ('SignedConstant', 'Operation::SignedConstant(value)', 'SignedConstant', [case('true', 'DW_OP_consts', [('sleb', 'value')])]),
    ('ConstantType', 'Operation::ConstantType(base, value)', 'TypedLiteral',
     by_version('DW_OP_const_type', 'DW_OP_GNU_const_type', [('entry', 'base'), ('u1', 'value@.len()'), ('blk1', 'value@')])),
    ('FrameOffset', 'Operation::FrameOffset(offset)', 'FrameOffset', [case('true', 'DW_OP_fbreg', [('sleb', 'offset')])]),
    ('RegisterOffset', 'Operation::RegisterOffset(register, offset)', 'RegisterOffset', [
        case('register.0 < 32', 'breg', [('sleb', 'offset')], opcode='(constants::DW_OP_breg0.0 + register.0) as nat'),
        case('register.0 >= 32', 'DW_OP_bregx', [('uleb', 'register.0 as u64'), ('sleb', 'offset')])]),
    ('RegisterType', 'Operation::RegisterType(register, base)', 'RegisterOffset',
     by_version('DW_OP_regval_type', 'DW_OP_GNU_regval_type', [('uleb', 'register.0 as u64'), ('entry', 'base')])),
    ('Pick', 'Operation::Pick(index)', 'Pick', [
        case('index == 0', 'DW_OP_dup', []), case('index == 1', 'DW_OP_over', []),
        case('index > 1', 'DW_OP_pick', [('u1', 'index')])]),
    ('Deref', 'Operation::Deref { space }', 'Deref', [case('!space', 'DW_OP_deref', []), case('space', 'DW_OP_xderef', [])]),
    ('DerefSize', 'Operation::DerefSize { space, size }', 'Deref', [
        case('!space', 'DW_OP_deref_size', [('u1', 'size')]), case('space', 'DW_OP_xderef_size', [('u1', 'size')])]),
    ('DerefType', 'Operation::DerefType { space, size, base }', 'Deref',
     by_version('DW_OP_deref_type', 'DW_OP_GNU_deref_type', [('u1', 'size'), ('entry', 'base')], extra='!space')
     + [case('space', 'DW_OP_xderef_type', [('u1', 'size'), ('entry', 'base')])]),
    ('PlusConstant', 'Operation::PlusConstant(value)', 'PlusConstant', [case('true', 'DW_OP_plus_uconst', [('uleb', 'value')])]),
    ('Skip', 'Operation::Skip(target)', 'Skip', [case('true', 'DW_OP_skip', [('s2', 'branch_disp(offs, target, pos)')])]),
    ('Branch', 'Operation::Branch(target)', 'Bra', [case('true', 'DW_OP_bra', [('s2', 'branch_disp(offs, target, pos)')])]),
    ('Call', 'Operation::Call(entry)', 'Call', [case('true', 'DW_OP_call4', [('entry4', 'entry')])]),
    ('CallRef', 'Operation::CallRef(entry)', 'Call', [case('true', 'DW_OP_call_ref', [('word', 'entry')])]),
    ('VariableValue', 'Operation::VariableValue(entry)', 'VariableValue', [case('true', 'DW_OP_GNU_variable_value', [('word', 'entry')])]),
    ('Convert', 'Operation::Convert(Some(base))', 'Convert', by_version('DW_OP_convert', 'DW_OP_GNU_convert', [('entry', 'base')])),
    ('ConvertGeneric', 'Operation::Convert(None)', 'Convert', by_version('DW_OP_convert', 'DW_OP_GNU_convert', [('uleb0', '0')])),
    ('Reinterpret', 'Operation::Reinterpret(Some(base))', 'Reinterpret', by_version('DW_OP_reinterpret', 'DW_OP_GNU_reinterpret', [('entry', 'base')])),
    ('ReinterpretGeneric', 'Operation::Reinterpret(None)', 'Reinterpret', by_version('DW_OP_reinterpret', 'DW_OP_GNU_reinterpret', [('uleb0', '0')])),
    ('Register', 'Operation::Register(register)', 'Register', [
        case('register.0 < 32', 'reg', [], opcode='(constants::DW_OP_reg0.0 + register.0) as nat'),
        case('register.0 >= 32', 'DW_OP_regx', [('uleb', 'register.0 as u64')])]),
    ('ImplicitValue', 'Operation::ImplicitValue(data)', 'ImplicitValue', [
        case('true', 'DW_OP_implicit_value', [('uleb', 'data@.len() as u64'), ('blk0', 'data@')])]),
    ('ImplicitPointer', 'Operation::ImplicitPointer { entry, byte_offset }', 'ImplicitPointer',
     by_version('DW_OP_implicit_pointer', 'DW_OP_GNU_implicit_pointer', [('v2addr', 'entry'), ('sleb', 'byte_offset')])),
    ('Piece', 'Operation::Piece { size_in_bytes }', 'Piece', [case('true', 'DW_OP_piece', [('uleb', 'size_in_bytes')])]),
    ('BitPiece', 'Operation::BitPiece { size_in_bits, bit_offset }', 'Piece', [
        case('true', 'DW_OP_bit_piece', [('uleb', 'size_in_bits'), ('uleb', 'bit_offset')])]),
    ('ParameterRef', 'Operation::ParameterRef(entry)', 'ParameterRef', [case('true', 'DW_OP_GNU_parameter_ref', [('entry4', 'entry')])]),
]
# special rows (no operand table on the read side): Raw, Simple, EntryValue (nested expression), the three Wasm forms
# (reader: DW_OP_WASM_location, sub-opcode byte 0/1/2, uleb index - op.py parse_clauses)
WASM = [('WasmLocal', 0), ('WasmGlobal', 1), ('WasmStack', 2)]
READER_KIND = {'entry': 'uleb', 'entry4': 'u4', 'uleb0': 'uleb'}
# writer operand value -> the names the reader's constraint may use for the decoded field that receives this operand
W2R = {'address': ['address'], 'value': ['value'], 'value@': ['value'], 'offset': ['offset'], 'register.0 as u64': ['register.0'],
       'index': ['index'], 'size': ['size'], 'branch_disp(offs, target, pos)': ['target'], 'byte_offset': ['byte_offset'],
       'data@': ['data'], 'size_in_bits': ['size_in_bits'], 'bit_offset': ['bit_offset'], 'size_in_bytes': ['size_in_bits'],
       'base': ['base_type.0.as_nat()', 'v.as_nat()'], 'entry': ['v.as_nat()']}
RANGE_BASE = {'lit': ('DW_OP_lit0', 0x30), 'reg': ('DW_OP_reg0', 0x50), 'breg': ('DW_OP_breg0', 0x70)}


def cross_check(ctx):
    """the writer's table against the reader's (op.OPS); raises TableMismatch"""
    rows = {}
    for names, kinds, pat, cons in rop.OPS:
        for n in names:
            rows[n] = (kinds, pat, cons)
    dw = dict(re.findall(r'pub const (\w+): DwOp = DwOp\((0x[0-9a-fA-F]+|\d+)\);', dw_consts(Ctx('x'), 'DwOp')))
    n_checked = 0
    for tag, pat, reads, cases in WOPS:
        for c in cases:
            name = c['name']
            if name not in rows:
                raise TableMismatch(f'{tag}: opcode {name} is not in the reader\'s table')
            kinds, rpat, cons = rows[name]
            mine = [READER_KIND.get(k, k) for k, _ in c['operands']]
            if mine != list(kinds):
                raise TableMismatch(f'{tag}/{name}: operand kinds {mine} != reader\'s {kinds}')
            if not re.match(r'Operation::%s\b' % reads, rpat):
                raise TableMismatch(f'{tag}/{name}: reader decodes `{rpat}`, writer table says {reads}')
            for i, (k, v) in enumerate(c['operands']):
                if k.startswith('blk'):
                    j = int(k[3:])
                    lk, lv = c['operands'][j]
                    if norm_ws(lv) not in (norm_ws(v + '.len()'), norm_ws(v + '.len() as u64')):
                        raise TableMismatch(f'{tag}/{name}: operand {j} (`{lv}`) is not the length of block `{v}`')
            lens = set(int(k[3:]) for k, _ in c['operands'] if k.startswith('blk'))
            for i, (k, v) in enumerate(c['operands']):
                if i in lens or k == 'uleb0':
                    continue      # a block's length operand / the generic type (offset 0): no field of its own
                forms = []
                for r in W2R.get(v, []):
                    if v == 'size_in_bytes':
                        forms += [f'{r} == 8 * o{i}']      # DW_OP_piece counts bytes, the decoded operation bits
                    else:
                        forms += [f'{r} == o{i}', f'{r} == Some(o{i} as u64)', f'window(b0, {r}.rv(), p{i} as nat,']
                if not any(f in cons for f in forms):
                    raise TableMismatch(f'{tag}/{name}: operand {i} (`{v}`) is not bound to the same field by the reader: `{cons}`')
            if name in RANGE_BASE:
                base, val = RANGE_BASE[name]
                if int(dw[base], 0) != val or f'constants::{base}.0' not in c['opcode'] or not re.search(r'< 32\b', c['cond']):
                    raise TableMismatch(f'{tag}/{name}: short form must be {base} + n, n < 32')
                if f'- {hex(val)}' not in cons:
                    raise TableMismatch(f'{tag}/{name}: reader constraint `{cons}` does not subtract {hex(val)}')
            elif name not in dw:
                raise TableMismatch(f'{tag}/{name}: no such constant')
            n_checked += 1
    # the generic-type forms: base type offset 0 (DWARF 5 2.5.1.6 "offset 0 = the generic type")
    ctx.count('X-TABLE', n_checked)
    return n_checked


def opcode_expr(c):
    return c['opcode'] or f'constants::{c["name"]}.0 as nat'


def operand_field(kind, v):
    """(field expr, size expr, resolved-condition or None)"""
    if kind == 'u1':
        return f'wu(({v}) as nat, 1)', '1', None
    if kind == 'uleb0':
        return 'wu(0, 1)', '1', None
    if kind == 's2':
        return f'ws({v}, 2)', '2', None
    if kind == 'uleb':
        return f'WOp::Uleb({v})', f'uleb_size(({v}) as nat)', None
    if kind == 'sleb':
        return f'WOp::Sleb({v})', f'sleb_size(({v}) as int)', None
    if kind == 'addr':
        return f'WOp::Address {{ address: {v}, size: enc.address_size }}', 'enc.address_size as nat', None
    if kind == 'word':
        return f'ref_field({v}, refsz(enc))', 'refsz(enc) as nat', None
    if kind == 'v2addr':
        return f'ref_field({v}, refsz_v2(enc))', 'refsz_v2(enc) as nat', None
    if kind.startswith('blk'):
        return f'WOp::Bytes({v})', f'({v}).len()', None
    if kind == 'entry':
        return f'WOp::Uleb(eoff(uo, {v})->Ok_0)', f'esz(uo, {v})', f'eresolved(uo, {v})'
    if kind == 'entry4':
        return f'wu(eoff(uo, {v})->Ok_0 as nat, 4)', '4', f'eresolved(uo, {v})'
    raise TableMismatch('operand kind ' + kind)


def gen_op_size():
    """spec fn op_size: 1 opcode byte + the operand sizes of the chosen encoding (total: unresolved references count 1)"""
    arms = ['        Operation::Raw(bytecode) => bytecode@.len(),', '        Operation::Simple(_) => 1,']
    for tag, pat, reads, cases in WOPS:
        body = ''
        for c in cases:
            sz = ' + '.join(['1nat'] + [operand_field(k, v)[1] for k, v in c['operands']])
            body += f'if {c["cond"]} {{ {sz} }} else '
        arms.append(f'        {pat} => {body}{{ 0 }},')
    arms.append('        Operation::EntryValue(expression) => { let l = expr_size_upto(expression, expression.operations@.len(), enc, uo); 1 + uleb_size(l) + l },')
    for v, _ in WASM:
        arms.append(f'        Operation::{v}(index) => 2 + uleb_size(index as nat),')
    return ('''
/// GENERATED from WOPS (vx/batches/wop.py): the number of bytes the DWARF encoding chosen for `op` occupies
pub(crate) closed spec fn op_size(op: Operation, enc: Encoding, uo: Option<&UnitOffsets>) -> nat
    decreases op, 0nat
{
    match op {
''' + '\n'.join(arms) + '''
    }
}
''')


def gen_ref_preds():
    """op_refs_valid (A-IDS), op_resolved (write needs every entry offset), op_sized (size needs the ULEB ones)"""
    defs = [('op_refs_valid', 'eref_ok', ('entry', 'entry4'), 'every entry id mentioned belongs to the unit being written (helper precondition A-IDS)'),
            ('op_resolved', 'eresolved', ('entry', 'entry4'), 'every entry reference can be resolved NOW (its unit offset is known): otherwise write must fail'),
            ('op_sized', 'eresolved', ('entry',), 'the entry references whose value determines the size (ULEB operands) are resolved: otherwise size must fail')]
    out = ''
    for fn, pred, kinds, doc in defs:
        arms = []
        for tag, pat, reads, cases in WOPS:
            per_case = [[v for k, v in c['operands'] if k in kinds] for c in cases]
            if any(pc != per_case[0] for pc in per_case):
                raise TableMismatch(f'{tag}: entry operands differ between encodings')
            if per_case[0]:
                arms.append(f'        {pat} => ' + ' && '.join(f'{pred}(uo, {v})' for v in per_case[0]) + ',')
        arms.append(f'        Operation::EntryValue(e) => forall|i: int| 0 <= i < e.operations@.len() ==> {fn}(#[trigger] e.operations@[i], uo),')
        arms.append('        _ => true,')
        out += (f'/// GENERATED from WOPS: {doc}\npub(crate) closed spec fn {fn}(op: Operation, uo: Option<&UnitOffsets>) -> bool\n'
                '    decreases op, 0nat\n{\n    match op {\n' + '\n'.join(arms) + '\n    }\n}\n')
    return out


W0 = 'old(w).wv()'
W1 = 'final(w).wv()'
LET = f'({{ let enc = encoding; let uo = unit_offsets; let offs = offsets@; let pos = {W0}.len; '


def field_clauses():
    out = []
    out.append(f'[C15:fields-raw] res is Ok ==> (*self matches Operation::Raw(bytecode) ==> emitted({W0}, {W1}, WOp::Bytes(bytecode@)))')
    out.append(f'[C15:fields-simple] res is Ok ==> (*self matches Operation::Simple(opcode) ==> emitted({W0}, {W1}, wu(opcode.0 as nat, 1)))')
    for tag, pat, reads, cases in WOPS:
        for c in cases:
            fs = [f'wu({opcode_expr(c)}, 1)']
            conds = []
            extra = ''
            for k, v in c['operands']:
                f, _, r = operand_field(k, v)
                fs.append(f)
                if r:
                    conds.append(r)
                if k in ('word', 'v2addr'):
                    sz = 'refsz(enc)' if k == 'word' else 'refsz_v2(enc)'
                    extra = (f' && ({v} is Entry ==> refs is Some) && (refs matches Some(r) ==> final(r)@ == ref_fixups(r@, {v}, pos + 1, {sz}))')
            n = len(fs)
            em = f'emitted{n if n > 1 else ""}({W0}, {W1}, {", ".join(fs)})'
            tags = f'[C15:fields-{c["name"].replace("DW_OP_", "")}]'
            if any(k == 'addr' for k, _ in c['operands']):
                tags += '[C18:expr-address-reloc]'
            if any(k in ('word', 'v2addr') for k, _ in c['operands']):
                tags += '[C18:expr-ref-reloc]'
            body = ' && '.join(conds + [em]) + extra
            out.append(f'{tags} res is Ok ==> {LET}(*self matches {pat} ==> (({c["cond"]}) ==> ({body}))) }})')
    for v, k in WASM:
        out.append(f'[C15:fields-WASM_location-{k}] res is Ok ==> (*self matches Operation::{v}(index) ==> '
                   f'emitted2({W0}, {W1}, WOp::Bytes(seq![constants::DW_OP_WASM_location.0, {k}u8]), WOp::Uleb(index as u64)))')
    # nested expression: opcode by version, ULEB length == the nested expression's predicted size, then exactly that many bytes
    for cond, name in [(V5, 'DW_OP_entry_value'), (V4, 'DW_OP_GNU_entry_value')]:
        out.append(f'[C15:fields-{name.replace("DW_OP_", "")}] res is Ok ==> {LET}(*self matches Operation::EntryValue(expression) ==> (({cond}) ==> '
                   f'({{ let l = expression.spec_size(enc, uo); prefix2({W0}, {W1}, wu(constants::{name}.0 as nat, 1), WOp::Uleb(l as u64)) '
                   f'&& {W1}.len == pos + 1 + uleb_size(l) + l }}))) }})')
    return out


BUILDERS = [
    # (builder, documented opcode(s), pushed operation, WOPS tag)
    ('op_addr', ['DW_OP_addr'], 'Operation::Address(address)', 'Address'),
    ('op_constu', ['DW_OP_constu'], 'Operation::UnsignedConstant(value)', 'UnsignedConstant'),
    ('op_consts', ['DW_OP_consts'], 'Operation::SignedConstant(value)', 'SignedConstant'),
    ('op_const_type', ['DW_OP_const_type', 'DW_OP_GNU_const_type'], 'Operation::ConstantType(base, value)', 'ConstantType'),
    ('op_fbreg', ['DW_OP_fbreg'], 'Operation::FrameOffset(offset)', 'FrameOffset'),
    ('op_breg', ['DW_OP_bregx'], 'Operation::RegisterOffset(register, offset)', 'RegisterOffset'),
    ('op_regval_type', ['DW_OP_regval_type', 'DW_OP_GNU_regval_type'], 'Operation::RegisterType(register, base)', 'RegisterType'),
    ('op_pick', ['DW_OP_pick'], 'Operation::Pick(index)', 'Pick'),
    ('op_deref', ['DW_OP_deref'], 'Operation::Deref { space: false }', 'Deref'),
    ('op_xderef', ['DW_OP_xderef'], 'Operation::Deref { space: true }', 'Deref'),
    ('op_deref_size', ['DW_OP_deref_size'], 'Operation::DerefSize { size, space: false }', 'DerefSize'),
    ('op_xderef_size', ['DW_OP_xderef_size'], 'Operation::DerefSize { size, space: true }', 'DerefSize'),
    ('op_deref_type', ['DW_OP_deref_type', 'DW_OP_GNU_deref_type'], 'Operation::DerefType { size, base, space: false }', 'DerefType'),
    ('op_xderef_type', ['DW_OP_xderef_type'], 'Operation::DerefType { size, base, space: true }', 'DerefType'),
    ('op_plus_uconst', ['DW_OP_plus_uconst'], 'Operation::PlusConstant(value)', 'PlusConstant'),
    ('op_call', ['DW_OP_call4'], 'Operation::Call(entry)', 'Call'),
    ('op_call_ref', ['DW_OP_call_ref'], 'Operation::CallRef(entry)', 'CallRef'),
    ('op_variable_value', ['DW_OP_GNU_variable_value'], 'Operation::VariableValue(entry)', 'VariableValue'),
    ('op_convert', ['DW_OP_convert', 'DW_OP_GNU_convert'], 'Operation::Convert(base)', 'Convert'),
    ('op_reinterpret', ['DW_OP_reinterpret', 'DW_OP_GNU_reinterpret'], 'Operation::Reinterpret(base)', 'Reinterpret'),
    ('op_entry_value', None, 'Operation::EntryValue(expression)', None),
    ('op_reg', ['DW_OP_regx'], 'Operation::Register(register)', 'Register'),
    ('op_implicit_value', ['DW_OP_implicit_value'], 'Operation::ImplicitValue(data)', 'ImplicitValue'),
    ('op_implicit_pointer', ['DW_OP_implicit_pointer', 'DW_OP_GNU_implicit_pointer'], 'Operation::ImplicitPointer { entry, byte_offset }', 'ImplicitPointer'),
    ('op_piece', ['DW_OP_piece'], 'Operation::Piece { size_in_bytes }', 'Piece'),
    ('op_bit_piece', ['DW_OP_bit_piece'], 'Operation::BitPiece { size_in_bits, bit_offset }', 'BitPiece'),
    ('op_gnu_parameter_ref', ['DW_OP_GNU_parameter_ref'], 'Operation::ParameterRef(entry)', 'ParameterRef'),
    ('op_wasm_local', None, 'Operation::WasmLocal(index)', None),
    ('op_wasm_global', None, 'Operation::WasmGlobal(index)', None),
    ('op_wasm_stack', None, 'Operation::WasmStack(index)', None),
    ('op', None, 'Operation::Simple(opcode)', None),
]


def check_builders():
    """the opcode a builder is documented to add must be one of the encodings WOPS gives the operation it pushes"""
    names = {tag: set(c['name'] for c in cases) for tag, pat, reads, cases in WOPS}
    for b, docs, pushed, tag in BUILDERS:
        if tag is None:
            continue
        for d in docs:
            if d not in names[tag]:
                raise TableMismatch(f'{b}: documented opcode {d} is not an encoding of {tag}')
        if not pushed.startswith('Operation::' + ('Deref' if tag.startswith('Deref') else tag.replace('Generic', ''))):
            raise TableMismatch(f'{b}: pushes {pushed}, table row {tag}')


UO_GHOST = '''
    /// the id belongs to this unit: same id space, index inside the table (ghost accessors for the private fields)
    pub closed spec fn has(&self, entry: UnitEntryId) -> bool {
        entry.base_id == self.base_id && entry.index < self.entries@.len()
    }
    /// every recorded entry offset lies at or after the unit's own offset (0 = not yet known)
    pub closed spec fn wf(&self) -> bool {
        forall|i: int| 0 <= i < self.entries@.len() ==> (#[trigger] self.entries@[i]).0 == 0 || self.entries@[i].0 >= self.unit.0
    }
    /// unit-relative offset of an entry whose section offset is already known
    pub closed spec fn off(&self, entry: UnitEntryId) -> Option<u64> {
        let o = self.entries@[entry.index as int].0;
        if o == 0 { None } else { Some((o - self.unit.0) as u64) }
    }
'''

# helper preconditions (from the call sites; A-IDS, A-MEM in the header)
REQ_REFS = 'op_refs_valid(*self, unit_offsets)'


def closure_contract(it, name, ret, ens, nth):
    """give the closure `let <name> = |entry| match unit_offsets { .. };` a contract, by INSERTION only:
    `|entry: UnitEntryId| -> (r: T) requires .. ensures .. { match .. }`"""
    it.insert_after(f'let {name} = |entry| ', f'-> (r: {ret}) requires eref_ok(unit_offsets, entry) ensures r == {ens} {{ ')
    it.insert_after(f'let {name} = |entry', ': UnitEntryId')
    it.insert_after('None => Err(Error::UnsupportedCfiExpressionReference),\n        }', ' }', nth=nth)


def populate(ctx, sk):
    cross_check(ctx)
    check_builders()
    wmod = wsource('write/mod.rs', ctx)
    wu = wsource('write/unit.rs', ctx)
    wo = Source('write/op.rs', ctx)

    sk.mods['write']['uses'] += '\npub use self::unit::*;\npub use self::op::*;'
    sk.add('write', wmod.item(r'^struct BaseId\(usize\);', label='BaseId').clean())
    wcore.ensure_structural(sk, 'write', 'BaseId')

    # ---- write::unit: ids, UnitOffsets, DebugInfoRef, DebugInfoFixup
    sk.module('write::unit', '''use crate::common::DebugInfoOffset;
use crate::write::BaseId;
use crate::wspec::*;''')
    sk.add('write::unit', define_id(ctx, wmod, 'UnitId').clean())
    sk.add('write::unit', define_id(ctx, wmod, 'UnitEntryId').clean())
    sk.add('write::unit', wu.item(r'^pub\(crate\) struct UnitOffsets \{', label='UnitOffsets').clean())
    uo = wu.item(r'^impl UnitOffsets \{', label='UnitOffsets(impl)').clean()
    uo.own(OWN)
    uo.insert_after(' as u64', ' }')       # closes the closure body `|offset| (..) as u64` (first, before any other insertion)
    uo.insert_members(UO_GHOST)
    uo.splice('debug_info_offset', ret='res', requires=['self.has(entry)'], ensures=[
        'res == (if self.entries@[entry.index as int].0 == 0 { None } else { Some(self.entries@[entry.index as int]) })'])
    # DWARF 5 2.5.1.x: entry operands are offsets from the first byte of the unit header
    uo.insert_after('.map(|offset| ', '-> (r: u64) requires offset.0 >= self.unit.0 ensures r == (offset.0 - self.unit.0) as u64 { ')
    uo.insert_after('.map(|offset', ': DebugInfoOffset')
    uo.splice('unit_offset', ret='res', requires=['self.wf()', 'self.has(entry)'],
              ensures=['[C15:ref-unit-relative] res == self.off(entry)'], canary=True)
    sk.add('write::unit', uo)
    sk.add('write::unit', wu.item(r'^pub enum DebugInfoRef \{', label='DebugInfoRef').clean())
    sk.add('write::unit', wu.item(r'^pub\(crate\) struct DebugInfoFixup \{', label='DebugInfoFixup').clean())

    # ---- write::op
    sk.module('write::op', '''use crate::common::{Encoding, Register};
use crate::constants::{self, DwOp};
use crate::leb128::write::{sleb128_size, uleb128_size};
use crate::write::{
    Address, DebugInfoFixup, DebugInfoRef, Error, Result, UnitEntryId, UnitOffsets, Writer,
};
use crate::vspec::*;
use crate::wspec::*;''')
    sk.add('write::op', debug_only(wo.item(r'^pub struct Expression \{', label='Expression')).clean())
    # R-VIS: `enum Operation` is private to write::op; Verus requires every constructor named in the contract of a
    # pub(crate) fn (Operation::write) to be visible crate-wide.  Visibility only: no effect on any function body.
    sk.add('write::op', debug_only(wo.item(r'^enum Operation \{', label='Operation')).custom('R-VIS', 'enum Operation {', 'pub(crate) enum Operation {').clean())
    sk.add('write::op', core.rd('specs/wop.rs'), label='wop-spec')
    sk.add('write::op', gen_op_size() + gen_ref_preds(), label='wop-spec(generated)')

    ex = wo.item(r'^impl Expression \{', label='Expression')
    ex.drop(['raw', 'as_raw', 'new'])    # Vec<u8> raw bytecode constructors / Default (not carriers)
    ex.extbody(['write'])
    # R-ORPAT: Verus rejects an or-pattern with `ref mut` bindings; the arm is duplicated per alternative (same body)
    ex.custom('R-ORPAT', 'Operation::Skip(ref mut target) | Operation::Branch(ref mut target) => {',
              'Operation::Skip(ref mut target) => {\n                *target = new_target;\n            }\n            Operation::Branch(ref mut target) => {')
    ex.clean()
    ex.own(OWN)
    E_ARGS = 'encoding, unit_offsets'
    ex.insert_after('for operation in ', 'it: ')
    ex.splice('size', ret='res', nth=0,
              requires=['self.refs_valid(unit_offsets)', f'self.spec_size({E_ARGS}) <= isize::MAX'],
              ensures=[f'[C15:size-sum] res matches Ok(n) ==> n as nat == self.spec_size({E_ARGS})',
                       '[C15:size-total] res is Ok <==> self.sized(unit_offsets)',
                       '[C15:ref-error-kind] res matches Err(e) ==> e == ref_error(unit_offsets)'],
              loops={0: f'invariant size as nat == expr_size_upto(*self, it.index@ as nat, {E_ARGS}), '
                        f'self.refs_valid(unit_offsets), self.spec_size({E_ARGS}) <= isize::MAX, '
                        'forall|j: int| 0 <= j < it.index@ ==> op_sized(#[trigger] self.operations@[j], unit_offsets), '
                        '0 <= it.index@ <= self.operations@.len()'},
              before=[('size += operation.size(encoding, unit_offsets)?;',
                       f'proof {{ lemma_upto_step(*self, it.index@ as nat, {E_ARGS}); }}')],
              decreases='self, 1nat', canary=True)
    ex.splice('write', ret='res',
              requires=['self.refs_valid(unit_offsets)', 'self.targets_ok()',
                        f'old(w).wv().len + self.spec_size({E_ARGS}) <= isize::MAX'],
              ensures=[f'[C15:size-eq-len] res is Ok ==> {W1}.len == {W0}.len + self.spec_size({E_ARGS})',
                       '[C15:ref-unresolved-err] res is Ok ==> self.resolved(unit_offsets)',
                       f'[C15:frame] grew({W0}, {W1})',
                       '[C15:fixups-frame] refs matches Some(r) ==> fix_prefix(r@, final(r)@)'])
    ghost = ''
    for b, docs, pushed, tag in BUILDERS:
        m = re.search(r'pub fn %s\(&mut self(?:, ([^)]*))?\)' % b, ex.text)
        if not m:
            raise Lost(f'builder {b}: signature')
        params = (m.group(1) or '').strip().rstrip(',')
        names = ', '.join(x.split(':')[0].strip() for x in _split_top(params))
        # pub fns of a pub type cannot name the crate-private `Operation` in their contracts: one closed predicate each
        ghost += (f'    /// `new` is `self` followed by the operation `{b}` is documented to add\n'
                  f'    pub closed spec fn pushed_{b}(&self, new: Expression{", " + params if params else ""}) -> bool {{\n'
                  f'        new.operations@ == self.operations@.push({pushed})\n    }}\n')
        ens = [f'[C15:builder-{b}] old(self).pushed_{b}(*final(self){", " + names if names else ""})']
        if b == 'op_entry_value':
            ens.append('[C15:builder-keeps-targets] old(self).targets_ok() && expression.targets_ok() ==> final(self).targets_ok()')
        else:
            ens.append('[C15:builder-keeps-targets] old(self).targets_ok() ==> final(self).targets_ok()')
        ex.splice(b, ensures=ens)
    for b, cond in [('op_skip', 'false'), ('op_bra', 'true')]:
        ex.splice(b, ret='res', ensures=[
            f'[C15:builder-{b}] res == old(self).count() && old(self).pushed_branch(*final(self), {cond})'])
    ex.splice('next_index', ret='res', ensures=['[C15:builder-next-index] res == self.count()'])
    ex.splice('set_target', requires=[
        'old(self).is_branch(operation)', 'new_target <= old(self).count()', 'operation != new_target'],
        ensures=['[C15:set-target] old(self).retargeted(*final(self), operation, new_target)'],
        canary=True)
    ex.insert_members(ghost)
    sk.add('write::op', ex)

    im = wo.item(r'^impl Operation \{', label='Operation').clean()
    im.own(OWN)
    closure_contract(im, 'base_size', 'Result<usize>', 'esize_res(unit_offsets, entry)', 0)
    closure_contract(im, 'entry_offset', 'Result<u64>', 'eoff(unit_offsets, entry)', 1)
    im.splice('size', ret='res',
              requires=[REQ_REFS, f'op_size(*self, {E_ARGS}) <= isize::MAX'],
              ensures=[f'[C15:size-value] res matches Ok(n) ==> n as nat == op_size(*self, {E_ARGS})',
                       '[C15:size-total] res is Ok <==> op_sized(*self, unit_offsets)',
                       '[C15:ref-error-kind] res matches Err(e) ==> e == ref_error(unit_offsets)'],
              decreases='self, 0nat')   # no canary twin: these requires are a subset of Operation::write's, whose canary fails as it must
    im.splice('write', ret='res',
              requires=[REQ_REFS,
                        f'old(w).wv().len + op_size(*self, {E_ARGS}) <= isize::MAX',
                        'forall|i: int| 0 <= i < offsets@.len() ==> #[trigger] offsets@[i] <= isize::MAX',
                        '[C15:branch-target-in-bounds] (*self matches Operation::Skip(t) ==> t < offsets@.len()) && (*self matches Operation::Branch(t) ==> t < offsets@.len())',
                        '*self matches Operation::EntryValue(e) ==> e.targets_ok()'],
              ensures=[f'[C15:size-eq-len] res is Ok ==> {W1}.len == {W0}.len + op_size(*self, {E_ARGS})',
                       '[C15:ref-unresolved-err] res is Ok ==> op_resolved(*self, unit_offsets)',
                       f'[C15:branch-range-err] {LET}(*self matches Operation::Skip(target) ==> !sfits(branch_disp(offs, target, pos), 2) ==> res is Err) '
                       f'&& (*self matches Operation::Branch(target) ==> !sfits(branch_disp(offs, target, pos), 2) ==> res is Err) }})',
                       '[C15:const-type-len-err] *self matches Operation::ConstantType(_, value) ==> value@.len() > 255 ==> res is Err',
                       '[C15:call-offset-err] (*self matches Operation::Call(entry) ==> (eoff(unit_offsets, entry) matches Ok(v) ==> v > 0xffff_ffff ==> res is Err)) '
                       '&& (*self matches Operation::ParameterRef(entry) ==> (eoff(unit_offsets, entry) matches Ok(v) ==> v > 0xffff_ffff ==> res is Err))',
                       '[C15:ref-needs-fixups-err][C18:expr-ref-reloc] refs is None ==> ((*self matches Operation::CallRef(DebugInfoRef::Entry(_, _)) ==> res is Err) '
                       '&& (*self matches Operation::VariableValue(DebugInfoRef::Entry(_, _)) ==> res is Err) '
                       '&& (*self matches Operation::ImplicitPointer { entry: DebugInfoRef::Entry(_, _), .. } ==> res is Err))',
                       '[C15:fixups-only-for-refs] !(*self is CallRef || *self is VariableValue || *self is ImplicitPointer || *self is EntryValue) ==> (refs matches Some(r) ==> final(r)@ == r@)',
                       '[C15:fixups-frame] refs matches Some(r) ==> fix_prefix(r@, final(r)@)',
                       f'[C15:frame] grew({W0}, {W1})'] + field_clauses(),
              canary=True, split=SPLIT_WRITE)
    sk.add('write::op', im)

    # ---- length-prefix site: write::loc::write_expression (location list entries)
    # DWARF 2-4 .debug_loc (section 2.6.2 / 7.7.3): "a 2-byte length describing the length of the location description that
    # follows"; DWARF 5 .debug_loclists (2.6.2, 7.7.3): counted location description = ULEB128 length + that many bytes.
    wl = Source('write/loc.rs', ctx)
    sk.module('write::loc', '''use crate::common::Encoding;
use crate::write::{DebugInfoFixup, Expression, Result, UnitOffsets, Writer};
use crate::write::op::fix_prefix;
use crate::wspec::*;''')
    we = wl.item(r'^fn write_expression<', label='write_expression').clean()
    we.splice('write_expression', ret='res',
              requires=['val.refs_valid(unit_offsets)', 'val.targets_ok()',
                        f'old(w).wv().len + 10 + val.spec_size({E_ARGS}) <= isize::MAX'],
              ensures=[f'[C15:length-prefix] res is Ok ==> ({{ let n = val.spec_size({E_ARGS}); '
                       f'let p = if encoding.version <= 4 {{ wu(n, 2) }} else {{ WOp::Uleb(n as u64) }}; '
                       f'wprefix({W0}.ops.push(p), {W1}.ops) && {W1}.len == {W0}.len + op_len(p, {W0}.len) + n }})',
                       f'[C15:length-prefix-too-large] encoding.version <= 4 && val.spec_size({E_ARGS}) > 0xffff ==> res is Err',
                       '[C15:ref-unresolved-err] res is Ok ==> val.resolved(unit_offsets)',
                       f'[C15:frame] grew({W0}, {W1})',
                       '[C15:fixups-frame] fix_prefix(old(refs)@, final(refs)@)'],
              owners=OWN, canary=True)
    sk.add('write::loc', we)
    return sk


def build(ctx):
    sk = Skeleton(ctx, core.rd('prelude/crate.rs'))
    core.populate(ctx, sk)
    wcore.populate(ctx, sk)
    populate(ctx, sk)
    return sk
