"""B-wop (draft)"""
from lib import *
from batches import core, wcore, op as rop
from batches.wcore import wsource

TRUSTED = list(wcore.TRUSTED) + ['write']
OWN = ['C15']


def debug_only(it):
    return it.custom_re('R-DERIVE', r'#\[derive\([^\]]*\)\]', '#[derive(Debug)]')


def define_id(ctx, wmod, name):
    """R-MACRO: mechanical expansion of `define_id!(name, docs)` (write/mod.rs) - `$name` substituted, doc attribute dropped"""
    m = wmod.item(r'^macro_rules! define_id \{', label='define_id!')
    t = m.text
    a = t.index('=> {') + 4
    b = t.rindex('};')
    body = t[a:b].replace('#[doc=$docs]', '')
    if '$name' not in body or 'base_id: BaseId' not in body:
        raise Lost('define_id! changed shape')
    body = re.sub(r'\$name\b', name, body)
    if '$' in body:
        raise Lost('define_id!: unexpected macro variable')
    ctx.items.remove(m)
    it = Item(ctx, 'write/mod.rs', f'define_id!({name})', body, label=name)
    ctx.custom.append(('R-MACRO', f'write/mod.rs:define_id!({name})', 'macro invocation', 'expansion'))
    ctx.count('R-MACRO')
    return it


def populate(ctx, sk):
    wmod = wsource('write/mod.rs', ctx)
    wu = wsource('write/unit.rs', ctx)
    wo = Source('write/op.rs', ctx)

    sk.mods['write']['uses'] += '\npub use self::unit::*;\npub use self::op::*;'
    sk.add('write', wmod.item(r'^struct BaseId\(usize\);', label='BaseId').clean())
    wcore.ensure_structural(sk, 'write', 'BaseId')

    sk.module('write::unit', '''use crate::common::DebugInfoOffset;
use crate::write::BaseId;
use crate::wspec::*;''')
    sk.add('write::unit', define_id(ctx, wmod, 'UnitId').clean())
    sk.add('write::unit', define_id(ctx, wmod, 'UnitEntryId').clean())
    sk.add('write::unit', wu.item(r'^pub\(crate\) struct UnitOffsets \{', label='UnitOffsets').clean())
    uo = wu.item(r'^impl UnitOffsets \{', label='UnitOffsets(impl)').clean()
    uo.own(OWN)
    sk.add('write::unit', uo)
    sk.add('write::unit', wu.item(r'^pub enum DebugInfoRef \{', label='DebugInfoRef').clean())
    sk.add('write::unit', wu.item(r'^pub\(crate\) struct DebugInfoFixup \{', label='DebugInfoFixup').clean())

    sk.module('write::op', '''use crate::common::{Encoding, Register};
use crate::constants::{self, DwOp};
use crate::leb128::write::{sleb128_size, uleb128_size};
use crate::write::{
    Address, DebugInfoFixup, DebugInfoRef, Error, Result, UnitEntryId, UnitOffsets, Writer,
};
use crate::vspec::*;
use crate::wspec::*;''')
    sk.add('write::op', debug_only(wo.item(r'^pub struct Expression \{', label='Expression')).clean())
    sk.add('write::op', debug_only(wo.item(r'^enum Operation \{', label='Operation')).clean())
    ex = wo.item(r'^impl Expression \{', label='Expression(impl)')
    ex.drop(['raw', 'as_raw', 'new'])
    ex.extbody(['write'])
    # R-ORPAT: Verus rejects an or-pattern with `ref mut` bindings; the arm is duplicated per alternative (same body)
    ex.custom('R-ORPAT', 'Operation::Skip(ref mut target) | Operation::Branch(ref mut target) => {',
              'Operation::Skip(ref mut target) => {\n                *target = new_target;\n            }\n            Operation::Branch(ref mut target) => {')
    ex.clean()
    ex.own(OWN)
    sk.add('write::op', ex)
    im = wo.item(r'^impl Operation \{', label='Operation(impl)').clean()
    im.own(OWN)
    sk.add('write::op', im)
    return sk


def build(ctx):
    sk = Skeleton(ctx, core.rd('prelude/crate.rs'))
    core.populate(ctx, sk)
    wcore.populate(ctx, sk)
    populate(ctx, sk)
    return sk
