"""B-filter_reserve: RESERVATION of the filtered entries, src/write/unit.rs `mod convert`  (DESIGN.md 6 C19, mechanism
"reservation of only reachable entries, per unit").

Build = core.populate; filter.populate_deps / populate_read_types / populate_refs (the graph layer with the get_reachable
contract, the read-side types and the read::Dwarf / UnitHeader models of batch `filter`; filter.py itself is untouched and
FilterUnit / has_die_back_edge are NOT re-verified here); populate (this file).  Ghost specs: vx/specs/filter_reserve.rs.

WHY: a unit whose only retained entry is its ROOT (e.g. a partial unit that another unit imports through DW_AT_import, or a
unit none of whose non-root entries is reachable) must still be reserved: `reserve_unit` is the only place that registers
the root entry's id, and ConvertUnit::convert_attribute fails with InvalidDebugInfoRef for a reference to an offset without
an id ("writing never fails for a missing reference").  So the reservation loop must call reserve_unit for EVERY unit.

FUNCTIONS UNDER CONTRACT (real bodies, all owned by C19)
  write::unit::convert::ConvertUnitSection::new_with_filter        the partitioning loop + debug_assert_eq!(end, len)
  write::unit::convert::ConvertUnitSection::reserve_unit
  read::UnitSectionOffset::to_unit_offset  (R-OFFSET: specialised to T = usize, body verbatim)
  write::UnitTable::{add, get_mut}, write::Unit::{root, reserve, encoding}, UnitId::new / UnitEntryId::new (define_id!)

CONTRACTS   U = filter.units, g/req = the filter's dependency graph / required list, n0 = units already in dwarf.units
  reserve_unit(unit, offsets)
    [C19:reserve-root]        the unit's ROOT offset gets (the new unit's id, that unit's root entry id)
    [C19:reserve-offsets]     offsets[j] gets (the new unit's id, entry id 1 + j of that unit): distinct fresh ids, in order
    [C19:reserve-only]        no other key is added to the id table; keys that are neither the root nor in `offsets` keep
                              their value; the new unit has reserved exactly 1 + |offsets| ids
    [C19:reserve-unit-logged] read_units grows by exactly (unit, new id); dwarf.units grows by exactly one unit, the others
                              are unchanged
  new_with_filter(dwarf, filter), on Ok(c), with "r is THE reachable list" = is_reachable_list(g, req, r) =
    reach_valid/required/closed/minimal(g, req, r), sorted, no duplicates  (the get_reachable contract of batch filter):
    [C19:reserve-every-unit]      c.read_units has exactly |U| elements, element i is (U[i], id n0 + i): one reserve_unit per
                                  unit, in input order, whatever the number of reachable entries;  every U[i]'s root offset is
                                  in the id table with (id n0 + i, root of written unit n0 + i)
    [C19:reserve-reachable-only]  there are r and cut points cuts[0..=|U|] with partition_ok(U, r, cuts): cuts is monotone
                                  from 0 to |r| and  r[j] lies in unit i  <==>  cuts[i] <= j < cuts[i+1]  (the slice passed
                                  for unit i is EXACTLY the reachable offsets of unit i: nothing dropped, nothing from another
                                  unit);  r[j] of slice i maps to (id n0 + i, entry id 1 + j - cuts[i]);  written unit n0 + i
                                  has 1 + cuts[i+1] - cuts[i] reserved ids
    [C19:reserve-only]            every key of the id table is a root offset of some U[i] or some r[j]
    [C19:reserve-total]           res is Ok
    the debug_assert_eq!(end, offsets.len()) is a proof obligation (R-ASSERT): every reachable offset was handed to a unit
    safety: offsets.get(end) / &offsets[start..end] in bounds, `end += 1` and `reserved += 1` do not overflow, termination
    The loop invariants carry the same tags (logged / roots_ok -> reserve-every-unit; partition_ok / slices_ok / the run
    invariant of the inner loop -> reserve-reachable-only; keys_only -> reserve-only); the step is proved by
    lemma_partition_step (vx/specs/filter_reserve.rs) and lemma_step_{roots,slices,keys} from reserve_post = the literal
    postconditions of reserve_unit for the slice r[cuts[k]..end].
  to_unit_offset(unit)  [C19:unit-membership] Some <==> in_unit(unit, self) (at/after the unit start and in bounds), value

ASSUMPTIONS ABOUT THE CALLER (requires of new_with_filter; `section_wf`, not verified here)
  W-ORDER   units_ordered(U): the units are in section order and do not overlap (i < j, a in unit i, b in unit j => a < b).
            Established by DebugInfoUnitHeadersIter (batch units: C02 header layout) - FilterUnitSection::read_unit pushes
            the units in the order the header iterator yields them.
  W-REG     every registered entry of the graph lies in some unit of U (FilterUnit::read_entry [C19:entry-in-bounds] registers
            uso_unit(h, offset) only for in-bounds offsets of the unit being read).
  W-ROOT    the root offset of every unit is in bounds (FilterUnit::new read the root abbreviation successfully) and is not a
            registered entry (FilterUnit::new skips the root; only later entries are registered).
  W-CAP     the graph has fewer than usize::MAX entries (each occupies > 1 byte of memory) - bounds `reserved += 1`.
  dwarf.units.len() + |U| <= usize::MAX is NOT needed (Vec::push has no overflow obligation in vstd).

TRUSTED beyond filter's (each external_body / assume_specification in the generated file)
  UnitHeader::root_offset     header_size() arithmetic on the abstract Offset type (batch units proves [C02:root-offset]
                              res.0 == hdr_size()); here: res == root_spec() (uninterpreted) - only "the same offset every
                              time" is used
  write::Unit::new            builds RangeListTable/LocationListTable/DebuggingInformationEntry (batch wunit's subject);
                              assumed: reserved == 1, root id = (base, 0), encoding stored.  R-FIELDS projects write::Unit to
                              {base_id, encoding, reserved, root} (the only fields root/reserve/encoding touch)
  LineProgram (MODEL type), LineProgram::none     opaque argument of Unit::new
  R-FIELDS: write::Dwarf projected to {units}; FilterUnitSection.unit_headers dropped (untouched by new_with_filter)
  R-SELF call site: `filter.deps.get_reachable()` -> `get_reachable(filter.deps)` (filter's R-SELF free fn)
  R-FORLOOP: `for unit in filter.units { B }` -> `let mut verif_units = filter.units.into_iter(); loop { let Some(unit) =
      verif_units.next() else { break; }; B }` (the desugaring of `for`; vstd's prophetic IntoIter model): Verus rejects
      `continue` inside `for`, and a body that leaves an iteration early must be judged (exit 1), not rejected (exit 2)

NOT DECIDED
  ConvertUnitSection::new (unfiltered path: Dwarf::units()/unit() iterator + read_entry_offsets; all three would be models),
  ConvertSplitUnitSection::{new_with_filter, new_with_offsets} (single split unit: reserves unconditionally, no loop),
  section_wf itself (that FilterUnitSection::read_unit / FilterUnit::new establish it), ConvertUnit::{read_entry, add_entry}
  (that an entry with an id is actually added / a reference to a reserved id resolves), hashbrown vs the std map model.
SELF-ATTACK (scratch copies of /repo; GIMLI_REPO=<copy> python3 vx/run.py filter_reserve; all exit 1, /repo exits 0)
  m0  seeded: `if start == end { continue; }` before reserve_unit      invariants logged [reserve-every-unit], partition_ok
                                                                        [reserve-reachable-only] fail at the `continue`
  m1  `&offsets[start..end - 1]`                   underflow + slice bound (built-in, C19) + reserve_post assert [reserve-reachable-only]
  m2a `.is_none()` -> `.is_some()` in the scan      inner-loop run invariant + lemma_partition_step pre [reserve-reachable-only]
  m2b `offsets.get(end + 1)`                        lemma_partition_step pre (maximality) [reserve-reachable-only]
  m3  `start` never advanced (`let mut start = 0;`, no `start = end;`)   run invariant before loop [reserve-reachable-only]
  m4  reserve_unit: root insert removed             [reserve-root]
  m5  reserve_unit: `unit.root()` instead of `unit.reserve()` for the offsets   [reserve-offsets] (+ reserved-count invariant)
  m6  to_unit_offset: `wrapping_sub` instead of `checked_sub(..)?`       [unit-membership]
OBSERVATION  the doc comment of new_with_filter says "Units with no reachable entries will be skipped." - the code does NOT
  skip them (and must not, see WHY); the comment describes the seeded defect, not the behaviour.
"""
import re
import lib
from lib import *
from batches import core, wcore, wunit
from batches import filter as fbase

# `filter_attributes` (FilterUnit impl) is not part of this build
TRUSTED = [t for t in fbase.TRUSTED if t != 'filter_attributes'] + [
    'root_offset', 'new', 'LineProgram', 'none',
]
VERUS_ARGS = ['--rlimit', '40']
CONVERT = fbase.CONVERT
M = 'write::unit::convert'
OWN = ['C19']


def populate_write_types(ctx, sk):
    """write-side containers reserve_unit touches: BaseId, UnitId/UnitEntryId, UnitTable, Unit (projected), Dwarf (projected)"""
    wmod = Source('write/mod.rs', ctx)
    wu = Source('write/unit.rs', ctx)
    wd = Source('write/dwarf.rs', ctx)
    sk.mods['write']['uses'] += '\npub use self::dwarf::*;\npub use self::line::*;'
    sk.add('write', wmod.item(r'^struct BaseId\(usize\);', label='BaseId').clean())
    wcore.ensure_structural(sk, 'write', 'BaseId')

    sk.module('write::line', '')
    sk.add('write::line', '''
// ---- MODEL (not gimli text): `write::LineProgram` is only passed through (`LineProgram::none()` -> `Unit::new`)
#[verifier::external_body]
#[derive(Debug)]
pub struct LineProgram { model_only: () }
impl LineProgram {
    #[verifier::external_body]
    pub fn none() -> Self { unimplemented!() }
}
''', label='LineProgram(model)')

    sk.mods['write::unit']['uses'] += '''
use crate::common::Encoding;
use crate::write::{BaseId, LineProgram};'''
    for name in ['UnitId', 'UnitEntryId']:
        st, im = wunit.define_id(ctx, name)
        im.own(OWN)
        im.insert_members('    pub closed spec fn base(&self) -> BaseId { self.base_id }\n'
                          '    pub closed spec fn ix(&self) -> usize { self.index }')
        im.splice('new', ret='res', ensures=['res.base() == base_id && res.ix() == index'])
        sk.add('write::unit', st)
        sk.add('write::unit', im)

    sk.add('write::unit', wu.item(r'^pub struct UnitTable \{', label='UnitTable').clean())
    ut = wu.item(r'^impl UnitTable \{', label='UnitTable(impl)')
    ut.keep_only(['add', 'get_mut'])
    ut.clean()
    ut.own(OWN)
    ut.insert_members('    pub closed spec fn tbase(&self) -> BaseId { self.base_id }\n'
                      '    pub closed spec fn tunits(&self) -> Seq<Unit> { self.units@ }')
    ut.splice('add', ret='res', ensures=[
        'final(self).tunits() == old(self).tunits().push(unit)', 'final(self).tbase() == old(self).tbase()',
        'res.base() == old(self).tbase() && res.ix() == old(self).tunits().len()'])
    # "Panics if `id` is invalid": explicit precondition (the debug_assert_eq! on base_id and the index)
    ut.splice('get_mut', ret='res',
              requires=['id.base() == old(self).tbase()', 'id.ix() < old(self).tunits().len()'],
              ensures=['*res == old(self).tunits()[id.ix() as int]',
                       'final(self).tunits() == old(self).tunits().update(id.ix() as int, *final(res))',
                       'final(self).tbase() == old(self).tbase()'], canary=True)
    sk.add('write::unit', ut)

    ust = wu.item(r'^pub struct Unit \{', label='Unit(write)')
    # R-FIELDS: Unit::{root, reserve, encoding} touch base_id, encoding, reserved, root only (Unit::new is contract-only)
    for f in ['pub line_program: LineProgram,', 'pub ranges: RangeListTable,', 'pub locations: LocationListTable,',
              'entries: Vec<DebuggingInformationEntry>,', 'written: bool,', 'offsets: UnitOffsets,']:
        ust.custom('R-FIELDS', f, '')
    sk.add('write::unit', ust.clean())
    ui = wu.item(r'^impl Unit \{', label='Unit(write impl)')
    ui.keep_only(['new', 'encoding', 'root', 'reserve'])
    ui.extbody(['new'])
    ui.clean()
    ui.own(OWN)
    ui.insert_members('''    pub closed spec fn ubase(&self) -> BaseId { self.base_id }
    pub closed spec fn enc(&self) -> Encoding { self.encoding }
    pub closed spec fn nreserved(&self) -> usize { self.reserved }
    pub closed spec fn root_id(&self) -> UnitEntryId { self.root }''')
    ui.splice('new', ret='res', ensures=[
        'res.enc() == encoding', 'res.nreserved() == 1', 'res.root_id().base() == res.ubase() && res.root_id().ix() == 0'])
    ui.splice('encoding', ret='res', ensures=['res == self.enc()'])
    ui.splice('root', ret='res', ensures=['res == self.root_id()'])
    SAME = 'final(self).ubase() == old(self).ubase() && final(self).enc() == old(self).enc() && final(self).root_id() == old(self).root_id()'
    ui.splice('reserve', ret='res',
              requires=['old(self).nreserved() < usize::MAX'],     # `self.reserved += 1` (overflow check of the debug build)
              ensures=['res.base() == old(self).ubase() && res.ix() == old(self).nreserved()',
                       'final(self).nreserved() == old(self).nreserved() + 1', SAME], canary=True)
    sk.add('write::unit', ui)

    sk.module('write::dwarf', 'use crate::write::UnitTable;')
    dw = wd.item(r'^pub struct Dwarf \{', label='Dwarf(write)')
    for f in ['pub line_programs: Vec<LineProgram>,', 'pub line_strings: LineStringTable,', 'pub strings: StringTable,']:
        dw.custom('R-FIELDS', f, '')
    sk.add('write::dwarf', dw.clean())


def populate_read_offsets(ctx, sk):
    """UnitHeader::root_offset (contract-only), UnitSectionOffset::to_unit_offset (real body at T = usize)"""
    ru = Source('read/unit.rs', ctx)
    uh = ru.item(r'^impl<R, Offset> UnitHeader<R, Offset>\s+where\s+R: Reader<Offset = Offset>,\s+Offset: ReaderOffset,\s+\{\s+pub fn section\(',
                 label='UnitHeader(root_offset)', with_attrs=False)
    uh.keep_only(['root_offset'])
    # header_size() is `length_including_self() - entries_buf.len()` on the abstract Offset type (batch units: [C02:root-offset])
    uh.extbody(['root_offset'])
    uh.clean()
    uh.insert_members('    pub uninterp spec fn root_spec(&self) -> UnitOffset<Offset>;')
    uh.splice('root_offset', ret='res', ensures=['res == self.root_spec()'])
    sk.add('read::unit', uh)

    uso = ru.item(r'^impl<T: ReaderOffset> UnitSectionOffset<T> \{', label='UnitSectionOffset')
    uso.keep_only(['to_unit_offset'])
    # R-OFFSET: `checked_sub` of the abstract `T: ReaderOffset` has no contract; at T = usize it is usize::checked_sub (vstd)
    uso.custom('R-OFFSET', 'impl<T: ReaderOffset> UnitSectionOffset<T> {', 'impl UnitSectionOffset<usize> {')
    uso.custom('R-OFFSET', 'Option<UnitOffset<T>>', 'Option<UnitOffset<usize>>')
    uso.custom('R-OFFSET', 'R: Reader<Offset = T>,', 'R: Reader<Offset = usize>,')
    uso.clean(offset=False)
    uso.own(OWN)
    uso.splice('to_unit_offset', ret='res', ensures=[
        '[C19:unit-membership] res is Some <==> in_unit(*unit, *self)',
        '[C19:unit-membership] res matches Some(o) ==> o.0 == self.0 - unit.spec_offset().0'])
    sk.add('read::unit', uso)


def reserve_clauses(FR, OR, FI, OI, FW, OW, FB, OB, U, OFF):
    """the postconditions of reserve_unit, over explicit before/after tables (used twice: as the `ensures` of the function
    and as the spec fn `reserve_post` that the step lemma of new_with_filter consumes - same text, generated once)"""
    ID = f'{FR}.last().1'
    N0 = f'{OW}.len()'
    NEW = f'{FW}[{N0} as int]'
    RK = f'root_key({U}.header)'
    return [
        f'[C19:reserve-unit-logged] {FR} == {OR}.push(({U}, {ID})) && {ID}.base() == {OB} && {ID}.ix() == {N0}',
        f'[C19:reserve-unit-logged] {FW}.len() == {N0} + 1 && {FB} == {OB} && forall|i: int| 0 <= i < {N0} ==> #[trigger] {FW}[i] == {OW}[i]',
        f'[C19:reserve-root] {OFF}.contains({RK}) || ({FI}.contains_key({RK}) && {FI}[{RK}] == ({ID}, {NEW}.root_id()))',
        f'[C19:reserve-offsets] forall|j: int| 0 <= j < {OFF}.len() ==> {FI}.contains_key(#[trigger] {OFF}[j])',
        f'[C19:reserve-offsets] {OFF}.no_duplicates() ==> forall|j: int| 0 <= j < {OFF}.len() ==> '
        f'{FI}[#[trigger] {OFF}[j]].0 == {ID} && {FI}[{OFF}[j]].1.base() == {NEW}.ubase() && {FI}[{OFF}[j]].1.ix() == 1 + j',
        f'[C19:reserve-only] {NEW}.nreserved() == 1 + {OFF}.len()',
        f'[C19:reserve-only] forall|k: K| #[trigger] {FI}.contains_key(k) ==> {OI}.contains_key(k) || k == {RK} || {OFF}.contains(k)',
        f'[C19:reserve-only] forall|k: K| #[trigger] {OI}.contains_key(k) && k != {RK} && !{OFF}.contains(k) ==> {FI}.contains_key(k) && {FI}[k] == {OI}[k]',
    ]


def spec_convert():
    post = '\n        &&& '.join('(' + parse_tags(c)[1] + ')' for c in reserve_clauses('ru1', 'ru0', 'ids1', 'ids0', 'wus1', 'wus0', 'tb1', 'tb0', 'unit', 'offs'))
    return SPEC_CONVERT.replace('/*RESERVE_POST*/', post)


SPEC_CONVERT = r"""
    // ---- table invariant of the reservation and its step lemma (vx/batches/filter_reserve.py; nothing trusted here)
    pub(crate) type Ids = Map<K, (UnitId, UnitEntryId)>;
    pub(crate) type RUs<R> = Seq<(read::Unit<R>, UnitId)>;
    /// [C19:reserve-every-unit] one (unit, id) record per input unit, in input order, ids n0, n0 + 1, ..
    pub(crate) open spec fn logged<R: Reader<Offset = usize>>(ru: RUs<R>, tb: BaseId, us: Seq<read::Unit<R>>, n0: int, k: int) -> bool {
        &&& ru.len() == k
        &&& forall|i: int| 0 <= i < k ==> (#[trigger] ru[i]).0 == us[i] && ru[i].1.base() == tb && ru[i].1.ix() == n0 + i
    }
    /// [C19:reserve-every-unit] the root offset of every reserved unit names (its unit id, the root entry of the written unit)
    pub(crate) open spec fn roots_ok<R: Reader<Offset = usize>>(ru: RUs<R>, ids: Ids, wus: Seq<Unit>, us: Seq<read::Unit<R>>, n0: int, k: int) -> bool {
        forall|i: int| 0 <= i < k ==> ids.contains_key(#[trigger] root_key(us[i].header))
            && ids[root_key(us[i].header)] == (ru[i].1, wus[n0 + i].root_id())
    }
    /// [C19:reserve-reachable-only] r[j] of slice i names (unit id i, entry id 1 + position in the slice); unit i has 1 + |slice i| ids
    pub(crate) open spec fn slices_ok<R: Reader<Offset = usize>>(ru: RUs<R>, ids: Ids, wus: Seq<Unit>, r: Seq<K>, cuts: Seq<int>, n0: int, k: int) -> bool {
        &&& forall|i: int, j: int| #![trigger cuts[i], r[j]] 0 <= i < k && 0 <= j < r.len() && cuts[i] <= j < cuts[i + 1] ==> ids.contains_key(r[j])
                && ids[r[j]].0 == ru[i].1 && ids[r[j]].1.base() == wus[n0 + i].ubase() && ids[r[j]].1.ix() == 1 + j - cuts[i]
        &&& forall|i: int| #![trigger cuts[i]] 0 <= i < k ==> wus[n0 + i].nreserved() == 1 + cuts[i + 1] - cuts[i]
    }
    /// [C19:reserve-only] nothing but roots of the first k units and the first e reachable offsets is in the table
    pub(crate) open spec fn keys_only<R: Reader<Offset = usize>>(ids: Ids, us: Seq<read::Unit<R>>, r: Seq<K>, e: int, k: int) -> bool {
        forall|key: K| #[trigger] ids.contains_key(key) ==> is_root_of(us, k, key) || is_slice_elem(r, e, key)
    }
    pub(crate) open spec fn is_root_of<R: Reader<Offset = usize>>(us: Seq<read::Unit<R>>, k: int, key: K) -> bool {
        exists|i: int| 0 <= i < k && key == #[trigger] root_key(us[i].header)
    }
    pub(crate) open spec fn is_slice_elem(r: Seq<K>, e: int, key: K) -> bool {
        exists|j: int| 0 <= j < e && key == #[trigger] r[j]
    }
    /// the effect of one `reserve_unit(unit, offs)` call: literally the postconditions of reserve_unit
    pub(crate) open spec fn reserve_post<R: Reader<Offset = usize>>(ru0: RUs<R>, ids0: Ids, wus0: Seq<Unit>, tb0: BaseId,
        ru1: RUs<R>, ids1: Ids, wus1: Seq<Unit>, tb1: BaseId, unit: read::Unit<R>, offs: Seq<K>) -> bool
    {
        &&& /*RESERVE_POST*/
    }
    /// facts about the slice r[s..e] handed to reserve_unit for unit k
    pub(crate) proof fn lemma_slice_facts<R: Reader<Offset = usize>>(us: Seq<read::Unit<R>>, g: G, r: Seq<K>, k: int, s: int, e: int)
        requires
            roots_wf(us, g), reach_valid(g, r), r.no_duplicates(), 0 <= k < us.len(), 0 <= s <= e <= r.len(),
            forall|j: int| s <= j < e ==> in_unit(us[k].header, #[trigger] r[j]),
        ensures
            r.subrange(s, e).no_duplicates(),
            forall|x: K| #[trigger] r.subrange(s, e).contains(x) ==> g.contains_key(x) && in_unit(us[k].header, x),
            forall|i: int| 0 <= i < us.len() ==> !r.subrange(s, e).contains(#[trigger] root_key(us[i].header)),
    {
        let sub = r.subrange(s, e);
        assert forall|x: K| #[trigger] sub.contains(x) implies g.contains_key(x) && in_unit(us[k].header, x) by {
            let m = choose|m: int| 0 <= m < sub.len() && sub[m] == x;
            assert(sub[m] == r[s + m]);
        }
        assert forall|a: int, b: int| 0 <= a < sub.len() && 0 <= b < sub.len() && a != b implies sub[a] != sub[b] by {
            assert(sub[a] == r[s + a] && sub[b] == r[s + b]);
        }
        assert forall|i: int| 0 <= i < us.len() implies !sub.contains(#[trigger] root_key(us[i].header)) by {
            if sub.contains(root_key(us[i].header)) { assert(g.contains_key(root_key(us[i].header))); }
        }
    }
    /// [C19:reserve-every-unit] one iteration keeps the log and the root registrations
    pub(crate) proof fn lemma_step_roots<R: Reader<Offset = usize>>(us: Seq<read::Unit<R>>, g: G, r: Seq<K>, k: int, s: int, e: int,
        tb: BaseId, n0: int, ru0: RUs<R>, ids0: Ids, wus0: Seq<Unit>, ru1: RUs<R>, ids1: Ids, wus1: Seq<Unit>, tb1: BaseId)
        requires
            units_ordered(us), roots_wf(us, g), reach_valid(g, r), r.no_duplicates(), 0 <= k < us.len(), 0 <= n0, 0 <= s <= e <= r.len(),
            forall|j: int| s <= j < e ==> in_unit(us[k].header, #[trigger] r[j]),
            logged(ru0, tb, us, n0, k), wus0.len() == n0 + k, roots_ok(ru0, ids0, wus0, us, n0, k),
            reserve_post(ru0, ids0, wus0, tb, ru1, ids1, wus1, tb1, us[k], r.subrange(s, e)),
        ensures
            logged(ru1, tb, us, n0, k + 1), wus1.len() == n0 + k + 1, tb1 == tb, roots_ok(ru1, ids1, wus1, us, n0, k + 1),
    {
        hide(units_ordered);
        let sub = r.subrange(s, e);
        let rk = root_key(us[k].header);
        lemma_slice_facts(us, g, r, k, s, e);
        assert forall|i: int| 0 <= i < k + 1 implies (#[trigger] ru1[i]).0 == us[i] && ru1[i].1.base() == tb && ru1[i].1.ix() == n0 + i by {
            if i < k { assert(ru1[i] == ru0[i]); }
        }
        assert forall|i: int| 0 <= i < k + 1 implies ids1.contains_key(#[trigger] root_key(us[i].header))
            && ids1[root_key(us[i].header)] == (ru1[i].1, wus1[n0 + i].root_id()) by {
            if i < k {
                let rki = root_key(us[i].header);
                lemma_root_in_unit(us[i].header); lemma_root_in_unit(us[k].header);
                lemma_units_apart(us, i, k, rki, rk);
                assert(!sub.contains(rki));
                assert(ids0.contains_key(rki));
                assert(ru1[i] == ru0[i] && wus1[n0 + i] == wus0[n0 + i]);
            } else {
                assert(!sub.contains(rk));
            }
        }
    }
    /// [C19:reserve-reachable-only] one iteration keeps the ids of the earlier slices and registers slice k with fresh ids 1, 2, ..
    pub(crate) proof fn lemma_step_slices<R: Reader<Offset = usize>>(us: Seq<read::Unit<R>>, g: G, r: Seq<K>, cuts: Seq<int>, k: int, s: int, e: int,
        tb: BaseId, n0: int, ru0: RUs<R>, ids0: Ids, wus0: Seq<Unit>, ru1: RUs<R>, ids1: Ids, wus1: Seq<Unit>, tb1: BaseId)
        requires
            units_ordered(us), roots_wf(us, g), reach_valid(g, r), r.no_duplicates(), 0 <= k < us.len(), 0 <= n0,
            partition_ok(us, r, cuts, k), cuts[k] == s, 0 <= s <= e <= r.len(),
            forall|j: int| s <= j < e ==> in_unit(us[k].header, #[trigger] r[j]),
            ru0.len() == k, wus0.len() == n0 + k, slices_ok(ru0, ids0, wus0, r, cuts, n0, k),
            reserve_post(ru0, ids0, wus0, tb, ru1, ids1, wus1, tb1, us[k], r.subrange(s, e)),
        ensures
            slices_ok(ru1, ids1, wus1, r, cuts.push(e), n0, k + 1),
    {
        hide(units_ordered);
        let sub = r.subrange(s, e);
        let c2 = cuts.push(e);
        let rk = root_key(us[k].header);
        lemma_slice_facts(us, g, r, k, s, e);
        assert forall|i: int, j: int| #![trigger c2[i], r[j]] 0 <= i < k + 1 && 0 <= j < r.len() && c2[i] <= j < c2[i + 1] implies ids1.contains_key(r[j])
                && ids1[r[j]].0 == ru1[i].1 && ids1[r[j]].1.base() == wus1[n0 + i].ubase() && ids1[r[j]].1.ix() == 1 + j - c2[i] by {
            if i < k {
                assert(c2[i] == cuts[i] && c2[i + 1] == cuts[i + 1]);
                assert(in_unit(us[i].header, r[j]));
                if sub.contains(r[j]) { lemma_units_apart(us, i, k, r[j], r[j]); }      // slice k lies in unit k (W-ORDER)
                assert(g.contains_key(r[j]));
                assert(ids0.contains_key(r[j]) && r[j] != rk);
                assert(ru1[i] == ru0[i] && wus1[n0 + i] == wus0[n0 + i]);
            } else {
                assert(c2[k] == s && c2[k + 1] == e);
                assert(sub[j - s] == r[j]);
            }
        }
        assert forall|i: int| #![trigger c2[i]] 0 <= i < k + 1 implies wus1[n0 + i].nreserved() == 1 + c2[i + 1] - c2[i] by {
            if i < k { assert(c2[i] == cuts[i] && c2[i + 1] == cuts[i + 1]); assert(wus1[n0 + i] == wus0[n0 + i]); }
            else { assert(c2[k] == s && c2[k + 1] == e); }
        }
    }
    /// [C19:reserve-only] one iteration adds the root of unit k and the slice r[s..e], nothing else
    pub(crate) proof fn lemma_step_keys<R: Reader<Offset = usize>>(us: Seq<read::Unit<R>>, r: Seq<K>, k: int, s: int, e: int,
        tb: BaseId, ru0: RUs<R>, ids0: Ids, wus0: Seq<Unit>, ru1: RUs<R>, ids1: Ids, wus1: Seq<Unit>, tb1: BaseId)
        requires
            0 <= k < us.len(), 0 <= s <= e <= r.len(), keys_only(ids0, us, r, s, k),
            reserve_post(ru0, ids0, wus0, tb, ru1, ids1, wus1, tb1, us[k], r.subrange(s, e)),
        ensures
            keys_only(ids1, us, r, e, k + 1),
    {
        let sub = r.subrange(s, e);
        let rk = root_key(us[k].header);
        assert forall|key: K| #[trigger] ids1.contains_key(key) implies is_root_of(us, k + 1, key) || is_slice_elem(r, e, key) by {
            if ids0.contains_key(key) {
                if is_root_of(us, k, key) {
                    let i = choose|i: int| 0 <= i < k && key == #[trigger] root_key(us[i].header);
                    assert(key == root_key(us[i].header));
                } else {
                    let j = choose|j: int| 0 <= j < s && key == #[trigger] r[j];
                    assert(key == r[j]);
                }
            } else if key == rk {
                assert(key == root_key(us[k].header));
            } else {
                let m = choose|m: int| 0 <= m < sub.len() && sub[m] == key;
                assert(key == r[s + m]);
            }
        }
    }
"""


def populate_reserve(ctx, sk):
    wu = Source('write/unit.rs', ctx)
    sk.mods[M]['uses'] += """
use crate::constants;
use crate::read::{self, Reader, ReaderOffset};
use vstd::std_specs::iter::IteratorSpec;
use crate::write::unit::{Unit, UnitTable, UnitId, UnitEntryId};
use crate::write::{BaseId, Dwarf, LineProgram};"""
    sk.mods['fspec']['uses'] += '\nuse crate::read::UnitOffset;'
    sk.add('fspec', core.rd('specs/filter_reserve.rs'), label='fres-spec')

    fs = wu.item(r"^    pub struct FilterUnitSection<'a, R: Reader<Offset = usize>>", within=CONVERT, label='FilterUnitSection(struct)')
    # R-FIELDS: the header iterator is only used by read_unit (not extracted)
    fs.custom('R-FIELDS', 'unit_headers: read::DebugInfoUnitHeadersIter<R>,', '')
    fs.clean()
    fs.prepend('#[verifier::reject_recursive_types(R)]')
    ctx.count('R-REJREC')
    sk.add(M, fs)
    cs = wu.item(r"^    pub struct ConvertUnitSection<'a, R: Reader<Offset = usize>>", within=CONVERT, label='ConvertUnitSection(struct)')
    cs.clean()
    cs.prepend('#[verifier::reject_recursive_types(R)]')
    ctx.count('R-REJREC')
    sk.add(M, cs)
    sk.add(M, """
    impl<'a, R: Reader<Offset = usize>> FilterUnitSection<'a, R> {
        // ghost accessors for the private filter state
        pub closed spec fn funits(&self) -> Seq<read::Unit<R>> { self.units@ }
        pub closed spec fn fgraph(&self) -> G { self.deps.graph() }
        pub closed spec fn freq(&self) -> Seq<K> { self.deps.req() }
    }
""", label='FilterUnitSection(ghost)')
    sk.add(M, spec_convert(), label='fres-tables', owners=OWN)

    imp = wu.item(r"^    impl<'a, R: Reader<Offset = usize>> ConvertUnitSection<'a, R> \{", within=CONVERT, label='ConvertUnitSection')
    imp.drop(['new', 'read_unit'])      # (indented impl: keep_only's header regex does not apply)
    # R-SELF (call site): filter.py emits `get_reachable(mut self)` as a free fn `get_reachable(this)`
    imp.custom('R-SELF', 'filter.deps.get_reachable()', 'get_reachable(filter.deps)')
    # R-FORLOOP: the `for` over the units is written as the loop it abbreviates (IntoIterator::into_iter + next): Verus
    # `for` loops do not support `continue` (a body with an early `continue` must be JUDGED, not rejected by the front end)
    imp.custom('R-FORLOOP', 'for unit in filter.units {',
               'let mut verif_units = filter.units.into_iter(); loop { let Some(unit) = verif_units.next() else { break; };')
    imp.clean()
    imp.own(OWN)
    imp.insert_after("impl<'a, R: Reader<Offset = usize>> ConvertUnitSection<'a, R> {", """
        pub closed spec fn ids(&self) -> Ids { self.entry_ids@ }
        pub closed spec fn runits(&self) -> RUs<R> { self.read_units@ }
        pub closed spec fn wunits(&self) -> Seq<Unit> { self.dwarf.units.tunits() }
        pub closed spec fn wbase(&self) -> BaseId { self.dwarf.units.tbase() }
""")
    imp.insert_after('for offset in ', 'ito: ')

    # ---------------------------------------------------------------------------------------------- reserve_unit
    IDS, IX, RK = 'self.entry_ids@', 'ito.index@', 'root_offset'
    TAKEN = f'offsets@.take({IX})'
    imp.splice('reserve_unit', attrs='#[verifier::loop_isolation(false)]',
               requires=['root_ok(unit.header)', 'offsets@.len() < usize::MAX'],
               ensures=reserve_clauses('final(self).runits()', 'old(self).runits()', 'final(self).ids()', 'old(self).ids()',
                                       'final(self).wunits()', 'old(self).wunits()', 'final(self).wbase()', 'old(self).wbase()',
                                       'unit', 'offsets@'),
               before=[('let root_offset =', 'let ghost runit = unit; let ghost ids0 = self.entry_ids@;'),
                       ('for offset in', 'let ghost ub = unit.ubase(); let ghost rid = unit.root_id();\n'
                                         'proof { assert(root_offset == root_key(runit.header)); assert(offsets@.take(0) =~= Seq::<K>::empty()); }')],
               loops={0: f'''invariant
                    offsets@.len() < usize::MAX,
                    unit.nreserved() == 1 + {IX}, unit.ubase() == ub, unit.root_id() == rid,
                    forall|j: int| 0 <= j < {IX} ==> {IDS}.contains_key(#[trigger] offsets@[j]), // [C19:reserve-offsets]
                    offsets@.no_duplicates() ==> forall|j: int| 0 <= j < {IX} ==> {IDS}[#[trigger] offsets@[j]].0 == unit_id && {IDS}[offsets@[j]].1.base() == ub && {IDS}[offsets@[j]].1.ix() == 1 + j, // [C19:reserve-offsets]
                    {TAKEN}.contains({RK}) || ({IDS}.contains_key({RK}) && {IDS}[{RK}] == (unit_id, rid)), // [C19:reserve-root]
                    forall|k: K| #[trigger] {IDS}.contains_key(k) ==> ids0.contains_key(k) || k == {RK} || {TAKEN}.contains(k), // [C19:reserve-only]
                    forall|k: K| #[trigger] ids0.contains_key(k) && k != {RK} && !offsets@.contains(k) ==> {IDS}.contains_key(k) && {IDS}[k] == ids0[k], // [C19:reserve-only]'''})
    fbase.insert_at_loop_body(imp, 'reserve_unit', 0, f'''let ghost i0 = {IX};
                proof {{
                    assert(offsets@.take(i0 + 1) =~= offsets@.take(i0).push(offsets@[i0]));
                    lemma_push_contains(offsets@.take(i0), offsets@[i0]);
                    assert(offsets@.contains(offsets@[i0]));
                }}''', end=False)
    fbase.insert_after_loop(imp, 'reserve_unit', 0, 'proof { assert(offsets@.take(offsets@.len() as int) =~= offsets@); }')

    # ---------------------------------------------------------------------------------------------- new_with_filter
    US, G, REQ = 'filter.funits()', 'filter.fgraph()', 'filter.freq()'
    N0W = '(old(dwarf).units.tunits().len() as int)'
    N = f'({US}.len() as int)'
    R = 'offsets@'
    KK = 'kk'
    TABLES = 'convert.runits(), convert.ids(), convert.wunits()'
    imp.splice('new_with_filter', ret='res', attrs='#[verifier::loop_isolation(false)]\n#[verifier::allow_complex_invariants]',
               requires=[f'section_wf({US}, {G})'],
               ensures=[
                   '[C19:reserve-total] res is Ok',
                   f'[C19:reserve-every-unit] res matches Ok(c) ==> logged(c.runits(), old(dwarf).units.tbase(), {US}, {N0W}, {N}) '
                   f'&& c.wunits().len() == {N0W} + {N} && roots_ok(c.runits(), c.ids(), c.wunits(), {US}, {N0W}, {N})',
                   f'[C19:reserve-reachable-only] res matches Ok(c) ==> exists|r: Seq<K>, cuts: Seq<int>| is_reachable_list({G}, {REQ}, r) '
                   f'&& #[trigger] partition_ok({US}, r, cuts, {N}) && cuts[{N}] == r.len() '
                   f'&& slices_ok(c.runits(), c.ids(), c.wunits(), r, cuts, {N0W}, {N})',
                   f'[C19:reserve-only] res matches Ok(c) ==> exists|r: Seq<K>| #[trigger] is_reachable_list({G}, {REQ}, r) '
                   f'&& keys_only(c.ids(), {US}, r, r.len() as int, {N})',
               ],
               before=[('let mut convert = ConvertUnitSection {',
                        f'let ghost us = {US}; let ghost g = {G}; let ghost req = {REQ}; let ghost n0 = dwarf.units.tunits().len() as int; let ghost tb = dwarf.units.tbase();')],
               after=[('let offsets = get_reachable(filter.deps);',
                       'let ghost mut cuts: Seq<int> = seq![0int]; let ghost mut kk: int = 0;\n'
                       'proof { lemma_reach_len(g, offsets@); assert(is_reachable_list(g, req, offsets@)); }'),
                      ('let mut verif_units = filter.units.into_iter();', 'proof { assert(us.skip(0) =~= us); }'),
                      # kk counts the units taken from the iterator (advanced HERE, so that a body that leaves early is judged
                      # against the invariants for kk units)
                      ('let Some(unit) = verif_units.next() else { break; };',
                       'let ghost k = kk; let ghost ru0 = convert.runits(); let ghost ids0 = convert.ids(); let ghost wus0 = convert.wunits();\n'
                       'proof { assert(unit == us[k]); assert(us.skip(k).skip(1) =~= us.skip(k + 1)); kk = kk + 1; }')],
               loops={
                   0: f'''invariant
                    0 <= kk <= us.len(), verif_units.remaining() == us.skip(kk),
                    0 <= end <= {R}.len(), cuts[{KK}] == end, split_inv(us, {R}, {KK}, end as int),
                    partition_ok(us, {R}, cuts, {KK}), // [C19:reserve-reachable-only]
                    logged(convert.runits(), tb, us, n0, {KK}), convert.wunits().len() == n0 + {KK}, convert.wbase() == tb, // [C19:reserve-every-unit]
                    roots_ok({TABLES}, us, n0, {KK}), // [C19:reserve-every-unit]
                    slices_ok({TABLES}, {R}, cuts, n0, {KK}), // [C19:reserve-reachable-only]
                    keys_only(convert.ids(), us, {R}, end as int, {KK}), // [C19:reserve-only]
                ensures kk == us.len(),
                decreases us.len() - kk,''',
                   1: f'''invariant
                    start <= end <= {R}.len(),
                    forall|j: int| start <= j < end ==> in_unit(unit.header, #[trigger] {R}[j]), // [C19:reserve-reachable-only]
                ensures
                    end == {R}.len() || !in_unit(unit.header, {R}[end as int]), // [C19:reserve-reachable-only]
                decreases {R}.len() - end,'''})
    fbase.insert_at_loop_body(imp, 'new_with_filter', 0, f'''proof {{
                    // the slice handed to reserve_unit is r[cuts[k]..end]: the maximal run of reachable offsets inside unit k
                    lemma_partition_step(us, {R}, cuts, k, cuts[k], end as int); // [C19:reserve-reachable-only]
                    assert(reserve_post(ru0, ids0, wus0, tb, {TABLES}, convert.wbase(), us[k], {R}.subrange(cuts[k], end as int))); // [C19:reserve-reachable-only]
                    lemma_step_roots(us, g, {R}, k, cuts[k], end as int, tb, n0, ru0, ids0, wus0, {TABLES}, convert.wbase()); // [C19:reserve-every-unit]
                    lemma_step_slices(us, g, {R}, cuts, k, cuts[k], end as int, tb, n0, ru0, ids0, wus0, {TABLES}, convert.wbase()); // [C19:reserve-reachable-only]
                    lemma_step_keys(us, {R}, k, cuts[k], end as int, tb, ru0, ids0, wus0, {TABLES}, convert.wbase()); // [C19:reserve-only]
                    cuts = cuts.push(end as int);
                }}''', end=True)
    fbase.insert_after_loop(imp, 'new_with_filter', 0, f'''proof {{
                lemma_partition_end(us, {R}, end as int);
                assert(partition_ok(us, {R}, cuts, us.len() as int) && cuts[us.len() as int] == {R}.len());
            }}''')
    sk.add(M, imp)


def populate(ctx, sk):
    fbase.populate_deps(ctx, sk)
    fbase.populate_read_types(ctx, sk)
    fbase.populate_refs(ctx, sk)
    populate_read_offsets(ctx, sk)
    populate_write_types(ctx, sk)
    populate_reserve(ctx, sk)
    return sk


def build(ctx):
    sk = fbase.FilterSkeleton(ctx, core.rd('prelude/crate.rs'))
    core.populate(ctx, sk)
    populate(ctx, sk)
    return sk
