"""B-filter_reserve: RESERVATION of the filtered entries, src/write/unit.rs `mod convert`  (DESIGN.md 6 C19, mechanism
"reservation of only reachable entries, per unit").

Build = core.populate; filter.populate_deps / populate_read_types / populate_refs (the graph layer with the get_reachable
contract, the read-side types and the read::Dwarf / UnitHeader models of batch `filter`; filter.py itself is untouched and
FilterUnit / has_die_back_edge are NOT re-verified here); populate (this file).  Ghost specs: vx/specs/filter_reserve.rs.

WHY: a unit whose only retained entry is its ROOT (e.g. a partial unit that another unit imports through DW_AT_import, or a
unit none of whose non-root entries is reachable) must still be reserved: `reserve_unit` is the only place that registers
the root entry's id, and ConvertUnit::convert_attribute fails with InvalidDebugInfoRef for a reference to an offset without
an id ("writing never fails for a missing reference").  So the reservation loop must call reserve_unit for EVERY unit.

FUNCTIONS UNDER CONTRACT (real bodies, all owned by C19)
  write::unit::convert::ConvertUnitSection::new_with_filter        the partitioning loop + debug_assert_eq!(end, len)
  write::unit::convert::ConvertUnitSection::reserve_unit
  read::UnitSectionOffset::to_unit_offset  (R-OFFSET: specialised to T = usize, body verbatim)
  write::UnitTable::{add, get_mut}, write::Unit::{root, reserve, encoding}, UnitId::new / UnitEntryId::new (define_id!)

CONTRACTS   U = filter.units, g/req = the filter's dependency graph / required list, n0 = units already in dwarf.units
  reserve_unit(unit, offsets)
    [C19:reserve-root]        the unit's ROOT offset gets (the new unit's id, that unit's root entry id)
    [C19:reserve-offsets]     offsets[j] gets (the new unit's id, entry id 1 + j of that unit): distinct fresh ids, in order
    [C19:reserve-only]        no other key is added to the id table; keys that are neither the root nor in `offsets` keep
                              their value; the new unit has reserved exactly 1 + |offsets| ids
    [C19:reserve-unit-logged] read_units grows by exactly (unit, new id); dwarf.units grows by exactly one unit, the others
                              are unchanged
  new_with_filter(dwarf, filter), on Ok(c): there are r (the reachable list) and cut points cuts[0..=|U|] with
    reach_valid/required/closed/minimal(g, req, r), sorted, no duplicates  (the get_reachable contract of batch filter)
    [C19:reserve-every-unit]      c.read_units has exactly |U| elements, element i is (U[i], id n0 + i): one reserve_unit per
                                  unit, in input order, whatever the number of reachable entries;  every U[i]'s root offset is
                                  in the id table with (id n0 + i, root of written unit n0 + i)
    [C19:reserve-reachable-only]  partition_ok(U, r, cuts): cuts is monotone from 0 to |r| and r[j] lies in unit i  <==>
                                  cuts[i] <= j < cuts[i+1]  (the slice passed for unit i is EXACTLY the reachable offsets of
                                  unit i: nothing dropped, nothing from another unit);  r[j] of slice i maps to
                                  (id n0 + i, entry id 1 + j - cuts[i]);  written unit n0 + i has 1 + cuts[i+1] - cuts[i] ids
    [C19:reserve-only]            every key of the id table is a root offset of some U[i] or some r[j]
    the debug_assert_eq!(end, offsets.len()) is a proof obligation (R-ASSERT): every reachable offset was handed to a unit
    safety: offsets.get(end) / &offsets[start..end] in bounds, `end += 1` and `reserved += 1` do not overflow, termination
    Ok is always returned ([C19:reserve-total] res is Ok).

ASSUMPTIONS ABOUT THE CALLER (requires of new_with_filter; `section_wf`, not verified here)
  W-ORDER   units_ordered(U): the units are in section order and do not overlap (i < j, a in unit i, b in unit j => a < b).
            Established by DebugInfoUnitHeadersIter (batch units: C02 header layout) - FilterUnitSection::read_unit pushes
            the units in the order the header iterator yields them.
  W-REG     every registered entry of the graph lies in some unit of U (FilterUnit::read_entry [C19:entry-in-bounds] registers
            uso_unit(h, offset) only for in-bounds offsets of the unit being read).
  W-ROOT    the root offset of every unit is in bounds (FilterUnit::new read the root abbreviation successfully) and is not a
            registered entry (FilterUnit::new skips the root; only later entries are registered).
  W-CAP     the graph has fewer than usize::MAX entries (each occupies > 1 byte of memory) - bounds `reserved += 1`.
  dwarf.units.len() + |U| <= usize::MAX is NOT needed (Vec::push has no overflow obligation in vstd).

TRUSTED beyond filter's (each external_body / assume_specification in the generated file)
  UnitHeader::root_offset     header_size() arithmetic on the abstract Offset type (batch units proves [C02:root-offset]
                              res.0 == hdr_size()); here: res == root_spec() (uninterpreted) - only "the same offset every
                              time" is used
  write::Unit::new            builds RangeListTable/LocationListTable/DebuggingInformationEntry (batch wunit's subject);
                              assumed: reserved == 1, root id = (base, 0), encoding stored.  R-FIELDS projects write::Unit to
                              {base_id, encoding, reserved, root} (the only fields root/reserve/encoding touch)
  LineProgram (MODEL type), LineProgram::none     opaque argument of Unit::new
  HashMap::default            std; model: the empty map (vstd specifies HashMap::new only)
  R-FIELDS: write::Dwarf projected to {units}; FilterUnitSection.unit_headers dropped (untouched by new_with_filter)
  R-SELF call site: `filter.deps.get_reachable()` -> `get_reachable(filter.deps)` (filter's R-SELF free fn)

NOT DECIDED
  ConvertUnitSection::new (unfiltered path: Dwarf::units()/unit() iterator + read_entry_offsets; all three would be models),
  ConvertSplitUnitSection::{new_with_filter, new_with_offsets} (single split unit: reserves unconditionally, no loop),
  section_wf itself (that FilterUnitSection::read_unit / FilterUnit::new establish it), ConvertUnit::{read_entry, add_entry}
  (that an entry with an id is actually added / a reference to a reserved id resolves), hashbrown vs the std map model.
OBSERVATION  the doc comment of new_with_filter says "Units with no reachable entries will be skipped." - the code does NOT
  skip them (and must not, see WHY); the comment describes the seeded defect, not the behaviour.
"""
import re
import lib
from lib import *
from batches import core, wcore, wunit
from batches import filter as fbase

# `filter_attributes` (FilterUnit impl) is not part of this build
TRUSTED = [t for t in fbase.TRUSTED if t != 'filter_attributes'] + [
    'root_offset', 'new', 'LineProgram', 'none', 'std::collections::HashMap::<K1, V>::default',
]
VERUS_ARGS = ['--rlimit', '40']
CONVERT = fbase.CONVERT
M = 'write::unit::convert'
OWN = ['C19']


def populate_write_types(ctx, sk):
    """write-side containers reserve_unit touches: BaseId, UnitId/UnitEntryId, UnitTable, Unit (projected), Dwarf (projected)"""
    wmod = Source('write/mod.rs', ctx)
    wu = Source('write/unit.rs', ctx)
    wd = Source('write/dwarf.rs', ctx)
    sk.mods['write']['uses'] += '\npub use self::dwarf::*;\npub use self::line::*;'
    sk.add('write', wmod.item(r'^struct BaseId\(usize\);', label='BaseId').clean())
    wcore.ensure_structural(sk, 'write', 'BaseId')

    sk.module('write::line', '')
    sk.add('write::line', '''
// ---- MODEL (not gimli text): `write::LineProgram` is only passed through (`LineProgram::none()` -> `Unit::new`)
#[verifier::external_body]
#[derive(Debug)]
pub struct LineProgram { model_only: () }
impl LineProgram {
    #[verifier::external_body]
    pub fn none() -> Self { unimplemented!() }
}
''', label='LineProgram(model)')

    sk.mods['write::unit']['uses'] += '''
use crate::common::Encoding;
use crate::write::{BaseId, LineProgram};'''
    for name in ['UnitId', 'UnitEntryId']:
        st, im = wunit.define_id(ctx, name)
        im.own(OWN)
        im.insert_members('    pub closed spec fn base(&self) -> BaseId { self.base_id }\n'
                          '    pub closed spec fn ix(&self) -> usize { self.index }')
        im.splice('new', ret='res', ensures=['res.base() == base_id && res.ix() == index'])
        sk.add('write::unit', st)
        sk.add('write::unit', im)

    sk.add('write::unit', wu.item(r'^pub struct UnitTable \{', label='UnitTable').clean())
    ut = wu.item(r'^impl UnitTable \{', label='UnitTable(impl)')
    ut.keep_only(['add', 'get_mut'])
    ut.clean()
    ut.own(OWN)
    ut.insert_members('    pub closed spec fn tbase(&self) -> BaseId { self.base_id }\n'
                      '    pub closed spec fn tunits(&self) -> Seq<Unit> { self.units@ }')
    ut.splice('add', ret='res', ensures=[
        'final(self).tunits() == old(self).tunits().push(unit)', 'final(self).tbase() == old(self).tbase()',
        'res.base() == old(self).tbase() && res.ix() == old(self).tunits().len()'])
    # "Panics if `id` is invalid": explicit precondition (the debug_assert_eq! on base_id and the index)
    ut.splice('get_mut', ret='res',
              requires=['id.base() == old(self).tbase()', 'id.ix() < old(self).tunits().len()'],
              ensures=['*res == old(self).tunits()[id.ix() as int]',
                       'final(self).tunits() == old(self).tunits().update(id.ix() as int, *final(res))',
                       'final(self).tbase() == old(self).tbase()'], canary=True)
    sk.add('write::unit', ut)

    ust = wu.item(r'^pub struct Unit \{', label='Unit(write)')
    # R-FIELDS: Unit::{root, reserve, encoding} touch base_id, encoding, reserved, root only (Unit::new is contract-only)
    for f in ['pub line_program: LineProgram,', 'pub ranges: RangeListTable,', 'pub locations: LocationListTable,',
              'entries: Vec<DebuggingInformationEntry>,', 'written: bool,', 'offsets: UnitOffsets,']:
        ust.custom('R-FIELDS', f, '')
    sk.add('write::unit', ust.clean())
    ui = wu.item(r'^impl Unit \{', label='Unit(write impl)')
    ui.keep_only(['new', 'encoding', 'root', 'reserve'])
    ui.extbody(['new'])
    ui.clean()
    ui.own(OWN)
    ui.insert_members('''    pub closed spec fn ubase(&self) -> BaseId { self.base_id }
    pub closed spec fn enc(&self) -> Encoding { self.encoding }
    pub closed spec fn nreserved(&self) -> usize { self.reserved }
    pub closed spec fn root_id(&self) -> UnitEntryId { self.root }''')
    ui.splice('new', ret='res', ensures=[
        'res.enc() == encoding', 'res.nreserved() == 1', 'res.root_id().base() == res.ubase() && res.root_id().ix() == 0'])
    ui.splice('encoding', ret='res', ensures=['res == self.enc()'])
    ui.splice('root', ret='res', ensures=['res == self.root_id()'])
    SAME = 'final(self).ubase() == old(self).ubase() && final(self).enc() == old(self).enc() && final(self).root_id() == old(self).root_id()'
    ui.splice('reserve', ret='res',
              requires=['old(self).nreserved() < usize::MAX'],     # `self.reserved += 1` (overflow check of the debug build)
              ensures=['res.base() == old(self).ubase() && res.ix() == old(self).nreserved()',
                       'final(self).nreserved() == old(self).nreserved() + 1', SAME], canary=True)
    sk.add('write::unit', ui)

    sk.module('write::dwarf', 'use crate::write::UnitTable;')
    dw = wd.item(r'^pub struct Dwarf \{', label='Dwarf(write)')
    for f in ['pub line_programs: Vec<LineProgram>,', 'pub line_strings: LineStringTable,', 'pub strings: StringTable,']:
        dw.custom('R-FIELDS', f, '')
    sk.add('write::dwarf', dw.clean())


def populate_read_offsets(ctx, sk):
    """UnitHeader::root_offset (contract-only), UnitSectionOffset::to_unit_offset (real body at T = usize)"""
    ru = Source('read/unit.rs', ctx)
    uh = ru.item(r'^impl<R, Offset> UnitHeader<R, Offset>\s+where\s+R: Reader<Offset = Offset>,\s+Offset: ReaderOffset,\s+\{\s+pub fn section\(',
                 label='UnitHeader(root_offset)', with_attrs=False)
    uh.keep_only(['root_offset'])
    # header_size() is `length_including_self() - entries_buf.len()` on the abstract Offset type (batch units: [C02:root-offset])
    uh.extbody(['root_offset'])
    uh.clean()
    uh.insert_members('    pub uninterp spec fn root_spec(&self) -> UnitOffset<Offset>;')
    uh.splice('root_offset', ret='res', ensures=['res == self.root_spec()'])
    sk.add('read::unit', uh)

    uso = ru.item(r'^impl<T: ReaderOffset> UnitSectionOffset<T> \{', label='UnitSectionOffset')
    uso.keep_only(['to_unit_offset'])
    # R-OFFSET: `checked_sub` of the abstract `T: ReaderOffset` has no contract; at T = usize it is usize::checked_sub (vstd)
    uso.custom('R-OFFSET', 'impl<T: ReaderOffset> UnitSectionOffset<T> {', 'impl UnitSectionOffset<usize> {')
    uso.custom('R-OFFSET', 'Option<UnitOffset<T>>', 'Option<UnitOffset<usize>>')
    uso.custom('R-OFFSET', 'R: Reader<Offset = T>,', 'R: Reader<Offset = usize>,')
    uso.clean(offset=False)
    uso.own(OWN)
    uso.splice('to_unit_offset', ret='res', ensures=[
        '[C19:unit-membership] res is Some <==> in_unit(*unit, *self)',
        '[C19:unit-membership] res matches Some(o) ==> o.0 == self.0 - unit.spec_offset().0'])
    sk.add('read::unit', uso)


SPEC_CONVERT = '''
    // ---- ghost accessors / table invariant of the reservation (vx/batches/filter_reserve.py)
    pub(crate) type Ids = Map<K, (UnitId, UnitEntryId)>;
    /// the id table after reserving the first k units of `us` with the slices r[cuts[i]..cuts[i+1]]
    pub(crate) open spec fn tables_ok<R: Reader<Offset = usize>>(ru: Seq<(read::Unit<R>, UnitId)>, ids: Ids, wus: Seq<Unit>, tb: BaseId,
        us: Seq<read::Unit<R>>, r: Seq<K>, cuts: Seq<int>, n0: int, k: int) -> bool
    {
        &&& logged(ru, tb, us, n0, k) && wus.len() == n0 + k
        &&& roots_ok(ru, ids, wus, us, n0, k)
        &&& slices_ok(ru, ids, wus, r, cuts, n0, k)
        &&& keys_only(ids, us, r, cuts, k)
    }
    /// [C19:reserve-every-unit] one (unit, id) record per input unit, in input order, ids n0, n0 + 1, ..
    pub(crate) open spec fn logged<R: Reader<Offset = usize>>(ru: Seq<(read::Unit<R>, UnitId)>, tb: BaseId, us: Seq<read::Unit<R>>, n0: int, k: int) -> bool {
        &&& ru.len() == k
        &&& forall|i: int| 0 <= i < k ==> (#[trigger] ru[i]).0 == us[i] && ru[i].1.base() == tb && ru[i].1.ix() == n0 + i
    }
    /// [C19:reserve-every-unit] the root offset of every reserved unit names (its unit id, the root entry of the written unit)
    pub(crate) open spec fn roots_ok<R: Reader<Offset = usize>>(ru: Seq<(read::Unit<R>, UnitId)>, ids: Ids, wus: Seq<Unit>, us: Seq<read::Unit<R>>, n0: int, k: int) -> bool {
        forall|i: int| 0 <= i < k ==> ids.contains_key(#[trigger] root_key(us[i].header))
            && ids[root_key(us[i].header)] == (ru[i].1, wus[n0 + i].root_id())
    }
    /// [C19:reserve-reachable-only] r[j] of slice i names (unit id i, entry id 1 + position in the slice); unit i has 1 + |slice i| ids
    pub(crate) open spec fn slices_ok<R: Reader<Offset = usize>>(ru: Seq<(read::Unit<R>, UnitId)>, ids: Ids, wus: Seq<Unit>, r: Seq<K>, cuts: Seq<int>, n0: int, k: int) -> bool {
        &&& forall|i: int, j: int| #![trigger cuts[i], r[j]] 0 <= i < k && cuts[i] <= j < cuts[i + 1] ==> ids.contains_key(r[j])
                && ids[r[j]].0 == ru[i].1 && ids[r[j]].1.base() == wus[n0 + i].ubase() && ids[r[j]].1.ix() == 1 + j - cuts[i]
        &&& forall|i: int| 0 <= i < k ==> (#[trigger] wus[n0 + i]).nreserved() == 1 + cuts[i + 1] - cuts[i]
    }
    /// [C19:reserve-only] nothing but roots and reachable offsets of the first k units is in the table
    pub(crate) open spec fn keys_only<R: Reader<Offset = usize>>(ids: Ids, us: Seq<read::Unit<R>>, r: Seq<K>, cuts: Seq<int>, k: int) -> bool {
        forall|key: K| #[trigger] ids.contains_key(key) ==> is_root_of(us, k, key) || is_slice_elem(r, cuts[k], key)
    }
    pub(crate) open spec fn is_root_of<R: Reader<Offset = usize>>(us: Seq<read::Unit<R>>, k: int, key: K) -> bool {
        exists|i: int| 0 <= i < k && key == #[trigger] root_key(us[i].header)
    }
    pub(crate) open spec fn is_slice_elem(r: Seq<K>, e: int, key: K) -> bool {
        exists|j: int| 0 <= j < e && key == #[trigger] r[j]
    }
    pub assume_specification<K1, V>[std::collections::HashMap::<K1, V>::default]() -> (m: std::collections::HashMap<K1, V>)
        ensures m@ == Map::<K1, V>::empty();
'''


def populate_reserve(ctx, sk):
    wu = Source('write/unit.rs', ctx)
    sk.mods[M]['uses'] += '''
use crate::write::unit::{Unit, UnitTable, UnitId, UnitEntryId};
use crate::write::{BaseId, Dwarf, LineProgram};'''
    sk.mods['fspec']['uses'] += '\nuse crate::read::UnitOffset;'
    sk.add('fspec', core.rd('specs/filter_reserve.rs'), label='fres-spec')

    fs = wu.item(r"^    pub struct FilterUnitSection<'a, R: Reader<Offset = usize>>", within=CONVERT, label='FilterUnitSection(struct)')
    # R-FIELDS: the header iterator is only used by read_unit (not extracted)
    fs.custom('R-FIELDS', 'unit_headers: read::DebugInfoUnitHeadersIter<R>,', '')
    fs.clean()
    fs.prepend('#[verifier::reject_recursive_types(R)]')
    ctx.count('R-REJREC')
    sk.add(M, fs)
    cs = wu.item(r"^    pub struct ConvertUnitSection<'a, R: Reader<Offset = usize>>", within=CONVERT, label='ConvertUnitSection(struct)')
    cs.clean()
    cs.prepend('#[verifier::reject_recursive_types(R)]')
    ctx.count('R-REJREC')
    sk.add(M, cs)
    sk.add(M, SPEC_CONVERT, label='fres-tables')

    imp = wu.item(r"^    impl<'a, R: Reader<Offset = usize>> ConvertUnitSection<'a, R> \{", within=CONVERT, label='ConvertUnitSection')
    imp.keep_only(['new_with_filter', 'reserve_unit'])
    # R-SELF (call site): filter.py emits `get_reachable(mut self)` as a free fn `get_reachable(this)`
    imp.custom('R-SELF', 'filter.deps.get_reachable()', 'get_reachable(filter.deps)')
    imp.clean()
    imp.own(OWN)
    imp.insert_members('''        pub closed spec fn ids(&self) -> Ids { self.entry_ids@ }
        pub closed spec fn runits(&self) -> Seq<(read::Unit<R>, UnitId)> { self.read_units@ }
        pub closed spec fn wunits(&self) -> Seq<Unit> { self.dwarf.units.tunits() }
        pub closed spec fn wbase(&self) -> BaseId { self.dwarf.units.tbase() }
        #[verifier::prophetic]
        pub closed spec fn out(&self) -> Dwarf { *final(self.dwarf) }''')
    imp.insert_after('for unit in ', 'itu: ')
    imp.insert_after('for offset in ', 'ito: ')

    # ---------------------------------------------------------------------------------------------- reserve_unit
    H = 'unit.header'
    RK = f'root_key({H})'
    N0 = 'old(self).wunits().len()'
    NEW = f'final(self).wunits()[{N0} as int]'
    ID = 'final(self).runits().last().1'
    imp.splice('reserve_unit', attrs='#[verifier::loop_isolation(false)]',
               requires=[f'root_ok({H})', 'offsets@.len() < usize::MAX'],
               ensures=[
                   f'[C19:reserve-unit-logged] final(self).runits() == old(self).runits().push((unit, {ID})) && {ID}.base() == old(self).wbase() && {ID}.ix() == {N0}',
                   f'[C19:reserve-unit-logged] final(self).wunits().len() == {N0} + 1 && final(self).wbase() == old(self).wbase() '
                   f'&& forall|i: int| 0 <= i < {N0} ==> #[trigger] final(self).wunits()[i] == old(self).wunits()[i]',
                   f'[C19:reserve-root] offsets@.contains({RK}) || (final(self).ids().contains_key({RK}) && final(self).ids()[{RK}] == ({ID}, {NEW}.root_id()))',
                   f'[C19:reserve-offsets] forall|j: int| 0 <= j < offsets@.len() ==> final(self).ids().contains_key(#[trigger] offsets@[j])',
                   f'[C19:reserve-offsets] offsets@.no_duplicates() ==> forall|j: int| 0 <= j < offsets@.len() ==> '
                   f'final(self).ids()[#[trigger] offsets@[j]].0 == {ID} && final(self).ids()[offsets@[j]].1.base() == {NEW}.ubase() && final(self).ids()[offsets@[j]].1.ix() == 1 + j',
                   f'[C19:reserve-only] {NEW}.nreserved() == 1 + offsets@.len()',
                   f'[C19:reserve-only] forall|k: K| #[trigger] final(self).ids().contains_key(k) ==> old(self).ids().contains_key(k) || k == {RK} || offsets@.contains(k)',
                   f'[C19:reserve-only] forall|k: K| #[trigger] old(self).ids().contains_key(k) && k != {RK} && !offsets@.contains(k) ==> final(self).ids().contains_key(k) && final(self).ids()[k] == old(self).ids()[k]',
               ])

    # ---------------------------------------------------------------------------------------------- new_with_filter
    US, G, REQ = 'filter.units@', 'filter.deps.graph()', 'filter.deps.req()'
    N0W = '(old(dwarf).units.tunits().len() as int)'
    imp.splice('new_with_filter', ret='res',
               requires=[f'section_wf({US}, {G})'],
               ensures=[
                   '[C19:reserve-total] res is Ok',
                   f'[C19:reserve-every-unit] res matches Ok(c) ==> logged(c.runits(), old(dwarf).units.tbase(), {US}, {N0W}, {US}.len() as int) '
                   f'&& c.wunits().len() == {N0W} + {US}.len() && roots_ok(c.runits(), c.ids(), c.wunits(), {US}, {N0W}, {US}.len() as int)',
                   f'[C19:reserve-reachable-only] res matches Ok(c) ==> exists|r: Seq<K>, cuts: Seq<int>| is_reachable_list({G}, {REQ}, r) '
                   f'&& #[trigger] partition_ok({US}, r, cuts, {US}.len() as int) && cuts[{US}.len() as int] == r.len() '
                   f'&& slices_ok(c.runits(), c.ids(), c.wunits(), r, cuts, {N0W}, {US}.len() as int)',
                   f'[C19:reserve-only] res matches Ok(c) ==> exists|r: Seq<K>, cuts: Seq<int>| is_reachable_list({G}, {REQ}, r) '
                   f'&& #[trigger] partition_ok({US}, r, cuts, {US}.len() as int) && cuts[{US}.len() as int] == r.len() '
                   f'&& keys_only(c.ids(), {US}, r, cuts, {US}.len() as int)',
               ])
    sk.add(M, imp)


def populate(ctx, sk):
    fbase.populate_deps(ctx, sk)
    fbase.populate_read_types(ctx, sk)
    fbase.populate_refs(ctx, sk)
    populate_read_offsets(ctx, sk)
    populate_write_types(ctx, sk)
    populate_reserve(ctx, sk)
    return sk


def build(ctx):
    sk = fbase.FilterSkeleton(ctx, core.rd('prelude/crate.rs'))
    core.populate(ctx, sk)
    populate(ctx, sk)
    return sk
