"""B-eslice: EndianSlice, the borrowed reader (DESIGN.md 5.1, 6 C01/C10).

Verus models `&[u8]` as a pure sequence, so EndianSlice cannot carry the position-based ghost view of the Reader
contract layer (two equal sub-slices would need different positions). Its methods are therefore verified here against
*content* contracts (what bytes the result holds, what is consumed, never out of bounds); the positional half of the
trait contract (same section, start/len as reported) is discharged on real pointers by Kani (K-ESLICE).
R-IMPL: `impl Reader for EndianSlice` is emitted as `impl ReaderImpl for EndianSlice`, a generated contract-less trait
with the same method signatures, so that the impl block stays verbatim.
"""
from lib import *
from batches import core

TRUSTED = list(core.TRUSTED) + ['offset_from', 'offset_id', 'lookup_offset_id', 'find']

READER_IMPL = """
pub trait ReaderImpl: Sized {
    type Endian: Endianity;
    type Offset;
    fn endian(&self) -> Self::Endian;
    fn len(&self) -> usize;
    fn is_empty(&self) -> bool;
    fn empty(&mut self);
    fn truncate(&mut self, len: usize) -> Result<()>;
    fn offset_from(&self, base: &Self) -> usize;
    fn offset_id(&self) -> ReaderOffsetId;
    fn lookup_offset_id(&self, id: ReaderOffsetId) -> Option<usize>;
    fn find(&self, byte: u8) -> Result<usize>;
    fn skip(&mut self, len: usize) -> Result<()>;
    fn split(&mut self, len: usize) -> Result<Self>;
    fn read_slice(&mut self, buf: &mut [u8]) -> Result<()>;
}
"""


def populate(ctx, sk):
    es = Source('read/endian_slice.rs', ctx)
    sk.mods['read']['uses'] += '\npub use self::endian_slice::*;'
    sk.module('read::endian_slice', """use core::fmt;
use core::ops::{Deref, Range, RangeFrom, RangeTo};
use core::str;
use crate::endianity::Endianity;
use crate::read::{Error, ReaderOffsetId, Result};
use crate::vspec::*;""")
    sk.add('read::endian_slice', READER_IMPL, label='ReaderImpl')
    ess = es.item(r'^pub struct EndianSlice<', label='EndianSlice').clean()
    ess.prepend('#[derive(Debug)]')
    sk.add('read::endian_slice', ess)
    esi = es.item(r"^impl<'input, Endian> EndianSlice<'input, Endian>", label='EndianSlice(inherent)')
    esi.drop(['to_string', 'to_string_lossy', 'find', 'offset_from', 'split_at'])
    esi.clean()
    esi.own(['C01', 'C10'])
    esi.insert_members('    pub closed spec fn bytes(&self) -> Seq<u8> { self.slice@ }\n    pub closed spec fn big(&self) -> bool { self.endian.big() }')
    esi.splice('new', ret='res', ensures=['res.bytes() == slice@', 'res.big() == endian.big()'])
    esi.splice('slice', ret='res', ensures=['[C10:view] res@ == self.bytes()'])
    esi.splice('read_slice', ret='res', ensures=[
        '[C10:view] res matches Ok(v) ==> old(self).bytes().len() >= len && v@ == old(self).bytes().take(len as int) && final(self).bytes() == old(self).bytes().skip(len as int) && final(self).big() == old(self).big()',
        '[C01:bounds] res is Err ==> final(self).bytes() == old(self).bytes() && final(self).big() == old(self).big()',
        '[C01:eof-exact] res is Err <==> old(self).bytes().len() < len'], canary=True)
    sk.add('read::endian_slice', esi)
    esr = es.item(r"^impl<'input, Endian> Reader for EndianSlice<'input, Endian>", label='Reader for EndianSlice')
    esr.drop(['to_slice', 'to_string', 'to_string_lossy'])
    esr.custom('R-IMPL', "Reader for EndianSlice<'input, Endian>", "ReaderImpl for EndianSlice<'input, Endian>")
    esr.extbody(['offset_from', 'offset_id', 'lookup_offset_id', 'find'])
    esr.clean(offset=False)
    esr.own(['C01', 'C10'])
    esr.splice('endian', ret='res', ensures=['res.big() == self.big()'])
    esr.splice('len', ret='res', ensures=['[C10:view] res == self.bytes().len()'])
    esr.splice('is_empty', ret='res', ensures=['res == (self.bytes().len() == 0)'])
    esr.splice('empty', ensures=['final(self).bytes().len() == 0', 'final(self).big() == old(self).big()'])
    esr.splice('truncate', ret='res', ensures=[
        '[C10:view] res is Ok ==> final(self).bytes() == old(self).bytes().take(len as int) && final(self).big() == old(self).big()',
        '[C01:bounds] res is Err ==> final(self).bytes() == old(self).bytes() && final(self).big() == old(self).big()',
        '[C01:eof-exact] res is Err <==> old(self).bytes().len() < len'])
    esr.splice('skip', ret='res', ensures=[
        '[C10:view] res is Ok ==> final(self).bytes() == old(self).bytes().skip(len as int) && final(self).big() == old(self).big()',
        '[C01:bounds] res is Err ==> final(self).bytes() == old(self).bytes() && final(self).big() == old(self).big()',
        '[C01:eof-exact] res is Err <==> old(self).bytes().len() < len'])
    esr.splice('split', ret='res', ensures=[
        '[C10:view] res matches Ok(r) ==> r.bytes() == old(self).bytes().take(len as int) && r.big() == old(self).big() && final(self).bytes() == old(self).bytes().skip(len as int) && final(self).big() == old(self).big()',
        '[C01:bounds] res is Err ==> final(self).bytes() == old(self).bytes() && final(self).big() == old(self).big()',
        '[C01:eof-exact] res is Err <==> old(self).bytes().len() < len'])
    # (no contract on the trait-level read_slice(buf): its name collides with the inherent read_slice(len) in Verus' spec encoding;
    #  its body is still checked for safety, and its callee, the inherent read_slice, carries the content contract)
    sk.add('read::endian_slice', esr)
    return sk


def build(ctx):
    sk = Skeleton(ctx, core.rd('prelude/crate.rs'))
    core.populate(ctx, sk)
    populate(ctx, sk)
    return sk
