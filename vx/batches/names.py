"""B-names: `.debug_names` header, table layout, abbreviation table and entry pool (`/repo/src/read/names.rs`, the part that
batch `index` leaves open; DESIGN.md 6 C17 "ND: NameIndex::new layout, NameEntry::parse" and 6 C01 "ND: most of names.rs").

Properties: C17 (functional clauses) and C01 (safety / termination / iterator protocol of every function below).
Oracles: vx/specs/names.rs, written from DWARF 5 section 6.1.1.4 (header fields `nh_*`, table geometry `NamesGeom`,
abbreviation table as a fold over the bytes `ndecls` / `nattrs`, first-match lookup `ndecl_find`) and the Python table NFORMS
below (DWARF 5 section 7.5.5/7.5.6: the forms of classes constant / reference / flag an index attribute can have), from which
both the spec functions `nform_size` / `nform_value` / `nform_known` and the per-form clauses of
`read_debug_names_form_value` are generated.

Functions under contract (real text):
  DebugNames::headers, NameIndexHeaderIter::next      iterator protocol; offset of each header; consumption
  NameIndexHeader::parse                              [C17:names-header-*]: unit length/format, version == 5, counts,
                                                      augmentation string (window, padded to 4), content window, exact
                                                      consumption, EXACT reject condition (`nh_ok`)
  NameIndexHeader::{index, accessors}
  NameIndex::new                                      [C17:names-layout]: each of the 9 tables is the stated window of the unit
                                                      (CU list, local TU list, foreign TU list, buckets, hashes, string
                                                      offsets, entry offsets, abbreviation table, entry pool); all
                                                      `count * size` products and the running sum are overflow-free for any
                                                      u32 counts; establishes `wf()` -- the size arithmetic batch `index`
                                                      *assumes* for NameBucketIter/NameHashIter (text of `wf` imported from
                                                      index.py) -- and `wf_tables()`; truncated unit => Err
  NameIndex::{compile_unit, local_type_unit, foreign_type_unit, type_unit, name_string_offset, default_compile_unit,
              *_count, has_hash_table, names, name_entries, name_entry, abbreviations}
                                                      0-based index -> `index * size` in the right table, Err <=> index out of range
  NameTableIter::next                                 0, 1, .. name_count-1, then None
  NameAbbreviations::parse                            [C17:names-abbrev-*]: the table equals `ndecls(bytes)`; code 0 / end of
                                                      table ends it; tag 0, (0, form), (idx, 0) rejected; nested loops
                                                      terminate (measure: remaining bytes)
  NameAbbreviations::get                              first declaration with the code (external_body: `iter().find(closure)`)
  NameAbbreviation / NameAbbreviationAttribute accessors
  read_debug_names_form_value                         [C17:names-entry-form-<form>] one clause per form from NFORMS; unknown form => Err
  NameEntry::parse                                    [C17:names-entry-*]: code 0 => Ok(None); unknown code => Err; tag and the
                                                      i-th value decoded by the i-th form of the declaration at the running
                                                      offset; exact consumption
  NameEntryIter::{new, next}                          entry offset table lookup (0-based index), iterator protocol, entry offsets
  NameEntry::{compile_unit, type_unit, die_offset, parent, type_hash}, NameAttribute::{..}   first attribute with that
                                                      DW_IDX_*; value shape required by DWARF 5 table 6.1

  index base: `NameTableIndex` is 0-based (documented); the 1-based bucket values of the data are adjusted in
  `NameBucketIter::new` (batch index); string / entry offset tables are indexed by `index.0 * offset_size`, valid iff
  `index.0 < name_count` ([C17:names-string-offset*], [C17:names-entry-series*]).

FINDING F-names-1 (open, low severity; native/src/bin/f_names_1.rs): `NameIndex::type_unit_count` adds the two hostile u32 header
  counts unchecked (`local_type_unit_count + foreign_type_unit_count`).  `NameIndex::new` accepts every pair of counts whose
  lists fit into the unit, and a 64-bit-format unit may be large enough (>= 32 GiB: local = 0xffff_ffff, foreign = 1), so the
  sum overflows: panic in debug builds, 0 in release builds (the documented bound of `type_unit` then excludes every index).
  The reproducer maps a sparse file; `new` succeeds, both lists are readable, `type_unit_count()` panics.  This is the one
  obligation (built-in overflow check, owner C01) with which `python3 vx/run.py names` exits 1 on the current tree.
  Minimal fix: reject in `NameIndex::new` when `u64::from(local) + u64::from(foreign) > u32::MAX` (then add that bound to
  `wf_tables()` and `requires self.wf_tables()` on `type_unit_count`), or return u64.
  All other `count * size` products are computed in u64 from u32 x {4, 8} and cannot overflow (proved), the tables are split
  off one after another so no sum of sizes is ever formed, and `index * size` in the accessors is u32 x u8 in u64 (proved).

Observations (no failing obligation): the header's 2 padding bytes ("reserved, must be zero") are skipped unchecked;
  augmentation_string_size need not be a multiple of 4 (the code pads, which also accepts the standard's rounded-up form);
  duplicate abbreviation codes are accepted and the first declaration wins (`get`; `.debug_abbrev` parsing rejects duplicates,
  `.debug_names` does not); DW_IDX_parent is decoded as reference-or-flag_present (LLVM practice; DWARF 5 table 6.1 says
  "constant"); values > u16::MAX for tag / index attribute / form are rejected by the u16 LEB128 reader.

Assumed (TRUSTED): core's ledger + `get` (NameAbbreviations::get is `self.abbreviations.iter().find(|a| a.code == code)`, an
  iterator adaptor with a closure: outside Verus' subset; assumed contract [C17:names-abbrev-get]: a front-to-back search returns
  the first declaration with that code, i.e. `ndecl_find`).  `unsafe impl Structural for DwIdx` (prelude text): derive(PartialEq)
  on the dw! newtype is structural equality.  Two verified strengthenings of core items are reused from index.py
  (strengthen_core).  Rewrites beyond the standard rules, all logged: R-CLONE (reader clones), R-CTORFN (`.map(Some)`,
  `.map(DebugInfoOffset)`, .. eta-expanded with a verified ensures), R-CLOSURE-ENS (`.map_err(|_| Error::X(val))`), R-IMPL
  (`impl Iterator for NameTableIter` -> contract-less twin trait), R-DROP (find_by_bucket / find_by_hash: batch index;
  name_string: needs DebugStr).

Not decided here: NameBucketIter / NameHashIter (batch index; its assumption `NameIndex::wf()` is proved here by `new`),
  case_folding_djb_hash, `NameIndex::name_string` (DebugStr lookup), the `Iterator` / `FallibleIterator` adaptor impls of
  NameIndexHeaderIter / NameEntryIter (`next().transpose()`, one-line delegations that inherit the protocol), DebugNames::{new,
  borrow, from} plumbing, acceptance ("no spurious rejection") of abbreviation tables and LEB128-sized entry values (core's LEB128
  contracts characterise Ok, not Err), semantic checks across tables (entry offsets pointing at entry starts, parent links
  acyclic, CU/TU indices of entries in range until they are looked up), readers with Offset != usize (A-OFFSET), agreement with
  llvm-dwarfdump --debug-names.
"""
import re
from lib import *
from batches import core
from batches import index as index_batch

TRUSTED = list(core.TRUSTED) + ['get']     # NameAbbreviations::get: `iter().find(closure)` (iterator adaptor)
VERUS_ARGS = ['--rlimit', '40']
MULTIPLE_ERRORS = 6
OWN = ['C01', 'C17']


def index_names_ghost():
    """the ghost accessors + `wf()` of NameIndex exactly as batch `index` states (and assumes) them: the first impl block of
    index.NAMES_GHOST.  Imported as text so that the predicate proved by `NameIndex::new` here IS the one assumed there."""
    t = index_batch.NAMES_GHOST
    a = t.find('impl<R: Reader<Offset = usize>> NameIndex<R> {')
    b = t.find('impl<R: Reader<Offset = usize>> NameBucketIter<R>')
    if a < 0 or b < a or 'pub open spec fn wf(&self) -> bool' not in t[a:b]:
        raise Lost('names: index.NAMES_GHOST no longer has the NameIndex accessor block')
    return t[a:b]


GHOST = '''
impl<R: Reader<Offset = usize>> DebugNames<R> {
    pub closed spec fn v_section(&self) -> RView { self.section.rv() }
}

impl<R: Reader<Offset = usize>> NameIndexHeaderIter<R> {
    pub closed spec fn v_input(&self) -> RView { self.input.rv() }
    pub closed spec fn v_end_offset(&self) -> nat { self.end_offset as nat }
    /// `end_offset - input.len()` is the section offset of the next header
    pub open spec fn wf(&self) -> bool { self.v_end_offset() >= self.v_input().len }
    /// position of the section start in the underlying buffer (constant over the iteration)
    pub open spec fn base(&self) -> int { self.v_input().start - (self.v_end_offset() - self.v_input().len) }
}

impl<R: Reader<Offset = usize>> NameIndexHeader<R> {
    pub closed spec fn v_offset(&self) -> nat { self.offset.0 as nat }
    pub closed spec fn v_length(&self) -> nat { self.length as nat }
    pub closed spec fn v_format(&self) -> Format { self.format }
    pub closed spec fn v_version(&self) -> u16 { self.version }
    pub closed spec fn v_cu_count(&self) -> u32 { self.compile_unit_count }
    pub closed spec fn v_ltu_count(&self) -> u32 { self.local_type_unit_count }
    pub closed spec fn v_ftu_count(&self) -> u32 { self.foreign_type_unit_count }
    pub closed spec fn v_bucket_count(&self) -> u32 { self.bucket_count }
    pub closed spec fn v_name_count(&self) -> u32 { self.name_count }
    pub closed spec fn v_abbrev_size(&self) -> u32 { self.abbrev_table_size }
    pub closed spec fn v_aug(&self) -> Option<RView> { match self.augmentation_string { Some(r) => Some(r.rv()), None => None } }
    /// everything of the unit behind the header
    pub closed spec fn v_content(&self) -> RView { self.content.rv() }
    /// the table geometry the header announces
    pub open spec fn geom(&self) -> NamesGeom {
        NamesGeom { ws: word_size(self.v_format()), cu: self.v_cu_count() as nat, ltu: self.v_ltu_count() as nat, ftu: self.v_ftu_count() as nat,
                    bc: self.v_bucket_count() as nat, nc: self.v_name_count() as nat, ab: self.v_abbrev_size() as nat }
    }
}

impl<R: Reader<Offset = usize>> NameIndex<R> {
    pub closed spec fn v_format(&self) -> Format { self.format }
    pub closed spec fn v_cu_count(&self) -> u32 { self.compile_unit_count }
    pub closed spec fn v_ltu_count(&self) -> u32 { self.local_type_unit_count }
    pub closed spec fn v_ftu_count(&self) -> u32 { self.foreign_type_unit_count }
    pub closed spec fn v_cu_list(&self) -> RView { self.compile_unit_list.rv() }
    pub closed spec fn v_ltu_list(&self) -> RView { self.local_type_unit_list.rv() }
    pub closed spec fn v_ftu_list(&self) -> RView { self.foreign_type_unit_list.rv() }
    /// string offsets / entry offsets of the name table, entry pool
    pub closed spec fn v_strs(&self) -> RView { self.name_table_data.rv() }
    pub closed spec fn v_entry_offsets(&self) -> RView { self.entry_offset_data.rv() }
    pub closed spec fn v_pool(&self) -> RView { self.entry_pool.rv() }
    /// the parsed abbreviation table
    pub closed spec fn v_abbrevs(&self) -> NameAbbreviations { self.abbreviations }
    pub open spec fn ws(&self) -> nat { word_size(self.v_format()) }
    /// every table has one element per announced count (established by `new`; what the accessors rely on)
    pub open spec fn wf_tables(&self) -> bool {
        &&& self.wf()
        &&& self.v_cu_list().len == self.v_cu_count() * self.ws()
        &&& self.v_ltu_list().len == self.v_ltu_count() * self.ws()
        &&& self.v_ftu_list().len == self.v_ftu_count() * 8
        &&& self.v_strs().len == self.v_name_count() * self.ws()
        &&& self.v_entry_offsets().len == self.v_name_count() * self.ws()
    }
}

impl NameTableIter {
    pub closed spec fn v_index(&self) -> u32 { self.name_table_index.0 }
    pub closed spec fn v_name_count(&self) -> u32 { self.name_count }
}
'''

ITERATOR_IMPL = '''
pub trait IteratorImpl {
    type Item;
    fn next(&mut self) -> Option<Self::Item>;
}
'''


def ctor_some(it, ty, count=1):
    """R-CTORFN (same rule as units.py / index.py): the constructor `Some` used as a function value is eta-expanded to a
    closure whose (verified) ensures states what the constructor does"""
    it.custom('R-CTORFN', '.map(Some)', f'.map(|verif_v: {ty}| -> (verif_r: Option<{ty}>) ensures verif_r == Some(verif_v) {{ Some(verif_v) }})', count=count)
    return it


def ctorfn(it, ctor, pty, rty, count=99):
    it.custom('R-CTORFN', f'.map({ctor})', f'.map(|verif_v: {pty}| -> (verif_r: {rty}) ensures verif_r.0 == verif_v {{ {ctor}(verif_v) }})', count=count)
    return it


def hdr_clauses(B0, h, off):
    """what a parsed header `h` says about the bytes at `B0` (DWARF 5 6.1.1.4.1)"""
    return [
        f'[C17:names-header-length] {h}.v_format() == nh_format({B0}) && {h}.v_length() == nh_len({B0}) && {h}.v_offset() == {off}',
        f'[C17:names-header-version] {h}.v_version() == 5 && nh_version({B0}) == 5',
        f'[C17:names-header-counts] {h}.v_cu_count() == nh_word({B0}, 0) && {h}.v_ltu_count() == nh_word({B0}, 1) && {h}.v_ftu_count() == nh_word({B0}, 2) '
        f'&& {h}.v_bucket_count() == nh_word({B0}, 3) && {h}.v_name_count() == nh_word({B0}, 4) && {h}.v_abbrev_size() == nh_word({B0}, 5)',
        f'[C17:names-header-augmentation][C10:view] (nh_aug_size({B0}) == 0 ==> {h}.v_aug() is None) && (nh_aug_size({B0}) > 0 ==> '
        f'({h}.v_aug() matches Some(a) && window({B0}, a, (nh_ils({B0}) + 32) as nat, nh_aug_size({B0}))))',
        f'[C17:names-header-content][C10:view] nh_fixed({B0}) <= nh_len({B0}) && window({B0}, {h}.v_content(), (nh_ils({B0}) + nh_fixed({B0})) as nat, (nh_len({B0}) - nh_fixed({B0})) as nat)',
    ]


def layout_clauses(h, ix):
    C, G = f'{h}.v_content()', f'{h}.geom()'
    return [
        f'[C17:names-layout-counts] {ix}.v_format() == {h}.v_format() && {ix}.v_cu_count() == {h}.v_cu_count() && {ix}.v_ltu_count() == {h}.v_ltu_count() '
        f'&& {ix}.v_ftu_count() == {h}.v_ftu_count() && {ix}.v_bucket_count() == {h}.v_bucket_count() && {ix}.v_name_count() == {h}.v_name_count()',
        f'[C17:names-layout][C10:view] window({C}, {ix}.v_cu_list(), 0, {G}.cu_len()) && window({C}, {ix}.v_ltu_list(), {G}.off_ltu(), {G}.ltu_len()) '
        f'&& window({C}, {ix}.v_ftu_list(), {G}.off_ftu(), {G}.ftu_len())',
        f'[C17:names-layout][C10:view] window({C}, {ix}.v_buckets(), {G}.off_buckets(), {G}.buckets_len()) && window({C}, {ix}.v_hashes(), {G}.off_hashes(), {G}.hashes_len())',
        f'[C17:names-layout][C10:view] window({C}, {ix}.v_strs(), {G}.off_strs(), {G}.strs_len()) && window({C}, {ix}.v_entry_offsets(), {G}.off_entry_offsets(), {G}.strs_len())',
        f'[C17:names-layout][C10:view] {G}.off_pool() <= {C}.len && window({C}, {ix}.v_pool(), {G}.off_pool(), ({C}.len - {G}.off_pool()) as nat)',
        f'[C17:names-layout-wf] {ix}.wf() && {ix}.wf_tables()',
    ]


# ---------------------------------------------------------------------------------------------------------------------
# NFORMS: the forms an index attribute value can have (DWARF 5 6.1.1.4.8 "each attribute value is encoded according to its
# form"; table 6.1: classes constant, reference, flag) -- (code from table 7.6, name, layout, value shape)
#   layout: u1 u2 u4 u8 fixed-size unsigned, uleb, zero (no bytes)
#   shape : Unsigned (constant), Offset (reference), Flag (u1: value != 0; zero: true)
NFORMS = [
    (0x0b, 'DW_FORM_data1', 'u1', 'Unsigned'),
    (0x05, 'DW_FORM_data2', 'u2', 'Unsigned'),
    (0x06, 'DW_FORM_data4', 'u4', 'Unsigned'),
    (0x07, 'DW_FORM_data8', 'u8', 'Unsigned'),
    (0x0f, 'DW_FORM_udata', 'uleb', 'Unsigned'),
    (0x11, 'DW_FORM_ref1', 'u1', 'Offset'),
    (0x12, 'DW_FORM_ref2', 'u2', 'Offset'),
    (0x13, 'DW_FORM_ref4', 'u4', 'Offset'),
    (0x14, 'DW_FORM_ref8', 'u8', 'Offset'),
    (0x15, 'DW_FORM_ref_udata', 'uleb', 'Offset'),
    (0x0c, 'DW_FORM_flag', 'u1', 'Flag'),
    (0x19, 'DW_FORM_flag_present', 'zero', 'Flag'),
]
NSIZE = {'u1': 1, 'u2': 2, 'u4': 4, 'u8': 8, 'zero': 0}
# DW_IDX_* (DWARF 5 table 7.23) -- cross-checked against constants.rs by lemma_names_codes
NIDX = [('DW_IDX_compile_unit', 1), ('DW_IDX_type_unit', 2), ('DW_IDX_die_offset', 3), ('DW_IDX_parent', 4), ('DW_IDX_type_hash', 5)]


def form_raw(v, p, layout):
    """spec term: raw unsigned operand of this layout at offset p of view v"""
    if layout == 'u1':
        return f'{v}.at({p}) as nat'
    if layout in ('u2', 'u4', 'u8'):
        return f'{v}.u({p}, {NSIZE[layout]})'
    if layout == 'uleb':
        return f'{v}.uleb({p})'
    return '0nat'


def form_val(v, p, layout, shape):
    raw = form_raw(v, p, layout)
    if shape == 'Flag':
        return 'NVal::Flag(true)' if layout == 'zero' else f'NVal::Flag(({raw}) != 0)'
    return f'NVal::{shape}({raw})'


def form_size(v, p, layout):
    return f'{v}.leb_len({p})' if layout == 'uleb' else f'{NSIZE[layout]}nat'


def gen_specs():
    known = ' || '.join(f'form == {c:#04x}' for c, _, _, _ in NFORMS)
    size = ' else '.join(f'if form == {c:#04x} {{ {form_size("v", "p", l)} }}' for c, _, l, _ in NFORMS) + ' else { 0 }'
    val = ' else '.join(f'if form == {c:#04x} {{ {form_val("v", "p", l, s)} }}' for c, _, l, s in NFORMS) + ' else { NVal::Flag(false) }'
    codes = [f'constants::{n}.0 == {c:#04x}' for c, n, _, _ in NFORMS] + [f'constants::{n}.0 == {c}' for n, c in NIDX]
    return f"""
// ---- GENERATED from names.NFORMS (DWARF 5 table 7.6 codes, 7.5.5 encodings)
/// forms an index attribute value may have
pub open spec fn nform_known(form: nat) -> bool {{ {known} }}
/// encoded size of a value of this form at offset p of `v`
pub open spec fn nform_size(v: RView, p: int, form: nat) -> nat {{ {size} }}
/// the value of this form encoded at offset p of `v`
pub open spec fn nform_value(v: RView, p: int, form: nat) -> NVal {{ {val} }}
/// offset of the i-th attribute value of an entry whose values start at offset p and are described by `attrs`
pub open spec fn nvals_pos(v: RView, p: int, attrs: Seq<NAttr>, i: int) -> int
    decreases i
{{
    if i <= 0 {{ p }} else {{ let q = nvals_pos(v, p, attrs, i - 1); q + nform_size(v, q, attrs[i - 1].form) }}
}}
""", ('/// gimli\'s constants carry the codes of DWARF 5 tables 7.6 / 7.23 (generated from names.NFORMS / NIDX)\n'
      'proof fn lemma_names_codes()\n    ensures\n' + ''.join(f'        {e}, // [C17:names-codes]\n' for e in codes) + '{}\n')


GHOST2 = """
impl NameAbbreviationAttribute {
    /// the (index attribute, form) pair this specification stands for
    pub closed spec fn sp(&self) -> NAttr { NAttr { idx: self.name.0 as nat, form: self.form.0 as nat } }
}

impl NameAbbreviation {
    pub closed spec fn v_attrs(&self) -> Seq<NameAbbreviationAttribute> { self.attributes@ }
    pub closed spec fn v_code(&self) -> u64 { self.code }
    pub closed spec fn v_tag(&self) -> u16 { self.tag.0 }
    /// the declaration this abbreviation stands for
    pub open spec fn sp(&self) -> NDecl {
        NDecl { code: self.v_code() as nat, tag: self.v_tag() as nat, attrs: attr_seq(self.v_attrs()) }
    }
}

impl NameAbbreviations {
    pub closed spec fn v_list(&self) -> Seq<NameAbbreviation> { self.abbreviations@ }
    /// the table as a sequence of declarations, in table order
    pub open spec fn decls(&self) -> Seq<NDecl> { decl_seq(self.v_list()) }
}

pub open spec fn attr_sp(a: NameAbbreviationAttribute) -> NAttr { a.sp() }
pub open spec fn decl_sp(d: NameAbbreviation) -> NDecl { d.sp() }
pub open spec fn attr_seq(s: Seq<NameAbbreviationAttribute>) -> Seq<NAttr> { Seq::new(s.len(), |i: int| s[i].sp()) }
pub open spec fn decl_seq(s: Seq<NameAbbreviation>) -> Seq<NDecl> { Seq::new(s.len(), |i: int| s[i].sp()) }

/// well-formedness facts of one declaration that `parse` establishes for every declaration it accepts
pub open spec fn ndecl_wf(d: NDecl) -> bool {
    d.code != 0 && d.code <= u64::MAX && d.tag != 0 && d.tag <= 0xffff
    && (forall|j: int| 0 <= j < d.attrs.len() ==> nattr_wf(#[trigger] d.attrs[j]))
}
pub open spec fn nattr_wf(a: NAttr) -> bool { a.idx != 0 && a.idx <= 0xffff && a.form != 0 && a.form <= 0xffff }
"""

GHOST3 = """
impl<R: Reader<Offset = usize>> NameAttributeValue<R> {
    /// the spec value a decoded attribute value stands for
    pub open spec fn sv(self) -> NVal {
        match self {
            NameAttributeValue::Unsigned(x) => NVal::Unsigned(x as nat),
            NameAttributeValue::Offset(o) => NVal::Offset(o as nat),
            NameAttributeValue::Flag(b) => NVal::Flag(b),
        }
    }
}

impl<R: Reader<Offset = usize>> NameAttribute<R> {
    pub closed spec fn v_name(&self) -> u16 { self.name.0 }
    pub closed spec fn v_form(&self) -> u16 { self.form.0 }
    pub closed spec fn v_value(&self) -> NameAttributeValue<R> { self.value }
}

impl<'a, R: Reader<Offset = usize>> NameEntryIter<'a, R> {
    pub closed spec fn v_entries(&self) -> RView { self.entries.rv() }
    pub closed spec fn v_end_offset(&self) -> nat { self.end_offset as nat }
    pub closed spec fn v_abbrevs(&self) -> NameAbbreviations { *self.abbreviations }
    /// `end_offset - entries.len()` is the entry pool offset of the next entry
    pub open spec fn wf(&self) -> bool { self.v_end_offset() >= self.v_entries().len }
    /// position of the start of the entry pool in the underlying buffer (constant over the iteration)
    pub open spec fn base(&self) -> int { self.v_entries().start - (self.v_end_offset() - self.v_entries().len) }
}

/// attribute `a` is the value described by `d`, decoded at offset `pos` of `v`
pub open spec fn nattr_decoded<R: Reader<Offset = usize>>(a: NameAttribute<R>, d: NAttr, v: RView, pos: int) -> bool {
    a.v_name() == d.idx && a.v_form() == d.form && a.v_value().sv() == nform_value(v, pos, d.form)
}

/// index of the first attribute with this DW_IDX_* name
pub open spec fn nattr_first<R: Reader<Offset = usize>>(attrs: Seq<NameAttribute<R>>, idx: u16) -> Option<int>
    decreases attrs.len()
{
    if attrs.len() == 0 { None }
    else if attrs[0].v_name() == idx { Some(0int) }
    else { match nattr_first(attrs.skip(1), idx) { Some(i) => Some(i + 1), None => None } }
}

/// a scan that has not found the name in the first n attributes
pub proof fn lemma_nattr_first<R: Reader<Offset = usize>>(attrs: Seq<NameAttribute<R>>, idx: u16, n: int)
    requires 0 <= n <= attrs.len(), forall|j: int| 0 <= j < n ==> (#[trigger] attrs[j]).v_name() != idx
    ensures
        n < attrs.len() && attrs[n].v_name() == idx ==> nattr_first(attrs, idx) == Some(n),
        n == attrs.len() ==> nattr_first(attrs, idx) is None,
    decreases attrs.len()
{
    if attrs.len() != 0 && n > 0 {
        assert(attrs[0].v_name() != idx);
        let t = attrs.skip(1);
        assert forall|j: int| 0 <= j < n - 1 implies (#[trigger] t[j]).v_name() != idx by { assert(t[j] == attrs[j + 1]); }
        if n < attrs.len() { assert(t[n - 1] == attrs[n]); }
        lemma_nattr_first(t, idx, n - 1);
    }
}
"""


def entry_clauses(B0, F, D, e, off):
    """what a decoded entry `e` says about the bytes at `B0` under the abbreviation table `D` (DWARF 5 6.1.1.4.8)"""
    K = f'ndecl_find({D}, {B0}.uleb(0))'
    DA = f'{D}[{K}->Some_0].attrs'
    P1 = f'{B0}.leb_len(0) as int'
    return [
        f'[C17:names-entry-abbrev] {B0}.uleb(0) != 0 && {e}.abbrev_code == {B0}.uleb(0) && {e}.offset.0 == {off} && {K} is Some '
        f'&& {e}.tag.0 == {D}[{K}->Some_0].tag && {e}.attrs@.len() == {DA}.len()',
        f'[C17:names-entry-values] forall|i: int| 0 <= i < {e}.attrs@.len() ==> nattr_decoded(#[trigger] {e}.attrs@[i], {DA}[i], {B0}, nvals_pos({B0}, {P1}, {DA}, i))',
        f'[C17:names-entry-consume] adv({B0}, {F}, nvals_pos({B0}, {P1}, {DA}, {DA}.len() as int) as nat)',
    ]


def ctor_eq(it, ctor, pty, rty, count=1):
    """R-CTORFN for tuple-struct / enum-variant constructors used as function values"""
    it.custom('R-CTORFN', f'.map({ctor})', f'.map(|verif_v: {pty}| -> (verif_r: {rty}) ensures verif_r == {ctor}(verif_v) {{ {ctor}(verif_v) }})', count=count)
    return it


def with_pre(pre, cl):
    return [''.join(f'[{t}]' for t in parse_tags(c)[0]) + f' {pre} ==> (' + parse_tags(c)[1] + ')' for c in cl]


def new_clauses(h):
    C, G = f'{h}.v_content()', f'{h}.geom()'
    return (['[C17:names-layout-reject] %s.len < %s.off_pool() ==> res is Err' % (C, G)]
            + with_pre('res matches Ok(ix)', layout_clauses(h, 'ix'))
            + [f'[C17:names-abbrev-table] res matches Ok(ix) ==> {G}.off_pool() <= {C}.len && ix.v_abbrevs().decls() == ndecls(window_of({C}, {G}.off_abbrev(), {G}.ab), 0) '
               f'&& (forall|i: int| 0 <= i < ix.v_abbrevs().decls().len() ==> ndecl_wf(#[trigger] ix.v_abbrevs().decls()[i]))'])


def populate(ctx, sk):
    nm = Source('read/names.rs', ctx)
    index_batch.strengthen_core(sk)
    sk.mods['read']['uses'] += '\npub use self::names::*;'
    spec_text, codes_lemma = gen_specs()
    sk.module('vspec_names', 'use crate::vspec::*;\nuse crate::constants;')
    sk.add('vspec_names', core.rd('specs/names.rs') + spec_text, label='vspec_names', owners=OWN)
    # derive(PartialEq) on the dw! newtype is structural equality (gives exec `attr.name == constants::DW_IDX_x` its meaning)
    sk.add('constants', 'unsafe impl Structural for DwIdx {}', label='Structural(DwIdx)')
    sk.module('read::names', """use std::vec::Vec;
use core::convert::TryFrom;
use crate::common::{DebugInfoOffset, DebugNamesOffset, DebugStrOffset, DebugTypeSignature, Format};
use crate::constants;
use crate::read::{Error, Reader, ReaderOffset, Result, UnitOffset};
use crate::read::reader_clone;
use crate::vspec::*;
use crate::vspec_names::*;""")
    sk.add('read::names', ITERATOR_IMPL, label='IteratorImpl')
    for h, lab, rr in STRUCTS:
        sk.add('read::names', nm.item(h, label=lab).clean(rejrec=rr))
    sk.add('read::names', index_names_ghost(), label='names_ghost(index)')
    sk.add('read::names', GHOST, label='names_ghost')
    sk.add('read::names', GHOST2, label='names_ghost2')
    sk.add('read::names', GHOST3, label='names_ghost3')
    sk.add('read::names', codes_lemma, label='lemma_names_codes', owners=OWN)

    # ---- DebugNames::headers / NameIndexHeaderIter::next
    dn = nm.item(r'^impl<R: Reader> DebugNames<R>', label='DebugNames')
    dn.custom('R-CLONE', 'self.section.clone()', 'reader_clone(&self.section)')
    dn.clean().own(OWN)
    dn.splice('headers', ret='res', ensures=['[C17:names-iter-offset] res.v_input() == self.v_section() && res.v_end_offset() == self.v_section().len && res.wf()'])
    sk.add('read::names', dn)

    OI, FI = 'old(self).v_input()', 'final(self).v_input()'
    hi = nm.item(r'^impl<R: Reader> NameIndexHeaderIter<R>', label='NameIndexHeaderIter')
    ctor_some(hi, 'NameIndexHeader<R>')
    hi.clean().own(OWN)
    hi.splice('next', ret='res', requires=['[C17:names-iter-offset] old(self).wf()'], ensures=[
        f'[C01:iter-finish] {OI}.len == 0 ==> res matches Ok(None)',
        f'[C01:iter-err-empties] res is Err ==> {FI}.len == 0',
        f'[C01:iter-progress] res matches Ok(Some(_)) ==> {FI}.len < {OI}.len',
        f'[C01:iter-none-final] res matches Ok(None) ==> {FI}.len == 0',
        f'[C01:frame] inside({OI}, {FI})',
        '[C17:names-iter-offset] final(self).wf() && final(self).v_end_offset() == old(self).v_end_offset() && (res matches Ok(Some(_)) ==> final(self).base() == old(self).base())',
        f'[C17:names-header-consume] res matches Ok(Some(h)) ==> adv({OI}, {FI}, (nh_ils({OI}) + nh_len({OI})) as nat)',
        f'[C17:names-header-reject] {OI}.len > 0 ==> (res is Err <==> !nh_ok({OI}, R::Offset::fits({OI}.u(4, 8) as u64)))',
    ] + with_pre('res matches Ok(Some(h))', hdr_clauses(OI, 'h', f'old(self).v_end_offset() - {OI}.len')), canary=True)
    sk.add('read::names', hi)

    # ---- NameIndexHeader
    B0, B1 = 'old(input).rv()', 'final(input).rv()'
    hd = nm.item(r'^impl<R: Reader> NameIndexHeader<R>', label='NameIndexHeader')
    hd.clean().own(OWN)
    PAD = ('proof { let x = augmentation_string_size; assert(x & 3u32 == x % 4u32) by (bit_vector); '
           'assert(forall|y: u32| (y & 3u32) == y % 4u32) by (bit_vector); }')
    hd.splice('parse', ret='res', ensures=[
        f'[C17:names-header-consume] res is Ok ==> adv({B0}, {B1}, (nh_ils({B0}) + nh_len({B0})) as nat)',
        f'[C17:names-header-reject] res is Err <==> !nh_ok({B0}, R::Offset::fits({B0}.u(4, 8) as u64))',
        f'[C01:frame] within({B0}, {B1})',
        f'[C01:progress] res is Ok ==> {B1}.len < {B0}.len',
    ] + with_pre('res matches Ok(h)', hdr_clauses(B0, 'h', 'offset.0')),
        before=[('let val = input.split(R::Offset::from_u32(augmentation_string_size))?;', PAD)])
    for acc, gh in [('offset', 'res.0 == self.v_offset()'), ('length', 'res == self.v_length()'), ('format', 'res == self.v_format()'),
                    ('version', 'res == self.v_version()'), ('compile_unit_count', 'res == self.v_cu_count()'),
                    ('local_type_unit_count', 'res == self.v_ltu_count()'), ('foreign_type_unit_count', 'res == self.v_ftu_count()'),
                    ('bucket_count', 'res == self.v_bucket_count()'), ('name_count', 'res == self.v_name_count()'),
                    ('abbrev_table_size', 'res == self.v_abbrev_size()')]:
        hd.splice(acc, ret='res', ensures=['[C17:names-header-accessor] ' + gh])
    hd.splice('augmentation_string', ret='res', ensures=['[C17:names-header-accessor] (res matches Some(r) ==> self.v_aug() == Some(r.rv())) && (res is None ==> self.v_aug() is None)'])
    hd.splice('index', ret='res', ensures=new_clauses('self'))
    sk.add('read::names', hd)

    populate_abbrev(ctx, sk, nm)
    populate_index(ctx, sk, nm)
    populate_entries(ctx, sk, nm)
    return sk


STRUCTS = [(r'^pub struct DebugNames<R>', 'DebugNames', ['R']), (r'^pub struct NameIndexHeaderIter<R: Reader>', 'NameIndexHeaderIter', ['R']),
           (r'^pub struct NameIndexHeader<R: Reader>', 'NameIndexHeader', ['R']), (r'^pub struct NameTableIndex\(', None, None),
           (r'^pub enum NameTypeUnit<T>', 'NameTypeUnit', ['T']), (r'^pub struct NameIndex<R: Reader>', 'NameIndex', ['R']),
           (r'^pub struct NameTableIter \{', 'NameTableIter', None),
           (r'^pub struct NameAbbreviations \{', 'NameAbbreviations', None), (r'^pub struct NameAbbreviation \{', 'NameAbbreviation', None),
           (r'^pub struct NameAbbreviationAttribute \{', 'NameAbbreviationAttribute', None),
           (r"^pub struct NameEntryIter<'a, R: Reader>", 'NameEntryIter', ['R']), (r'^pub struct NameEntryOffset<T = usize>', 'NameEntryOffset', None),
           (r'^pub struct NameEntry<R: Reader>', 'NameEntry', ['R']), (r'^pub struct NameAttribute<R: Reader>', 'NameAttribute', ['R']),
           (r'^pub enum NameAttributeValue<R: Reader>', 'NameAttributeValue', ['R'])]


def populate_abbrev(ctx, sk, nm):
    # ---- NameAbbreviationAttribute / NameAbbreviation: accessors
    aa = nm.item(r'^impl NameAbbreviationAttribute \{', label='NameAbbreviationAttribute').clean().own(OWN)
    aa.splice('name', ret='res', ensures=['[C17:names-abbrev-accessor] res.0 == self.sp().idx'])
    aa.splice('form', ret='res', ensures=['[C17:names-abbrev-accessor] res.0 == self.sp().form'])
    sk.add('read::names', aa)
    ab = nm.item(r'^impl NameAbbreviation \{', label='NameAbbreviation').clean().own(OWN)
    ab.splice('code', ret='res', ensures=['[C17:names-abbrev-accessor] res == self.v_code()'])
    ab.splice('tag', ret='res', ensures=['[C17:names-abbrev-accessor] res.0 == self.v_tag()'])
    ab.splice('attributes', ret='res', ensures=['[C17:names-abbrev-accessor] res@ == self.v_attrs()'])
    sk.add('read::names', ab)

    # ---- NameAbbreviations
    ts = nm.item(r'^impl NameAbbreviations \{', label='NameAbbreviations')
    # `self.abbreviations.iter().find(closure)`: iterator adaptor, outside Verus' subset -> contract ASSUMED (TRUSTED 'get'):
    # a front-to-back search returns the first declaration with the code
    ts.extbody(['get'])
    ts.clean().own(OWN)
    ts.splice('get', ret='res', ensures=[
        '[C17:names-abbrev-get] (ndecl_find(self.decls(), code as nat) matches Some(k) ==> res == Some(&self.v_list()[k])) && (ndecl_find(self.decls(), code as nat) is None ==> res is None)'])
    ts.splice('abbreviations', ret='res', ensures=['[C17:names-abbrev-accessor] res@ == self.v_list()'])
    V0 = 'verif_v0'
    CUR = f'(reader.rv().start - {V0}.start)'
    LSP = 'decl_seq(abbreviations@)'
    ASP = 'attr_seq(attributes@)'
    DWF = 'forall|i: int| 0 <= i < abbreviations@.len() ==> ndecl_wf(decl_sp(#[trigger] abbreviations@[i]))'
    AWF = 'forall|j: int| 0 <= j < attributes@.len() ==> nattr_wf(attr_sp(#[trigger] attributes@[j]))'
    ts.splice('parse', ret='res', ensures=[
        '[C17:names-abbrev-table] res matches Ok(t) ==> t.decls() =~= ndecls(reader.rv(), 0)',
        '[C17:names-abbrev-wf] res matches Ok(t) ==> forall|i: int| 0 <= i < t.decls().len() ==> ndecl_wf(#[trigger] t.decls()[i])',
    ], loops={
        # (every clause on its own line, tagged with the postcondition it feeds: a mutant then fails under that tag)
        0: (f'invariant_except_break\n within({V0}, reader.rv()), // [C17:names-abbrev-table]\n'
            f' ndecls({V0}, 0) =~~= {LSP} + ndecls({V0}, {CUR}), // [C17:names-abbrev-table]\n {DWF}, // [C17:names-abbrev-wf]\n'
            f' ensures\n ndecls({V0}, 0) =~~= {LSP}, // [C17:names-abbrev-table]\n {DWF}, // [C17:names-abbrev-wf]\n decreases reader.rv().len'),
        1: (f'invariant_except_break\n within({V0}, reader.rv()), // [C17:names-abbrev-table]\n verif_q0 <= {CUR}, // [C17:names-abbrev-table]\n'
            f' nattrs({V0}, verif_q0) =~= {ASP} + nattrs({V0}, {CUR}), // [C17:names-abbrev-table]\n'
            f' nattrs_end({V0}, verif_q0) == nattrs_end({V0}, {CUR}), // [C17:names-abbrev-table]\n {AWF}, // [C17:names-abbrev-wf]\n'
            f' ensures\n within({V0}, reader.rv()), // [C17:names-abbrev-table]\n verif_q0 <= {CUR}, // [C17:names-abbrev-table]\n'
            f' nattrs({V0}, verif_q0) =~= {ASP}, // [C17:names-abbrev-table]\n nattrs_end({V0}, verif_q0) == {CUR}, // [C17:names-abbrev-table]\n'
            f' {AWF}, // [C17:names-abbrev-wf]\n decreases reader.rv().len'),
    }, before=[
        ('let mut abbreviations = Vec::new();', f'let ghost {V0} = reader.rv();'),
        ('let code = reader.read_uleb128()?;', f'let ghost verif_p = {CUR};'),
        ('let mut attributes = Vec::new();', f'let ghost verif_q0 = {CUR};'),
        ('let name = reader.read_uleb128_u16()?;', f'let ghost verif_c = {CUR};'),
    ])
    sk.add('read::names', ts)


def populate_index(ctx, sk, nm):
    # ---- NameIndex
    ix = nm.item(r'^impl<R: Reader> NameIndex<R>', label='NameIndex')
    # batch `index`: find_by_bucket / find_by_hash (NameBucketIter / NameHashIter); name_string needs DebugStr
    ix.drop(['find_by_bucket', 'find_by_hash', 'name_string'])
    ix.custom('R-CLONE', 'self.entry_pool.clone()', 'reader_clone(&self.entry_pool)')
    for f in ['compile_unit_list', 'local_type_unit_list', 'foreign_type_unit_list', 'name_table_data']:
        ix.custom('R-CLONE', f'self.{f}.clone()', f'reader_clone(&self.{f})')
    ctor_eq(ix, 'DebugInfoOffset', 'usize', 'DebugInfoOffset<usize>', count=2)
    ctor_eq(ix, 'DebugStrOffset', 'usize', 'DebugStrOffset<usize>')
    ctor_eq(ix, 'DebugTypeSignature', 'u64', 'DebugTypeSignature')
    ctor_eq(ix, 'NameTypeUnit::Foreign', 'DebugTypeSignature', 'NameTypeUnit<usize>')
    ctor_eq(ix, 'NameTypeUnit::Local', 'DebugInfoOffset<usize>', 'NameTypeUnit<usize>')
    ctor_some(ix, 'DebugInfoOffset<usize>')
    ix.clean().own(OWN)
    PROD = ('proof { let os = offset_size as int; assert(os == 4 || os == 8); '
            + ' '.join(f'assert(0 <= (header.{c} as int) * os <= 0xffff_ffff * 8) by (nonlinear_arith) requires 0 <= header.{c} as int <= 0xffff_ffff, 0 <= os <= 8;'
                       for c in ['compile_unit_count', 'local_type_unit_count', 'name_count']) + ' }')
    ix.splice('new', ret='res', ensures=new_clauses('header'),
              before=[('let cu_list_size =', PROD),
                      ('let mut reader = header.content;', 'let ghost verif_c = header.content.rv();')],
              after=[('let abbreviation_table = reader.split(R::Offset::from_u64(abbrev_size)?)?;',
                      'proof { assert(abbreviation_table.rv() == window_of(verif_c, header.geom().off_abbrev(), header.geom().ab)); } // [C17:names-layout][C17:names-abbrev-table]')])
    WS = 'self.ws()'
    FITS = lambda T, p: f'(self.v_format() == Format::Dwarf64 && !R::Offset::fits({T}.u({p}, 8) as u64))'
    def table_get(fn, count, T, val, tag, ws=WS):
        P = f'index * {ws}'
        ens = [f'[C17:{tag}] res matches Ok(o) ==> index < {count} && {val}',
               f'[C17:{tag}-range] res is Err <==> (index >= {count}' + (f' || {FITS(T, P)}' if ws == WS else '') + ')']
        ix.splice(fn, ret='res', requires=['[C17:names-layout-wf] self.wf_tables()'], ensures=ens, canary=True,
                  before=[('let mut reader = ', f'proof {{ let w = {ws} as int; let i = index as int; let n = {count} as int; assert(w == 4 || w == 8); '
                           'assert(0 <= i * w <= 0xffff_ffff * 8) by (nonlinear_arith) requires 0 <= i <= 0xffff_ffff, 0 < w <= 8; '
                           'assert(i < n ==> i * w + w <= n * w) by (nonlinear_arith) requires w > 0; assert(i >= n ==> i * w >= n * w) by (nonlinear_arith) requires w > 0; }')])
    table_get('compile_unit', 'self.v_cu_count()', 'self.v_cu_list()', f'o.0 as nat == self.v_cu_list().u(index * {WS}, {WS} as int)', 'names-cu-list')
    table_get('local_type_unit', 'self.v_ltu_count()', 'self.v_ltu_list()', f'o.0 as nat == self.v_ltu_list().u(index * {WS}, {WS} as int)', 'names-local-tu-list')
    table_get('foreign_type_unit', 'self.v_ftu_count()', 'self.v_ftu_list()', 'o.0 as nat == self.v_ftu_list().u(index * 8, 8)', 'names-foreign-tu-list', ws='8nat')
    ix.splice('default_compile_unit', ret='res', requires=['[C17:names-layout-wf] self.wf_tables()'], ensures=[
        f'[C17:names-default-cu] self.v_cu_count() != 1 ==> res matches Ok(None)',
        f'[C17:names-default-cu] self.v_cu_count() == 1 ==> (res matches Ok(Some(o)) ==> o.0 as nat == self.v_cu_list().u(0, {WS} as int)) && !(res matches Ok(None))'])
    # "type unit index: local type units first, then foreign" (DWARF 5 6.1.1.4.3: "the foreign TU list ... indices follow those of the local list")
    ix.splice('type_unit', ret='res', requires=['[C17:names-layout-wf] self.wf_tables()'], ensures=[
        f'[C17:names-tu-index] index < self.v_ltu_count() ==> (res matches Ok(t) ==> (t matches NameTypeUnit::Local(o) && o.0 as nat == self.v_ltu_list().u(index * {WS}, {WS} as int)))',
        '[C17:names-tu-index] index >= self.v_ltu_count() ==> (res matches Ok(t) ==> (t matches NameTypeUnit::Foreign(s) && index - self.v_ltu_count() < self.v_ftu_count() '
        '&& s.0 as nat == self.v_ftu_list().u((index - self.v_ltu_count()) * 8, 8)))',
        '[C17:names-tu-index-range] index >= self.v_ltu_count() + self.v_ftu_count() ==> res is Err',
        f'[C17:names-tu-index-range] index >= self.v_ltu_count() && index < self.v_ltu_count() + self.v_ftu_count() ==> res is Ok'])
    table_get_strs = None
    ix.splice('name_string_offset', ret='res', requires=['[C17:names-layout-wf] self.wf_tables()'], ensures=[
        f'[C17:names-string-offset] res matches Ok(o) ==> index.0 < self.v_name_count() && o.0 as nat == self.v_strs().u(index.0 * {WS}, {WS} as int)',
        f'[C17:names-string-offset-range] res is Err <==> (index.0 >= self.v_name_count() || {FITS("self.v_strs()", f"index.0 * {WS}")})'], canary=True,
        before=[('let mut reader = ', f'proof {{ let w = {WS} as int; let i = index.0 as int; let n = self.v_name_count() as int; assert(w == 4 || w == 8); '
                 'assert(0 <= i * w <= 0xffff_ffff * 8) by (nonlinear_arith) requires 0 <= i <= 0xffff_ffff, 0 < w <= 8; '
                           'assert(0 <= i * w <= 0xffff_ffff * 8) by (nonlinear_arith) requires 0 <= i <= 0xffff_ffff, 0 < w <= 8; '
                 'assert(i < n ==> i * w + w <= n * w) by (nonlinear_arith) requires w > 0; assert(i >= n ==> i * w >= n * w) by (nonlinear_arith) requires w > 0; }')])
    EOFF = f'self.v_entry_offsets().u(index.0 * {WS}, {WS} as int)'
    ix.splice('name_entries', ret='res', requires=['[C17:names-layout-wf] self.wf_tables()'], ensures=[
        f'[C17:names-entry-series][C10:view] res matches Ok(it) ==> index.0 < self.v_name_count() && {EOFF} <= self.v_pool().len && adv(self.v_pool(), it.v_entries(), {EOFF}) '
        f'&& it.v_end_offset() == self.v_pool().len && it.v_abbrevs() == self.v_abbrevs() && it.wf()',
        f'[C17:names-entry-series-range] res is Err <==> (index.0 >= self.v_name_count() || (self.v_format() == Format::Dwarf64 && !R::Offset::fits({EOFF} as u64)) || {EOFF} > self.v_pool().len)'])
    PV = 'view_at(self.v_pool(), offset.0 as nat)'
    ix.splice('name_entry', ret='res', ensures=[
        '[C17:names-entry-at] offset.0 > self.v_pool().len ==> res is Err',
        f'[C17:names-entry-at] res is Ok ==> offset.0 <= self.v_pool().len && {PV}.uleb(0) != 0',
    ] + with_pre('res matches Ok(e)', [c.replace(', VERIF_F,', ',') for c in entry_clauses(PV, 'VERIF_F', 'self.v_abbrevs().decls()', 'e', 'offset.0')][:2]))
    for acc, gh in [('compile_unit_count', 'res == self.v_cu_count()'), ('local_type_unit_count', 'res == self.v_ltu_count()'),
                    ('foreign_type_unit_count', 'res == self.v_ftu_count()'), ('has_hash_table', 'res == (self.v_bucket_count() != 0)'),
                    ('bucket_count', 'res == self.v_bucket_count()'), ('name_count', 'res == self.v_name_count()')]:
        ix.splice(acc, ret='res', ensures=['[C17:names-index-accessor] ' + gh])
    ix.splice('abbreviations', ret='res', ensures=['[C17:names-index-accessor] *res == self.v_abbrevs()'])
    ix.splice('names', ret='res', ensures=['[C17:names-table-iter] res.v_index() == 0 && res.v_name_count() == self.v_name_count()'])
    # the sum of two hostile u32 counts: built-in overflow obligation (finding F-names-1), a C01 matter only
    ix.splice('type_unit_count', ret='res', ensures=['[C17:names-index-accessor] res == self.v_ltu_count() + self.v_ftu_count()'])
    ix.own(['C01'], 'type_unit_count')
    sk.add('read::names', ix)

    ti = nm.item(r'^impl NameTableIter \{', label='NameTableIter').clean().own(OWN)
    ti.splice('new', ret='res', ensures=['[C17:names-table-iter] res.v_index() == 0 && res.v_name_count() == name_index.v_name_count()'])
    sk.add('read::names', ti)
    tn = nm.item(r'^impl Iterator for NameTableIter', label='NameTableIter(Iterator)')
    # R-IMPL (as in index.py / eslice.py): the impl block is kept verbatim but implements a generated contract-less trait
    tn.custom('R-IMPL', 'impl Iterator for NameTableIter', 'impl IteratorImpl for NameTableIter')
    tn.clean().own(OWN)
    O, F = 'old(self)', 'final(self)'
    tn.splice('next', ret='res', ensures=[
        f'[C17:names-table-iter] {O}.v_index() < {O}.v_name_count() ==> res == Some(NameTableIndex({O}.v_index())) && {F}.v_index() == {O}.v_index() + 1',
        f'[C01:iter-finish] {O}.v_index() >= {O}.v_name_count() ==> res is None && {F}.v_index() == {O}.v_index()',
        f'{F}.v_name_count() == {O}.v_name_count()'])
    sk.add('read::names', tn)


def form_clauses():
    """per-form clauses of read_debug_names_form_value, generated from NFORMS"""
    B0, F = 'old(input).rv()', 'final(input).rv()'
    out = []
    for code, name, layout, shape in NFORMS:
        tag = name.replace('DW_FORM_', '')
        out.append(f'[C17:names-entry-form-{tag}] form.0 == {code:#04x} ==> (res matches Ok(val) ==> val.sv() == {form_val(B0, "0", layout, shape)} && adv({B0}, {F}, {form_size(B0, "0", layout)}))')
        if layout != 'uleb':
            fits = f' || !R::Offset::fits({B0}.u(0, 8) as u64)' if (layout, shape) == ('u8', 'Offset') else ''
            out.append(f'[C17:names-entry-form-total] form.0 == {code:#04x} ==> (res is Err <==> ({B0}.len < {NSIZE[layout]}{fits}))')
    out += [
        f'[C17:names-entry-form-unknown] !nform_known(form.0 as nat) ==> res is Err',
        f'[C17:names-entry-value] res matches Ok(val) ==> nform_known(form.0 as nat) && val.sv() == nform_value({B0}, 0, form.0 as nat) && adv({B0}, {F}, nform_size({B0}, 0, form.0 as nat))',
        f'[C01:frame] within({B0}, {F})',
    ]
    return out


def populate_entries(ctx, sk, nm):
    # ---- read_debug_names_form_value
    fv = nm.item(r'^fn read_debug_names_form_value<R: Reader>', label='read_debug_names_form_value').clean()
    fv.splice('read_debug_names_form_value', ret='res', ensures=form_clauses(), owners=OWN,
              before=[('Ok(match form {', 'proof { reveal_with_fuel(uint_le_at, 3); reveal_with_fuel(uint_be_at, 3); }')])
    sk.add('read::names', fv)

    # ---- NameAttribute: accessors and the value shapes of DWARF 5 table 6.1
    na = nm.item(r'^impl<R: Reader> NameAttribute<R>', label='NameAttribute')
    na.custom('R-CLOSURE-ENS', '.map_err(|_| Error::InvalidNameAttributeIndex(val))',
              '.map_err(|_verif_unused: core::num::TryFromIntError| -> (verif_e: Error) ensures verif_e == Error::InvalidNameAttributeIndex(val) { Error::InvalidNameAttributeIndex(val) })', count=2)
    na.clean().own(OWN)
    V = 'self.v_value().sv()'
    na.splice('name', ret='res', ensures=['[C17:names-attr-accessor] res.0 == self.v_name()'])
    na.splice('form', ret='res', ensures=['[C17:names-attr-accessor] res.0 == self.v_form()'])
    na.splice('value', ret='res', ensures=['[C17:names-attr-accessor] *res == self.v_value()'])
    WS = 'names.ws()'
    na.splice('compile_unit', ret='res', requires=['[C17:names-layout-wf] names.wf_tables()'], ensures=[
        f'[C17:names-attr-compile-unit] res matches Ok(o) ==> ({V} matches NVal::Unsigned(v) && v < names.v_cu_count() && o.0 as nat == names.v_cu_list().u((v * {WS}) as int, {WS} as int))',
        f'[C17:names-attr-compile-unit] !({V} is Unsigned) ==> res is Err',
        f'[C17:names-attr-compile-unit] {V} matches NVal::Unsigned(v) ==> (v >= names.v_cu_count() ==> res is Err)'], canary=True)
    na.splice('type_unit', ret='res', requires=['[C17:names-layout-wf] names.wf_tables()'], ensures=[
        f'[C17:names-attr-type-unit] res matches Ok(t) ==> ({V} matches NVal::Unsigned(v) && v < names.v_ltu_count() + names.v_ftu_count() && '
        f'(v < names.v_ltu_count() ==> (t matches NameTypeUnit::Local(o) && o.0 as nat == names.v_ltu_list().u((v * {WS}) as int, {WS} as int))) && '
        f'(v >= names.v_ltu_count() ==> (t matches NameTypeUnit::Foreign(s) && s.0 as nat == names.v_ftu_list().u(((v - names.v_ltu_count()) * 8) as int, 8))))',
        f'[C17:names-attr-type-unit] !({V} is Unsigned) ==> res is Err'], canary=True)
    na.splice('die_offset', ret='res', ensures=[
        f'[C17:names-attr-die-offset] res matches Ok(o) ==> {V} == NVal::Offset(o.0 as nat)', f'[C17:names-attr-die-offset] res is Err <==> !({V} is Offset)'])
    na.splice('parent', ret='res', ensures=[
        f'[C17:names-attr-parent] res matches Ok(Some(o)) ==> {V} == NVal::Offset(o.0 as nat)', f'[C17:names-attr-parent] res matches Ok(None) ==> {V} == NVal::Flag(true)',
        f'[C17:names-attr-parent] res is Err <==> !({V} is Offset || {V} == NVal::Flag(true))'])
    na.splice('type_hash', ret='res', ensures=[
        f'[C17:names-attr-type-hash] res matches Ok(h) ==> {V} == NVal::Unsigned(h as nat)', f'[C17:names-attr-type-hash] res is Err <==> !({V} is Unsigned)'])
    sk.add('read::names', na)

    # ---- NameEntry
    ne = nm.item(r'^impl<R: Reader> NameEntry<R>', label='NameEntry')
    ctor_some(ne, 'DebugInfoOffset<usize>')
    ctor_some(ne, 'NameTypeUnit<usize>')
    ctor_some(ne, 'UnitOffset<usize>')
    ctor_some(ne, 'Option<NameEntryOffset<usize>>')
    ctor_some(ne, 'u64')
    ne.clean().own(OWN)
    B0, F = 'old(entry_reader).rv()', 'final(entry_reader).rv()'
    D = 'abbreviations.decls()'
    ne.insert_after('for spec in ', 'verif_it: ')
    P1 = 'verif_b0.leb_len(0) as int'
    DA = 'abbrev.sp().attrs'
    ne.splice('parse', ret='res', ensures=[
        f'[C17:names-entry-end] res matches Ok(None) ==> {B0}.uleb(0) == 0 && adv({B0}, {F}, {B0}.leb_len(0))',
        f'[C17:names-entry-end] res is Ok && {B0}.uleb(0) == 0 ==> res matches Ok(None)',
        f'[C17:names-entry-unknown-code] res is Ok && {B0}.uleb(0) != 0 ==> ndecl_find({D}, {B0}.uleb(0)) is Some',
        f'[C01:frame] within({B0}, {F})',
        f'[C01:progress] res is Ok ==> {F}.len < {B0}.len',
    ] + with_pre('res matches Ok(Some(e))', entry_clauses(B0, F, D, 'e', 'offset.0')),
        loops={0: f'invariant attrs@.len() == verif_it.index@, specs@ == abbrev.v_attrs(), verif_b0 == old(entry_reader).rv(), within(verif_b0, entry_reader.rv()), entry_reader.rv().start > verif_b0.start,\n'
                  f' entry_reader.rv().start - verif_b0.start == nvals_pos(verif_b0, {P1}, {DA}, verif_it.index@ as int), // [C17:names-entry-consume]\n'
                  f' forall|i: int| 0 <= i < attrs@.len() ==> nattr_decoded(#[trigger] attrs@[i], {DA}[i], verif_b0, nvals_pos(verif_b0, {P1}, {DA}, i)), // [C17:names-entry-values]\n'},
        before=[('let abbrev_code = entry_reader.read_uleb128()?;', 'let ghost verif_b0 = entry_reader.rv();'),
                ('let tag = abbrev.tag();', f'proof {{ lemma_ndecl_find({D}, abbrev_code as nat); }}')])
    AK = 'self.attrs@[k].v_value().sv()'
    NW = 'names.ws()'
    GETTERS = [
        ('compile_unit', 1, True, [
            f'[C17:names-entry-compile-unit] res matches Ok(Some(o)) ==> ({{FIRST}} matches Some(k) && ({AK} matches NVal::Unsigned(v) && v < names.v_cu_count() '
            f'&& o.0 as nat == names.v_cu_list().u((v * {NW}) as int, {NW} as int)))']),
        ('type_unit', 2, True, [
            f'[C17:names-entry-type-unit] res matches Ok(Some(t)) ==> ({{FIRST}} matches Some(k) && ({AK} matches NVal::Unsigned(v) && v < names.v_ltu_count() + names.v_ftu_count() '
            f'&& (v < names.v_ltu_count() ==> (t matches NameTypeUnit::Local(o) && o.0 as nat == names.v_ltu_list().u((v * {NW}) as int, {NW} as int))) '
            f'&& (v >= names.v_ltu_count() ==> (t matches NameTypeUnit::Foreign(s) && s.0 as nat == names.v_ftu_list().u(((v - names.v_ltu_count()) * 8) as int, 8)))))']),
        ('die_offset', 3, False, [
            f'[C17:names-entry-die-offset] res matches Ok(Some(o)) ==> ({{FIRST}} matches Some(k) && {AK} == NVal::Offset(o.0 as nat))',
            f'[C17:names-entry-die-offset] {{FIRST}} matches Some(k) ==> (res is Err <==> !({AK} is Offset))']),
        ('parent', 4, False, [
            f'[C17:names-entry-parent] res matches Ok(Some(Some(o))) ==> ({{FIRST}} matches Some(k) && {AK} == NVal::Offset(o.0 as nat))',
            f'[C17:names-entry-parent] res matches Ok(Some(None)) ==> ({{FIRST}} matches Some(k) && {AK} == NVal::Flag(true))',
            f'[C17:names-entry-parent] {{FIRST}} matches Some(k) ==> (res is Err <==> !({AK} is Offset || {AK} == NVal::Flag(true)))']),
        ('type_hash', 5, False, [
            f'[C17:names-entry-type-hash] res matches Ok(Some(h)) ==> ({{FIRST}} matches Some(k) && {AK} == NVal::Unsigned(h as nat))',
            f'[C17:names-entry-type-hash] {{FIRST}} matches Some(k) ==> (res is Err <==> !({AK} is Unsigned))']),
    ]
    for k, (fn, idx, uses_names, extra) in enumerate(GETTERS):
        ne.insert_after('for attr in ', 'verif_it: ', nth=k)
        FIRST = f'nattr_first(self.attrs@, {idx})'
        req = ['[C17:names-layout-wf] names.wf_tables()'] if uses_names else []
        ne.splice(fn, ret='res', requires=req, ensures=[
            f'[C17:names-entry-attr-first] {FIRST} is None <==> res matches Ok(None)',
            f'[C17:names-entry-attr-first] res is Err ==> {FIRST} is Some',
        ] + [c.replace('{FIRST}', FIRST) for c in extra],
            loops={0: f'invariant forall|j: int| 0 <= j < verif_it.index@ ==> (#[trigger] self.attrs@[j]).v_name() != {idx},' + (' names.wf_tables(),' if req else '')},
            before=[('return attr.', f'proof {{ lemma_nattr_first(self.attrs@, {idx}, verif_it.index@ as int); }} // [C17:names-entry-attr-first]')],
            after=[('}\n        }', f'proof {{ lemma_nattr_first(self.attrs@, {idx}, self.attrs@.len() as int); }} // [C17:names-entry-attr-first]')])
    sk.add('read::names', ne)

    # ---- NameEntryIter
    ei = nm.item(r"^impl<'a, R: Reader> NameEntryIter<'a, R>", label='NameEntryIter')
    ei.custom('R-CLONE', 'name_index.entry_offset_data.clone()', 'reader_clone(&name_index.entry_offset_data)')
    ei.custom('R-CLONE', 'name_index.entry_pool.clone()', 'reader_clone(&name_index.entry_pool)')
    ctor_eq(ei, 'NameEntryOffset', 'usize', 'NameEntryOffset<usize>')
    ei.clean().own(OWN)
    NI = 'name_index'
    WS = f'{NI}.ws()'
    OFF = f'{NI}.v_entry_offsets().u(index.0 * {WS}, {WS} as int)'
    ei.splice('new', ret='res', requires=[f'[C17:names-layout-wf] {NI}.wf_tables()'], ensures=[
        f'[C17:names-entry-series][C10:view] res matches Ok(it) ==> index.0 < {NI}.v_name_count() && {OFF} <= {NI}.v_pool().len && adv({NI}.v_pool(), it.v_entries(), {OFF}) '
        f'&& it.v_end_offset() == {NI}.v_pool().len && it.v_abbrevs() == {NI}.v_abbrevs() && it.wf()',
        f'[C17:names-entry-series-range] res is Err <==> (index.0 >= {NI}.v_name_count() || ({NI}.v_format() == Format::Dwarf64 && !R::Offset::fits({OFF} as u64)) || {OFF} > {NI}.v_pool().len)',
    ], canary=True, before=[('let mut offsets = ', f'proof {{ let w = {WS} as int; let i = index.0 as int; let n = {NI}.v_name_count() as int; assert(w == 4 || w == 8); '
                             'assert(0 <= i * w <= 0xffff_ffff * 8) by (nonlinear_arith) requires 0 <= i <= 0xffff_ffff, 0 < w <= 8; '
                             'assert(i < n ==> i * w + w <= n * w) by (nonlinear_arith) requires w > 0; assert(i >= n ==> i * w >= n * w) by (nonlinear_arith) requires w > 0; }')])
    OI, FI = 'old(self).v_entries()', 'final(self).v_entries()'
    ei.splice('next', ret='res', requires=['[C17:names-entry-offset] old(self).wf()'], ensures=[
        f'[C01:iter-finish] {OI}.len == 0 ==> res matches Ok(None)',
        f'[C01:iter-err-empties] res is Err ==> {FI}.len == 0',
        f'[C01:iter-progress] res matches Ok(Some(_)) ==> {FI}.len < {OI}.len',
        f'[C01:iter-none-final] res matches Ok(None) ==> {FI}.len == 0',
        f'[C01:frame] inside({OI}, {FI})',
        '[C17:names-entry-offset] final(self).wf() && final(self).v_end_offset() == old(self).v_end_offset() && final(self).v_abbrevs() == old(self).v_abbrevs() '
        '&& (res matches Ok(Some(_)) ==> final(self).base() == old(self).base())',
        f'[C17:names-entry-end] res matches Ok(None) ==> {OI}.len == 0 || {OI}.uleb(0) == 0',
        f'[C17:names-entry-end] {OI}.len > 0 && res is Ok && {OI}.uleb(0) == 0 ==> res matches Ok(None)',
    ] + with_pre('res matches Ok(Some(e))', entry_clauses(OI, FI, 'old(self).v_abbrevs().decls()', 'e', f'old(self).v_end_offset() - {OI}.len')), canary=True)
    sk.add('read::names', ei)


def build(ctx):
    sk = Skeleton(ctx, core.rd('prelude/crate.rs'))
    core.populate(ctx, sk)
    populate(ctx, sk)
    return sk
