"""B-wunit: written units - the SIZE MODEL and per-kind emission (DESIGN.md 6 C11; C18 write side for .debug_info).

Build = core.populate; wcore.populate; populate.   Source: /repo/src/write/unit.rs (non-convert, non-Filter parts).

FUNCTIONS UNDER CONTRACT (real text; all owned by C11)
  write::AttributeValue::{form, size, write}       the three parallel switches, generated from ONE table (WVARS below)
  write::Attribute::specification
  write::UnitOffsets::{debug_info_offset, unit_offset}
  write::DebuggingInformationEntry::{abbreviation, size, write}
  write::Unit::{encoding, version, address_size, format, reorder_base_types}
  write::UnitTable::write_debug_info_fixups
  write::DebugInfo<W>::{offset, deref, deref_mut}  (define_section! expanded mechanically, R-MACRO; ids by define_id!)
  write::line::FileId::raw, write::abbrev::{AttributeSpecification::new, Abbreviation::new}
  proof fn lemma_form_layout (table against table), lemma_upto_none, lemma_kids_layout_mono

HOW THE THREE SWITCHES ARE TIED TOGETHER (and to the READER)
  WVARS maps every `AttributeValue` variant to (condition on version/format -> DWARF form -> payload kind).  The layout
  of the form is NOT restated here: it is looked up in the reader's table `batches/attrs.py FORMS` (imported; the batch
  aborts with Lost if a form is missing there), and the python generator refuses a payload kind the layout cannot hold.
  From that the generator emits
    form_of(v, enc)           spec: the form (and implicit-const operand)             -> `form`  [C11:form-table]
    attr_size_res(v, enc, o)  spec: bytes of the value, from the READER's layout       -> `size`  [C11:size-model]
                                                                                         `write` [C11:size-eq-len]
    rd_fixed_size(form, enc)  spec: the reader's `fixed_size` table (attrs.gen_specs)  -> lemma_form_layout [C11:form-layout]:
                              reader-fixed size of form_of(v) == attr_size_res(v)  (what get_attribute_size returns, attrs [C03:size-table])
    per-variant emit clauses  the exact field sequence of that layout, the fix-up      -> `write` [C11:form-layout-<V>]
                              lists, relocatable primitives (C18)                                  [C18:attr-*-<V>] [C11:fixup-at-placeholder]
  plus the R-ASSERT obligations of the `debug_assert_form!` macros in `size`/`write` (form() == the form the arm assumes).
  `uleb_size`/`sleb_size` are hidden inside size/write/lemma (both sides name the same term; 167 s -> 7 s); `write` is
  verified as 6 verbatim copies (R-SPLIT) each carrying a sixth of the postconditions.

SECOND CARRIER (entry tree): die_size = uleb(code) + sibling word + sum of attr sizes; subtree_size = pre-order sum + 1
  null byte per non-empty child list; `layout_ok` = "the offsets table assigns every entry of the subtree the offset at
  which pre-order emission reaches it".  DebuggingInformationEntry::write REQUIRES layout_ok (this is what discharges the
  R-ASSERT obligation debug_assert_eq!(offsets.debug_info_offset(self.id), Some(w.offset())) at every entry, recursively)
  and ENSURES it advances by exactly subtree_size, writes the measured code first, and patches the sibling placeholder
  (at offset-after-code) with the unit-relative offset AFTER the subtree.  Recursion: decreases height(unit, index).

ASSUMED (TRUSTED, beyond wcore's) - tables / types outside the Verus subset, seen through small accessors only:
  Expression (model type standing in for write::op::Expression) with `size` / `write`:
      size is a function `size_spec(encoding, offsets)` (<= isize::MAX); write advances the section by exactly that size,
      only appends to the fix-up list, and every appended fix-up lies inside the bytes written.
      [batch wop proves size-eq-len / fixups-frame (C15) under its preconditions refs_valid, targets_ok; "fix-ups lie
       inside the bytes written" is NOT covered by wop and is used only by [C11:fixup-inside]]
  StringTable::offset, LineStringTable::offset (`offset`), RangeListOffsets::get, LocationListOffsets::get (`get`):
      return the recorded offset `off(id)` (IndexSet / Vec behind define_offsets!; "Panics if id is invalid" not decided)
  AbbreviationTable::add (`add`): returns some code (IndexSet::insert_full; de-duplication not decided)
  drain_fixups: `fixups.drain(..)` of write_debug_info_fixups as "take the whole vector" (vec::Drain is outside Verus;
      logged rewrite R-DRAIN `for fixup in fixups.drain(..)` -> `let verif_drained = drain_fixups(fixups); for fixup in verif_drained`)
  <usize as From<bool>>::from: 0 / 1 (std; no vstd specification)
  unsafe impl Structural for DwForm/DwAt/DwTag/BaseId/DebugInfoOffset (wcore.ensure_structural: `==` of a derived
      PartialEq on a field-less newtype is structural)
PRECONDITIONS that are assumptions about the caller (stated in `requires`, not verified):
  A-TREE   `unit_tree_ok`: entries[i].id.index == i, child ids in range and of this unit, children have strictly smaller
           ghost `height` (uninterpreted) - the construction API (Unit::add / add_reserved, no re-parenting) gives this
  A-VECLEN `attr_wf`: a Vec<u8> has at most isize::MAX bytes, a FileId index is < usize::MAX; attrs.len() < usize::MAX
  A-FIT    `die_fits`: the running size sums stay below usize::MAX (bounded by the memory the payloads occupy)
  documented "Panics if id is invalid": `UnitOffsets::knows(entry)` on debug_info_offset/unit_offset, ids of the
           fix-ups on write_debug_info_fixups (see finding F-wunit-2: reserve() without add_reserved() breaks it)

FINDINGS (build(findings=True) states the failing clause; downstream users call populate(findings=False))
  F-wunit-1  [C11:string-no-nul] FAILS: AttributeValue::String with an embedded NUL is written with Ok(()) and reads back
             truncated, the rest of the entry misparsed (native/src/bin/f_wunit_1.rs).
  F-wunit-2  (observation, precondition `knows`): a UnitRef / DebugInfoRef::Entry to an id that was reserved but never
             added panics with index-out-of-bounds in UnitOffsets::debug_info_offset instead of Err(InvalidReference)
             (native/src/bin/f_wunit_2.rs).
OBSERVATIONS: DebugInfoRef::Entry records its fix-up BEFORE the placeholder write; if that write fails the fix-up stays
  ([C11:fixup-inside] is Ok-only).  `w.write_uleb128(val.size(..)? as u64)?` leaves through `?` inside the argument of a
  DerefMut-receiver call: Verus cannot resolve the pending borrow, so the frame clauses of `write` are Ok-only.
NOT DECIDED: DebuggingInformationEntry::calculate_offsets (that it ESTABLISHES layout_ok needs (i) frame reasoning over the
  arena - unique parents - and (ii) stability of Expression::size between the two passes, which depends on base types having
  been placed first: an Expression-level monotonicity property); Unit::write as a whole (LineProgram / RangeListTable /
  LocationListTable / Sections; header fields, unit_refs patching loop); AbbreviationTable::add de-duplication,
  StringTable/LineStringTable contents, Dwarf::write section order; the end-to-end "reads back as the same forest";
  that a DWARF 2/3 data4/data8 section offset is read back as an offset depends on the ATTRIBUTE NAME (reader:
  allow_section_offset) which the writer does not look at; form availability per DWARF version (DW_FORM_data16 / line_strp /
  strp_sup / ref_sup4 under version < 5, ref_sig8 under version < 4) is not checked by the code and not required here.
"""
from lib import *
from batches import core, wcore

try:                                    # the READER's form table (do not edit it there)
    from batches import attrs as _attrs
    RD_FORMS = {name: (code, kind) for code, name, kind, _, _ in _attrs.FORMS}
    RD_SOURCE = 'batches/attrs.py FORMS'
except Exception:                       # restated from DWARF 5 table 7.5/7.6 (only if attrs.py is not importable)
    _attrs = None
    RD_SOURCE = 'restated (attrs.py not importable)'
    RD_FORMS = {'DW_FORM_addr': (0x01, 'addr'), 'DW_FORM_block': (0x09, 'blku'), 'DW_FORM_data1': (0x0b, 'u1'),
                'DW_FORM_data2': (0x05, 'u2'), 'DW_FORM_data4': (0x06, 'data4'), 'DW_FORM_data8': (0x07, 'data8'),
                'DW_FORM_data16': (0x1e, 'u16'), 'DW_FORM_string': (0x08, 'cstr'), 'DW_FORM_flag': (0x0c, 'u1'),
                'DW_FORM_sdata': (0x0d, 'sleb'), 'DW_FORM_strp': (0x0e, 'word'), 'DW_FORM_udata': (0x0f, 'uleb'),
                'DW_FORM_ref_addr': (0x10, 'refaddr'), 'DW_FORM_ref4': (0x13, 'u4'), 'DW_FORM_ref8': (0x14, 'u8'),
                'DW_FORM_sec_offset': (0x17, 'word'), 'DW_FORM_exprloc': (0x18, 'blku'), 'DW_FORM_flag_present': (0x19, 'zero'),
                'DW_FORM_ref_sup4': (0x1c, 'u4'), 'DW_FORM_strp_sup': (0x1d, 'word'), 'DW_FORM_line_strp': (0x1f, 'word'),
                'DW_FORM_ref_sig8': (0x20, 'u8'), 'DW_FORM_implicit_const': (0x21, 'implicit'), 'DW_FORM_ref_sup8': (0x24, 'u8')}

# scan_trusted reports the bare fn name: Expression::{size, write}, {StringTable, LineStringTable}::offset,
# {RangeListOffsets, LocationListOffsets}::get, AbbreviationTable::add, drain_fixups, usize::from(bool)
TRUSTED = list(wcore.TRUSTED) + ['size', 'write', 'offset', 'get', 'add', 'drain_fixups', '<usize as core::convert::From<bool>>::from']
VERUS_ARGS = ['--rlimit', '40']
RETRY_RLIMIT = 120
OWN = ['C11']
WRITE_SPLIT = 6

W0 = 'old(w).0.wv()'
W1 = 'final(w).0.wv()'
ENC = 'unit.enc()'
WORD = 'word_size(enc.format)'
NOFIX = ('final(unit_refs)@ == old(unit_refs)@ && final(debug_info_refs)@ == old(debug_info_refs)@')

# ---------------------------------------------------------------------------------------------------------------------
# WVARS: variant -> (pattern, [(condition on enc | None, form, payload kind, payload args...)])
# payload kinds (what the value IS; the layout comes from the reader's table):
#   address X            a target address                      -> relocatable WOp::Address             (layout addr)
#   uint X               a plain unsigned number               -> wu(X, n)                             (layout u1..u16, data4/8)
#   none                 nothing is written                                                             (layout zero / implicit)
#   uleb X / sleb X      LEB128 number                                                                  (layout uleb / sleb)
#   block                uleb length then the bytes                                                     (layout blku)
#   expr                 uleb length then the expression of exactly that many bytes                     (layout blku)
#   cstr                 the bytes then a NUL                                                           (layout cstr)
#   secoff X S           offset X into section S of THIS file  -> relocatable WOp::Offset, word size    (layout word; data4/data8
#                                                                                  only as the DWARF 2/3 encoding under the same format)
#   supoff X             offset into the SUPPLEMENTARY file: plain number, word size, Err if too large  (layout word, u4/u8 by format)
#   unitref              placeholder word + entry in unit_refs at the placeholder's offset              (layout u4 / u8 by format)
#   inforef              Symbol: relocatable WOp::Reference; Entry: placeholder + DebugInfoFixup        (layout refaddr)
V23 = 'enc.version == 2 || enc.version == 3'
D32 = 'enc.format is Dwarf32'
D64 = 'enc.format is Dwarf64'


def secptr(x, sec):
    """section-offset class: DWARF 2/3 have no DW_FORM_sec_offset; data4 (32-bit format) / data8 (64-bit) are used"""
    return [(f'({V23}) && {D32}', 'DW_FORM_data4', 'secoff', x, sec), (f'({V23}) && {D64}', 'DW_FORM_data8', 'secoff', x, sec),
            (None, 'DW_FORM_sec_offset', 'secoff', x, sec)]


def enumv(name):
    return (name, f'AttributeValue::{name}(val)', [(None, 'DW_FORM_udata', 'uleb', 'val.0 as u64')])


WVARS = [
    ('Address', 'AttributeValue::Address(val)', [(None, 'DW_FORM_addr', 'address', 'val')]),
    ('Block', 'AttributeValue::Block(val)', [(None, 'DW_FORM_block', 'block')]),
    ('Data1', 'AttributeValue::Data1(val)', [(None, 'DW_FORM_data1', 'uint', 'val as nat')]),
    ('Data2', 'AttributeValue::Data2(val)', [(None, 'DW_FORM_data2', 'uint', 'val as nat')]),
    ('Data4', 'AttributeValue::Data4(val)', [(None, 'DW_FORM_data4', 'uint', 'val as nat')]),
    ('Data8', 'AttributeValue::Data8(val)', [(None, 'DW_FORM_data8', 'uint', 'val as nat')]),
    ('Data16', 'AttributeValue::Data16(val)', [(None, 'DW_FORM_data16', 'uint', 'val as nat')]),
    ('Sdata', 'AttributeValue::Sdata(val)', [(None, 'DW_FORM_sdata', 'sleb', 'val')]),
    ('Udata', 'AttributeValue::Udata(val)', [(None, 'DW_FORM_udata', 'uleb', 'val')]),
    # DWARF 5 7.5.3: the value of an implicit const lives in the abbreviation; before DWARF 5 the form does not exist
    ('ImplicitConst', 'AttributeValue::ImplicitConst(val)', [('enc.version >= 5', 'DW_FORM_implicit_const', 'none'),
                                                             (None, 'DW_FORM_sdata', 'sleb', 'val')]),
    # DW_FORM_exprloc is new in DWARF 4; DWARF 2/3 encode expressions as blocks
    ('Exprloc', 'AttributeValue::Exprloc(val)', [('enc.version >= 4', 'DW_FORM_exprloc', 'expr'), (None, 'DW_FORM_block', 'expr')]),
    ('Flag', 'AttributeValue::Flag(val)', [(None, 'DW_FORM_flag', 'uint', '(if val { 1nat } else { 0nat })')]),
    ('FlagPresent', 'AttributeValue::FlagPresent', [('enc.version >= 4', 'DW_FORM_flag_present', 'none'), (None, 'DW_FORM_flag', 'uint', '1nat')]),
    ('UnitRef', 'AttributeValue::UnitRef(id)', [(D32, 'DW_FORM_ref4', 'unitref'), (None, 'DW_FORM_ref8', 'unitref')]),
    ('DebugInfoRef', 'AttributeValue::DebugInfoRef(r)', [(None, 'DW_FORM_ref_addr', 'inforef')]),
    ('DebugInfoRefSup', 'AttributeValue::DebugInfoRefSup(val)', [(D32, 'DW_FORM_ref_sup4', 'supoff', 'val.0'), (None, 'DW_FORM_ref_sup8', 'supoff', 'val.0')]),
    ('LineProgramRef', 'AttributeValue::LineProgramRef', secptr('line_program->Some_0.0', 'SectionId::DebugLine')),
    # DWARF <= 4: .debug_loc / .debug_ranges; DWARF 5: .debug_loclists / .debug_rnglists
    ('LocationListRef', 'AttributeValue::LocationListRef(val)',
     secptr('loc_lists.off(val).0', '(if enc.version <= 4 { SectionId::DebugLoc } else { SectionId::DebugLocLists })')),
    ('DebugMacinfoRef', 'AttributeValue::DebugMacinfoRef(val)', secptr('val.0', 'SectionId::DebugMacinfo')),
    ('DebugMacroRef', 'AttributeValue::DebugMacroRef(val)', secptr('val.0', 'SectionId::DebugMacro')),
    ('RangeListRef', 'AttributeValue::RangeListRef(val)',
     secptr('range_lists.off(val).0', '(if enc.version <= 4 { SectionId::DebugRanges } else { SectionId::DebugRngLists })')),
    ('DebugTypesRef', 'AttributeValue::DebugTypesRef(val)', [(None, 'DW_FORM_ref_sig8', 'uint', 'val.0 as nat')]),
    ('StringRef', 'AttributeValue::StringRef(val)', [(None, 'DW_FORM_strp', 'secoff', 'strings.off(val).0', 'SectionId::DebugStr')]),
    ('DebugStrRefSup', 'AttributeValue::DebugStrRefSup(val)', [(None, 'DW_FORM_strp_sup', 'supoff', 'val.0')]),
    ('LineStringRef', 'AttributeValue::LineStringRef(val)', [(None, 'DW_FORM_line_strp', 'secoff', 'line_strings.off(val).0', 'SectionId::DebugLineStr')]),
    ('String', 'AttributeValue::String(val)', [(None, 'DW_FORM_string', 'cstr')]),
    enumv('Encoding'), enumv('DecimalSign'), enumv('Endianity'), enumv('Accessibility'), enumv('Visibility'), enumv('Virtuality'),
    enumv('Language'), enumv('AddressClass'), enumv('IdentifierCase'), enumv('CallingConvention'), enumv('Inline'), enumv('Ordering'),
    ('FileIndex', 'AttributeValue::FileIndex(val)', [(None, 'DW_FORM_udata', 'uleb', 'file_raw(val, enc.version)')]),
]

FIXED_N = {'u1': 1, 'u2': 2, 'u3': 3, 'u4': 4, 'u8': 8, 'u16': 16, 'data4': 4, 'data8': 8}


def layout(form):
    if form not in RD_FORMS:
        raise Lost(f'wunit: form {form} is not in the reader table ({RD_SOURCE})')
    return RD_FORMS[form]


def case_size(case):
    """spec expression Option<nat>: size of the value, derived from the READER's layout of the case's form"""
    cond, form, kind = case[0], case[1], case[2]
    code, lay = layout(form)
    bad = Lost(f'wunit: payload kind {kind} cannot be held by layout {lay} of {form} ({RD_SOURCE})')
    if kind == 'address':
        if lay != 'addr':
            raise bad
        return 'Some(enc.address_size as nat)'
    if kind == 'uint':
        if lay not in FIXED_N:
            raise bad
        return f'Some({FIXED_N[lay]}nat)'
    if kind == 'none':
        if lay not in ('zero', 'implicit'):
            raise bad
        return 'Some(0nat)'
    if kind == 'uleb':
        if lay != 'uleb':
            raise bad
        return f'Some(uleb_size(({case[3]}) as nat))'
    if kind == 'sleb':
        if lay != 'sleb':
            raise bad
        return f'Some(sleb_size(({case[3]}) as int))'
    if kind == 'block':
        if lay != 'blku':
            raise bad
        return 'Some(uleb_size(val@.len()) + val@.len())'
    if kind == 'expr':
        if lay != 'blku':
            raise bad
        return 'match val.size_spec(enc, Some(&offsets)) { Ok(n) => Some(uleb_size(n as nat) + n as nat), Err(_) => None }'
    if kind == 'cstr':
        if lay != 'cstr':
            raise bad
        return 'Some(val@.len() + 1)'
    if kind in ('secoff', 'supoff', 'unitref'):
        # a word-sized field: the layout must be `word`, or the 4-/8-byte layout under exactly the 32-/64-bit format
        if lay == 'word':
            return f'Some({WORD})'
        fmt = {4: 'Dwarf32', 8: 'Dwarf64'}.get(FIXED_N.get(lay))
        ok = fmt is not None and ((cond is not None and f'enc.format is {fmt}' in cond) or (cond is None and fmt == 'Dwarf64' and kind != 'secoff'))
        if kind == 'secoff' and lay in ('data4', 'data8') and V23 not in (cond or ''):
            ok = False      # data4/data8 are section offsets only as the DWARF 2/3 encoding
        if not ok:
            raise bad
        return f'Some({FIXED_N[lay]}nat)'
    if kind == 'inforef':
        if lay != 'refaddr':
            raise bad
        return 'Some(wref_addr_size(enc))'
    raise bad


def case_emit(case):
    """(spec expression over W0/W1/fix-up lists: exactly what `write` does for this case, [extra tags])"""
    kind = case[2]
    code, lay = layout(case[1])
    if kind == 'address':
        return f'emitted({W0}, {W1}, WOp::Address {{ address: {case[3]}, size: enc.address_size }}) && {NOFIX}', ['C18:attr-address']
    if kind == 'uint':
        return f'emitted({W0}, {W1}, wu({case[3]}, {FIXED_N[lay]})) && {NOFIX}', []
    if kind == 'none':
        return f'wunch({W0}, {W1}) && {NOFIX}', []
    if kind == 'uleb':
        return f'emitted({W0}, {W1}, WOp::Uleb({case[3]})) && {NOFIX}', []
    if kind == 'sleb':
        return f'emitted({W0}, {W1}, WOp::Sleb({case[3]})) && {NOFIX}', []
    if kind == 'block':
        return f'emitted2({W0}, {W1}, WOp::Uleb(val@.len() as u64), WOp::Bytes(val@)) && {NOFIX}', []
    if kind == 'cstr':
        return f'emitted2({W0}, {W1}, WOp::Bytes(val@), wu(0, 1)) && {NOFIX}', []
    if kind == 'expr':
        return (f'(val.size_spec(enc, Some(offsets)) matches Ok(n) && wprefix({W0}.ops.push(WOp::Uleb(n as u64)), {W1}.ops) && '
                f'{W1}.len == {W0}.len + uleb_size(n as nat) + n && final(unit_refs)@ == old(unit_refs)@ && '
                f'seq_prefix(old(debug_info_refs)@, final(debug_info_refs)@) && '
                f'fixups_within(final(debug_info_refs)@, old(debug_info_refs)@.len() as int, {W0}.len + uleb_size(n as nat), {W1}.len))'), []
    if kind == 'secoff':
        return (f'emitted({W0}, {W1}, WOp::Offset {{ val: {case[3]}, section: {case[4]}, size: {WORD} as u8 }}) && {NOFIX}',
                ['C18:attr-offset'])
    if kind == 'supoff':
        return f'emitted({W0}, {W1}, wu(({case[3]}) as nat, {WORD})) && ufits(({case[3]}) as nat, {WORD}) && {NOFIX}', []
    if kind == 'unitref':
        return (f'emitted({W0}, {W1}, wu(0, {WORD})) && final(unit_refs)@ == old(unit_refs)@.push((DebugInfoOffset({W0}.len as usize), id)) && '
                f'final(debug_info_refs)@ == old(debug_info_refs)@'), ['C11:fixup-at-placeholder']
    if kind == 'inforef':
        sz = 'wref_addr_size(enc) as u8'
        return ((f'(match r {{ DebugInfoRef::Symbol(symbol) => emitted({W0}, {W1}, WOp::Reference {{ symbol, size: {sz} }}) && {NOFIX}, '
                f'DebugInfoRef::Entry(u, e) => emitted({W0}, {W1}, wu(0, wref_addr_size(enc))) && final(unit_refs)@ == old(unit_refs)@ && '
                f'final(debug_info_refs)@ == old(debug_info_refs)@.push(DebugInfoFixup {{ offset: {W0}.len as usize, size: {sz}, unit: u, entry: e }}) }})'),
                ['C18:attr-reference', 'C11:fixup-at-placeholder'])
    raise Lost('wunit: payload kind ' + kind)


def ite(cases, f):
    """if c1 { f(case1) } else if c2 { .. } else { f(last) }"""
    out = ''
    for k, case in enumerate(cases):
        if case[0] is None:
            assert k == len(cases) - 1
            out += f'{{ {f(case)} }}' if k else f(case)
        else:
            out += f'if {case[0]} {{ {f(case)} }} else '
    return out


def pat_any(pat):
    return re.sub(r'\((val|id|r)\)', '(_)', pat)


def form_expr(case):
    code, lay = layout(case[1])
    ic = 'Some(val)' if lay == 'implicit' else 'None::<i64>'
    return f'(constants::DwForm({code:#x}), {ic})'     # {case[1]}


def gen_specs():
    fo, sz = [], []
    for name, pat, cases in WVARS:
        p = pat if any(layout(c[1])[1] == 'implicit' for c in cases) else pat_any(pat)
        fo.append(f'        {p} => {ite(cases, form_expr)},   // ' + ' / '.join(c[1] for c in cases))
        sz.append(f'        {pat} => {ite(cases, case_size)},')
    NL = '\n'
    rd = rd_fixed_size_text()
    return f'''
// ---- GENERATED by batches/wunit.py from WVARS x the reader's form table ({RD_SOURCE})
/// the form (and implicit-const operand) chosen for a value under an encoding
pub open spec fn form_of(v: AttributeValue, enc: Encoding) -> (constants::DwForm, Option<i64>) {{
    match v {{
{NL.join(fo)}
    }}
}}

/// bytes occupied by the value, computed from the READER's layout of `form_of(v, enc)`; None: the expression has no size
pub(crate) open spec fn attr_size_res(v: AttributeValue, enc: Encoding, offsets: UnitOffsets) -> Option<nat> {{
    match v {{
{NL.join(sz)}
    }}
}}

{rd}
'''


def rd_fixed_size_text():
    """the reader's size table as a spec fn `rd_fixed_size` (text generated by attrs.gen_specs(), renamed), together with
    the reader's own `ref_addr_size` definition cut out of specs/attrs.rs"""
    if _attrs is not None:
        g = _attrs.gen_specs()
        m = re.search(r'pub open spec fn fixed_size\(.*?\n\}\n', g, re.S)
        if not m:
            raise Lost('wunit: attrs.gen_specs() no longer emits fixed_size')
        fs = m.group(0).replace('fn fixed_size(', 'fn rd_fixed_size(').replace('ref_addr_size(', 'rd_ref_addr_size(')
        a = core.rd('specs/attrs.rs')
        m2 = re.search(r'pub open spec fn ref_addr_size\(.*?\n\}\n', a, re.S)
        if not m2:
            raise Lost('wunit: specs/attrs.rs no longer defines ref_addr_size')
        ra = m2.group(0).replace('fn ref_addr_size(', 'fn rd_ref_addr_size(')
        return '/// the READER\'s definitions (text taken from batches/attrs.py gen_specs() / specs/attrs.rs)\n' + ra + '\n' + fs
    rows = []
    for name, (code, lay) in sorted(RD_FORMS.items(), key=lambda x: x[1][0]):
        e = {'addr': 'enc.address_size as nat', 'word': 'word_size(enc.format)', 'refaddr': 'rd_ref_addr_size(enc)',
             'zero': '0nat', 'implicit': '0nat'}.get(lay, f'{FIXED_N[lay]}nat' if lay in FIXED_N else None)
        if e:
            rows.append(f'    if form == {code:#x} {{ Some({e}) }} else  // {name}')
    return ('pub open spec fn rd_ref_addr_size(enc: crate::common::Encoding) -> nat { if enc.version == 2 { enc.address_size as nat } else { word_size(enc.format) } }\n'
            'pub open spec fn rd_fixed_size(form: nat, enc: crate::common::Encoding) -> Option<nat> {\n' + '\n'.join(rows) + '\n    { None }\n}\n')


FORM_LAYOUT_LEMMA = '''
/// [C11:form-layout] the writer's size model agrees with the READER's size table: whenever the reader computes the size
/// of the chosen form from the encoding alone (get_attribute_size; attrs [C03:size-table]), that is the size predicted
/// by `size` ([C11:size-model]) and written by `write` ([C11:size-eq-len]).  Pure table-against-table proof.
pub(crate) proof fn lemma_form_layout(v: AttributeValue, enc: Encoding, offsets: UnitOffsets)
    ensures
        attr_size_res(v, enc, offsets) matches Some(n) ==> (rd_fixed_size(form_of(v, enc).0.0 as nat, enc) matches Some(k) ==> n == k), // [C11:form-layout]
        form_of(v, enc).1 is Some <==> form_of(v, enc).0.0 == 0x21, // [C11:form-implicit]
{
    hide(uleb_size); hide(sleb_size);
}
'''


def write_clauses(findings):
    out = [f'[C11:size-eq-len] res is Ok ==> (attr_size_res(*self, {ENC}, *offsets) matches Some(n) && {W1}.len == {W0}.len + n)']
    for name, pat, cases in WVARS:
        for k, case in enumerate(cases):
            emit, extra = case_emit(case)
            conds = [f'!({c[0]})' for c in cases[:k]] + ([case[0]] if case[0] else [])
            cond = ' && '.join(f'({c})' for c in conds) or 'true'
            tags = f'[C11:form-layout-{name}]' + ''.join(f'[{t}-{name}]' if t.startswith('C18') else f'[{t}]' for t in extra)
            head = f'*self matches {pat}' if '(' in pat else f'*self is {name}'
            out.append(f'{tags} ({head} ==> ({{ let enc = {ENC}; ({cond}) ==> (res is Ok ==> ({emit})) }}))')
            if case[2] == 'supoff':
                out.append(f'[C11:error-not-panic-{name}] ({head} ==> ({{ let enc = {ENC}; ({cond}) && !ufits(({case[3]}) as nat, {WORD}) ==> res is Err }}))')
    out.append('[C11:error-not-panic-LineProgramRef] *self is LineProgramRef && line_program is None ==> res == Err::<(), Error>(Error::InvalidAttributeValue)')
    # (on Err nothing is promised about the section: `w.write_uleb128(val.size(..)? as u64)?` leaves through `?` while the
    #  DerefMut borrow of the receiver is pending, which Verus cannot resolve; errors abort the whole unit anyway)
    out.append(f'[C11:w-frame] res is Ok ==> grew({W0}, {W1})')
    out.append('[C11:fixup-frame] seq_prefix(old(unit_refs)@, final(unit_refs)@) && seq_prefix(old(debug_info_refs)@, final(debug_info_refs)@)')
    # (Ok only: DebugInfoRef::Entry records its fix-up BEFORE the placeholder write; if that write fails the fix-up stays)
    out.append(f'[C11:fixup-inside] res is Ok ==> fixups_within(final(debug_info_refs)@, old(debug_info_refs)@.len() as int, {W0}.len, {W1}.len)')
    if findings:
        # DW_FORM_string is NUL terminated (DWARF 5 7.5.5): a value containing a NUL reads back truncated and the rest of the
        # entry is misparsed; the property asks for an error.  FAILS on the pinned tree: F-wunit-1
        out.append('[C11:string-no-nul] (*self matches AttributeValue::String(val) ==> (res is Ok ==> forall|i: int| 0 <= i < val@.len() ==> val@[i] != 0u8))')
    return out


# ---------------------------------------------------------------------------------------------------------------------
# mechanical macro expansion (R-MACRO): gimli defines ids / sections through macro_rules!; the arm is copied with the
# macro parameters substituted (doc attributes dropped), exactly like lib.dw_consts does for dw!
def expand_macro(ctx, rel, name, args):
    text = wcore.wsource(rel, ctx).text
    m = re.search(r'macro_rules!\s*%s\s*\{' % name, text)
    if not m:
        raise Lost(f'{rel}: macro {name} not found')
    b = m.end() - 1
    body = text[b + 1:match_close(text, b)]
    p0 = body.index('(')
    p1 = match_close(body, p0)
    params = re.findall(r'\$(\w+)\s*:\s*\w+', body[p0:p1])
    a0 = body.index('{', p1)
    arm = body[a0 + 1:match_close(body, a0)]
    if len(params) != len(args):
        raise Lost(f'{rel}: macro {name} takes {params}')
    arm = re.sub(r'#\[doc\s*=\s*\$\w+\]', '', arm)
    for p, a in sorted(zip(params, args), key=lambda x: -len(x[0])):
        arm = re.sub(r'\$%s\b' % p, a, arm)
    if '$' in arm:
        raise Lost(f'{rel}: macro {name}: unexpanded metavariable')
    arm = '\n'.join(l[8:] if l.startswith('        ') else l for l in arm.split('\n'))
    ctx.custom.append(('R-MACRO', f'{rel}:{name}!', f'{name}!({", ".join(args)})', 'arm copied, parameters substituted'))
    ctx.count('R-MACRO')
    return arm


class TextSource(Source):
    """items cut out of an expanded macro arm"""

    def __init__(self, rel, ctx, text):
        self.rel, self.ctx, self.text = rel, ctx, text


def define_id(ctx, name):
    ts = TextSource('write/mod.rs', ctx, expand_macro(ctx, 'write/mod.rs', 'define_id', [name, '""']))
    return [ts.item(r'^pub struct %s \{' % name, label=name).clean(), ts.item(r'^impl %s \{' % name, label=f'{name}(impl)').clean()]


MODELS_OP = '''
/// MODEL (trusted): opaque stand-in for `write::op::Expression` (a Vec<Operation>; verified in batch wop, C15)
#[derive(Debug, Clone, PartialEq, Eq)]
pub struct Expression { model: Vec<u8> }

impl Expression {
    /// `Expression::size` as a function of its arguments (it reads `unit_offsets` for DW_OP_*_type base type references)
    pub uninterp spec fn size_spec(&self, encoding: Encoding, unit_offsets: Option<&UnitOffsets>) -> Result<usize>;

    #[verifier::external_body]
    pub(crate) fn size(&self, encoding: Encoding, unit_offsets: Option<&UnitOffsets>) -> (res: Result<usize>)
        ensures res == self.size_spec(encoding, unit_offsets),
            // A-FIT: the encoded size of an expression is bounded by the memory its operations occupy
            res matches Ok(n) ==> n <= 0x7fff_ffff_ffff_ffff
    { unimplemented!() }

    /// assumed (batch wop [C15:size-eq-len]): advances by exactly `size`, appends to the fix-up list only, every appended
    /// fix-up lies inside the bytes written
    #[verifier::external_body]
    pub(crate) fn write<W: Writer>(&self, w: &mut W, refs: Option<&mut Vec<DebugInfoFixup>>, encoding: Encoding, unit_offsets: Option<&UnitOffsets>) -> (res: Result<()>)
        ensures grew(old(w).wv(), final(w).wv()),
            res is Ok ==> (self.size_spec(encoding, unit_offsets) matches Ok(n) && final(w).wv().len == old(w).wv().len + n),
            refs matches Some(r) ==> (seq_prefix(r@, final(r)@)
                && fixups_within(final(r)@, r@.len() as int, old(w).wv().len, final(w).wv().len)),
    { unimplemented!() }
}
'''


def table_model(ty, meth, idty, offty, what):
    return f'''
/// MODEL (trusted): {what}; only the accessor used by write::unit is modelled
pub struct {ty} {{ model: Vec<{offty}> }}

impl {ty} {{
    /// the offset recorded for `id`
    pub uninterp spec fn off(&self, id: {idty}) -> {offty};

    #[verifier::external_body]
    pub fn {meth}(&self, id: {idty}) -> (res: {offty})
        ensures res == self.off(id)
    {{ unimplemented!() }}
}}
'''


MODEL_ABBREV_TABLE = '''
/// MODEL (trusted): `AbbreviationTable` (FnvIndexSet<Abbreviation>); `add` returns the code of the abbreviation.
/// De-duplication / code stability are NOT DECIDED; the size model only needs that the same `codes[i]` is written
/// that was measured.
pub(crate) struct AbbreviationTable { model: Vec<Abbreviation> }

impl AbbreviationTable {
    #[verifier::external_body]
    pub fn add(&mut self, abbrev: Abbreviation) -> (res: u64)
    { unimplemented!() }
}
'''

FROM_BOOL = '''
/// std: `usize::from(bool)` is 0 / 1 (core::convert::From<bool> for usize; no vstd specification)
pub assume_specification[<usize as core::convert::From<bool>>::from](b: bool) -> (r: usize)
    ensures r == (if b { 1usize } else { 0usize });
'''

DRAIN = '''
/// MODEL (trusted): `fixups.drain(..)` consumed by a `for` loop = take the whole vector, leave it empty
#[verifier::external_body]
fn drain_fixups(fixups: &mut Vec<DebugInfoFixup>) -> (res: Vec<DebugInfoFixup>)
    ensures res@ == old(fixups)@, final(fixups)@.len() == 0
{ fixups.drain(..).collect() }
'''


def populate(ctx, sk, findings=False, part2=True):
    un = wcore.wsource('write/unit.rs', ctx)
    wmod = wcore.wsource('write/mod.rs', ctx)
    ab = Source('write/abbrev.rs', ctx)
    ln = Source('write/line.rs', ctx)
    for ty in ['DwForm', 'DwAt', 'DwTag']:
        wcore.ensure_structural(sk, 'constants', ty)
    for ty in ['DebugInfoOffset']:
        pass

    # ---- write: BaseId (debug build: a real id, so that the debug_assert_eq!(base_id, ..) are obligations)
    sk.mods['write']['uses'] += ('\npub use self::unit::*;\npub use self::op::*;\npub use self::str::*;\npub use self::range::*;'
                                 '\npub use self::loc::*;\npub use self::line::*;\npub use self::abbrev::*;'
                                 )
    sk.add('write', wmod.item(r'^struct BaseId\(usize\);', label='BaseId').clean())
    wcore.ensure_structural(sk, 'write', 'BaseId')

    # ---- ids and table models
    sk.module('write::str', 'use super::BaseId;\nuse crate::common::{DebugStrOffset, DebugLineStrOffset};')
    for it in define_id(ctx, 'StringId') + define_id(ctx, 'LineStringId'):
        sk.add('write::str', it)
    sk.add('write::str', table_model('StringTable', 'offset', 'StringId', 'DebugStrOffset', '`StringTable` (IndexSet + Vec of offsets)'), label='StringTable(model)')
    sk.add('write::str', table_model('LineStringTable', 'offset', 'LineStringId', 'DebugLineStrOffset', '`LineStringTable`'), label='LineStringTable(model)')
    sk.module('write::range', 'use super::BaseId;\nuse crate::common::RangeListsOffset;')
    for it in define_id(ctx, 'RangeListId'):
        sk.add('write::range', it)
    sk.add('write::range', table_model('RangeListOffsets', 'get', 'RangeListId', 'RangeListsOffset', '`RangeListOffsets` (define_offsets!)'), label='RangeListOffsets(model)')
    sk.module('write::loc', 'use super::BaseId;\nuse crate::common::LocationListsOffset;')
    for it in define_id(ctx, 'LocationListId'):
        sk.add('write::loc', it)
    sk.add('write::loc', table_model('LocationListOffsets', 'get', 'LocationListId', 'LocationListsOffset', '`LocationListOffsets` (define_offsets!)'), label='LocationListOffsets(model)')

    sk.module('write::line')
    # `mod id { pub struct FileId .. }` of write/line.rs: the module body, dedented (whitespace only)
    mid = ln.item(r'^mod id \{', label='line::id').text
    mb = mid.index('{')
    lid = TextSource('write/line.rs', ctx, '\n'.join(l[4:] if l.startswith('    ') else l for l in mid[mb + 1:match_close(mid, mb)].split('\n')))
    ctx.items.pop()      # the whole-module item above was only a cutting aid
    sk.add('write::line', lid.item(r'^pub struct FileId\(usize\);', label='FileId').clean())
    fid = lid.item(r'^impl FileId \{', label='FileId(impl)')
    fid.keep_only(['raw'])
    fid.clean()
    fid.own(OWN)
    fid.insert_members('    pub closed spec fn ix(self) -> usize { self.0 }')
    fid.splice('raw', ret='res', requires=['self.ix() < usize::MAX'],
               ensures=['[C11:file-index-base] res == (if version <= 4 { (self.ix() + 1) as u64 } else { self.ix() as u64 })'])
    sk.add('write::line', fid)

    sk.module('write::op', '''use crate::common::Encoding;
use crate::write::{Result, Writer};
use crate::write::unit::{DebugInfoFixup, UnitOffsets, seq_prefix, fixups_within};
use crate::wspec::*;''')
    sk.add('write::op', MODELS_OP, label='Expression(model)')

    sk.module('write::abbrev', 'use crate::constants;')
    sk.add('write::abbrev', ab.item(r'^pub\(crate\) struct Abbreviation \{', label='Abbreviation').clean())
    abi = ab.item(r'^impl Abbreviation \{', label='Abbreviation(impl)')
    abi.keep_only(['new'])
    abi.clean()
    abi.own(OWN)
    abi.insert_members('''    pub closed spec fn atag(&self) -> constants::DwTag { self.tag }
    pub closed spec fn ahas_children(&self) -> bool { self.has_children }
    pub closed spec fn aspecs(&self) -> Seq<AttributeSpecification> { self.attributes@ }''')
    abi.splice('new', ret='res', ensures=['res.atag() == tag', 'res.ahas_children() == has_children', 'res.aspecs() == attributes@'])
    sk.add('write::abbrev', abi)
    sk.add('write::abbrev', ab.item(r'^pub\(crate\) struct AttributeSpecification \{', label='AttributeSpecification').clean())
    asi = ab.item(r'^impl AttributeSpecification \{', label='AttributeSpecification(impl)')
    asi.keep_only(['new'])
    asi.clean()
    asi.own(OWN)
    asi.insert_members('''    pub closed spec fn sname(&self) -> constants::DwAt { self.name }
    pub closed spec fn sform(&self) -> constants::DwForm { self.form }
    pub closed spec fn sconst(&self) -> i64 { self.implicit_const_value }''')
    # DWARF 5 7.5.3: DW_FORM_implicit_const (and only it) carries a third operand in the abbreviation
    asi.splice('new', ret='res', requires=['[C11:spec-new-pre] (form.0 == 0x21) == (implicit_const_value is Some)'],
               ensures=['res.sname() == name', 'res.sform() == form',
                        '[C11:implicit-const-stored] implicit_const_value matches Some(c) ==> res.sconst() == c'], canary=True)
    sk.add('write::abbrev', asi)
    sk.add('write::abbrev', MODEL_ABBREV_TABLE, label='AbbreviationTable(model)')

    # ---- write::unit
    sk.module('write::unit', '''use core::ops::{Deref, DerefMut};
use crate::common::{
    DebugAbbrevOffset, DebugInfoOffset, DebugLineOffset, DebugMacinfoOffset, DebugMacroOffset,
    DebugStrOffset, DebugTypeSignature, Encoding, Format, SectionId,
};
use crate::constants;
use crate::leb128::write::{sleb128_size, uleb128_size};
use crate::write::{
    Abbreviation, AbbreviationTable, Address, AttributeSpecification, BaseId, Error, Expression,
    FileId, LineStringId, LineStringTable, LocationListId, LocationListOffsets,
    RangeListId, RangeListOffsets, Result,
    StringId, StringTable, Writer,
};
use crate::vspec::*;
use crate::wspec::*;''')
    for name in ['UnitId', 'UnitEntryId']:
        for it in define_id(ctx, name):
            sk.add('write::unit', it)

    # define_section!(DebugInfo, DebugInfoOffset, ..): struct, offset(), Deref, DerefMut (From / Section impls dropped)
    ds = TextSource('write/section.rs', ctx, expand_macro(ctx, 'write/section.rs', 'define_section', ['DebugInfo', 'DebugInfoOffset', '""']))
    sk.add('write::unit', ds.item(r'^pub struct DebugInfo<W: Writer>', label='DebugInfo').clean())
    dso = ds.item(r'^impl<W: Writer> DebugInfo<W> \{', label='DebugInfo(impl)').clean()
    dso.own(OWN)
    dso.splice('offset', ret='res', ensures=['res.0 as nat == self.0.wv().len'])
    sk.add('write::unit', dso)
    dd = ds.item(r'^impl<W: Writer> Deref for DebugInfo<W> \{', label='DebugInfo(Deref)').clean()
    dd.splice('deref', ret='res', ensures=['*res == self.0'])
    sk.add('write::unit', dd)
    dm = ds.item(r'^impl<W: Writer> DerefMut for DebugInfo<W> \{', label='DebugInfo(DerefMut)').clean()
    dm.splice('deref_mut', ret='res', ensures=['*res == old(self).0', 'final(self).0 == *final(res)'])
    sk.add('write::unit', dm)

    # struct Unit: R-FIELDS drops the three tables no extracted function touches
    ust = un.item(r'^pub struct Unit \{', label='Unit')
    ust.custom('R-FIELDS', 'pub line_program: LineProgram,', '')
    ust.custom('R-FIELDS', 'pub ranges: RangeListTable,', '')
    ust.custom('R-FIELDS', 'pub locations: LocationListTable,', '')
    sk.add('write::unit', ust.clean())
    sk.add('write::unit', un.item(r'^pub struct DebuggingInformationEntry \{', label='DebuggingInformationEntry').clean())
    sk.add('write::unit', un.item(r'^pub struct Attribute \{', label='Attribute').clean())
    sk.add('write::unit', un.item(r'^pub enum AttributeValue \{', label='AttributeValue').clean())
    sk.add('write::unit', un.item(r'^pub\(crate\) struct UnitOffsets \{', label='UnitOffsets').clean())
    sk.add('write::unit', un.item(r'^pub enum DebugInfoRef \{', label='DebugInfoRef').clean())
    sk.add('write::unit', un.item(r'^pub\(crate\) struct DebugInfoFixup \{', label='DebugInfoFixup').clean())
    sk.add('write::unit', core.rd('specs/wunit.rs').replace('/*GENERATED*/', gen_specs()), label='wunit-spec')
    sk.add('write::unit', FORM_LAYOUT_LEMMA, label='lemma_form_layout', owners=OWN)

    # ---- UnitOffsets
    uo = un.item(r'^impl UnitOffsets \{', label='UnitOffsets(impl)').clean()
    uo.own(OWN)
    # "Panics if id is invalid" (index out of range / other unit's id): explicit precondition
    uo.splice('debug_info_offset', ret='res', requires=['self.knows(entry)'],
              ensures=['[C11:offset-lookup] res == self.info_off(entry)'], canary=True)
    uo.splice('unit_offset', ret='res', requires=['self.knows(entry)', 'self.info_off(entry) matches Some(o) ==> o.0 >= self.unit_off()'],
              ensures=['[C11:unit-offset] res == (match self.info_off(entry) { Some(o) => Some((o.0 - self.unit_off()) as u64), None => None::<u64> })'])
    uo.insert_after('.map(|offset', ': DebugInfoOffset')
    uo.insert_after('(offset.0 - self.unit.0) as u64', ' }')
    uo.insert_before('(offset.0 - self.unit.0) as u64', '-> (r: u64) requires offset.0 >= self.unit.0 ensures r == (offset.0 - self.unit.0) as u64 { ')
    sk.add('write::unit', uo)

    # ---- Unit accessors
    ui = un.item(r'^impl Unit \{', label='Unit(impl)')
    ui.keep_only(['encoding', 'version', 'address_size', 'format', 'reorder_base_types'] if part2 else ['encoding', 'version', 'address_size', 'format'])
    ui.clean()
    ui.own(OWN)
    ui.splice('encoding', ret='res', ensures=['res == self.enc()'])
    ui.splice('version', ret='res', ensures=['res == self.enc().version'])
    ui.splice('address_size', ret='res', ensures=['res == self.enc().address_size'])
    ui.splice('format', ret='res', ensures=['res == self.enc().format'])
    if part2:
        reorder_contract(ui)
    sk.add('write::unit', ui)

    # ---- Attribute::specification
    at = un.item(r'^impl Attribute \{', label='Attribute(impl)')
    at.keep_only(['specification'])
    at.clean()
    at.own(OWN)
    at.splice('specification', ret='res', ensures=[
        '[C11:abbrev-spec] res matches Ok(s) ==> s.sname() == self.aname() && s.sform() == form_of(self.aval(), encoding).0 && '
        '(form_of(self.aval(), encoding).1 matches Some(c) ==> s.sconst() == c)',
        '[C11:error-not-panic] res is Ok'])
    sk.add('write::unit', at)

    # ---- AttributeValue::{form, size, write}
    av = un.item(r'^impl AttributeValue \{', label='AttributeValue(impl)')
    av.clean()
    av.own(OWN)
    av.splice('form', ret='res', ensures=[
        '[C11:form-table] res == Ok::<(constants::DwForm, Option<i64>), Error>(form_of(*self, encoding))',
        # DWARF 5 7.5.3: the implicit const operand accompanies exactly DW_FORM_implicit_const
        '[C11:form-implicit] res matches Ok(p) ==> ((p.0.0 == 0x21) == (p.1 is Some))'])
    av.insert_after('val.map(|id', ': FileId', nth=0)
    av.insert_after('val.map(|id', ': FileId', nth=1)
    for k in range(2):
        av.insert_before('id.raw(unit.version())', '-> (r: u64) requires id.ix() < usize::MAX ensures r == file_raw(Some(id), unit.enc().version) { ', nth=k)
    # the insert_before above shifts the text; the closing braces go after each call
    for k in range(2):
        av.insert_after('id.raw(unit.version())', ' }', nth=k)
    # the closed forms of uleb_size/sleb_size are not needed (both sides name the same term): hidden, as the first
    # statement of the two bodies (a Verus header; ghost)
    for k in range(2):
        av.insert_before('macro_rules! debug_assert_form {', 'hide(uleb_size); hide(sleb_size);\n        ', nth=k)
    av.splice('size', ret='res', requires=['attr_wf(*self)'], ensures=[
        f'[C11:size-model] res matches Ok(n) ==> attr_size_res(*self, {ENC}, *offsets) == Some(n as nat)',
        f'[C11:error-not-panic] res is Err ==> (*self matches AttributeValue::Exprloc(e) && e.size_spec({ENC}, Some(offsets)) is Err)',
        f'[C11:error-not-panic] attr_size_res(*self, {ENC}, *offsets) is None ==> res is Err'], canary=True)
    av.splice('write', ret='res', requires=['attr_wf(*self)'], ensures=write_clauses(findings), canary=True, split=WRITE_SPLIT)
    sk.add('write::unit', av)

    if part2:
        populate_tree(ctx, sk, un)
    return sk


def reorder_contract(ui):
    """Unit::reorder_base_types: stable partition of the root's children (base types first), nothing else changes"""
    K0 = 'old(self).ents()[old(self).root_ix() as int].kids()'
    P = '|c: UnitEntryId| old(self).ents()[c.ix() as int].etag().0 == 0x24'      # DW_TAG_base_type (DWARF 5 table 7.3)
    NP = '|c: UnitEntryId| old(self).ents()[c.ix() as int].etag().0 != 0x24'
    ui.insert_after('for entry in ', 'it1: ', nth=0)
    ui.insert_after('for entry in ', 'it2: ', nth=1)
    ui.splice('reorder_base_types',
              requires=['old(self).root_ix() < old(self).ents().len()',
                        f'forall|j: int| 0 <= j < {K0}.len() ==> (#[trigger] {K0}[j]).ix() < old(self).ents().len()'],
              ensures=[
                  f'[C11:base-types-first] final(self).ents()[old(self).root_ix() as int].kids() == '
                  f'filter_by({K0}, {P}, {K0}.len() as int) + filter_by({K0}, {NP}, {K0}.len() as int)',
                  '[C11:reorder-frame] final(self).ents().len() == old(self).ents().len() && final(self).root_ix() == old(self).root_ix() && final(self).enc() == old(self).enc()',
                  '[C11:reorder-frame] forall|i: int| 0 <= i < old(self).ents().len() && i != old(self).root_ix() ==> #[trigger] final(self).ents()[i] == old(self).ents()[i]',
                  '[C11:reorder-frame] ({ let a = final(self).ents()[old(self).root_ix() as int]; let b = old(self).ents()[old(self).root_ix() as int]; '
                  'a.eid() == b.eid() && a.etag() == b.etag() && a.esibling() == b.esibling() && a.eattrs() == b.eattrs() })'],
              before=[('let mut root_children', f'let ghost k0 = {K0}; let ghost p = {P}; let ghost np = {NP};'),
                      ('if self.entries[entry.index].tag == constants::DW_TAG_base_type {', 'proof { assert(*entry == k0[it1.index@]); assert(p(*entry) == (self.entries@[entry.index as int].tag.0 == 0x24)); }'),
                      ('if self.entries[entry.index].tag != constants::DW_TAG_base_type {', 'proof { assert(*entry == k0[it2.index@]); assert(np(*entry) == (self.entries@[entry.index as int].tag.0 != 0x24)); }')],
              loops={0: 'invariant root_children@ == filter_by(k0, p, it1.index@), root.children@ == k0, self.root.index < self.entries@.len(), p == (|c: UnitEntryId| old(self).ents()[c.ix() as int].etag().0 == 0x24), *root == self.entries@[self.root.index as int], '
                        'self.entries@ == old(self).entries@, self.root == old(self).root, '
                        'forall|j: int| 0 <= j < k0.len() ==> (#[trigger] k0[j]).ix() < self.entries@.len() // [C11:base-types-first]',
                     1: 'invariant root_children@ == filter_by(k0, p, k0.len() as int) + filter_by(k0, np, it2.index@), root.children@ == k0, self.root.index < self.entries@.len(), np == (|c: UnitEntryId| old(self).ents()[c.ix() as int].etag().0 != 0x24), '
                        '*root == self.entries@[self.root.index as int], self.entries@ == old(self).entries@, self.root == old(self).root, '
                        'forall|j: int| 0 <= j < k0.len() ==> (#[trigger] k0[j]).ix() < self.entries@.len() // [C11:base-types-first]'})


def populate_tree(ctx, sk, un):
    wcore.ensure_structural(sk, 'common', 'DebugInfoOffset')
    ut = un.item(r'^impl UnitTable \{', label='UnitTable(impl)')
    sk.add('write::unit', un.item(r'^pub struct UnitTable \{', label='UnitTable').clean())
    ut.keep_only(['write_debug_info_fixups'])
    ut.custom('R-DRAIN', 'for fixup in fixups.drain(..) {', 'let verif_drained = drain_fixups(fixups); for fixup in verif_drained {')
    ut.clean()
    ut.own(OWN)
    ut.insert_members("    pub closed spec fn tbase(&self) -> BaseId { self.base_id }\n"
                      "    pub closed spec fn tunits(&self) -> Seq<Unit> { self.units@ }")
    ut.insert_after('for fixup in ', 'it: ')
    W0u, W1u = 'old(w).wv()', 'final(w).wv()'
    FIXOK = ('(fx.unit.base() == self.tbase() && fx.unit.ix() < self.tunits().len() && '
             'self.tunits()[fx.unit.ix() as int].uoffs().knows(fx.entry))')
    PATCHED = ('self.tunits()[fx.unit.ix() as int].uoffs().info_off(fx.entry) matches Some(o) && '
               '#[trigger] {W}.ops[{W0}.ops.len() + k] == (WOp::PatchOffset {{ offset: fx.offset, val: o.0, section: SectionId::DebugInfo, size: fx.size }})')
    ut.splice('write_debug_info_fixups', ret='res',
              # "Panics if id is invalid": the ids recorded in the fix-ups belong to this table / their unit
              requires=[f'forall|k: int| 0 <= k < old(fixups)@.len() ==> ({{ let fx = #[trigger] old(fixups)@[k]; {FIXOK} }})'],
              ensures=[
                  # every fix-up is applied at the recorded offset, with the recorded size, through the RELOCATABLE patch
                  # primitive, with the offset the unit assigned to the entry (C18: PatchOffset, section .debug_info)
                  f'[C11:fixup-patched][C18:fixup-offset-at] res is Ok ==> {W1u}.ops.len() == {W0u}.ops.len() + old(fixups)@.len() && '
                  f'forall|k: int| 0 <= k < old(fixups)@.len() ==> ({{ let fx = old(fixups)@[k]; {PATCHED.format(W=W1u, W0=W0u)} }})',
                  f'[C11:fixup-no-growth] res is Ok ==> {W1u}.len == {W0u}.len',
                  f'[C11:w-frame] grew({W0u}, {W1u})'],
              before=[('let verif_drained', 'let ghost fx0 = fixups@;'), ('crate::verif_assert((self.base_id) == (fixup.unit.base_id));', 'proof { assert(fixup == fx0[it.index@]); }')],
              loops={0: f'invariant grew({W0u}, w.wv()), w.wv().len == {W0u}.len, w.wv().ops.len() == {W0u}.ops.len() + it.index@, verif_drained@ == fx0, '
                        f'forall|k: int| 0 <= k < fx0.len() ==> ({{ let fx = #[trigger] fx0[k]; {FIXOK} }}), '
                        f'forall|k: int| 0 <= k < it.index@ ==> ({{ let fx = fx0[k]; {PATCHED.format(W="w.wv()", W0=W0u)} }}) // [C11:fixup-patched][C18:fixup-offset-at]'})
    sk.add('write::unit', DRAIN, label='drain_fixups')
    sk.add('write::unit', FROM_BOOL, label='usize::from(bool)')
    sk.add('write::unit', ut)

    di = un.item(r'^impl DebuggingInformationEntry \{', label='DebuggingInformationEntry(impl)')
    di.keep_only(['abbreviation', 'size', 'write'])
    di.clean()
    di.own(OWN)
    di.insert_after('for attr in ', 'ita: ', nth=0)     # abbreviation
    di.insert_after('for attr in ', 'its: ', nth=1)     # size
    di.insert_after('for attr in ', 'itw: ', nth=2)     # write
    di.insert_after('for child in ', 'itc: ', nth=0)    # write

    # the sibling attribute is a unit-relative reference of word size: ref4 / ref8 must have that layout in the reader's table
    if FIXED_N.get(layout('DW_FORM_ref4')[1]) != 4 or FIXED_N.get(layout('DW_FORM_ref8')[1]) != 8:
        raise Lost('wunit: DW_FORM_ref4/ref8 layouts')
    SIB = f'(if encoding.format is Dwarf32 {{ {layout("DW_FORM_ref4")[0]:#x}u16 }} else {{ {layout("DW_FORM_ref8")[0]:#x}u16 }})'
    S = 'self.sibn()'
    SPECOK = ('({{ let at = #[trigger] self.eattrs()[k]; {A}[k + {S}].sname() == at.aname() && {A}[k + {S}].sform() == form_of(at.aval(), encoding).0 && '
              '(form_of(at.aval(), encoding).1 matches Some(c) ==> {A}[k + {S}].sconst() == c) }})')
    di.splice('abbreviation', ret='res', requires=['self.eattrs().len() < usize::MAX'], ensures=[
        '[C11:abbrev-entry] res matches Ok(a) ==> a.atag() == self.etag() && a.ahas_children() == (self.kids().len() > 0) && '
        f'a.aspecs().len() == self.eattrs().len() + {S}',
        # DW_AT_sibling (0x01) first, as a reference of the unit's word size
        f'[C11:abbrev-sibling] res matches Ok(a) ==> (self.has_sibling() ==> a.aspecs()[0].sname().0 == 0x01 && a.aspecs()[0].sform().0 == {SIB})',
        # the declared form of every attribute is the form whose layout `write` emits
        f'[C11:abbrev-forms] res matches Ok(a) ==> forall|k: int| 0 <= k < self.eattrs().len() ==> {SPECOK.format(A="a.aspecs()", S=S)}',
        '[C11:error-not-panic] res is Ok'],
        loops={0: f'invariant attrs@.len() == ita.index@ + {S}, sibling == self.has_sibling(), '
                  f'sibling ==> attrs@[0].sname().0 == 0x01 && attrs@[0].sform().0 == {SIB}, '
                  f'forall|k: int| 0 <= k < ita.index@ ==> {SPECOK.format(A="attrs@", S=S)} // [C11:abbrev-forms]'})

    E = 'unit.enc()'
    AWF = 'forall|k: int| 0 <= k < self.eattrs().len() ==> attr_wf(#[trigger] self.eattrs()[k].aval())'
    di.splice('size', ret='res', requires=[AWF, f'die_fits(*self, {E}, *offsets)'], ensures=[
        f'[C11:die-size-model] res matches Ok(n) ==> die_size(*self, {E}, *offsets, code) == Some(n as nat)',
        f'[C11:error-not-panic] res is Err <==> die_size(*self, {E}, *offsets, code) is None'],
        before=[('for attr in', 'let ghost base = size as nat;'),
                ('size += attr.value.size(unit, offsets)?;',
                 f'proof {{ assert(attr.aval() == self.eattrs()[its.index@].aval()); if attr_size_res(attr.aval(), {E}, *offsets) is None {{ '
                 f'lemma_upto_none(self.eattrs(), its.index@ + 1, self.eattrs().len() as int, {E}, *offsets); }} }}')],
        loops={0: f'invariant {AWF}, die_fits(*self, {E}, *offsets), base <= 18, '
                  f'base == uleb_size(code as nat) + (if self.has_sibling() {{ word_size({E}.format) }} else {{ 0nat }}), '
                  f'attrs_size_upto(self.eattrs(), its.index@, {E}, *offsets) == Some((size - base) as nat), size >= base // [C11:die-size-model]'},
        canary=True)

    IX = '(self.eid().ix() as int)'
    CODE = f'codes@[{IX}]'
    W0, W1 = 'old(w).0.wv()', 'final(w).0.wv()'
    PRE = ['unit_tree_ok(*unit)', 'unit_attrs_wf(*unit)',
           f'{IX} < unit.ents().len() && *self == unit.ents()[{IX}]',
           'offsets.base() == unit.ubase() && offsets.tab().len() == unit.ents().len() && codes@.len() == unit.ents().len()',
           f'offsets.unit_off() <= {W0}.len',
           # the table produced by calculate_offsets (R-ASSERT: debug_assert_eq!(offsets.debug_info_offset(self.id), Some(w.offset())))
           f'[C11:entry-offset-assert] layout_ok(*unit, {IX}, {W0}.len, *offsets, codes@)']
    D = f'die_size(*self, {E}, *offsets, {CODE})'
    HEAD = f'uleb_size({CODE} as nat) + (if self.has_sibling() {{ word_size({E}.format) }} else {{ 0nat }})'
    di.splice('write', ret='res', requires=PRE, decreases=f'height(*unit, {IX})', ensures=[
        # the subtree occupies exactly the bytes the size model predicts (so every later entry is where its offset says)
        f'[C11:tree-size-eq-len] res is Ok ==> (subtree_size(*unit, {IX}, *offsets, codes@) matches Some(n) && {W1}.len == {W0}.len + n)',
        # the abbreviation code that was measured is the one written, first
        f'[C11:entry-code] res is Ok ==> {W1}.ops.len() > {W0}.ops.len() && {W1}.ops[{W0}.ops.len() as int] == WOp::Uleb({CODE})',
        # DW_AT_sibling: unit-relative offset of the entry after this subtree, patched into the placeholder that follows the code
        f'[C11:sibling-patch] res is Ok && self.has_sibling() ==> {W1}.ops.last() == (WOp::PatchU {{ offset: {W0}.len + uleb_size({CODE} as nat), '
        f'val: ({W1}.len - offsets.unit_off()) as nat, size: word_size({E}.format) }})',
        f'[C11:w-frame] res is Ok ==> grew({W0}, {W1})',
        '[C11:fixup-frame] seq_prefix(old(unit_refs)@, final(unit_refs)@) && seq_prefix(old(debug_info_refs)@, final(debug_info_refs)@)'],
        before=[('crate::verif_assert((offsets.debug_info_offset(self.id)) == (Some(w.offset())));', f'proof {{ assert(entry_ok(*unit, {IX})); }}'),
                ('w.write_uleb128(codes[self.id.index])?;', 'let ghost w0 = w.0.wv();'),
                ('for attr in', 'let ghost wa = w.0.wv();'),
                ('if !self.children.is_empty() {', f'let ghost wk = w.0.wv(); proof {{ assert(attrs_size_upto(self.eattrs(), self.eattrs().len() as int, {E}, *offsets) == Some((wk.len - wa.len) as nat)); }}'),
                ('unit.entries[child.index].write(',
                 f'proof {{ assert(entry_ok(*unit, {IX})); assert(*child == self.kids()[itc.index@]); assert(kid_ok(*unit, {IX}, itc.index@)); assert(entry_ok(*unit, child.ix() as int)); '
                 f'lemma_kids_layout_mono(*unit, {IX}, itc.index@ + 1, self.kids().len() as int, wk.len, *offsets, codes@); }}')],
        loops={0: f'invariant unit_attrs_wf(*unit), {IX} < unit.ents().len() && *self == unit.ents()[{IX}], '
                  f'grew(w0, w.0.wv()), w.0.wv().ops.len() > w0.ops.len(), w.0.wv().ops[w0.ops.len() as int] == WOp::Uleb({CODE}), '
                  f'wa.len == w0.len + {HEAD}, '
                  f'attrs_size_upto(self.eattrs(), itw.index@, {E}, *offsets) == Some((w.0.wv().len - wa.len) as nat), w.0.wv().len >= wa.len, '
                  'seq_prefix(old(unit_refs)@, unit_refs@) && seq_prefix(old(debug_info_refs)@, debug_info_refs@) // [C11:tree-size-eq-len]',
               1: f'invariant unit_tree_ok(*unit), unit_attrs_wf(*unit), {IX} < unit.ents().len() && *self == unit.ents()[{IX}], '
                  'offsets.base() == unit.ubase() && offsets.tab().len() == unit.ents().len() && codes@.len() == unit.ents().len(), '
                  f'offsets.unit_off() <= w0.len, {D} == Some((wk.len - w0.len) as nat), wk.len >= w0.len, '
                  f'kids_layout(*unit, {IX}, self.kids().len() as int, wk.len, *offsets, codes@), '
                  f'grew(w0, w.0.wv()), w.0.wv().ops.len() > w0.ops.len(), w.0.wv().ops[w0.ops.len() as int] == WOp::Uleb({CODE}), '
                  f'kids_size(*unit, {IX}, itc.index@, *offsets, codes@) == Some((w.0.wv().len - wk.len) as nat), w.0.wv().len >= wk.len, '
                  'seq_prefix(old(unit_refs)@, unit_refs@) && seq_prefix(old(debug_info_refs)@, debug_info_refs@) // [C11:tree-size-eq-len]'},
        canary=True)
    sk.add('write::unit', di)


def build(ctx):
    sk = Skeleton(ctx, core.rd('prelude/crate.rs'))
    core.populate(ctx, sk)
    wcore.populate(ctx, sk)
    populate(ctx, sk, findings=True, part2=True)
    return sk
