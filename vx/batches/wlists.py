"""B-wlists: written range and location lists (DESIGN.md 6 C16, appendix A.5, finding F9). Property C16 (write side of C08).
Build = core.populate; wcore.populate; populate. All functions owned by C16.

FUNCTIONS UNDER CONTRACT (real bodies, /repo/src/write/range.rs, loc.rs, section.rs, mod.rs)
  RangeListTable::{write, write_ranges, write_rnglists}, LocationListTable::{write, write_loc, write_loclists},
  loc.rs `write_expression`, RangeListOffsets/LocationListOffsets::{get, count}, RangeListId/LocationListId::new,
  DebugRanges/DebugRngLists/DebugLoc/DebugLocLists::{offset, deref, deref_mut} (R-MACRO expansions of define_section!,
  define_offsets!, define_id!).
SPEC (vx/specs/wlists.rs + gen_spec below): ONE entry table ENTRIES for the four encodings; kind bytes and operand layouts
  of DW_RLE_* / DW_LLE_* are read from the READER batch's tables (lists.RLE / lists.LLE; a mismatch is exit 2), the
  DWARF 2-4 pair classification `pair_kind` is the reader's decision order ((0,0) end, first word all-ones = base
  selection, else range), `cld_prefix` makes the reader's version split (2-byte / ULEB128 length).
  <P>_<V>_upto(lists, i, j, ..) / <P>_<V>_len(..): the fields / bytes written after i complete lists and j entries of
  list i (P = rng|loc, V = pair|rle|lle) - the per-LIST and per-ENTRY statement at once.
TAGS (C16 unless noted)
  pair-fields / coded-fields [+C18:list-address]  Ok ==> the field log grew by exactly <P>_<V>_upto(all lists): per entry
        the words / kind byte + operands of the table, addresses through the relocatable write_address (WOp::Address),
        offsets as wu() (pair) / Uleb (coded), base selection = (all-ones, address), terminator (0,0) / DW_*_end_of_list
        after EVERY list; DWARF 5: the 7.28/7.29 header first and, last, the unit_length patch = bytes after the length field
  pair-len / coded-len      exact section growth;   list-offsets  the returned offsets: offs()[i] = writer len at the start
        of list i = start + <len>(lists, i, 0), base id = the table's;   offsets-get / offsets-count / section-offset
  pair-base-state           ghost: `have_base_address` == unit state OR a BaseAddress entry earlier in THIS list (reset per list)
  pair-reject-kind          every `return Err(InvalidRange|MissingBaseAddress|UnexpectedBaseAddress)` names a legitimate
        reason of the validity table <P>_pair_rejects (written from the property statement, precedence-free)
  pair-accept-only-valid, pair-reject-invalid   entries that are written are representable; Ok ==> every list is
        <P>_pair_list_ok (OffsetPair needs a base, StartEnd/StartLength conflict with one, empty ranges, StartLength whose
        end is not an address, DefaultLocation before v5)
  pair-reads-as-range:{offset-pair,start-end,start-length} / pair-reads-as-base-select / pair-unambiguous   the pair written for an entry is classified by a
        DWARF 2-4 consumer as what the entry is (never the terminator, the marker only for base selections).  FAILS: F-wlists-1
  start-length-end          the end word of StartLength is begin + length mathematically.                          FAILS: F-wlists-2
  counted-location, counted-location-too-large   length prefix == bytes Expression::write produced (2 bytes <= v4 /
        ULEB128 v5); a DWARF 2-4 description longer than 0xffff bytes is an error
  coded-need-v5, dispatch-empty / -pair / -coded / -unsupported-version   version 2-4 -> pair format in .debug_ranges/.debug_loc,
        5 -> .debug_rnglists/.debug_loclists, anything else Err(UnsupportedVersion), empty table writes nothing; no other
        section is touched
  frame                     grew() on Ok and Err
FINDINGS (exit 1 on the pinned tree; each reproduced natively, native/src/bin/f_wlists_<n>.rs; 8 obligations per pair writer)
  F-wlists-1 (= DESIGN F9, extended)  write_ranges / write_loc, `assert(.._pair_reads_back(..))` [C16:pair-reads-as-range:offset-pair] and
      [C16:pair-reads-as-range:start-end]: a first word equal to the all-ones marker is emitted as it is.
  F-wlists-2  write_ranges / write_loc StartLength arm: overflow obligations on `begin + length` and `addend + length as i64`
      (debug panic) and [C16:start-length-end] (`length as i64` wraps for length >= 2^63: wrong end, no panic).
  F-wlists-3  write_ranges / write_loc BaseAddress arm: three built-in obligations on `!0 >> (64 - address_size * 8)`:
      an unvalidated Encoding.address_size (0, 9.., 32..) panics instead of Err(UnsupportedWordSize).
  With the candidate fixes (size check first; reject marker-valued begin; checked end) the batch verifies with 0 errors.
ASSUMED (TRUSTED beyond wcore's)
  Expression::size, Expression::write  external_body (bodies = batch wop's subject): size() == spec_size, write() grows the
      section by spec_size bytes and logs spec_fields (uninterpreted); wop proves this under Expression's own invariants
      (refs_valid, targets_ok, isize bound), which are not restated here.
  RangeListOffsets::none / LocationListOffsets::none  external_body: BaseId::default() is a process-wide atomic counter.
REWRITES  R-MACRO (3 macros, mechanical), R-MAP `ranges/locations: FnvIndexSet<..>` -> `Vec<..>` (assumption: IndexSet::iter()
  yields insertion order = id order), R-FIELDS (Expression.operations; Sections projected to the list sections),
  R-DERIVE (list types: Debug only), type ascription on `let mut offsets` (insertion), `it1:/it2:` loop labels (insertion).
NOT DECIDED  RangeListTable::add/get, LocationListTable::add/get (IndexSet de-duplication, "equal lists share one id");
  `have_base_address` derivation in Unit::write (`.iter().any(closure)` inside a 100-line function) and the
  RangeListRef/LocationListRef arms of AttributeValue::write (60-arm match over types outside this batch);
  DWARF 5 validity: write_rnglists/write_loclists accept every list (OffsetPair with no base at all, empty ranges) - DWARF 5
  entries are self-describing so nothing is ambiguous, but nothing is rejected either (observation, no clause);
  that Address fields with a SYMBOLIC value do not relocate to 0 / all-ones; byte-level meaning of the fields (K-WPRIM, wreloc).
"""
import textwrap
from lib import *
from batches import core, wcore, lists as rlists
from batches.wcore import wsource

OWN = ['C16']
MULTIPLE_ERRORS = 16     # the pre-v5 writers have several INDEPENDENT genuine defects per function (see FINDINGS)
VERUS_ARGS = ['--rlimit', '60']
RETRY_RLIMIT = 120

TRUSTED = list(wcore.TRUSTED) + ['size', 'write', 'none']


# ------------------------------------------------------------------------------------------------------------------
# R-MACRO: mechanical expansion of the declarative macros `define_section!` (write/section.rs), `define_offsets!`,
# `define_id!` (write/mod.rs): the macro body with `$var` substituted; `#[doc=$docs]` dropped.  Items of the expansion
# are then cut out by the ordinary extractor (so R-DROP / provenance apply to them as to any source text).
class _Text(Source):
    def __init__(self, rel, ctx, text):
        self.rel, self.ctx, self.text = rel, ctx, text


def expand(ctx, src, macro, subst):
    m = src.item(r'^macro_rules! %s \{' % macro, label=macro + '!')
    ctx.items.remove(m)
    t = m.text
    a = t.index('=> {') + 4
    b = t.rindex('};')
    head = t[:a]
    for k in subst:
        if '$' + k + ':' not in head:
            raise Lost(f'{macro}!: parameter ${k} not in the macro head')
    body = re.sub(r'#\[doc\s*=\s*\$\w+\]', '', t[a:b])
    for k, v in subst.items():
        body = re.sub(r'\$%s\b' % k, v, body)
    if '$' in body:
        raise Lost(f'{macro}!: unexpected macro variable left in the expansion')
    ctx.custom.append(('R-MACRO', f'{src.rel}:{macro}!({", ".join(subst.values())})', 'macro invocation', 'expansion'))
    ctx.count('R-MACRO')
    return _Text(src.rel, ctx, textwrap.dedent(body))


def check_invocation(src, macro, args):
    """the invocation `macro!(args..` must still be in the source file"""
    if not re.search(r'^%s!\(\s*%s' % (macro, r'\s*'.join(re.escape(a) for a in args)), src.text, re.M):
        raise Lost(f'{src.rel}: invocation {macro}!({" ".join(args)} ..) not found')


def debug_only(it):
    """R-DERIVE: derives reduced to Debug (PartialEq/Clone/Hash of the list types are only used by the IndexSet table)"""
    return it.custom_re('R-DERIVE', r'#\[derive\([^\]]*\)\]', '#[derive(Debug)]')


def ghost_at(it, anchor, ghost, nth=0, after=False):
    check_ghost(ghost)
    if after:
        it.insert_after(anchor, '\n' + ghost + '\n', nth=nth)
    else:
        it.insert_before(anchor, ghost + '\n', nth=nth)


# ------------------------------------------------------------------------------------------------------------------
# ONE entry table for the four encodings.  variant of write::Range / write::Location -> fields
#   pair: the two address-size words of the DWARF 2-4 pair format;  coded: name of the DW_RLE_* / DW_LLE_* kind, whose
#   kind byte and operand layout are TAKEN FROM THE READER BATCH's tables (lists.RLE / lists.LLE) - operand kinds
#   'addr' (address-size field -> relocatable WOp::Address, C18), 'uleb' (WOp::Uleb), 'cld' (counted location description).
def ADDR(x, s):
    return f'WOp::Address {{ address: {x}, size: {s} }}'


def U(x, s):
    return f'wu({x} as nat, {s} as nat)'


ENTRIES = [
    # variant, binders, pair words, coded kind, coded operands [(layout, value)]
    ('BaseAddress', ['address'], (U('ones(size)', 'size'), ADDR('address', 'size')), 'base_address', [('addr', 'address')]),
    ('OffsetPair', ['begin', 'end'], (U('begin', 'size'), U('end', 'size')), 'offset_pair', [('uleb', 'begin'), ('uleb', 'end')]),
    ('StartEnd', ['begin', 'end'], (ADDR('begin', 'size'), ADDR('end', 'size')), 'start_end', [('addr', 'begin'), ('addr', 'end')]),
    ('StartLength', ['begin', 'length'], (ADDR('begin', 'size'), ADDR('addr_add(begin, length)', 'size')), 'start_length', [('addr', 'begin'), ('uleb', 'length')]),
    ('DefaultLocation', [], None, 'default_location', []),      # locations only; no DWARF 2-4 encoding
]


def reader_kind(loc, name, layout):
    """kind byte of DW_RLE_<name> / DW_LLE_<name>; the reader's operand layout must be the one the writer table uses"""
    tab = rlists.LLE if loc else rlists.RLE
    for n, kind, ops, _pat, _cons in tab:
        if n == name:
            want = layout + (['cld'] if loc and name != 'base_address' else [])
            if ops != want:
                raise Lost(f'reader table {name}: operand layout {ops} != writer table {want}')
            return kind
    raise Lost(f'reader table has no kind {name}')


def gen_spec(loc):
    """spec functions for write::Range (loc=False) / write::Location (loc=True)"""
    P, E, L = ('loc', 'Location', 'LocationList') if loc else ('rng', 'Range', 'RangeList')
    XD = ', enc: Encoding, uo: Option<&UnitOffsets>, start: nat' if loc else ''     # extra parameters (declaration)
    XA = ', enc, uo, start' if loc else ''
    XD2 = ', enc: Encoding, uo: Option<&UnitOffsets>' if loc else ''
    XA2 = ', enc, uo' if loc else ''
    POSD = ', enc: Encoding, uo: Option<&UnitOffsets>, pos: nat' if loc else ''
    out = f'// ---- generated by vx/batches/wlists.py gen_spec(loc={loc})\n'

    def pat(v, binders):
        bs = list(binders) + (['data'] if loc and v != 'BaseAddress' else [])
        return f'{E}::{v} {{ {", ".join(bs)} }}' if bs else f'{E}::{v} {{ }}'

    ents = [e for e in ENTRIES if loc or e[0] != 'DefaultLocation']
    # ---- validity (property statement: "empty ranges, pairs that need or conflict with a base address, default locations
    # before v5 are rejected with an error"); an entry may be rejected for ANY applicable reason (no precedence implied)
    arms_rej, arms_enc = '', ''
    for v, b, pair, kind, ops in ents:
        if v == 'BaseAddress':
            arms_rej += f'        {pat(v, b)} => false,\n'
        elif v == 'OffsetPair':
            arms_rej += f'        {pat(v, b)} => (begin == end && e == Error::InvalidRange) || (!have_base && e == Error::MissingBaseAddress),\n'
        elif v == 'StartEnd':
            arms_rej += f'        {pat(v, b)} => (begin == end && e == Error::InvalidRange) || (have_base && e == Error::UnexpectedBaseAddress),\n'
        elif v == 'StartLength':
            arms_rej += (f'        {pat(v, b)} => (length == 0 && e == Error::InvalidRange) || (have_base && e == Error::UnexpectedBaseAddress)\n'
                         f'            || !addr_add_ok(begin, length),\n')
        else:
            arms_rej += f'        {pat(v, b)} => true,\n'
    out += f'''
/// `e` is a legitimate reason to refuse entry `r` in the DWARF 2-4 pair format, given whether a base address is in effect
/// (the unit's, or a preceding BaseAddress entry of THIS list). StartLength whose end is not an address and a
/// DefaultLocation (which has no encoding before DWARF 5) may be refused with any error.
pub open spec fn {P}_pair_rejects(r: {E}, have_base: bool, e: Error) -> bool {{
    match r {{
{arms_rej}    }}
}}
/// the entry cannot be represented in the pair format
pub open spec fn {P}_pair_bad(r: {E}, have_base: bool) -> bool {{
    exists|e: Error| {P}_pair_rejects(r, have_base, e)
}}
/// base-address state before entry `j` of a list; it starts from the UNIT's state at the start of every list
pub open spec fn {P}_base_before(list: Seq<{E}>, j: int, unit_base: bool) -> bool
    decreases j
{{
    if j <= 0 {{ unit_base }} else {{ {P}_base_before(list, j - 1, unit_base) || list[j - 1] is BaseAddress }}
}}
/// every entry of the list is representable in the pair format
pub open spec fn {P}_pair_list_ok(list: Seq<{E}>, unit_base: bool) -> bool {{
    forall|j: int| 0 <= j < list.len() ==> !{P}_pair_bad(#[trigger] list[j], {P}_base_before(list, j, unit_base))
}}
'''
    # ---- the pair is read back as what it was written for (DWARF 2-4 unambiguity)
    arms = ''
    for v, b, pair, kind, ops in ents:
        if v == 'BaseAddress':
            arms += f'        {pat(v, b)} => forall|x: nat| pair_kind(ones(size) as nat, x, size) is BaseSelect,\n'
        elif v == 'OffsetPair':
            arms += f'        {pat(v, b)} => pair_kind(begin as nat, end as nat, size) is Range,\n'
        elif v == 'StartEnd':
            arms += f'        {pat(v, b)} => addr_pair_is_range(begin, end, size),\n'
        elif v == 'StartLength':
            arms += f'        {pat(v, b)} => addr_len_is_range(begin, length, size),\n'
        else:
            arms += f'        {pat(v, b)} => true,\n'
    out += f'''
/// a DWARF 2-4 consumer classifies the pair written for `r` as what `r` is: a base selection for BaseAddress, an address
/// range for everything else - never as the end of the list
pub open spec fn {P}_pair_reads_back(r: {E}, size: u8) -> bool {{
    match r {{
{arms}    }}
}}
'''
    # ---- fields
    for coded in (False, True):
        V = ('lle' if loc else 'rle') if coded else 'pair'
        push, elen = '', ''
        for v, b, pair, kind, ops in ents:
            has_data = loc and v != 'BaseAddress'
            if coded:
                kb = reader_kind(loc, kind, [o for o, _ in ops])
                fs = [f'wu({kb:#04x}, 1)']
                ln = ['1']
                for o, val in ops:
                    if o == 'addr':
                        fs.append(ADDR(val, 'size'))
                        ln.append('size as nat')
                    else:
                        fs.append(f'WOp::Uleb({val})')
                        ln.append(f'uleb_size({val} as nat)')
            elif pair is None:
                push += f'        {pat(v, b)} => prev,\n'
                elen += f'        {pat(v, b)} => 0,\n'
                continue
            else:
                fs = list(pair)
                ln = ['2 * size as nat']
            seq = 'prev' + ''.join(f'.push({f})' for f in fs)
            lsum = ' + '.join(ln)
            if has_data:
                push += f'        {pat(v, b)} => {seq} + cld_fields(data, enc, uo, pos + {lsum}),\n'
                elen += f'        {pat(v, b)} => {lsum} + cld_len(data, enc, uo),\n'
            else:
                push += f'        {pat(v, b)} => {seq},\n'
                elen += f'        {pat(v, b)} => {lsum},\n'
        if coded:
            term = f'.push(wu(0x00, 1))'
            tlen = '1'
            first = 'lists_header(henc)'
            flen = 'lists_header_len(henc)'
            HD, HA = ', henc: Encoding', ', henc'
            doc = ('DW_LLE_*' if loc else 'DW_RLE_*') + ' entries (DWARF 5 ' + ('2.6.2 / 7.29' if loc else '2.17.3 / 7.28') + '): kind byte, operands; DW_*_end_of_list = 0x00 ends a list; the contribution starts with its header'
        else:
            term = '.push(wu(0, size as nat)).push(wu(0, size as nat))'
            tlen = '2 * size as nat'
            first = 'Seq::<WOp>::empty()'
            flen = '0'
            HD, HA = '', ''
            doc = 'DWARF 2-4 pair format (2.17.3 / 2.6.2): two address-size words per entry, (all-ones, base) selects a base address, (0, 0) ends a list'
        out += f'''
/// {doc}
/// fields of entry `r` appended to `prev` (for locations: `pos` = section offset of the entry)
pub open spec fn {P}_{V}_push(prev: Seq<WOp>, r: {E}, size: u8{POSD}) -> Seq<WOp> {{
    match r {{
{push}    }}
}}
/// bytes of entry `r`
pub open spec fn {P}_{V}_elen(r: {E}, size: u8{XD2}) -> nat {{
    match r {{
{elen}    }}
}}
/// bytes written after `i` complete lists and `j` entries of list `i`
pub open spec fn {P}_{V}_len(lists: Seq<{L}>, i: int, j: int, size: u8{XD2}{HD}) -> nat
    decreases i, j
{{
    if j > 0 {{ {P}_{V}_len(lists, i, j - 1, size{XA2}{HA}) + {P}_{V}_elen(lists[i].0@[j - 1], size{XA2}) }}
    else if i > 0 {{ {P}_{V}_len(lists, i - 1, lists[i - 1].0@.len() as int, size{XA2}{HA}) + {tlen} }}
    else {{ {flen} }}
}}
/// fields written after `i` complete lists and `j` entries of list `i`
pub open spec fn {P}_{V}_upto(lists: Seq<{L}>, i: int, j: int, size: u8{XD}{HD}) -> Seq<WOp>
    decreases i, j
{{
    if j > 0 {{ {P}_{V}_push({P}_{V}_upto(lists, i, j - 1, size{XA}{HA}), lists[i].0@[j - 1], size{", enc, uo, start + " + P + "_" + V + "_len(lists, i, j - 1, size, enc, uo" + HA + ")" if loc else ""}) }}
    else if i > 0 {{ {P}_{V}_upto(lists, i - 1, lists[i - 1].0@.len() as int, size{XA}{HA}){term} }}
    else {{ {first} }}
}}
'''
    return out


LOC_SPEC = '''
/// a counted location description written at `pos`: the length prefix, then the expression's own fields
pub open spec fn cld_fields(data: Expression, enc: Encoding, uo: Option<&UnitOffsets>, pos: nat) -> Seq<WOp> {
    let n = data.spec_size(enc, uo);
    Seq::<WOp>::empty().push(cld_prefix(n, enc.version)) + data.spec_fields(enc, uo, pos + cld_prefix_len(n, enc.version))
}
pub open spec fn cld_len(data: Expression, enc: Encoding, uo: Option<&UnitOffsets>) -> nat {
    cld_prefix_len(data.spec_size(enc, uo), enc.version) + data.spec_size(enc, uo)
}
'''

EXPR_GHOST = '''    /// number of bytes `write` produces (batch wop: [C15:size-sum] / [C15:size-eq-len] prove size() == spec_size == bytes written)
    pub uninterp spec fn spec_size(&self, enc: Encoding, uo: Option<&UnitOffsets>) -> nat;
    /// the fields `write` logs when it starts at section offset `pos` (decided by batch wop, [C15:field-*])
    pub uninterp spec fn spec_fields(&self, enc: Encoding, uo: Option<&UnitOffsets>, pos: nat) -> Seq<WOp>;'''

ONES_BV = rlists.ONES_BV


def section_type(ctx, sk, mod, sec, name, offset):
    """define_section!(name, offset, ..): the newtype, `offset()`, Deref/DerefMut"""
    x = expand(ctx, sec, 'define_section', {'name': name, 'offset': offset})
    sk.add(mod, x.item(r'^pub struct %s<' % name, label=name).clean())
    im = x.item(r'^impl<W: Writer> %s<W> \{' % name, label=name + '(impl)').clean()
    im.own(OWN)
    im.splice('offset', ret='res', ensures=['[C16:section-offset] res.0 as nat == self.0.wv().len'])
    sk.add(mod, im)
    d = x.item(r'^impl<W: Writer> Deref for %s<W>' % name, label=name + '(Deref)').clean()
    d.own(OWN)
    d.splice('deref', ret='res', ensures=['*res == self.0'])
    sk.add(mod, d)
    dm = x.item(r'^impl<W: Writer> DerefMut for %s<W>' % name, label=name + '(DerefMut)').clean()
    dm.own(OWN)
    dm.splice('deref_mut', ret='res', ensures=['*res == old(self).0', 'final(self).0 == *final(res)'])
    sk.add(mod, dm)
    for h in ['From<W> for', 'Section<W> for']:
        ctx.dropped.append(f'{sec.rel}:define_section!({name})::impl {h} {name}<W>')
        ctx.count('R-DROP')


def id_type(ctx, sk, mod, wmod, name):
    x = expand(ctx, wmod, 'define_id', {'name': name})
    sk.add(mod, x.item(r'^pub struct %s \{' % name, label=name).clean())
    im = x.item(r'^impl %s \{' % name, label=name + '(impl)').clean()
    im.own(OWN)
    im.insert_members('    pub closed spec fn idx(&self) -> usize { self.index }\n    pub closed spec fn bid(&self) -> BaseId { self.base_id }')
    im.splice('new', ret='res', ensures=['res.idx() == index && res.bid() == base_id'])
    sk.add(mod, im)


def offsets_type(ctx, sk, mod, wmod, name, idname, offset):
    """define_offsets!(name: id => offset, ..): the struct, `get`, `count` (`none` draws a fresh BaseId from an atomic: dropped)"""
    x = expand(ctx, wmod, 'define_offsets', {'offsets': name, 'id': idname, 'offset': offset})
    sk.add(mod, x.item(r'^pub struct %s \{' % name, label=name).clean())
    im = x.item(r'^impl %s \{' % name, label=name + '(impl)')
    im.extbody(['none'])      # `BaseId::default()` draws a fresh id from a process-wide atomic counter: outside Verus
    im.clean()
    im.own(OWN)
    im.insert_members(f'    /// the recorded offsets, by list index; the table they belong to\n'
                      f'    pub closed spec fn offs(&self) -> Seq<{offset}> {{ self.offsets@ }}\n'
                      f'    pub closed spec fn bid(&self) -> BaseId {{ self.base_id }}')
    # documented API-misuse panic ("Panics if `id` is invalid") -> explicit requires
    im.splice('get', ret='res', requires=['self.bid() == id.bid()', 'id.idx() < self.offs().len()'],
              ensures=['[C16:offsets-get] res == self.offs()[id.idx() as int]'], canary=True)
    im.splice('count', ret='res', ensures=['[C16:offsets-count] res == self.offs().len()'])
    im.splice('none', ret='res', ensures=['res.offs().len() == 0'])
    sk.add(mod, im)


# NOT `group_wrote`: lemma_wrote_wrote (wrote(a,b,s), wrote(b,c,t) ==> wrote(a,c,s+t)) loops on any term wrote(v,v,s)
# (a = b = c: s+s, s+s+s, ...), which every loop entry `wrote(W0, w, ..)` with w == old(w) provides.  Called explicitly.
BCAST = 'broadcast use {crate::wspec::lemma_wrote_emitted, crate::wspec::lemma_wrote_grew, crate::wspec::lemma_wrote_nil};'


def tag(t):
    return f' // [C16:{t}]'


def expr_call(it, k, W0):
    """glue for the k-th `write_expression(..)?;` of the impl: the fields it wrote are appended to the fields so far"""
    call = 'write_expression(&mut w.0, refs, encoding, unit_offsets, data)?;'
    ghost_at(it, call, 'let ghost verif_v = w.0.wv();', nth=k)
    ghost_at(it, call, f'proof {{ lemma_wrote_append({W0}, verif_v, w.0.wv(), cld_fields(*data, encoding, unit_offsets, verif_v.len)); }}', nth=k, after=True)


def pair_writer(it, fn, loc):
    """contract of write_ranges / write_loc (DWARF 2-4 pair format)"""
    P, E = ('loc', 'Location') if loc else ('rng', 'Range')
    OFF = 'LocationListsOffset' if loc else 'RangeListsOffset'
    fld = 'locations' if loc else 'ranges'
    lst, ent = ('loc_list', 'loc') if loc else ('range_list', 'range')
    A = 'address_size'                                            # the local / parameter named in the body
    S = 'encoding.address_size' if loc else 'address_size'        # the same value in terms of the parameters
    X = ', encoding, unit_offsets' if loc else ''
    XS = ', encoding, unit_offsets, old(w).0.wv().len' if loc else ''
    LISTS = f'self.{fld}@'
    N = f'{LISTS}.len() as int'
    W0, W1, WC = 'old(w).0.wv()', 'final(w).0.wv()', 'w.0.wv()'
    I, J = 'it1.index@', 'it2.index@'
    it.insert_after(f'for {lst} in ', 'it1: ', nth=0)
    it.insert_after(f'for {ent} in ', 'it2: ', nth=0)
    ens = [
        f'[C16:pair-fields][C18:list-address] res is Ok ==> wrote({W0}, {W1}, {P}_pair_upto({LISTS}, {N}, 0, {S}{XS}))',
        f'[C16:pair-len] res is Ok ==> {W1}.len == {W0}.len + {P}_pair_len({LISTS}, {N}, 0, {S}{X})',
        f'[C16:list-offsets] res matches Ok(o) ==> o.bid() == self.base_id && o.offs().len() == {N} && forall|i: int| 0 <= i < {N} ==> '
        f'(#[trigger] o.offs()[i]).0 as nat == {W0}.len + {P}_pair_len({LISTS}, i, 0, {S}{X})',
        f'[C16:pair-reject-invalid] res is Ok ==> forall|i: int| 0 <= i < {N} ==> {P}_pair_list_ok((#[trigger] {LISTS}[i]).0@, have_unit_base_address)',
        f'[C16:pair-unambiguous] res is Ok ==> forall|i: int, j: int| 0 <= i < {N} && 0 <= j < {LISTS}[i].0@.len() ==> '
        f'{P}_pair_reads_back(#[trigger] {LISTS}[i].0@[j], {S})',
        f'[C16:frame] grew({W0}, {W1})',
    ]
    outer = f'''invariant
    0 <= {I} <= {N},
    wrote({W0}, {WC}, {P}_pair_upto({LISTS}, {I}, 0, {S}{XS})),{tag("pair-fields")}
    {WC}.len == {W0}.len + {P}_pair_len({LISTS}, {I}, 0, {S}{X}),{tag("pair-len")}
    offsets@.len() == {I},{tag("list-offsets")}
    forall|i: int| 0 <= i < {I} ==> (#[trigger] offsets@[i]).0 as nat == {W0}.len + {P}_pair_len({LISTS}, i, 0, {S}{X}),{tag("list-offsets")}
    forall|i: int| 0 <= i < {I} ==> {P}_pair_list_ok((#[trigger] {LISTS}[i]).0@, have_unit_base_address),{tag("pair-reject-invalid")}
    forall|i: int, j: int| 0 <= i < {I} && 0 <= j < {LISTS}[i].0@.len() ==> {P}_pair_reads_back(#[trigger] {LISTS}[i].0@[j], {S}),{tag("pair-unambiguous")}'''
    inner = f'''invariant
    0 <= {I} < {N}, *{lst} == {LISTS}[{I}], 0 <= {J} <= {lst}.0@.len(),
    wrote({W0}, {WC}, {P}_pair_upto({LISTS}, {I}, {J}, {S}{XS})),{tag("pair-fields")}
    {WC}.len == {W0}.len + {P}_pair_len({LISTS}, {I}, {J}, {S}{X}),{tag("pair-len")}
    have_base_address == {P}_base_before({lst}.0@, {J}, have_unit_base_address),{tag("pair-base-state")}
    forall|j: int| 0 <= j < {J} ==> !{P}_pair_bad(#[trigger] {lst}.0@[j], {P}_base_before({lst}.0@, j, have_unit_base_address)),{tag("pair-reject-invalid")}
    forall|j: int| 0 <= j < {J} ==> {P}_pair_reads_back(#[trigger] {lst}.0@[j], {S}),{tag("pair-unambiguous")}'''
    it.splice(fn, ret='res', ensures=ens, loops={0: outer, 1: inner}, attrs='#[verifier::loop_isolation(false)]',
              before=[('let mut offsets = Vec::new();', BCAST)])
    # type ascription (insertion only; the type is what inference finds from the struct literal at the end)
    it.insert_after('let mut offsets', f': Vec<{OFF}>', nth=0)
    R = f'*{ent}'
    HB = 'have_base_address'
    # ---- every `return Err(..)` of the validity table names a legitimate reason (ghost state proven in sync by the invariant)
    for k in range(3 if not loc else 4):
        ghost_at(it, 'return Err(Error::InvalidRange);', f'assert({P}_pair_rejects({R}, {HB}, Error::InvalidRange));{tag("pair-reject-kind")}', nth=k)
    ghost_at(it, 'return Err(Error::MissingBaseAddress);', f'assert({P}_pair_rejects({R}, {HB}, Error::MissingBaseAddress));{tag("pair-reject-kind")}')
    for k in range(2):
        ghost_at(it, 'return Err(Error::UnexpectedBaseAddress);', f'assert({P}_pair_rejects({R}, {HB}, Error::UnexpectedBaseAddress));{tag("pair-reject-kind")}', nth=k)
    # ---- entries that are written are representable, and the pair reads back as what it is
    if f'let marker = !0 >> (64 - {A} * 8);' not in it.text:
        raise Lost(f'{fn}: marker computation changed')
    ghost_at(it, f'match *{ent} {{', ONES_BV, nth=0)       # all-ones of 1, 2, 4, 8 bytes as shifts of !0u64
    ghost_at(it, f'w.write_address(address, {A})?;',
             f'assert({P}_pair_reads_back({R}, {S}));{tag("pair-reads-as-base-select")}')
    ghost_at(it, f'w.write_udata(begin, {A})?;',
             f'assert(!{P}_pair_bad({R}, {HB}));{tag("pair-accept-only-valid")}\n'
             f'assert({P}_pair_reads_back({R}, {S}));{tag("pair-reads-as-range:offset-pair")}')
    ghost_at(it, f'w.write_address(begin, {A})?;',
             f'assert(!{P}_pair_bad({R}, {HB}));{tag("pair-accept-only-valid")}\n'
             f'assert({P}_pair_reads_back({R}, {S}));{tag("pair-reads-as-range:start-end")}', nth=0)
    ghost_at(it, f'w.write_address(begin, {A})?;',
             f'assert(!{P}_pair_bad({R}, {HB}));{tag("pair-accept-only-valid")}\n'
             f'assert({P}_pair_reads_back({R}, {S}));{tag("pair-reads-as-range:start-length")}', nth=1)
    # ---- StartLength: the end word is begin + length (mathematically)
    ghost_at(it, 'if begin == end {', f'assert(addr_add_ok(begin, length) && end == addr_add(begin, length));{tag("start-length-end")}', nth=2)
    if loc:
        for k in range(3):
            expr_call(it, k, W0)


def coded_writer(it, fn, loc):
    """contract of write_rnglists / write_loclists (DWARF 5)"""
    P, V = ('loc', 'lle') if loc else ('rng', 'rle')
    OT = 'LocationListOffsets' if loc else 'RangeListOffsets'
    OFF = 'LocationListsOffset' if loc else 'RangeListsOffset'
    fld = 'locations' if loc else 'ranges'
    lst, ent = ('loc_list', 'loc') if loc else ('range_list', 'range')
    S = 'encoding.address_size'
    X = ', encoding, unit_offsets' if loc else ''
    XS = ', encoding, unit_offsets, old(w).0.wv().len' if loc else ''
    H = ', encoding'
    LISTS = f'self.{fld}@'
    N = f'{LISTS}.len() as int'
    W0, W1, WC = 'old(w).0.wv()', 'final(w).0.wv()', 'w.0.wv()'
    I, J = 'it1.index@', 'it2.index@'
    it.insert_after(f'for {lst} in ', 'it1: ', nth=1)
    it.insert_after(f'for {ent} in ', 'it2: ', nth=1)
    T = f'{P}_{V}_len({LISTS}, {N}, 0, {S}{X}{H})'
    ens = [
        f'[C16:coded-need-v5] encoding.version != 5 ==> res == Err::<{OT}, Error>(Error::NeedVersion(5)) && wunch({W0}, {W1})',
        f'[C16:coded-fields][C18:list-address] res is Ok ==> wrote({W0}, {W1}, {P}_{V}_upto({LISTS}, {N}, 0, {S}{XS}{H})'
        f'.push(lists_length_patch(encoding, {W0}.len, {W1}.len)))',
        f'[C16:coded-len] res is Ok ==> {W1}.len == {W0}.len + {T}',
        f'[C16:list-offsets] res matches Ok(o) ==> o.bid() == self.base_id && o.offs().len() == {N} && forall|i: int| 0 <= i < {N} ==> '
        f'(#[trigger] o.offs()[i]).0 as nat == {W0}.len + {P}_{V}_len({LISTS}, i, 0, {S}{X}{H})',
        f'[C16:frame] grew({W0}, {W1})',
    ]
    outer = f'''invariant
    0 <= {I} <= {N},
    wrote({W0}, {WC}, {P}_{V}_upto({LISTS}, {I}, 0, {S}{XS}{H})),{tag("coded-fields")}
    {WC}.len == {W0}.len + {P}_{V}_len({LISTS}, {I}, 0, {S}{X}{H}),{tag("coded-len")}
    offsets@.len() == {I}, length_base as nat <= {WC}.len,{tag("list-offsets")}
    forall|i: int| 0 <= i < {I} ==> (#[trigger] offsets@[i]).0 as nat == {W0}.len + {P}_{V}_len({LISTS}, i, 0, {S}{X}{H}),{tag("list-offsets")}'''
    inner = f'''invariant
    0 <= {I} < {N}, *{lst} == {LISTS}[{I}], 0 <= {J} <= {lst}.0@.len(),
    wrote({W0}, {WC}, {P}_{V}_upto({LISTS}, {I}, {J}, {S}{XS}{H})),{tag("coded-fields")}
    {WC}.len == {W0}.len + {P}_{V}_len({LISTS}, {I}, {J}, {S}{X}{H}), length_base as nat <= {WC}.len,{tag("coded-len")}'''
    it.splice(fn, ret='res', ensures=ens, loops={0: outer, 1: inner}, attrs='#[verifier::loop_isolation(false)]',
              before=[('let mut offsets = Vec::new();', BCAST),
                      ('let length_offset = w.write_initial_length(encoding.format)?;', 'proof { lemma_wrote_nil(w.0.wv()); }')])
    it.insert_after('let mut offsets', f': Vec<{OFF}>', nth=1)
    if loc:
        for k in range(3, 7):
            expr_call(it, k, W0)


SECTION_FIELDS = ['debug_ranges', 'debug_rnglists', 'debug_loc', 'debug_loclists', 'debug_loc_fixups', 'debug_loclists_fixups']


def sections_type(ctx, sk, sec):
    """write::Sections projected (R-FIELDS) to the four list sections and their fixup vectors"""
    sk.mods['write']['uses'] += '\npub use self::section::*;'
    sk.module('write::section', 'use crate::write::{DebugInfoFixup, DebugLoc, DebugLocLists, DebugRanges, DebugRngLists, Writer};')
    st = sec.item(r'^pub struct Sections<W: Writer> \{', label='Sections')
    for f in ['pub debug_abbrev: DebugAbbrev<W>,', 'pub debug_info: DebugInfo<W>,', 'pub debug_line: DebugLine<W>,', 'pub debug_line_str: DebugLineStr<W>,',
              'pub debug_str: DebugStr<W>,', 'pub debug_frame: DebugFrame<W>,', 'pub eh_frame: EhFrame<W>,', 'pub(crate) debug_info_fixups: Vec<DebugInfoFixup>,']:
        st.custom('R-FIELDS', f, '')
    for f in SECTION_FIELDS:
        if not re.search(r'\b%s:' % f, st.text):
            raise Lost(f'Sections: field {f}')
    sk.add('write::section', st.clean())


def dispatcher(it, loc):
    """RangeListTable::write / LocationListTable::write: the encoding is chosen by the unit's version (DWARF 2-4: pair format in
    .debug_ranges / .debug_loc; DWARF 5: .debug_rnglists / .debug_loclists); no other section is touched"""
    P, V = ('loc', 'lle') if loc else ('rng', 'rle')
    OT = 'LocationListOffsets' if loc else 'RangeListOffsets'
    fld = 'locations' if loc else 'ranges'
    old_s, new_s = ('debug_loc', 'debug_loclists') if loc else ('debug_ranges', 'debug_rnglists')
    L = 'LocationList' if loc else 'RangeList'
    it.insert_members(f'    /// the lists of the table in id order (ghost accessor for the pub(crate) contract)\n'
                      f'    pub closed spec fn lists(&self) -> Seq<{L}> {{ self.{fld}@ }}')
    LISTS = 'self.lists()'
    N = f'{LISTS}.len() as int'
    S = 'encoding.address_size'
    X = ', encoding, unit_offsets' if loc else ''

    def xs(sec):
        return f', encoding, unit_offsets, old(sections).{sec}.0.wv().len' if loc else ''
    O0, O1 = f'old(sections).{old_s}.0.wv()', f'final(sections).{old_s}.0.wv()'
    N0, N1 = f'old(sections).{new_s}.0.wv()', f'final(sections).{new_s}.0.wv()'
    # everything but the section that is written (and, for locations, ITS fixup vector) is left alone
    others = lambda keep: ' && '.join(f'final(sections).{f} == old(sections).{f}' for f in SECTION_FIELDS
                                      if f not in keep and not (loc and f in [k + '_fixups' for k in keep]))
    HB = 'have_base_address'
    # location lists: the frame pins WHICH fix-up queue receives the entry references of the expressions (C15: "every entry
    # reference resolving to the intended entry ... in location lists"): only the written section's own queue may change
    C15 = '[C15:loclist-fixup-queue]' if loc else ''
    it.splice('write', ret='res', ensures=[
        f'[C16:dispatch-empty] {N} == 0 ==> (res matches Ok(o) && o.offs().len() == 0) && {others([])} && {O1} == {O0} && {N1} == {N0}',
        f'[C16:dispatch-unsupported-version] {N} > 0 && !(2 <= encoding.version <= 5) ==> res == Err::<{OT}, Error>(Error::UnsupportedVersion(encoding.version)) '
        f'&& {others([])} && {O1} == {O0} && {N1} == {N0}',
        f'[C16:dispatch-pair]{C15} {N} > 0 && 2 <= encoding.version <= 4 ==> {others([old_s])} && (res matches Ok(o) ==> '
        f'wrote({O0}, {O1}, {P}_pair_upto({LISTS}, {N}, 0, {S}{xs(old_s)})) && (forall|i: int| 0 <= i < {N} ==> {P}_pair_list_ok((#[trigger] {LISTS}[i]).0@, {HB})) '
        f'&& o.offs().len() == {N} && (forall|i: int| 0 <= i < {N} ==> (#[trigger] o.offs()[i]).0 as nat == {O0}.len + {P}_pair_len({LISTS}, i, 0, {S}{X})))',
        f'[C16:dispatch-coded]{C15} {N} > 0 && encoding.version == 5 ==> {others([new_s])} && (res matches Ok(o) ==> '
        f'wrote({N0}, {N1}, {P}_{V}_upto({LISTS}, {N}, 0, {S}{xs(new_s)}, encoding).push(lists_length_patch(encoding, {N0}.len, {N1}.len))) '
        f'&& o.offs().len() == {N} && (forall|i: int| 0 <= i < {N} ==> (#[trigger] o.offs()[i]).0 as nat == {N0}.len + {P}_{V}_len({LISTS}, i, 0, {S}{X}, encoding)))',
    ])


def populate(ctx, sk):
    wmod = wsource('write/mod.rs', ctx)
    sec = Source('write/section.rs', ctx)
    rng = Source('write/range.rs', ctx)

    wcore.ensure_structural(sk, 'write', 'Address')      # `begin == end` on write::Address (derived PartialEq: structural)
    if not wcore._has(sk, 'write', 'struct BaseId'):
        sk.add('write', wmod.item(r'^struct BaseId\(usize\);', label='BaseId').clean())
    wcore.ensure_structural(sk, 'write', 'BaseId')       # debug_assert_eq!(self.base_id, id.base_id)
    sk.mods['write']['uses'] += '\npub use self::range::*;'

    sk.module('wlspec', 'use crate::common::{Encoding, Format};\nuse crate::vspec::*;\nuse crate::wspec::*;')
    sk.add('wlspec', core.rd('specs/wlists.rs'), label='wlspec')

    # ---- write::range
    M = 'write::range'
    sk.module(M, '''use core::ops::{Deref, DerefMut};
use crate::common::{Encoding, Format, RangeListsOffset, SectionId};
use crate::write::{Address, BaseId, Error, Result, Sections, Writer};
use crate::vspec::*;
use crate::wspec::*;
use crate::wlspec::*;''')
    check_invocation(rng, 'define_section', ['DebugRanges,', 'RangeListsOffset,'])
    check_invocation(rng, 'define_section', ['DebugRngLists,', 'RangeListsOffset,'])
    check_invocation(rng, 'define_offsets', ['RangeListOffsets:', 'RangeListId', '=>', 'RangeListsOffset,'])
    check_invocation(rng, 'define_id', ['RangeListId,'])
    section_type(ctx, sk, M, sec, 'DebugRanges', 'RangeListsOffset')
    section_type(ctx, sk, M, sec, 'DebugRngLists', 'RangeListsOffset')
    id_type(ctx, sk, M, wmod, 'RangeListId')
    offsets_type(ctx, sk, M, wmod, 'RangeListOffsets', 'RangeListId', 'RangeListsOffset')
    sk.add(M, debug_only(rng.item(r'^pub struct RangeList\(', label='RangeList')).clean())
    sk.add(M, debug_only(rng.item(r'^pub enum Range \{', label='Range')).clean())
    sk.add(M, gen_spec(False), label='rng-spec(generated)')
    # R-MAP: the table's IndexSet is projected to the Vec of its elements in insertion order (assumption: IndexSet::iter()
    # yields the elements in insertion order = id order, which is indexmap's documented behaviour); `add`/`get` (IndexSet
    # insert_full / indexing) are not extracted.
    tb = rng.item(r'^pub struct RangeListTable \{', label='RangeListTable')
    tb.custom('R-MAP', 'ranges: FnvIndexSet<RangeList>,', 'ranges: Vec<RangeList>,')
    sk.add(M, tb.clean())
    ti = rng.item(r'^impl RangeListTable \{', label='RangeListTable(impl)')
    ti.keep_only(['write', 'write_ranges', 'write_rnglists'])
    ti.clean()
    ti.own(OWN)
    pair_writer(ti, 'write_ranges', False)
    coded_writer(ti, 'write_rnglists', False)
    dispatcher(ti, False)
    sk.add(M, ti)
    populate_loc(ctx, sk, wmod, sec)
    sections_type(ctx, sk, sec)
    return sk


def populate_loc(ctx, sk, wmod, sec):
    loc = Source('write/loc.rs', ctx)
    wu_ = wsource('write/unit.rs', ctx)
    wo = Source('write/op.rs', ctx)
    sk.mods['write']['uses'] += '\npub use self::unit::*;\npub use self::op::*;\npub use self::loc::*;'

    # ---- write::unit: the types that appear in the signatures (ids, offsets, fixups); nothing of them is used here
    U_ = 'write::unit'
    sk.module(U_, 'use crate::common::DebugInfoOffset;\nuse crate::write::BaseId;')
    id_type(ctx, sk, U_, wmod, 'UnitId')
    id_type(ctx, sk, U_, wmod, 'UnitEntryId')
    sk.add(U_, wu_.item(r'^pub\(crate\) struct UnitOffsets \{', label='UnitOffsets').clean())
    sk.add(U_, wu_.item(r'^pub\(crate\) struct DebugInfoFixup \{', label='DebugInfoFixup').clean())

    # ---- write::op: Expression as an opaque value with `size` / `write` under ASSUMED contracts (verified in batch wop)
    O_ = 'write::op'
    sk.module(O_, '''use crate::common::Encoding;
use crate::write::{DebugInfoFixup, Error, Result, UnitOffsets, Writer};
use crate::wspec::*;''')
    ex = debug_only(wo.item(r'^pub struct Expression \{', label='Expression'))
    # R-FIELDS: `operations: Vec<Operation>` (the private operation enum and everything it drags in) is not touched by any
    # function with a body in this batch: size / write are external_body
    ex.custom('R-FIELDS', 'operations: Vec<Operation>,', '')
    sk.add(O_, ex.clean())
    ei = wo.item(r'^impl Expression \{', label='Expression(impl)')
    ei.keep_only(['size', 'write'])
    ei.extbody(['size', 'write'])
    ei.clean()
    ei.insert_members(EXPR_GHOST)
    ei.splice('size', ret='res', ensures=[
        '[C15:size-sum] res matches Ok(n) ==> n as nat == self.spec_size(encoding, unit_offsets)'])
    ei.splice('write', ret='res', ensures=[
        '[C15:size-eq-len] res is Ok ==> final(w).wv().len == old(w).wv().len + self.spec_size(encoding, unit_offsets)',
        '[C15:fields] res is Ok ==> wrote(old(w).wv(), final(w).wv(), self.spec_fields(encoding, unit_offsets, old(w).wv().len))',
        '[C15:frame] grew(old(w).wv(), final(w).wv())'])
    sk.add(O_, ei)

    # ---- write::loc
    M = 'write::loc'
    sk.module(M, '''use core::ops::{Deref, DerefMut};
use crate::common::{Encoding, Format, LocationListsOffset, SectionId};
use crate::write::{Address, BaseId, DebugInfoFixup, Error, Expression, Result, Sections, UnitOffsets, Writer};
use crate::vspec::*;
use crate::wspec::*;
use crate::wlspec::*;''')
    check_invocation(loc, 'define_section', ['DebugLoc,', 'LocationListsOffset,'])
    check_invocation(loc, 'define_section', ['DebugLocLists,', 'LocationListsOffset,'])
    check_invocation(loc, 'define_offsets', ['LocationListOffsets:', 'LocationListId', '=>', 'LocationListsOffset,'])
    check_invocation(loc, 'define_id', ['LocationListId,'])
    section_type(ctx, sk, M, sec, 'DebugLoc', 'LocationListsOffset')
    section_type(ctx, sk, M, sec, 'DebugLocLists', 'LocationListsOffset')
    id_type(ctx, sk, M, wmod, 'LocationListId')
    offsets_type(ctx, sk, M, wmod, 'LocationListOffsets', 'LocationListId', 'LocationListsOffset')
    sk.add(M, debug_only(loc.item(r'^pub struct LocationList\(', label='LocationList')).clean())
    sk.add(M, debug_only(loc.item(r'^pub enum Location \{', label='Location')).clean())
    sk.add(M, LOC_SPEC + gen_spec(True), label='loc-spec(generated)')
    we = loc.item(r'^fn write_expression<', label='write_expression').clean()
    W0, W1 = 'old(w).wv()', 'final(w).wv()'
    we.splice('write_expression', ret='res', owners=OWN, ensures=[
        # DWARF 2.6.2: the prefix is the number of bytes of the location description that follows it
        f'[C16:counted-location] res is Ok ==> wrote({W0}, {W1}, cld_fields(*val, encoding, unit_offsets, {W0}.len)) '
        f'&& {W1}.len == {W0}.len + cld_len(*val, encoding, unit_offsets)',
        '[C16:counted-location-too-large] encoding.version <= 4 && val.spec_size(encoding, unit_offsets) > 0xffff ==> res is Err',
        f'[C16:frame] grew({W0}, {W1})'],
        before=[('let size = ', BCAST + ' let ghost verif_v0 = w.wv();'),
                ('val.write(w, Some(refs), encoding, unit_offsets)?;',
                 'let ghost verif_v1 = w.wv(); proof { lemma_emitted_wrote(verif_v0, verif_v1, cld_prefix(val.spec_size(encoding, unit_offsets), encoding.version)); }')],
        after=[('val.write(w, Some(refs), encoding, unit_offsets)?;',
                'proof { lemma_wrote_wrote(verif_v0, verif_v1, w.wv(), Seq::<WOp>::empty().push(cld_prefix(val.spec_size(encoding, unit_offsets), encoding.version)), '
                'val.spec_fields(encoding, unit_offsets, verif_v1.len)); '
                'assert(seq![cld_prefix(val.spec_size(encoding, unit_offsets), encoding.version)] =~= Seq::<WOp>::empty().push(cld_prefix(val.spec_size(encoding, unit_offsets), encoding.version))); }')])
    sk.add(M, we)
    tb = loc.item(r'^pub struct LocationListTable \{', label='LocationListTable')
    tb.custom('R-MAP', 'locations: FnvIndexSet<LocationList>,', 'locations: Vec<LocationList>,')
    sk.add(M, tb.clean())
    ti = loc.item(r'^impl LocationListTable \{', label='LocationListTable(impl)')
    ti.keep_only(['write', 'write_loc', 'write_loclists'])
    ti.clean()
    ti.own(OWN)
    pair_writer(ti, 'write_loc', True)
    coded_writer(ti, 'write_loclists', True)
    dispatcher(ti, True)
    sk.add(M, ti)


def build(ctx):
    sk = Skeleton(ctx, core.rd('prelude/crate.rs'))
    core.populate(ctx, sk)
    wcore.populate(ctx, sk)
    populate(ctx, sk)
    return sk
