"""B-op-eval: the evaluation half of C07 (and its C01 clauses): read::op::{Evaluation, OperationIter, Expression}
(DESIGN.md 6 C07 / C01 "iteration limit", "fixed-capacity stacks"; appendix A.6).  Built on top of B-op (decode layer).

Functions under contract (real text of /repo/src/read/op.rs, extracted on every run)
  OperationIter::{next, offset_from}, Expression::{operations, evaluation}                          iterator protocol (5.2), views
  Evaluation::{pop, push}                                                                            NotEnoughStackItems <=> empty, StackFull <=> len == capacity
  Evaluation::evaluate_one_operation                                                                 the STEP table below: one clause per opcode group of op.OPS
      (+ 4 WASM sub-forms): "opcode byte(s) X with operands o0.. laid out as DWARF 5 7.7.1 says  ==>  stack / pc / pieces /
      request are exactly ...", i.e. decode and step are checked end to end against the byte string; binary operators take
      lhs = second entry, rhs = top; Pick needs depth > index; Bra branches iff the popped value is non-zero, Bra/Skip targets are
      relative to the end of the 3-byte operation and must land in [0, len] of the current expression; every suspending
      operation returns the exact request (register + base type, address/size/space/base type, index + relocate flag,
      entry-value expression view, parameter / call reference, TLS index) and the continuation that belongs to it;
      location-completing operations return the exact Location; pieces push exactly one Piece (Empty iff the stack is empty).
  Evaluation::{new_in, new, set_initial_value, set_object_address, set_max_iterations, value_result, as_result}
  Evaluation::{end_of_expression, evaluate_internal, evaluate, resume_with_* (12)}                  state machine over the public ghost mirror
      `Phase`: each resume_with_x *requires* the matching waiting phase (documented panic otherwise) or the Failed phase, pushes
      exactly the supplied answer (tagged mid-point assertions: register value + offset in the value's type, frame base wrapping
      add, call enters the callee and saves (pc, bytecode), base type: parse / convert / reinterpret), Ok(Complete) <=> phase
      Complete with at least one piece and nothing left to run, Ok(request) => phase is the continuation of that request, a
      completed location description is always consumed into a piece or an error (ghost counter `owed`), call return restores
      the innermost saved (pc, bytecode); ITERATION LIMIT: with max_iterations == Some(m) the counter never exceeds
      max(old, m) + 1 and a run that returns Ok never went past m -- one loop iteration = one evaluate_one_operation plus at
      most one extra Operation::parse (visible in the text: the loop body has exactly these two decode sites).

  PIECES AND NESTED CALLS (DWARF 5 2.5.1.5 / 2.6.1.2; added after seeded mutant C07-b `if self.pc.is_empty()` in the Complete arm was missed):
      [C07:end-of-expression-all-callers]  end_of_expression() <==> whole_done(old): the whole expression is finished iff the current
          expression AND every saved caller frame are exhausted (an exhausted callee alone is not the end);
      [C07:complete-needs-no-callers]      a completed location becomes the unsized whole-object piece only if whole_done held right after the
          step, and the sized-piece path (decode the following DW_OP_piece) is taken only if it did not;
      [C07:invalid-piece-only-at-end]      Err(InvalidPiece) is only returned when whole_done held right after the step (no spurious rejection of
          "callee ends in a location, caller continues with DW_OP_piece");
      [C07:whole-object-piece-final]       a piece with size_in_bits None is the ONLY piece, with pc empty and call stack empty: mid-point assertion at
          the push, loop invariants (ghost flag `whole`; `sized_only(old) ==> pieces_ok`), "no operation runs after a whole-object piece",
          and a postcondition of evaluate_internal / evaluate / resume_with_* over the suspend-resume history (sp_sized_only / sp_pieces_ok);
      [C07:step-pieces-sized]              evaluate_one_operation appends at most one piece, only with result Piece, and that piece is sized.

Finding F-op-eval-1 (found by this batch, fixed in /repo commit 58e76a9; native reproducer native/src/bin/f_op_eval_1.rs):
  `self.iteration += 1` in evaluate_internal overflowed the u32 counter after 2^32 operations of a looping expression when no
  limit (or the limit u32::MAX) was set -> panic in an overflow-checked build.  The statement is now
  `self.iteration = self.iteration.saturating_add(1);`; [C01:iteration-counter-no-overflow] states that the counter counts
  exactly one per loop iteration until it saturates at u32::MAX and never wraps (so the limit test cannot be defeated).

Assumed (TRUSTED; everything else in the generated file is verified):
  ArrayVec model (struct ArrayVec, ArrayVec::{new, try_push, pop}, Default::default, Deref::deref, Debug::fmt,
      axiom_arrayvec_len `len <= capacity`)  -- the real type is `unsafe` (MaybeUninit, raw pointers): Kani K-AVEC.
      `Vec`-backed storage is modelled with capacity usize::MAX (allocation failure aborts, outside the model).
  Value::{parse, to_u64, from_u64, convert, reinterpret, abs, neg, not, add, sub, mul, div, rem, and, or, xor, shl, shr, shra,
      eq, ge, gt, le, lt, ne} are contract-only (`res == value_f(..)`, uninterpreted spec functions): float casts / to_bits are
      outside Verus; that the bodies are the DWARF arithmetic modulo the address mask is Kani K-VALUE.  Value::value_type is verified.
  inherited from B-core / B-op: verif_unreachable, Result::and_then, reader_clone (R-CLONE: a cloned reader has the same view).
Logged rewrites: R-CLOSURE-ENS (`.map_err(|_| Error::StackFull)` gets the verified annotation `ensures e == Error::StackFull`; an
  un-annotated closure has no spec in Verus), R-CLONE (5 reader clones), R-ASSERT for the message-less `panic!()` in evaluate.
Dropped: Evaluation::result (ArrayVec::into_vec is Vec::from_raw_parts), Expression's other impls, Iterator/FallibleIterator adaptors.

Totality: for every operation whose operands have a fixed size (B-op proves [C07:decode-total] for those) the table TOTAL gives
  the side conditions of the standard under which the step *must* return Ok ([C07:step-total-<group>]: stack, arith, compare,
  control, request, location) -- so an added error return / a too strict depth, capacity, size or branch-target test is caught.
Not decided here: totality for operations with LEB128 / address-size / offset-size / block operands (B-op has no totality
  clause for their decoding); the error *value* of a failed step other than pop/push's own; termination of evaluate_internal
  without a limit (non-termination on a looping program is the documented behaviour; the function carries exec_allows_no_decreases_clause and
  the bound is proved on the counter instead); errors returned by resume_with_* and by the initial-value push are not latched
  into EvaluationState::Error (only errors of evaluate's run are) -- observed, not a property clause; whole-program equality
  with a reference interpreter (induction over the step contract, not mechanised); Value arithmetic (K-VALUE).
"""
from lib import *
from batches import core
from batches import op

# names after `external_body` in the generated file; `new`/`pop`/`default`/`deref`/`fmt`/`try_push` are the ArrayVec model's, `parse` is Value::parse
TRUSTED = list(op.TRUSTED) + ['ArrayVec', 'axiom_arrayvec_len', 'new', 'try_push', 'pop', 'default', 'deref', 'fmt']
# evaluate_one_operation: ~90 clauses x ~130 exits (about a third of Operation::parse's resource count); same limit as B-op
VERUS_ARGS = ['--rlimit', '40']
RETRY_RLIMIT = 120
MULTIPLE_ERRORS = 6

OWN = ['C01', 'C07']

# ---- trusted prelude text: model of read::util::ArrayVec (sequence model; the real unsafe code is checked by Kani K-AVEC)
UTIL_MODEL = '''
/// Model of `read::util::ArrayLike`: only the element type and the capacity are visible to contracts.
pub trait ArrayLike {
    type Item;
    /// number of elements the backing storage can hold (`N` for `[T; N]` / `Box<[T; N]>`; `Vec<T>` grows on demand and
    /// is modelled with the largest capacity a `usize` length admits)
    spec fn cap() -> nat;
}
impl<T, const N: usize> ArrayLike for [T; N] {
    type Item = T;
    open spec fn cap() -> nat { N as nat }
}
impl<T> ArrayLike for Vec<T> {
    type Item = T;
    open spec fn cap() -> nat { usize::MAX as nat }
}

#[derive(Clone, Copy, Debug)]
pub struct CapacityFull;

/// Model of `read::util::ArrayVec<A>`: a sequence of at most `A::cap()` items.
#[verifier::external_body]
#[verifier::reject_recursive_types(A)]
pub struct ArrayVec<A: ArrayLike> {
    phantom: core::marker::PhantomData<A>,
}

impl<A: ArrayLike> View for ArrayVec<A> {
    type V = Seq<A::Item>;
    uninterp spec fn view(&self) -> Seq<A::Item>;
}

/// the model's only axiom: the length never exceeds the capacity (type invariant of the real `ArrayVec`: `len <= storage.len()`)
#[verifier::external_body]
pub broadcast proof fn axiom_arrayvec_len<A: ArrayLike>(v: &ArrayVec<A>)
    ensures #[trigger] v.view().len() <= A::cap()
{ }

impl<A: ArrayLike> ArrayVec<A> {
    #[verifier::external_body]
    pub fn new() -> (res: Self)
        ensures res@.len() == 0
    { unimplemented!() }

    /// fails iff the vector is full; on success appends `value`
    #[verifier::external_body]
    pub fn try_push(&mut self, value: A::Item) -> (res: core::result::Result<(), CapacityFull>)
        ensures
            res is Err <==> old(self)@.len() >= A::cap(),
            res is Ok ==> final(self)@ == old(self)@.push(value),
            res is Err ==> final(self)@ == old(self)@,
    { unimplemented!() }

    /// removes and returns the last item, `None` iff empty
    #[verifier::external_body]
    pub fn pop(&mut self) -> (res: Option<A::Item>)
        ensures
            res is None <==> old(self)@.len() == 0,
            res matches Some(v) ==> v == old(self)@.last() && final(self)@ == old(self)@.drop_last(),
            res is None ==> final(self)@ == old(self)@,
    { unimplemented!() }
}

impl<A: ArrayLike> Default for ArrayVec<A> {
    #[verifier::external_body]
    fn default() -> (res: Self)
        ensures res@.len() == 0
    { unimplemented!() }
}

impl<A: ArrayLike> core::ops::Deref for ArrayVec<A> {
    type Target = [A::Item];
    #[verifier::external_body]
    fn deref(&self) -> (res: &[A::Item])
        ensures res@ == self@
    { unimplemented!() }
}

impl<A: ArrayLike> core::fmt::Debug for ArrayVec<A> {
    #[verifier::external_body]
    fn fmt(&self, f: &mut core::fmt::Formatter<'_>) -> core::fmt::Result { unimplemented!() }
}
'''

VALUE_METHODS_UN = ['abs', 'neg', 'not']
VALUE_EXT = ['parse', 'to_u64', 'from_u64', 'convert', 'reinterpret'] + VALUE_METHODS_UN + ['add', 'sub', 'mul', 'div', 'rem', 'and', 'or', 'xor', 'shl', 'shr', 'shra', 'eq', 'ge', 'gt', 'le', 'lt', 'ne']
TRUSTED += VALUE_EXT
VALUE_METHODS_BIN = ['add', 'sub', 'mul', 'div', 'rem', 'and', 'or', 'xor', 'shl', 'shr', 'shra', 'eq', 'ge', 'gt', 'le', 'lt', 'ne']


# ----------------------------------------------------------------------------- the step table (DWARF 5 2.5 / 2.6)
# Keyed by the first opcode name of each row of op.OPS, so that a clause reads "opcode byte(s) X with operands o0.. (decoded as
# the standard lays them out, op.operand_lets) transform the machine state like this".  Variables available in an effect:
#   a = *old(self), z = *final(self), r = the Ok payload, s = a.stack@, n = s.len(), m = a.addr_mask, cap = stack capacity,
#   b0 = a.pc.rv(), o_i / p_i / total = operand values / operand positions / encoded size of the operation.
# Every effect is what must hold when the step returns Ok (so a violated side condition means Err).
W = 'OperationEvaluationResult::Waiting'
INC = '(r matches OperationEvaluationResult::Incomplete)'


def binop(f):
    # DWARF: "pops the top two stack entries, [op]s the former second entry (lhs) by/with the former top (rhs), pushes the result"
    return f'n >= 2 && (value_{f}(s[n - 2], s[n - 1], m) matches Ok(v) && z.stack@ =~= s.take(n - 2).push(v)) && {INC} && next_ok(a, z, total)'


def unop(f):
    return f'n >= 1 && (value_{f}(s[n - 1], m) matches Ok(v) && z.stack@ =~= s.take(n - 1).push(v)) && {INC} && next_ok(a, z, total)'


def const(expr):
    return f'n < cap && z.stack@ =~= s.push(Value::Generic({expr})) && {INC} && next_ok(a, z, total)'


def pick(idx):
    return f'{idx} < n && n < cap && z.stack@ =~= s.push(s[n - 1 - {idx}]) && {INC} && next_ok(a, z, total)'


def deref(size, bt, space):
    k = 2 if space else 1
    sp = '(value_to_u64(s[n - 2], m) matches Ok(spv) && sp == Some(spv))' if space else 'sp is None'
    return (f'{size} <= a.encoding.address_size && n >= {k} && (r matches {W}(EvaluationWaiting::Memory, EvaluationResult::RequiresMemory {{ address, size: sz, space: sp, base_type }}) '
            f'&& (value_to_u64(s[n - 1], m) matches Ok(addr) && address == addr) && sz == {size} && {sp} && base_type.0.as_nat() == {bt}) '
            f'&& z.stack@ =~= s.take(n - {k}) && next_ok(a, z, total)')


def register(reg, off, bt):
    return (f'(r matches {W}(EvaluationWaiting::Register {{ offset }}, EvaluationResult::RequiresRegister {{ register, base_type }}) '
            f'&& register.0 == {reg} && offset == {off} && base_type.0.as_nat() == {bt}) && z.stack@ == s && next_ok(a, z, total)')


def waiting(pat, cons='true', pops=0, popcond='true'):
    st = 'z.stack@ == s' if pops == 0 else f'n >= {pops} && z.stack@ =~= s.take(n - {pops})'
    return f'(r matches {W}({pat}) && ({cons})) && {st} && ({popcond}) && next_ok(a, z, total)'


def complete(pat, cons='true', pops=0):
    st = 'z.stack@ == s' if pops == 0 else f'n >= {pops} && z.stack@ =~= s.take(n - {pops})'
    return f'(r matches OperationEvaluationResult::Complete {{ location: {pat} }} && ({cons})) && {st} && next_ok(a, z, total)'


def piece(size, bit_offset):
    # DWARF 2.6.1.2: a piece with an empty preceding location description is unavailable (Empty); otherwise the value on
    # top of the stack is the address of the piece (memory location description)
    return ('(r matches OperationEvaluationResult::Piece) && frame_misc(a, z) && adv(b0, z.pc.rv(), total as nat) && a.result@.len() < result_cap(a) && '
            f'(n == 0 ==> z.stack@ == s && z.result@ =~= a.result@.push(Piece {{ size_in_bits: Some(({size}) as u64), bit_offset: {bit_offset}, location: Location::Empty }})) && '
            f'(n > 0 ==> (value_to_u64(s[n - 1], m) matches Ok(addr) && z.stack@ =~= s.take(n - 1) && '
            f'z.result@ =~= a.result@.push(Piece {{ size_in_bits: Some(({size}) as u64), bit_offset: {bit_offset}, location: Location::Address {{ address: addr }} }})))')


BRANCH_PRE = 'a.bytecode.rv().len <= isize::MAX'
STEP = {
    'DW_OP_addr': waiting('EvaluationWaiting::RelocatedAddress, EvaluationResult::RequiresRelocatedAddress(x)', 'x == o0'),
    'DW_OP_deref': deref('a.encoding.address_size', 0, False),
    'DW_OP_const1u': const('o0 as u64'), 'DW_OP_const2u': const('o0 as u64'), 'DW_OP_const4u': const('o0 as u64'),
    'DW_OP_const8u': const('o0 as u64'), 'DW_OP_constu': const('o0 as u64'),
    'DW_OP_const1s': const('u64_of(o0)'), 'DW_OP_const2s': const('u64_of(o0)'), 'DW_OP_const4s': const('u64_of(o0)'),
    'DW_OP_const8s': const('u64_of(o0)'), 'DW_OP_consts': const('u64_of(o0)'),
    'DW_OP_dup': pick('0'), 'DW_OP_over': pick('1'), 'DW_OP_pick': pick('o0'),
    'DW_OP_drop': f'n >= 1 && z.stack@ =~= s.take(n - 1) && {INC} && next_ok(a, z, total)',
    'DW_OP_swap': f'n >= 2 && z.stack@ =~= s.take(n - 2).push(s[n - 1]).push(s[n - 2]) && {INC} && next_ok(a, z, total)',
    # "the entry at the top of the stack becomes the third stack entry, the second entry becomes the top, the third becomes the second"
    'DW_OP_rot': f'n >= 3 && z.stack@ =~= s.take(n - 3).push(s[n - 1]).push(s[n - 3]).push(s[n - 2]) && {INC} && next_ok(a, z, total)',
    'DW_OP_xderef': deref('a.encoding.address_size', 0, True),
    'DW_OP_abs': unop('abs'), 'DW_OP_neg': unop('neg'), 'DW_OP_not': unop('not'),
    'DW_OP_and': binop('and'), 'DW_OP_div': binop('div'), 'DW_OP_minus': binop('sub'), 'DW_OP_mod': binop('rem'),
    'DW_OP_mul': binop('mul'), 'DW_OP_or': binop('or'), 'DW_OP_plus': binop('add'), 'DW_OP_shl': binop('shl'),
    'DW_OP_shr': binop('shr'), 'DW_OP_shra': binop('shra'), 'DW_OP_xor': binop('xor'),
    'DW_OP_eq': binop('eq'), 'DW_OP_ge': binop('ge'), 'DW_OP_gt': binop('gt'), 'DW_OP_le': binop('le'),
    'DW_OP_lt': binop('lt'), 'DW_OP_ne': binop('ne'),
    # "pops the top stack entry, adds it to the unsigned LEB128 constant operand [interpreted in the type of the entry] and pushes the result"
    'DW_OP_plus_uconst': (f'n >= 1 && (value_from_u64(value_type_of(s[n - 1]), o0 as u64) matches Ok(c) && (value_add(s[n - 1], c, m) matches Ok(v) && '
                          f'z.stack@ =~= s.take(n - 1).push(v))) && {INC} && next_ok(a, z, total)'),
    # "pops the top of stack; if the value popped is not the constant 0, the 2-byte constant operand is the number of bytes to skip
    #  forward or backward from the current operation, beginning after the 2-byte constant"
    'DW_OP_bra': (f'{BRANCH_PRE} ==> (n >= 1 && z.stack@ =~= s.take(n - 1) && {INC} && (value_to_u64(s[n - 1], m) matches Ok(c) && '
                  f'(c == 0 ==> next_ok(a, z, 3)) && (c != 0 ==> branch_ok(a, z, o0))))'),
    'DW_OP_skip': f'{BRANCH_PRE} ==> (z.stack@ == s && {INC} && branch_ok(a, z, o0))',
    'lit': const('(b0.at(0) - 0x30) as u64'),
    'reg': complete('Location::Register { register }', 'register.0 == b0.at(0) - 0x50'),
    'breg': register('b0.at(0) - 0x70', 'o0', 0),
    'DW_OP_regx': complete('Location::Register { register }', 'register.0 == o0'),
    'DW_OP_fbreg': waiting('EvaluationWaiting::FrameBase { offset }, EvaluationResult::RequiresFrameBase', 'offset == o0'),
    'DW_OP_bregx': register('o0', 'o1', 0),
    'DW_OP_piece': piece('8 * o0', 'None::<u64>'),
    'DW_OP_deref_size': deref('o0', 0, False),
    'DW_OP_xderef_size': deref('o0', 0, True),
    'DW_OP_nop': f'z.stack@ == s && {INC} && next_ok(a, z, total)',
    'DW_OP_push_object_address': f'n < cap && (a.object_address matches Some(oa) && z.stack@ =~= s.push(Value::Generic(oa))) && {INC} && next_ok(a, z, total)',
    'DW_OP_call2': waiting('EvaluationWaiting::AtLocation, EvaluationResult::RequiresAtLocation(DieReference::UnitRef(UnitOffset(v)))', 'v.as_nat() == o0'),
    'DW_OP_call4': waiting('EvaluationWaiting::AtLocation, EvaluationResult::RequiresAtLocation(DieReference::UnitRef(UnitOffset(v)))', 'v.as_nat() == o0'),
    'DW_OP_call_ref': waiting('EvaluationWaiting::AtLocation, EvaluationResult::RequiresAtLocation(DieReference::DebugInfoRef(DebugInfoOffset(v)))', 'v.as_nat() == o0'),
    'DW_OP_GNU_variable_value': 'false',      # not evaluable without the caller's DIE lookup: gimli documents UnsupportedEvaluation
    'DW_OP_form_tls_address': waiting('EvaluationWaiting::Tls, EvaluationResult::RequiresTls(x)', 'value_to_u64(s[n - 1], m) matches Ok(ix) && x == ix', pops=1),
    'DW_OP_call_frame_cfa': waiting('EvaluationWaiting::Cfa, EvaluationResult::RequiresCallFrameCfa'),
    'DW_OP_bit_piece': piece('o0', 'Some(o1 as u64)'),
    'DW_OP_implicit_value': complete('Location::Bytes { value }', 'window(b0, value.rv(), p1 as nat, o0 as nat)'),
    'DW_OP_stack_value': complete('Location::Value { value }', 'n >= 1 && value == s[n - 1]', pops=1),
    'DW_OP_implicit_pointer': complete('Location::ImplicitPointer { value: DebugInfoOffset(v), byte_offset }', 'v.as_nat() == o0 && byte_offset == o1'),
    'DW_OP_addrx': waiting('EvaluationWaiting::IndexedAddress, EvaluationResult::RequiresIndexedAddress { index: DebugAddrIndex(v), relocate }', 'v.as_nat() == o0 && relocate'),
    'DW_OP_constx': waiting('EvaluationWaiting::IndexedAddress, EvaluationResult::RequiresIndexedAddress { index: DebugAddrIndex(v), relocate }', 'v.as_nat() == o0 && !relocate'),
    'DW_OP_entry_value': waiting('EvaluationWaiting::EntryValue, EvaluationResult::RequiresEntryValue(Expression(e))', 'window(b0, e.rv(), p1 as nat, o0 as nat)'),
    'DW_OP_GNU_parameter_ref': waiting('EvaluationWaiting::ParameterRef, EvaluationResult::RequiresParameterRef(UnitOffset(v))', 'v.as_nat() == o0'),
    'DW_OP_const_type': waiting('EvaluationWaiting::TypedLiteral { value }, EvaluationResult::RequiresBaseType(UnitOffset(v))', 'v.as_nat() == o0 && window(b0, value.rv(), p2 as nat, o1 as nat)'),
    'DW_OP_regval_type': register('o0', '0', 'o1'),
    'DW_OP_deref_type': deref('o0', 'o1', False),
    'DW_OP_xderef_type': deref('o0', 'o1', True),
    'DW_OP_convert': waiting('EvaluationWaiting::Convert, EvaluationResult::RequiresBaseType(UnitOffset(v))', 'v.as_nat() == o0'),
    'DW_OP_reinterpret': waiting('EvaluationWaiting::Reinterpret, EvaluationResult::RequiresBaseType(UnitOffset(v))', 'v.as_nat() == o0'),
    'DW_OP_GNU_uninit': 'false',
}
LETS = 'let s = a.stack@; let n = s.len() as int; let m = a.addr_mask; let cap = stack_cap(a) as int; '
GEN = '<R: Reader<Offset = usize>, S: EvaluationStorage<R>>(a: Evaluation<R, S>, z: Evaluation<R, S>, r: OperationEvaluationResult<R>) -> bool'


# ---- totality ("a step never fails spuriously") for the operations whose operands have a fixed size: B-op proves
# [C07:decode-total] for them, so "the bytes are there and the side conditions of the standard hold => the step returns Ok".
# name -> (group, side condition over s, n, m, cap, operands)
def _bin_ok(f):
    return f'n >= 2 && value_{f}(s[n - 2], s[n - 1], m) is Ok'


def _deref_ok(size, space):
    k = 2 if space else 1
    return (f'{size} <= a.encoding.address_size && n >= {k} && value_to_u64(s[n - 1], m) is Ok' + (' && value_to_u64(s[n - 2], m) is Ok' if space else ''))


BR_T = '(b0.start + 3 - a.bytecode.rv().start) as int + o0'
TOTAL = {
    'DW_OP_deref': ('request', _deref_ok('a.encoding.address_size', False)), 'DW_OP_xderef': ('request', _deref_ok('a.encoding.address_size', True)),
    'DW_OP_deref_size': ('request', _deref_ok('o0', False)), 'DW_OP_xderef_size': ('request', _deref_ok('o0', True)),
    'DW_OP_const1u': ('stack', 'n < cap'), 'DW_OP_const1s': ('stack', 'n < cap'), 'DW_OP_const2u': ('stack', 'n < cap'), 'DW_OP_const2s': ('stack', 'n < cap'),
    'DW_OP_const4u': ('stack', 'n < cap'), 'DW_OP_const4s': ('stack', 'n < cap'), 'DW_OP_const8u': ('stack', 'n < cap'), 'DW_OP_const8s': ('stack', 'n < cap'),
    'lit': ('stack', 'n < cap'),
    'DW_OP_dup': ('stack', '0 < n && n < cap'), 'DW_OP_over': ('stack', '1 < n && n < cap'), 'DW_OP_pick': ('stack', 'o0 < n && n < cap'),
    'DW_OP_drop': ('stack', 'n >= 1'), 'DW_OP_swap': ('stack', 'n >= 2'), 'DW_OP_rot': ('stack', 'n >= 3'), 'DW_OP_nop': ('stack', 'true'),
    'DW_OP_push_object_address': ('stack', 'a.object_address is Some && n < cap'),
    'DW_OP_abs': ('arith', 'n >= 1 && value_abs(s[n - 1], m) is Ok'), 'DW_OP_neg': ('arith', 'n >= 1 && value_neg(s[n - 1], m) is Ok'),
    'DW_OP_not': ('arith', 'n >= 1 && value_not(s[n - 1], m) is Ok'),
    'DW_OP_and': ('arith', _bin_ok('and')), 'DW_OP_div': ('arith', _bin_ok('div')), 'DW_OP_minus': ('arith', _bin_ok('sub')), 'DW_OP_mod': ('arith', _bin_ok('rem')),
    'DW_OP_mul': ('arith', _bin_ok('mul')), 'DW_OP_or': ('arith', _bin_ok('or')), 'DW_OP_plus': ('arith', _bin_ok('add')), 'DW_OP_shl': ('arith', _bin_ok('shl')),
    'DW_OP_shr': ('arith', _bin_ok('shr')), 'DW_OP_shra': ('arith', _bin_ok('shra')), 'DW_OP_xor': ('arith', _bin_ok('xor')),
    'DW_OP_eq': ('compare', _bin_ok('eq')), 'DW_OP_ge': ('compare', _bin_ok('ge')), 'DW_OP_gt': ('compare', _bin_ok('gt')), 'DW_OP_le': ('compare', _bin_ok('le')),
    'DW_OP_lt': ('compare', _bin_ok('lt')), 'DW_OP_ne': ('compare', _bin_ok('ne')),
    'DW_OP_bra': ('control', f'{BRANCH_PRE} && n >= 1 && (value_to_u64(s[n - 1], m) matches Ok(c) && (c != 0 ==> 0 <= {BR_T} <= a.bytecode.rv().len))'),
    'DW_OP_skip': ('control', f'{BRANCH_PRE} && 0 <= {BR_T} <= a.bytecode.rv().len'),
    'reg': ('location', 'true'), 'DW_OP_stack_value': ('location', 'n >= 1'),
    'DW_OP_call2': ('request', 'true'), 'DW_OP_call4': ('request', 'true'), 'DW_OP_GNU_parameter_ref': ('request', 'true'),
    'DW_OP_form_tls_address': ('request', 'n >= 1 && value_to_u64(s[n - 1], m) is Ok'), 'DW_OP_call_frame_cfa': ('request', 'true'),
}
GEN1 = '<R: Reader<Offset = usize>, S: EvaluationStorage<R>>(a: Evaluation<R, S>) -> bool'


def total_clauses():
    groups = {}
    for names, kinds, _, _ in op.OPS:
        fixed = all(k in op.FIXED for k in kinds)
        if names[0] in TOTAL:
            if not fixed:
                raise Lost('totality table names an operation with variable-size operands: ' + names[0])
            g, ok = TOTAL[names[0]]
            size = 1 + sum(op.FIXED[k] for k in kinds)
            groups.setdefault(g, []).append(f'({{ {op.operand_lets(kinds)} {op.opcode_cond(names)} && b0.len >= {size} && ({ok}) }})')
        elif fixed and STEP[names[0]] != 'false':
            raise Lost('fixed-size operation missing from the totality table: ' + names[0])
    out, fns = [], []
    for g, ds in groups.items():
        fns.append(f'/// side conditions under which a {g} operation must succeed\nspec fn step_total_{g}{GEN1} {{\n    let b0 = a.pc.rv(); let encoding = a.encoding; {LETS}\n    '
                   + '\n    || '.join(ds) + '\n}')
        out.append(f'[C07:step-total-{g}] step_total_{g}(*old(self)) ==> res is Ok')
    return out, '\n\n'.join(fns)



def step_clauses():
    """(ensures clauses, text of the generated spec fns).  Each clause is a call of one small spec fn so that the
    verification condition at each of the ~130 exits of evaluate_one_operation stays small."""
    out, fns = [], []
    missing = [names[0] for names, _, _, _ in op.OPS if names[0] not in STEP]
    if missing or len(STEP) != len(op.OPS):
        raise Lost('step table does not cover op.OPS: ' + ', '.join(missing))
    for names, kinds, pat, cons in op.OPS:
        tag = names[0].replace('DW_OP_', '')
        view = '[C10:view]' if 'window' in STEP[names[0]] else ''
        fns.append(f'/// {" / ".join(names)}\nspec fn step_{tag}{GEN} {{\n    let b0 = a.pc.rv(); let encoding = a.encoding;\n    {op.opcode_cond(names)} ==> '
                   f'({{ {op.operand_lets(kinds)}\n    {LETS}\n    {STEP[names[0]]} }})\n}}')
        out.append(f'[C07:step-{tag}]{view} res matches Ok(r) ==> step_{tag}(*old(self), *final(self), r)')
    for sub, kind, var in [(0, 'uleb', 'RequiresWasmLocal'), (1, 'uleb', 'RequiresWasmGlobal'), (2, 'uleb', 'RequiresWasmStack'), (3, 'u4', 'RequiresWasmGlobal')]:
        val = 'b0.uleb(2) as int' if kind == 'uleb' else 'b0.u(2, 4) as int'
        size = 'b0.leb_len(2) as int' if kind == 'uleb' else '4int'
        eff = waiting(f'EvaluationWaiting::WasmValue, EvaluationResult::{var} {{ index }}', f'index == {val}')
        fns.append(f'/// DW_OP_WASM_location {sub}\nspec fn step_WASM_location_{sub}{GEN} {{\n    let b0 = a.pc.rv();\n    '
                   f'b0.at(0) == constants::DW_OP_WASM_location.0 && b0.at(1) == {sub} ==> ({{ let total = 2 + {size}; {LETS}\n    {eff} }})\n}}')
        out.append(f'[C07:step-WASM_location-{sub}] res matches Ok(r) ==> step_WASM_location_{sub}(*old(self), *final(self), r)')
    out.append('[C07:step-wf] wf(*final(self))')
    out.append('[C07:step-request-matches-continuation] res matches Ok(OperationEvaluationResult::Waiting(w, q)) ==> request_matches(w, q)')
    out.append('[C01:frame] within(old(self).pc.rv(), final(self).pc.rv()) || inside(old(self).bytecode.rv(), final(self).pc.rv())')
    out.append('[C07:step-config-frame] frame_misc(*old(self), *final(self))')
    # DWARF 5 2.6.1.2: a single operation adds at most one piece, only DW_OP_piece / DW_OP_bit_piece do, and that piece is sized
    out.append('[C07:step-pieces-sized] res matches Ok(r) ==> step_pieces(*old(self), *final(self), r)')
    tout, tfns = total_clauses()
    return out + tout, '\n\n'.join(fns) + '\n\n' + tfns


def populate(ctx, sk):
    opsrc = Source('read/op.rs', ctx)
    val = Source('read/value.rs', ctx)
    rmod = Source('read/mod.rs', ctx)

    # ---- read::util  (model)
    sk.mods['read']['uses'] += '\npub use self::value::*;'
    sk.module('read::util', 'use vstd::prelude::*;')
    sk.add('read::util', UTIL_MODEL, label='util-model')
    sk.add('read', rmod.item(r'^pub struct StoreOnHeap;').clean())

    # ---- read::value
    sk.module('read::value', 'use crate::constants;\nuse crate::read::{Error, Reader, Result};\nuse crate::vspec::*;')
    sk.add('read::value', val.item(r'^pub enum ValueType \{').clean())
    sk.add('read::value', val.item(r'^pub enum Value \{').clean())
    # Value methods: contract-only.  Each is tied to an uninterpreted spec function; that the real bodies compute the DWARF
    # arithmetic (masking, signedness, typed values, floats) is Kani group K-VALUE, not decided here.
    specs = ['pub open spec fn value_type_of(v: Value) -> ValueType {\n    match v { Value::Generic(_) => ValueType::Generic, Value::I8(_) => ValueType::I8, Value::U8(_) => ValueType::U8, '
             'Value::I16(_) => ValueType::I16, Value::U16(_) => ValueType::U16, Value::I32(_) => ValueType::I32, Value::U32(_) => ValueType::U32, '
             'Value::I64(_) => ValueType::I64, Value::U64(_) => ValueType::U64, Value::F32(_) => ValueType::F32, Value::F64(_) => ValueType::F64 }\n}',
             'pub uninterp spec fn value_to_u64(v: Value, addr_mask: u64) -> Result<u64>;',
             'pub uninterp spec fn value_from_u64(value_type: ValueType, value: u64) -> Result<Value>;',
             'pub uninterp spec fn value_convert(v: Value, value_type: ValueType, addr_mask: u64) -> Result<Value>;',
             'pub uninterp spec fn value_reinterpret(v: Value, value_type: ValueType, addr_mask: u64) -> Result<Value>;',
             'pub uninterp spec fn value_parse(value_type: ValueType, bytes: RView) -> Result<Value>;']
    specs += [f'pub uninterp spec fn value_{f}(v: Value, addr_mask: u64) -> Result<Value>;' for f in VALUE_METHODS_UN]
    specs += [f'pub uninterp spec fn value_{f}(lhs: Value, rhs: Value, addr_mask: u64) -> Result<Value>;' for f in VALUE_METHODS_BIN]
    sk.add('read::value', '\n'.join(specs), label='value-spec')
    vi = val.item(r'^impl Value \{', label='Value')
    vi.drop(['from_f32', 'from_f64'])
    vi.extbody(VALUE_EXT)
    vi.clean()
    vi.own(OWN)
    vi.splice('value_type', ret='res', ensures=['[C07:value-type] res == value_type_of(*self)'])
    vi.splice('parse', ret='res', ensures=['res == value_parse(value_type, bytes.rv())'])
    vi.splice('to_u64', ret='res', ensures=['res == value_to_u64(self, addr_mask)'])
    vi.splice('from_u64', ret='res', ensures=['res == value_from_u64(value_type, value)'])
    vi.splice('convert', ret='res', ensures=['res == value_convert(self, value_type, addr_mask)'])
    vi.splice('reinterpret', ret='res', ensures=['res == value_reinterpret(self, value_type, addr_mask)'])
    for f in VALUE_METHODS_UN:
        vi.splice(f, ret='res', ensures=[f'res == value_{f}(self, addr_mask)'])
    for f in VALUE_METHODS_BIN:
        vi.splice(f, ret='res', ensures=[f'res == value_{f}(self, rhs, addr_mask)'])
    sk.add('read::value', vi)

    # ---- read::op
    sk.module('read::op', 'use super::util::{ArrayLike, ArrayVec};\nuse crate::read::{StoreOnHeap, Value, ValueType};\nuse crate::read::value::*;\nuse crate::read::util::axiom_arrayvec_len;')
    sk.add('read::op', opsrc.item(r'^enum OperationEvaluationResult<').clean(rejrec=['R']))
    sk.add('read::op', opsrc.item(r'^pub enum Location<R, Offset').clean(rejrec=['R', 'Offset']))
    sk.add('read::op', opsrc.item(r'^pub struct Piece<R, Offset').clean(rejrec=['R', 'Offset']))
    sk.add('read::op', opsrc.item(r'^enum EvaluationState<').clean(rejrec=['R']))
    sk.add('read::op', opsrc.item(r'^enum EvaluationWaiting<').clean(rejrec=['R']))
    sk.add('read::op', opsrc.item(r'^pub enum EvaluationResult<').clean(rejrec=['R']))
    sk.add('read::op', opsrc.item(r'^pub struct Expression<R: Reader>').clean(rejrec=['R']))
    sk.add('read::op', opsrc.item(r'^pub struct OperationIter<R: Reader>').clean(rejrec=['R']))
    sk.add('read::op', opsrc.item(r'^pub trait EvaluationStorage<').clean())
    sk.add('read::op', opsrc.item(r'^impl<R: Reader> EvaluationStorage<R> for StoreOnHeap').clean())
    sk.add('read::op', opsrc.item(r'^pub struct Evaluation<R: Reader, S: EvaluationStorage<R> = StoreOnHeap>').clean(rejrec=['R', 'S']))

    # -- 1. Expression / OperationIter
    ex = opsrc.item(r'^impl<R: Reader> Expression<R> \{', label='Expression')
    ex.keep_only(['evaluation', 'operations'])
    ex.clean()
    ex.own(OWN)
    ex.splice('evaluation', ret='res', requires=['[C07:valid-encoding] valid_address_size(encoding.address_size)'],
              ensures=['[C10:view][C07:new-state] res.sp_pc() == self.0.rv() && res.sp_bytecode() == self.0.rv() && res.sp_phase() == Phase::Start(None) && res.sp_wf() && res.sp_max_iterations() is None', 'res.sp_sized_only()'])
    ex.splice('operations', ret='res', ensures=['[C10:view][C07:iter-start] res.inp() == self.0.rv() && res.enc() == encoding'])
    sk.add('read::op', ex)
    oi = opsrc.item(r'^impl<R: Reader> OperationIter<R> \{', label='OperationIter').clean()
    oi.own(OWN)
    oi.insert_members('    pub closed spec fn inp(&self) -> RView { self.input.rv() }\n    pub closed spec fn enc(&self) -> Encoding { self.encoding }')
    oi.splice('next', ret='res', ensures=[
        '[C01:iter-end] old(self).inp().len == 0 ==> (res matches Ok(None)) && final(self).inp() == old(self).inp()',
        '[C01:iter-err-empties] res is Err ==> final(self).inp().len == 0',
        '[C01:iter-progress] res matches Ok(Some(_)) ==> final(self).inp().len < old(self).inp().len',
        '[C01:iter-none-only-at-end] res matches Ok(None) ==> old(self).inp().len == 0',
        '[C01:frame] final(self).inp().root == old(self).inp().root && final(self).inp().be == old(self).inp().be && final(self).enc() == old(self).enc()',
        '[C01:frame] !(res is Err) ==> within(old(self).inp(), final(self).inp())',
    ])
    oi.splice('offset_from', ret='res', requires=['[C10:offset-from-pre] self.inp().root == expression.0.rv().root && expression.0.rv().start <= self.inp().start'],
              ensures=['[C10:offset-from] res.as_nat() == self.inp().start - expression.0.rv().start'])
    sk.add('read::op', oi)

    ev = opsrc.item(r'^impl<R: Reader, S: EvaluationStorage<R>> Evaluation<R, S> \{', label='Evaluation')
    # R-CLOSURE-ENS: an un-annotated closure has no specification in Verus; the error constructor closures get the
    # (verified) annotation `ensures e == <their body>` so that "StackFull exactly when full" can be stated
    ev.custom('R-CLOSURE-ENS', '.map_err(|_| Error::StackFull)', '.map_err(|_verif_unused| -> (e: Error) ensures e == Error::StackFull { Error::StackFull })', count=-1)
    ev.custom('R-CLONE', 'let pc = bytecode.clone();', 'let pc = reader_clone(&bytecode);')
    ev.custom('R-CLONE', 'data.clone()', 'reader_clone(data)')
    ev.custom('R-CLONE', 'expression.clone()', 'reader_clone(expression)')
    ev.custom('R-CLONE', 'Value::parse(base_type, value.clone())?', 'Value::parse(base_type, reader_clone(value))?')
    ev.custom('R-CLONE', 'let mut pc = bytes.clone();', 'let mut pc = reader_clone(&bytes);')
    # `panic!()` without a message (evaluate() called while waiting): same rule as R-ASSERT's panic!("..")
    ev.custom('R-ASSERT', 'EvaluationState::Waiting(_) => panic!(),', 'EvaluationState::Waiting(_) => crate::verif_unreachable(),')
    ev.clean()
    ev.own(OWN)
    ev.splice('pop', ret='res', ensures=[
        '[C01:stack-empty-exact][C07:pop] res is Err <==> old(self).stack@.len() == 0',
        '[C07:pop] res matches Err(e) ==> e == Error::NotEnoughStackItems && final(self).stack@ == old(self).stack@',
        '[C07:pop] res matches Ok(v) ==> v == old(self).stack@.last() && final(self).stack@ == old(self).stack@.drop_last()',
        'frame_but_stack(*old(self), *final(self))'])
    ev.splice('push', ret='res', ensures=[
        '[C01:stack-full-exact][C07:push] res is Err <==> old(self).stack@.len() >= <S::Stack as ArrayLike>::cap()',
        '[C01:stack-full-exact][C07:push] res matches Err(e) ==> e == Error::StackFull && final(self).stack@ == old(self).stack@',
        '[C07:push] res is Ok ==> final(self).stack@ == old(self).stack@.push(value)',
        'frame_but_stack(*old(self), *final(self))'])
    step_ens, step_fns = step_clauses()
    ev.splice('evaluate_one_operation', ret='res', requires=['[C07:machine-wf] wf(*old(self))'], ensures=step_ens, canary=True,
              before=[('let operation = Operation::parse(&mut self.pc, self.encoding)?;', 'proof { axiom_arrayvec_len(&self.stack); } // len <= capacity: a push after a pop cannot be full'),
                      ('self.push(Value::Generic(value as u64))?;', 'proof { assert(value >= 0 ==> (value as u64) as int == value as int) by (bit_vector); assert(value < 0 ==> (value as u64) as int == value as int + 0x1_0000_0000_0000_0000) by (bit_vector); }')])
    # ---- 4. state machine
    ev.insert_members("""    // ghost accessors (contracts of pub fns may not name private fields)
    pub closed spec fn sp_phase(&self) -> Phase { phase_of(self.state) }
    pub closed spec fn sp_stack(&self) -> Seq<Value> { self.stack@ }
    pub closed spec fn sp_result(&self) -> Seq<Piece<R>> { self.result@ }
    pub closed spec fn sp_value_result(&self) -> Option<Value> { self.value_result }
    pub closed spec fn sp_iteration(&self) -> u32 { self.iteration }
    pub closed spec fn sp_max_iterations(&self) -> Option<u32> { self.max_iterations }
    pub closed spec fn sp_object_address(&self) -> Option<u64> { self.object_address }
    pub closed spec fn sp_addr_mask(&self) -> u64 { self.addr_mask }
    pub closed spec fn sp_encoding(&self) -> Encoding { self.encoding }
    pub closed spec fn sp_pc(&self) -> RView { self.pc.rv() }
    pub closed spec fn sp_bytecode(&self) -> RView { self.bytecode.rv() }
    pub closed spec fn sp_calls(&self) -> Seq<(R, R)> { self.expression_stack@ }
    pub closed spec fn sp_wf(&self) -> bool { wf(*self) }
    pub closed spec fn sp_waiting_for(&self, r: EvaluationResult<R>) -> bool { self.state matches EvaluationState::Waiting(w) && request_matches(w, r) }
    pub closed spec fn sp_only_state_changed(&self, o: &Self) -> bool { only_state_changed(*o, *self) }
    pub closed spec fn sp_same_phase(&self, o: &Self) -> bool { self.state == o.state }
    pub closed spec fn sp_config_same(&self, o: &Self) -> bool { config_same(*self, *o) }
    pub closed spec fn sp_stack_cap(&self) -> nat { stack_cap(*self) }
    pub closed spec fn sp_sized_only(&self) -> bool { sized_only(*self) }
    pub closed spec fn sp_pieces_ok(&self) -> bool { pieces_ok(*self) }""")
    ev.splice('new_in', ret='res', requires=['[C07:valid-encoding] valid_address_size(encoding.address_size)'], ensures=[
        '[C07:new-state] res.sp_phase() == Phase::Start(None) && res.sp_stack().len() == 0 && res.sp_result().len() == 0 && res.sp_calls().len() == 0 && res.sp_value_result() is None',
        '[C07:new-no-limit] res.sp_iteration() == 0 && res.sp_max_iterations() is None && res.sp_object_address() is None',
        '[C07:addr-mask] res.sp_addr_mask() == ones(encoding.address_size) && res.sp_encoding() == encoding',
        '[C10:view] res.sp_pc() == bytecode.rv() && res.sp_bytecode() == bytecode.rv()', 'res.sp_wf()', 'res.sp_sized_only()'],
        before=[('Evaluation {', 'proof { assert((1u64 << 8u64) - 1 == 0xffu64) by (bit_vector); assert((1u64 << 16u64) - 1 == 0xffffu64) by (bit_vector); assert((1u64 << 32u64) - 1 == 0xffff_ffffu64) by (bit_vector); assert(!0u64 == 0xffff_ffff_ffff_ffffu64) by (bit_vector); }')],
        canary=True)
    ev.splice('set_initial_value', requires=['[C07:set-initial-value-protocol] old(self).sp_phase() == Phase::Start(None)'],
              ensures=['[C07:set-initial-value] final(self).sp_phase() == Phase::Start(Some(value))', 'final(self).sp_only_state_changed(old(self))'], canary=True)
    SETFRAME = ['final(self).sp_phase() == old(self).sp_phase()', 'final(self).sp_stack() == old(self).sp_stack()', 'final(self).sp_iteration() == old(self).sp_iteration()',
                'old(self).sp_wf() ==> final(self).sp_wf()']
    ev.splice('set_object_address', ensures=['[C07:set-object-address] final(self).sp_object_address() == Some(value)'] + SETFRAME +
              ['final(self).sp_max_iterations() == old(self).sp_max_iterations()'])
    ev.splice('set_max_iterations', ensures=['[C01:set-max-iterations][C07:set-max-iterations] final(self).sp_max_iterations() == Some(value)'] + SETFRAME +
              ['final(self).sp_object_address() == old(self).sp_object_address()'])
    ev.splice('value_result', ret='res', requires=['[C07:result-protocol] self.sp_phase() is Complete'], ensures=['[C07:value-result] res == self.sp_value_result()'], canary=True)
    ev.splice('as_result', ret='res', requires=['[C07:result-protocol] self.sp_phase() is Complete'], ensures=['[C07:as-result] res@ == self.sp_result()'], canary=True)

    EOE_INV = ('({ let k = %s.expression_stack@.len() as int; k <= old(self).expression_stack@.len() && %s.expression_stack@ =~= old(self).expression_stack@.take(k) '
               '&& (k < old(self).expression_stack@.len() ==> %s.pc == old(self).expression_stack@[k].0 && %s.bytecode == old(self).expression_stack@[k].1) '
               '&& (k == old(self).expression_stack@.len() ==> %s.pc == old(self).pc && %s.bytecode == old(self).bytecode) && (k < old(self).expression_stack@.len() ==> old(self).pc.rv().len == 0) })')
    ev.splice('end_of_expression', ret='res', requires=['wf(*old(self))'], ensures=[
        'wf(*final(self))', 'frame_eoe(*old(self), *final(self))',
        '[C07:end-of-expression] res <==> final(self).pc.rv().len == 0',
        '[C07:end-of-expression] res ==> final(self).expression_stack@.len() == 0',
        # DWARF 5 2.5.1.5 (call = callee evaluated in place, then control returns to the operation after the call): the WHOLE
        # expression is finished iff the current expression and EVERY saved caller frame are exhausted (specs: whole_done)
        '[C07:end-of-expression-all-callers] res <==> whole_done(*old(self))',
        '[C07:end-of-expression] old(self).pc.rv().len > 0 ==> final(self).pc == old(self).pc && final(self).bytecode == old(self).bytecode && final(self).expression_stack@ == old(self).expression_stack@',
        # DW_OP_call*: a finished callee returns to the saved (pc, bytecode) of its caller, innermost first
        '[C07:call-return] ' + EOE_INV % (('final(self)',) * 6)],
        loops={0: 'invariant wf(*self), frame_eoe(*old(self), *self),\n ' + EOE_INV % (('self',) * 6) + ', // [C07:call-return]\n'
                  # every frame popped so far was exhausted (only an exhausted frame is skipped on return)
                  ' (forall|j: int| self.expression_stack@.len() < j < old(self).expression_stack@.len() ==> (#[trigger] old(self).expression_stack@[j]).0.rv().len == 0), // [C07:end-of-expression-all-callers]\n'
                  ' decreases self.expression_stack@.len()'})

    E_POST = [
        '[C07:eval-wf] final(self).sp_wf() && final(self).sp_config_same(old(self))',
        '[C07:eval-complete] res matches Ok(EvaluationResult::Complete) && !(old(self).sp_phase() is Complete) ==> final(self).sp_phase() is Complete && final(self).sp_result().len() >= 1 && final(self).sp_pc().len == 0 && final(self).sp_calls().len() == 0',
        '[C07:eval-suspend] res matches Ok(r) ==> r is Complete || final(self).sp_waiting_for(r)',
        '[C01:iteration-limit][C07:iteration-limit] budget_bound(old(self).sp_iteration(), old(self).sp_max_iterations(), final(self).sp_iteration())',
        '[C01:iteration-limit][C07:iteration-limit] res is Ok ==> (old(self).sp_max_iterations() matches Some(m) ==> final(self).sp_iteration() <= m || final(self).sp_iteration() == old(self).sp_iteration())',
        '[C01:iteration-monotone] final(self).sp_iteration() >= old(self).sp_iteration()',
        # DWARF 5 2.6.1.2 across the whole suspend / resume history (a fresh Evaluation has no pieces, hence sp_sized_only): while the
        # machine is suspended all collected pieces are sized; on completion the result is sized pieces only, or exactly ONE whole-object
        # piece with pc empty and call stack empty (sp_pieces_ok = specs: pieces_ok)
        '[C07:whole-object-piece-final] old(self).sp_sized_only() ==> (res matches Ok(r) ==> (if r is Complete { final(self).sp_pieces_ok() } else { final(self).sp_sized_only() }))',
    ]
    PUSH_NONE = ('                                size_in_bits: None,\n                                bit_offset: None,\n                                location,\n                            })\n'
                 '                            .map_err(|_verif_unused| -> (e: Error) ensures e == Error::StackFull { Error::StackFull })?;')
    PUSH_SOME = ('                                        size_in_bits: Some(size_in_bits),\n                                        bit_offset,\n                                        location,\n                                    })\n'
                 '                                    .map_err(|_verif_unused| -> (e: Error) ensures e == Error::StackFull { Error::StackFull })?;')
    ev.splice('evaluate_internal', ret='res', requires=['wf(*old(self))'],
              attrs='#[verifier::exec_allows_no_decreases_clause]',
              ensures=E_POST + ['res is Err ==> final(self).state == old(self).state',
                                # DWARF 5 2.6.1.2 across suspensions: a run that starts with sized pieces only suspends with sized pieces only and
                                # completes with sized pieces only or with exactly one whole-object piece, pc empty and call stack empty
                                '[C07:whole-object-piece-final] sized_only(*old(self)) ==> (res matches Ok(r) ==> (if r is Complete { pieces_ok(*final(self)) } else { sized_only(*final(self)) }))',
                                '[C07:eval-value-result] res is Ok && final(self).value_result != old(self).value_result ==> (final(self).value_result matches Some(v) && '
                                '(value_to_u64(v, old(self).addr_mask) matches Ok(addr) && final(self).result@.last() == Piece::<R, usize> { size_in_bits: None, bit_offset: None, location: Location::Address { address: addr } }))'],
              loops={0: 'invariant wf(*self), config_same(*old(self), *self), self.state == old(self).state, self.value_result == old(self).value_result, self.iteration >= old(self).iteration,\n'
                        '(self.max_iterations matches Some(m) ==> self.iteration <= (if old(self).iteration > m { old(self).iteration } else { m })), // [C01:iteration-limit][C07:iteration-limit]\n'
                        'owed == 0, // [C07:complete-location-consumed]\n'
                        # DWARF 5 2.6.1.2: an unsized (whole-object) piece is the only piece and ends the evaluation: once one has been
                        # emitted the current expression is exhausted and NO caller frame is pending (ghost flag `whole` = "this run
                        # emitted a whole-object piece").  Holds on the real code because the piece is pushed only under
                        # `end_of_expression() == true`, whose contract gives pc empty and expression_stack empty; it fails when the
                        # piece is pushed on "callee finished" (pc empty) alone, caller frames still saved.
                        '(whole ==> whole_object_final(*self)), // [C07:whole-object-piece-final]\n'
                        # the same for pieces of earlier runs (suspend / resume): started from sized pieces only, the result is always
                        # "sized pieces only" or "one whole-object piece, pc empty, call stack empty"
                        '(sized_only(*old(self)) ==> pieces_ok(*self)), // [C07:whole-object-piece-final]\n'},
              before=[('while !self.end_of_expression()', 'let ghost mut owed: int = 0;\nlet ghost mut whole: bool = false;'),
                      # nothing is executed after a whole-object piece (follows from the invariant and end_of_expression's contract)
                      ('self.iteration = self.iteration.saturating_add(1);', 'assert(!whole && (sized_only(*old(self)) ==> sized_only(*self))); // [C07:whole-object-piece-final]\nlet ghost prev_iteration = self.iteration;'),
                      # [C07:invalid-piece-only-at-end] "a location description without a piece after sized pieces" (InvalidPiece) can only be
                      # diagnosed when NOTHING is left to run in any frame: a location completed at the end of a callee while a caller still
                      # has operations (its DW_OP_piece) is a valid composite and must not be rejected (DWARF 5 2.5.1.5 / 2.6.1.2).
                      # First textual occurrence = Incomplete arm, `if !self.result.is_empty() {` = Complete arm.
                      ('return Err(Error::InvalidPiece);', 'assert(whole_done(after_step)); // [C07:invalid-piece-only-at-end]'),
                      # the sized-piece path is taken only when something IS left to run (in the callee or in a caller)
                      ('match Operation::parse(&mut self.pc, self.encoding)? {', 'assert(!whole_done(after_step)); // [C07:complete-needs-no-callers]')],
              after=[('self.iteration = self.iteration.saturating_add(1);',
                      'assert(self.iteration >= prev_iteration && (prev_iteration < u32::MAX ==> self.iteration == prev_iteration + 1) && (prev_iteration == u32::MAX ==> self.iteration == u32::MAX)); // [C01:iteration-counter-no-overflow][C07:iteration-counter-no-overflow]'),
                     # machine state right after the step (before any return to a caller frame): the "is the whole expression finished?"
                     # decisions below are judged against THIS state with the standard's notion whole_done, not against the code's test
                     ('let op_result = self.evaluate_one_operation()?;', 'let ghost after_step = *self;'),
                     ('OperationEvaluationResult::Complete { location } => {', 'proof { owed = 1; } // a completed location description must become a piece (or an error)'),
                     ('if !self.result.is_empty() {', 'assert(whole_done(after_step)); // [C07:invalid-piece-only-at-end]'),
                     # [C07:complete-needs-no-callers] the completed location becomes the whole-object result only if the current expression AND
                     # every saved caller frame were exhausted when it completed; [C07:whole-object-piece-final] and then it is the only piece,
                     # pc is empty and the call stack is empty.  Real code: both follow from `end_of_expression() == true`
                     # ([C07:end-of-expression-all-callers], res ==> expression_stack empty) and `result.is_empty()` just before the push.
                     (PUSH_NONE, 'proof { owed = 0; whole = true; }\nassert(self.result@.last() == Piece::<R, usize> { size_in_bits: None, bit_offset: None, location }); // [C07:complete-location-whole-object]\n'
                                 'assert(whole_done(after_step)); // [C07:complete-needs-no-callers]\n'
                                 'assert(self.result@.len() == 1 && self.pc.rv().len == 0 && self.expression_stack@.len() == 0); // [C07:whole-object-piece-final]'),
                     (PUSH_SOME, 'proof { owed = 0; }\nassert(self.result@.last().location == location); // [C07:complete-location-piece]')])
    PROTO = '[C07:resume-protocol] old(self).sp_wf() && (old(self).sp_phase() is Failed || %s)'
    ERRST = '[C07:error-state-sticky] old(self).sp_phase() matches Phase::Failed(e) ==> res == Err::<EvaluationResult<R>, Error>(e)'
    GEN_PUSH = 'assert(self.stack@ == old(self).stack@.push(Value::Generic(%s))); // [C07:resume-pushes-answer]'
    ev.splice('evaluate', ret='res', requires=['[C07:evaluate-protocol] old(self).sp_wf() && !old(self).sp_phase().waiting()'],
              ensures=E_POST + [ERRST, '[C07:evaluate-complete-idempotent] old(self).sp_phase() is Complete ==> res == Ok::<EvaluationResult<R>, Error>(EvaluationResult::Complete)',
                                '[C07:error-state-sticky] res matches Err(e) ==> final(self).sp_phase() == Phase::Failed(e) || (old(self).sp_phase() is Start && final(self).sp_same_phase(old(self)))'],
              before=[('match self.evaluate_internal() {', 'assert(match old(self).state { EvaluationState::Start(Some(v)) => self.stack@ == old(self).stack@.push(Value::Generic(v)), _ => self.stack@ == old(self).stack@ }); // [C07:initial-value-pushed]')], canary=True)
    for name, wait, anchor, ghost_before, ghost_after in [
        ('resume_with_memory', 'old(self).sp_phase() is WaitMemory', 'self.push(value)?;', None, 'assert(self.stack@ == old(self).stack@.push(value)); // [C07:resume-pushes-answer]'),
        ('resume_with_register', 'old(self).sp_phase() is WaitRegister', 'self.push(value)?;', 'let ghost answer = value;',
         'assert(old(self).state matches EvaluationState::Waiting(EvaluationWaiting::Register { offset: off }) && (value_from_u64(value_type_of(answer), off as u64) matches Ok(o) && '
         '(value_add(answer, o, self.addr_mask) matches Ok(v) && self.stack@ == old(self).stack@.push(v)))); // [C07:resume-register-adds-offset]'),
        ('resume_with_wasm_value', 'old(self).sp_phase() is WaitWasmValue', 'self.push(value)?;', None, 'assert(self.stack@ == old(self).stack@.push(value)); // [C07:resume-pushes-answer]'),
        ('resume_with_frame_base', 'old(self).sp_phase() is WaitFrameBase', 'self.push(Value::Generic(frame_base.wrapping_add(offset as u64)))?;', None,
         'assert(self.stack@.len() == old(self).stack@.len() + 1 && self.stack@.drop_last() == old(self).stack@ && (old(self).state matches EvaluationState::Waiting(EvaluationWaiting::FrameBase { offset: off }) && (self.stack@.last() matches Value::Generic(x) && ({ let t = frame_base as int + off as int; x as int == t || x as int == t - 0x1_0000_0000_0000_0000 || x as int == t + 0x1_0000_0000_0000_0000 })))); // [C07:resume-frame-base-adds-offset]'),
        ('resume_with_tls', 'old(self).sp_phase() is WaitTls', 'self.push(Value::Generic(value))?;', None, GEN_PUSH % 'value'),
        ('resume_with_call_frame_cfa', 'old(self).sp_phase() is WaitCfa', 'self.push(Value::Generic(cfa))?;', None, GEN_PUSH % 'cfa'),
        ('resume_with_entry_value', 'old(self).sp_phase() is WaitEntryValue', 'self.push(entry_value)?;', None, 'assert(self.stack@ == old(self).stack@.push(entry_value)); // [C07:resume-pushes-answer]'),
        ('resume_with_parameter_ref', 'old(self).sp_phase() is WaitParameterRef', 'self.push(Value::Generic(parameter_value))?;', None, GEN_PUSH % 'parameter_value'),
        ('resume_with_relocated_address', 'old(self).sp_phase() is WaitRelocatedAddress', 'self.push(Value::Generic(address))?;', None, GEN_PUSH % 'address'),
        ('resume_with_indexed_address', 'old(self).sp_phase() is WaitIndexedAddress', 'self.push(Value::Generic(address))?;', None, GEN_PUSH % 'address'),
    ]:
        bef = [('match self.state {', ghost_before)] if ghost_before else []
        if name == 'resume_with_frame_base':
            bef.append((anchor, 'proof { assert(offset >= 0 ==> (offset as u64) as int == offset as int) by (bit_vector); assert(offset < 0 ==> (offset as u64) as int == offset as int + 0x1_0000_0000_0000_0000) by (bit_vector); }'))
        # the answer is checked where the machine is restarted, so that anything pushed or popped in between is seen
        bef.append(('self.evaluate_internal()', ghost_after))
        ev.splice(name, ret='res', requires=[PROTO % wait], ensures=E_POST + [ERRST], before=bef, canary=True)
    ev.splice('resume_with_at_location', ret='res', requires=[PROTO % 'old(self).sp_phase() is WaitAtLocation'], ensures=E_POST + [ERRST],
              before=[('match self.state {', 'let ghost callee = bytes.rv();'), ('self.evaluate_internal()',
                      'assert(self.stack@ == old(self).stack@ && (callee.len == 0 ==> self.pc == old(self).pc && self.bytecode == old(self).bytecode && self.expression_stack@ == old(self).expression_stack@) && '
                      '(callee.len > 0 ==> self.pc.rv() == callee && self.bytecode.rv() == callee && self.expression_stack@.len() == old(self).expression_stack@.len() + 1 && self.expression_stack@.last().0 == old(self).pc && self.expression_stack@.last().1 == old(self).bytecode && self.expression_stack@.drop_last() == old(self).expression_stack@)); // [C07:resume-call-enters-callee]')],
              canary=True)
    ev.splice('resume_with_base_type', ret='res', requires=[PROTO % '(old(self).sp_phase() is WaitTypedLiteral || old(self).sp_phase() is WaitConvert || old(self).sp_phase() is WaitReinterpret)'], ensures=E_POST + [ERRST],
              before=[('self.evaluate_internal()', 'assert(match old(self).state { EvaluationState::Waiting(EvaluationWaiting::TypedLiteral { value: lit }) => value_parse(base_type, lit.rv()) == Ok::<Value, Error>(value) && self.stack@ == old(self).stack@.push(value), '
                      'EvaluationState::Waiting(EvaluationWaiting::Convert) => old(self).stack@.len() >= 1 && value_convert(old(self).stack@.last(), base_type, self.addr_mask) == Ok::<Value, Error>(value) && self.stack@ =~= old(self).stack@.drop_last().push(value), '
                      'EvaluationState::Waiting(EvaluationWaiting::Reinterpret) => old(self).stack@.len() >= 1 && value_reinterpret(old(self).stack@.last(), base_type, self.addr_mask) == Ok::<Value, Error>(value) && self.stack@ =~= old(self).stack@.drop_last().push(value), '
                      '_ => false }); // [C07:resume-base-type]')], canary=True)
    sk.add('read::op', ev)
    # Evaluation::new (heap storage): `result(self)` is dropped (ArrayVec::into_vec is `unsafe` Vec::from_raw_parts: K-AVEC)
    evn = opsrc.item(r'^impl<R: Reader> Evaluation<R> \{', label='Evaluation(heap)')
    evn.keep_only(['new'])
    evn.clean()
    evn.own(OWN)
    evn.splice('new', ret='res', requires=['[C07:valid-encoding] valid_address_size(encoding.address_size)'],
               ensures=['[C10:view][C07:new-state] res.sp_pc() == bytecode.rv() && res.sp_bytecode() == bytecode.rv() && res.sp_phase() == Phase::Start(None) && res.sp_stack().len() == 0 && res.sp_wf() '
                        '&& res.sp_max_iterations() is None && res.sp_iteration() == 0 && res.sp_addr_mask() == ones(encoding.address_size)', 'res.sp_sized_only()'])
    sk.add('read::op', evn)
    sk.add('read::op', core.rd('specs/op_eval.rs'), label='op-eval-spec')
    sk.add('read::op', '// ---- generated from the table STEP (vx/batches/op_eval.py)\n' + step_fns, label='op-eval-step-spec')
    return sk


def build(ctx):
    sk = Skeleton(ctx, core.rd('prelude/crate.rs'))
    core.populate(ctx, sk)
    op.populate(ctx, sk)
    populate(ctx, sk)
    return sk
