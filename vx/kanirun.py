#!/usr/bin/env python3
"""Kani engine driver (DESIGN.md 3.2): run harnesses of /verif/kani against /repo, concrete playback, native replay."""
import json
import os
import re
import shutil
import subprocess
import time

ROOT = os.path.dirname(os.path.dirname(os.path.abspath(__file__)))
KDIR = os.path.join(ROOT, 'kani')
REPO = os.environ.get('GIMLI_REPO', '/repo')
MEM_KB = 20_000_000
CMD_DOC = ('cd /verif/kani && (ulimit -v %d; timeout <t> cargo kani --harness <h>... -j <n> --output-format terse [-Z ...])  '
           '[kani 0.68.0 / cbmc 6.11.0, gimli = { path = "/repo" }]' % MEM_KB)


def harness_meta():
    return {h['name']: h for h in json.load(open(os.path.join(KDIR, 'harnesses.json')))['harnesses']}


def _prep():
    try:
        shutil.copyfile(os.path.join(REPO, 'Cargo.lock'), os.path.join(KDIR, 'Cargo.lock'))
    except OSError:
        pass
    env = dict(os.environ)
    env['CARGO_NET_OFFLINE'] = 'true'
    return env


def _run(cmd, timeout, cwd=KDIR):
    env = _prep()
    sh = f'ulimit -v {MEM_KB}; exec ' + ' '.join(cmd)
    t0 = time.time()
    try:
        p = subprocess.run(['bash', '-c', sh], cwd=cwd, env=env, capture_output=True, text=True, timeout=timeout)
        out = p.stdout + '\n' + p.stderr
        rc = p.returncode
    except subprocess.TimeoutExpired as e:
        out = ((e.stdout or b'').decode(errors='replace') if isinstance(e.stdout, bytes) else (e.stdout or '')) + '\nTIMEOUT'
        rc = -9
    return rc, out, time.time() - t0


def parse(out):
    """per-harness results from terse output"""
    res = {}
    cur = None
    buf = []
    for line in out.splitlines():
        m = re.match(r'Checking harness (\S+?)\.\.\.', line)
        if m:
            cur = m.group(1).split('::')[-1]
            res[cur] = {'status': 'unknown', 'detail': '', 'failed_checks': []}
            buf = []
            continue
        if cur is None:
            continue
        buf.append(line)
        if line.startswith('Failed Checks:'):
            res[cur]['failed_checks'].append(line[len('Failed Checks:'):].strip())
        m = re.match(r'VERIFICATION:- (\w+)', line)
        if m:
            res[cur]['status'] = 'ok' if m.group(1) == 'SUCCESSFUL' else 'fail'
            res[cur]['detail'] = '\n'.join(buf[-40:])
        m = re.match(r'Verification Time: ([0-9.]+)s', line)
        if m:
            res[cur]['time_s'] = float(m.group(1))
        if 'CBMC failed' in line or 'out of memory' in line.lower() or 'std::bad_alloc' in line or 'CBMC timed out' in line:
            res[cur]['status'] = 'limit'
            res[cur]['detail'] = line
    return res


# modules whose items are cut verbatim from /repo by kani/gen_<module>.py on every run (cargo feature of the same name)
GENERATED = ('linegen', 'exprw')


def run_harnesses(names, jobs=8, timeout=3000, per_harness_timeout=1500):
    """run harnesses in parallel; under -j Kani's per-harness output is interleaved, so the verdict is taken from the
    summary (`Complete - N successfully verified harnesses, F failures, T total` + `Verification failed for - <name>`);
    each failing harness is then re-run alone to classify it (assertion failure vs. CBMC limit) and collect its output."""
    meta = harness_meta()
    groups = {}
    allres = {}
    gen_state = {}
    for n in names:
        flags = tuple(meta.get(n, {}).get('flags', []))
        mod = meta.get(n, {}).get('module')
        if mod in GENERATED:
            # extraction-to-Kani: regenerate the verbatim items from /repo first (DESIGN 3.2); a lost anchor is a tool limit
            if mod not in gen_state:
                p = subprocess.run(['python3', os.path.join(KDIR, f'gen_{mod}.py'), '--quiet'], capture_output=True, text=True)
                gen_state[mod] = (p.returncode, (p.stdout + p.stderr)[-400:])
            if gen_state[mod][0] != 0:
                allres[n] = {'status': 'build', 'detail': f'gen_{mod}.py failed (lost anchor?): ' + gen_state[mod][1]}
                continue
            flags = flags + ('--features', mod)
        groups.setdefault(flags, []).append(n)
    for flags, hs in groups.items():
        cmd = ['cargo', 'kani', '--output-format', 'terse', '-j', str(jobs), '-Z', 'unstable-options',
               '--harness-timeout', f'{per_harness_timeout}s'] + list(flags)
        for h in hs:
            cmd += ['--exact', '--harness', meta[h]['module'] + '::' + h] if False else ['--harness', h]
        rc, out, dt = _run(cmd, timeout)
        m = re.search(r'Complete - (\d+) successfully verified harnesses, (\d+) failures, (\d+) total', out)
        failed = [x.split('::')[-1] for x in re.findall(r'Verification failed for - (\S+)', out)]
        if not m:
            for h in hs:
                allres[h] = {'status': 'build' if 'Checking harness' not in out else 'limit', 'detail': out[-1500:]}
            continue
        total = int(m.group(3))
        if total != len(hs):
            for h in hs:
                allres[h] = {'status': 'missing', 'detail': f'{total} harnesses matched, {len(hs)} requested'}
            continue
        for h in hs:
            if h not in failed:
                allres[h] = {'status': 'ok', 'time_s': None, 'group_wall_s': round(dt, 1)}
        for h in failed:
            rc1, out1, dt1 = _run(['cargo', 'kani', '--output-format', 'terse', '--harness', h] + list(flags), per_harness_timeout + 300)
            r1 = parse(out1).get(h)
            if r1 and r1['status'] == 'fail' and r1['failed_checks']:
                allres[h] = r1
            elif r1 and r1['status'] == 'ok':
                # the solo run is a full verification run of the harness: its verdict stands (the -j failure was a resource cap)
                allres[h] = {'status': 'ok', 'time_s': r1.get('time_s'), 'note': 'hit a resource cap under -j, verified when re-run alone'}
            else:
                allres[h] = {'status': 'limit', 'detail': (r1 or {}).get('detail', out1[-600:])}
    return allres


def playback(harness, timeout=1800):
    """run one failing harness with concrete playback; returns the generated unit test text (or None)"""
    meta = harness_meta().get(harness, {})
    extra = ['--features', meta['module']] if meta.get('module') in GENERATED else []
    cmd = ['cargo', 'kani', '--output-format', 'terse', '-Z', 'concrete-playback', '--concrete-playback=print',
           '--harness', harness] + list(meta.get('flags', [])) + extra
    rc, out, dt = _run(cmd, timeout)
    m = re.search(r'(#\[test\]\s*fn kani_concrete_playback_\w+\(\) \{.*?\n\})', out, re.S)
    if not m:
        return None
    return {'harness': harness, 'test': m.group(1), 'module': meta.get('module')}


def native_replay(harness, cex, timeout=1200):
    """compile the playback test natively against the current /repo and run it (debug profile, overflow checks on)"""
    if not cex or not cex.get('test') or not cex.get('module'):
        return None
    work = os.path.join(ROOT, 'build', 'replay-crate')
    shutil.rmtree(work, ignore_errors=True)
    shutil.copytree(KDIR, work, ignore=shutil.ignore_patterns('target'))
    modfile = os.path.join(work, 'src', cex['module'] + '.rs')
    with open(modfile, 'a') as f:
        f.write('\n' + cex['test'] + '\n')
    tname = re.search(r'fn (kani_concrete_playback_\w+)', cex['test']).group(1)
    cmd = ['cargo', 'kani', 'playback', '-Z', 'concrete-playback'] + (['--features', cex['module']] if cex.get('module') in GENERATED else []) + ['--', tname]
    rc, out, dt = _run(cmd, timeout, cwd=work)
    panicked = re.search(r"panicked at ([^\n]*)\n([^\n]*)", out)
    res = {'reproduced': bool(panicked) or 'test result: FAILED' in out, 'panic': (panicked.group(1) + ' ' + panicked.group(2)) if panicked else None,
           'ran': 'running 1 test' in out, 'tail': out[-800:]}
    shutil.rmtree(work, ignore_errors=True)
    return res
