// ---- write::unit ghost layer, part 2 (batch wunit_layout): the FIRST pass of the two-pass layout establishes what the
// second pass relies on (DESIGN.md 6 C11).  Ghost code only; lives in `crate::write::unit` next to specs/wunit.rs and
// reuses its `die_size`, `subtree_size`, `kids_size`, `layout_ok`, `kids_layout`, `height`, `unit_tree_ok`.

// ---- A-TREE+ / A-FIT+ : a VIRTUAL pre-order layout of the arena.
// `Unit.entries` is an arena; tree-ness (every entry has ONE parent and occurs ONCE in its parent's child list: Unit::add /
// add_reserved push a fresh id, nothing re-parents) is not visible in the data structure.  It is assumed here in the
// form of a ghost interval labelling: every entry i owns an interval [vlo(i), vhi(i)); the intervals of the children of
// i lie strictly inside it, in child order, pairwise disjoint.  Such a labelling exists exactly for forests (a shared
// child or a child listed twice would need two disjoint intervals).  The same labelling carries the address-space bound:
// the interval of i is at least as long as any encoding of the subtree of i (own bytes before the first child, one
// byte for the terminator after the last), so "start + (vhi - vlo) <= usize::MAX" bounds the running offset.
pub uninterp spec fn vlo(unit: Unit, i: int) -> nat;
pub uninterp spec fn vhi(unit: Unit, i: int) -> nat;

/// entry x lies in the subtree of entry i (as far as the labelling can tell)
pub open spec fn in_sub(unit: Unit, i: int, x: int) -> bool {
    vlo(unit, i) <= vlo(unit, x) < vhi(unit, i)
}

pub open spec fn kid_ix(unit: Unit, i: int, j: int) -> int { unit.ents()[i].kids()[j].ix() as int }

pub open spec fn kid_pre(unit: Unit, i: int, j: int) -> bool {
    let c = kid_ix(unit, i, j);
    vlo(unit, i) < vlo(unit, c) && vhi(unit, c) < vhi(unit, i)
    && (j > 0 ==> vhi(unit, kid_ix(unit, i, j - 1)) <= vlo(unit, c))
}

/// the entry's own bytes (under ANY offsets table and abbreviation code) end before the interval of its first child
pub(crate) open spec fn die_budget(unit: Unit, i: int) -> bool {
    let e = unit.ents()[i];
    forall|o: UnitOffsets, code: u64| (#[trigger] die_size(e, unit.enc(), o, code)) is Some ==>
        vlo(unit, i) + die_size(e, unit.enc(), o, code)->Some_0
            <= (if e.kids().len() == 0 { vhi(unit, i) } else { vlo(unit, kid_ix(unit, i, 0)) })
}

pub(crate) open spec fn entry_pre(unit: Unit, i: int) -> bool {
    vlo(unit, i) < vhi(unit, i) && die_budget(unit, i)
    && forall|j: int| 0 <= j < unit.ents()[i].kids().len() ==> #[trigger] kid_pre(unit, i, j)
}

/// A-TREE+ / A-FIT+
pub(crate) open spec fn unit_pre_ok(unit: Unit) -> bool {
    forall|i: int| 0 <= i < unit.ents().len() ==> #[trigger] entry_pre(unit, i)
}

/// virtual position reached after the first k children of entry i
pub open spec fn vpos(unit: Unit, i: int, k: int) -> nat {
    if k <= 0 { vlo(unit, kid_ix(unit, i, 0)) } else { vhi(unit, kid_ix(unit, i, k - 1)) }
}

/// A-FIT (wunit's `die_fits`, for every entry and every offsets table) and A-VECLEN (attribute count)
pub(crate) open spec fn unit_fits(unit: Unit) -> bool {
    (forall|i: int, o: UnitOffsets| 0 <= i < unit.ents().len() ==> #[trigger] die_fits(unit.ents()[i], unit.enc(), o))
    && (forall|i: int| 0 <= i < unit.ents().len() ==> (#[trigger] unit.ents()[i]).eattrs().len() < usize::MAX)
}

// ---- A-EXPR-MONO: the size of an expression is stable between the two passes.
// `Expression::size` reads the offsets table only through `unit_offset(base type entry)` and fails
// (UnsupportedExpressionForwardReference) when that entry has no offset yet.  So a size that was computed successfully
// under the partial table of pass 1 is the size under every table that only ADDS offsets.  This is a property of
// write::op (Operation::size), assumed here for the model type `Expression`.
pub(crate) open spec fn offs_extends(o1: UnitOffsets, o2: UnitOffsets) -> bool {
    o1.base() == o2.base() && o1.unit_off() == o2.unit_off() && o1.tab().len() == o2.tab().len()
    && forall|x: int| 0 <= x < o1.tab().len() ==> ((#[trigger] o1.tab()[x]).0 != 0 ==> o2.tab()[x] == o1.tab()[x])
}

pub(crate) open spec fn expr_mono(v: AttributeValue, enc: Encoding) -> bool {
    v matches AttributeValue::Exprloc(e) ==> forall|o1: UnitOffsets, o2: UnitOffsets|
        offs_extends(o1, o2) && (#[trigger] e.size_spec(enc, Some(&o1))) is Ok
            ==> #[trigger] e.size_spec(enc, Some(&o2)) == e.size_spec(enc, Some(&o1))
}

pub(crate) open spec fn attrs_mono(attrs: Seq<Attribute>, enc: Encoding) -> bool {
    forall|j: int| 0 <= j < attrs.len() ==> expr_mono(#[trigger] attrs[j].aval(), enc)
}

pub(crate) open spec fn unit_expr_mono(unit: Unit) -> bool {
    forall|i: int| 0 <= i < unit.ents().len() ==> attrs_mono((#[trigger] unit.ents()[i]).eattrs(), unit.enc())
}

pub(crate) proof fn lemma_attr_mono(v: AttributeValue, enc: Encoding, o1: UnitOffsets, o2: UnitOffsets)
    requires expr_mono(v, enc), offs_extends(o1, o2), attr_size_res(v, enc, o1) is Some
    ensures attr_size_res(v, enc, o2) == attr_size_res(v, enc, o1)
{
    hide(uleb_size); hide(sleb_size);
}

pub(crate) proof fn lemma_upto_mono(attrs: Seq<Attribute>, k: int, enc: Encoding, o1: UnitOffsets, o2: UnitOffsets)
    requires attrs_mono(attrs, enc), offs_extends(o1, o2), 0 <= k <= attrs.len(), attrs_size_upto(attrs, k, enc, o1) is Some
    ensures attrs_size_upto(attrs, k, enc, o2) == attrs_size_upto(attrs, k, enc, o1)
    decreases k
{
    if k > 0 {
        lemma_upto_mono(attrs, k - 1, enc, o1, o2);
        lemma_attr_mono(attrs[k - 1].aval(), enc, o1, o2);
    }
}

pub(crate) proof fn lemma_die_mono(e: DebuggingInformationEntry, enc: Encoding, o1: UnitOffsets, o2: UnitOffsets, code: u64)
    requires attrs_mono(e.eattrs(), enc), offs_extends(o1, o2), die_size(e, enc, o1, code) is Some
    ensures die_size(e, enc, o2, code) == die_size(e, enc, o1, code)
{
    lemma_upto_mono(e.eattrs(), e.eattrs().len() as int, enc, o1, o2);
}

// ---- frame reasoning on the arena: a laid-out subtree stays laid out when the tables change only outside its interval
/// the two (offsets, codes) tables agree on every entry whose label lies in [a, b)
pub(crate) open spec fn tabs_agree(unit: Unit, a: nat, b: nat, o1: UnitOffsets, c1: Seq<u64>, o2: UnitOffsets, c2: Seq<u64>) -> bool {
    forall|x: int| 0 <= x < unit.ents().len() && a <= #[trigger] vlo(unit, x) < b ==> o2.tab()[x] == o1.tab()[x] && c2[x] == c1[x]
}

pub(crate) open spec fn frame_ctx(unit: Unit, o1: UnitOffsets, c1: Seq<u64>, o2: UnitOffsets, c2: Seq<u64>) -> bool {
    unit_tree_ok(unit) && unit_pre_ok(unit) && unit_expr_mono(unit) && offs_extends(o1, o2)
    && o1.tab().len() == unit.ents().len() && c1.len() == unit.ents().len() && c2.len() == unit.ents().len()
}

pub(crate) proof fn lemma_layout_frame(unit: Unit, i: int, start: nat, o1: UnitOffsets, c1: Seq<u64>, o2: UnitOffsets, c2: Seq<u64>)
    requires frame_ctx(unit, o1, c1, o2, c2), 0 <= i < unit.ents().len(),
        tabs_agree(unit, vlo(unit, i), vhi(unit, i), o1, c1, o2, c2),
        subtree_size(unit, i, o1, c1) is Some,
    ensures subtree_size(unit, i, o2, c2) == subtree_size(unit, i, o1, c1),
        layout_ok(unit, i, start, o1, c1) ==> layout_ok(unit, i, start, o2, c2),
    decreases height(unit, i), unit.ents()[i].kids().len() + 1
{
    let e = unit.ents()[i];
    assert(entry_ok(unit, i));
    assert(entry_pre(unit, i));
    assert(attrs_mono(e.eattrs(), unit.enc()));
    assert(vlo(unit, i) <= vlo(unit, i) < vhi(unit, i));
    assert(c2[i] == c1[i] && o2.tab()[i] == o1.tab()[i]);
    lemma_die_mono(e, unit.enc(), o1, o2, c1[i]);
    if e.kids().len() > 0 {
        let n = e.kids().len() as int;
        let d = die_size(e, unit.enc(), o1, c1[i])->Some_0;
        assert(kid_pre(unit, i, n - 1));
        lemma_kids_frame(unit, i, n, start + d, vlo(unit, i), vhi(unit, i), o1, c1, o2, c2);
    }
}

pub(crate) proof fn lemma_kids_frame(unit: Unit, i: int, k: int, base: nat, a: nat, b: nat, o1: UnitOffsets, c1: Seq<u64>, o2: UnitOffsets, c2: Seq<u64>)
    requires frame_ctx(unit, o1, c1, o2, c2), 0 <= i < unit.ents().len(), 0 <= k <= unit.ents()[i].kids().len(),
        tabs_agree(unit, a, b, o1, c1, o2, c2), a <= vlo(unit, i) + 1, k > 0 ==> vhi(unit, kid_ix(unit, i, k - 1)) <= b,
        kids_size(unit, i, k, o1, c1) is Some,
    ensures kids_size(unit, i, k, o2, c2) == kids_size(unit, i, k, o1, c1),
        kids_layout(unit, i, k, base, o1, c1) ==> kids_layout(unit, i, k, base, o2, c2),
    decreases height(unit, i), k
{
    if k > 0 {
        let c = kid_ix(unit, i, k - 1);
        assert(entry_ok(unit, i));
        assert(kid_ok(unit, i, k - 1));
        assert(entry_pre(unit, i));
        assert(kid_pre(unit, i, k - 1));
        assert(entry_pre(unit, c));
        lemma_kids_frame(unit, i, k - 1, base, a, b, o1, c1, o2, c2);
        let s = kids_size(unit, i, k - 1, o1, c1)->Some_0;
        assert(tabs_agree(unit, vlo(unit, c), vhi(unit, c), o1, c1, o2, c2));
        lemma_layout_frame(unit, c, base + s, o1, c1, o2, c2);
    }
}


// =====================================================================================================================
// ---- G2: Unit::write as a whole
impl Unit {
    pub closed spec fn uwritten(&self) -> bool { self.written }
    pub closed spec fn lp(&self) -> LineProgram { self.line_program }
}

/// index of the first attribute named `name` at or after k; -1 if none
pub open spec fn first_named(a: Seq<Attribute>, name: constants::DwAt, k: int) -> int
    decreases a.len() - k
{
    if k < 0 || k >= a.len() { -1 } else if a[k].aname() == name { k } else { first_named(a, name, k + 1) }
}
pub closed spec fn mk_attr(name: constants::DwAt, value: AttributeValue) -> Attribute { Attribute { name, value } }
/// `DebuggingInformationEntry::set`: replace the first attribute of that name, else append
pub open spec fn attrs_set(a: Seq<Attribute>, name: constants::DwAt, value: AttributeValue) -> Seq<Attribute> {
    let k = first_named(a, name, 0);
    if k < 0 { a.push(mk_attr(name, value)) } else { a.update(k, mk_attr(name, value)) }
}
/// `DebuggingInformationEntry::delete`: `retain(|x| x.name != name)`
pub open spec fn attrs_del(a: Seq<Attribute>, name: constants::DwAt) -> Seq<Attribute> {
    a.filter(|x: Attribute| x.aname() != name)
}

/// the root's children after `reorder_base_types` (DW_TAG_base_type = 0x24 first, stable)
pub open spec fn base_types_first(u: Unit) -> Seq<UnitEntryId> {
    let k0 = u.ents()[u.root_ix() as int].kids();
    filter_by(k0, |c: UnitEntryId| u.ents()[c.ix() as int].etag().0 == 0x24, k0.len() as int)
        + filter_by(k0, |c: UnitEntryId| u.ents()[c.ix() as int].etag().0 != 0x24, k0.len() as int)
}

/// `u` is the unit as Unit::write itself prepares it before the two passes: DW_AT_stmt_list (0x10) of the root set to
/// LineProgramRef or deleted, base types moved first among the root's children; everything else as given.
pub open spec fn prepared(old: Unit, u: Unit) -> bool {
    let r = old.root_ix() as int;
    u.ents().len() == old.ents().len() && u.enc() == old.enc() && u.ubase() == old.ubase() && u.root_ix() == old.root_ix()
    && (forall|i: int| 0 <= i < old.ents().len() && i != r ==> #[trigger] u.ents()[i] == old.ents()[i])
    && u.ents()[r].eid() == old.ents()[r].eid() && u.ents()[r].etag() == old.ents()[r].etag()
    && u.ents()[r].esibling() == old.ents()[r].esibling()
    && u.ents()[r].kids() == base_types_first(old)
    && (u.ents()[r].eattrs() == attrs_set(old.ents()[r].eattrs(), constants::DwAt(0x10), AttributeValue::LineProgramRef)
        || u.ents()[r].eattrs() == attrs_del(old.ents()[r].eattrs(), constants::DwAt(0x10)))
}

/// documented requirement of `Unit::reserve` ("If the id is used in a reference, it must later be passed to add_reserved"):
/// every in-unit reference names an entry of this unit's arena (otherwise `UnitOffsets::debug_info_offset` panics: F-wunit-2)
pub open spec fn unit_ref_ids_ok(u: Unit) -> bool {
    forall|i: int, j: int| 0 <= i < u.ents().len() && 0 <= j < u.ents()[i].eattrs().len() ==>
        ((#[trigger] u.ents()[i].eattrs()[j].aval()) matches AttributeValue::UnitRef(id) ==> id.base() == u.ubase() && id.ix() < u.ents().len())
}
/// the same, seen from an offsets table of the unit (precondition of `UnitOffsets::unit_offset`)
pub(crate) open spec fn unit_refs_known(u: Unit, offsets: UnitOffsets) -> bool {
    forall|i: int, j: int| 0 <= i < u.ents().len() && 0 <= j < u.ents()[i].eattrs().len() ==>
        ((#[trigger] u.ents()[i].eattrs()[j].aval()) matches AttributeValue::UnitRef(id) ==> offsets.knows(id))
}

/// A-TREE, A-TREE+, A-FIT, A-FIT+, A-VECLEN, A-EXPR-MONO and the reference-id requirement for a prepared unit whose
/// header starts at section offset `start` (24 = the longest unit header: 64-bit DWARF 5)
pub(crate) open spec fn unit_good(u: Unit, start: nat) -> bool {
    unit_tree_ok(u) && unit_attrs_wf(u) && unit_pre_ok(u) && unit_expr_mono(u) && unit_fits(u) && unit_ref_ids_ok(u)
    && u.root_ix() < u.ents().len()
    && start + 24 + (vhi(u, u.root_ix() as int) - vlo(u, u.root_ix() as int)) <= usize::MAX
}

pub(crate) proof fn lemma_filter_cong<T>(s: Seq<T>, p1: spec_fn(T) -> bool, p2: spec_fn(T) -> bool, n: int)
    requires 0 <= n <= s.len(), forall|j: int| 0 <= j < n ==> p1(#[trigger] s[j]) == p2(s[j])
    ensures filter_by(s, p1, n) == filter_by(s, p2, n)
    decreases n
{
    if n > 0 { lemma_filter_cong(s, p1, p2, n - 1); }
}

// ---- the unit header (DWARF 5 7.5.1.1; DWARF 2-4 7.5.1): unit_length, version, then
//      v2-4: debug_abbrev_offset, address_size        v5: unit_type (DW_UT_compile = 0x01), address_size, debug_abbrev_offset
pub open spec fn unit_header_ops(enc: Encoding, abbrev: usize) -> Seq<WOp> {
    let il = if enc.format is Dwarf64 { seq![wu(0xffff_ffff, 4), wu(0, 8)] } else { seq![wu(0, 4)] };
    let off = WOp::Offset { val: abbrev, section: SectionId::DebugAbbrev, size: word_size(enc.format) as u8 };
    let ver = wu(enc.version as nat, 2);
    let asz = wu(enc.address_size as nat, 1);
    if enc.version == 5 { il + seq![ver, wu(0x01, 1), asz, off] } else { il + seq![ver, off, asz] }
}
/// bytes of the initial length field (DWARF 5 7.4: 4, or the 0xffffffff escape + 8)
pub open spec fn ilen_size(enc: Encoding) -> nat { if enc.format is Dwarf64 { 12 } else { 4 } }
pub open spec fn unit_header_len(enc: Encoding) -> nat {
    ilen_size(enc) + 2 + word_size(enc.format) + 1 + (if enc.version == 5 { 1nat } else { 0nat })
}
/// position of the debug_abbrev_offset field among the header fields
pub open spec fn abbrev_field_ix(enc: Encoding) -> int {
    (if enc.format is Dwarf64 { 2int } else { 1int }) + (if enc.version == 5 { 3int } else { 1int })
}
/// the patch that fills in unit_length: at the length WORD (after the 64-bit escape), the number of bytes FOLLOWING the
/// initial length field up to the end of the unit
pub open spec fn unit_length_patch(enc: Encoding, start: nat, end: nat) -> WOp {
    WOp::PatchU { offset: start + (if enc.format is Dwarf64 { 4nat } else { 0nat }), val: (end - start - ilen_size(enc)) as nat, size: word_size(enc.format) }
}
pub open spec fn len_patch_at(ops: Seq<WOp>, p: int, patch: WOp) -> bool {
    0 <= p < ops.len() && ops[p] == patch
}
/// after the unit_length patch at p, the log ends with exactly one patch per recorded in-unit reference, in order:
/// at the recorded placeholder offset, word sized, the value = offset of the target entry RELATIVE TO THE UNIT HEADER
pub(crate) open spec fn unit_tail(ops: Seq<WOp>, p: int, refs: Seq<(DebugInfoOffset, UnitEntryId)>, offs: UnitOffsets, word: nat) -> bool {
    0 <= p && ops.len() == p + 1 + refs.len()
    && forall|k: int| 0 <= k < refs.len() ==> (offs.knows(refs[k].1) && offs.info_off(refs[k].1) is Some
        && offs.info_off(refs[k].1)->Some_0.0 >= offs.unit_off()
        && #[trigger] ops[p + 1 + k] == (WOp::PatchU { offset: refs[k].0.0 as nat, val: (offs.info_off(refs[k].1)->Some_0.0 - offs.unit_off()) as nat, size: word }))
}

