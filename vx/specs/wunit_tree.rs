// ---- write::unit entry ARENA as a forest (DESIGN.md 6 C11 "same forest", C15 "base types first"); ghost code only.
// Lives in `crate::write::unit` next to specs/wunit.rs (whose accessors ents/root_ix/ubase/eid/etag/kids/eattrs it uses).

impl DebuggingInformationEntry {
    pub closed spec fn eparent(&self) -> Option<UnitEntryId> { self.parent }
}
impl Unit {
    /// number of ids handed out (entries + reserved ids not yet materialised)
    pub closed spec fn nreserved(&self) -> usize { self.reserved }
}

/// ids are determined by (base, index)
pub proof fn lemma_eid_ext(a: UnitEntryId, b: UnitEntryId)
    requires a.ix() == b.ix(), a.base() == b.base()
    ensures a == b
{}

pub open spec fn no_dup(s: Seq<UnitEntryId>) -> bool {
    forall|a: int, b: int| 0 <= a < b < s.len() ==> s[a] != s[b]
}

/// child j of entry i: an id of this unit, in range, whose PARENT LINK POINTS BACK to entry i
pub open spec fn tree_kid_ok(u: Unit, i: int, j: int) -> bool {
    let c = u.ents()[i].kids()[j];
    c.base() == u.ubase() && c.ix() < u.ents().len()
    && u.ents()[c.ix() as int].eparent() == Some(u.ents()[i].eid())
}

/// entry i: its id is (unit base, i) [dense ids]; every child is tree_kid_ok; no child is listed twice; its parent
/// link (if any) names an entry of this arena
pub open spec fn tree_entry_ok(u: Unit, i: int) -> bool {
    let e = u.ents()[i];
    e.eid().ix() == i && e.eid().base() == u.ubase()
    && (forall|j: int| 0 <= j < e.kids().len() ==> #[trigger] tree_kid_ok(u, i, j))
    && no_dup(e.kids())
    && (e.eparent() matches Some(p) ==> p.base() == u.ubase() && p.ix() < u.ents().len())
}

/// WELL-FORMED ARENA: the root exists and has no parent, the materialised entries are a prefix of the ids handed out,
/// every entry is tree_entry_ok.  Consequences (lemma_unique_occurrence): an entry occurs in AT MOST one children list, at
/// most once, and only in the list of the entry its parent link names; the root occurs in none.
pub open spec fn wf_tree(u: Unit) -> bool {
    u.root_ix() < u.ents().len() && u.ents().len() <= u.nreserved()
    && u.ents()[u.root_ix() as int].eparent() is None
    && forall|i: int| 0 <= i < u.ents().len() ==> #[trigger] tree_entry_ok(u, i)
}

/// [C11:tree-wf] in a well-formed arena two occurrences of the same id in children lists are the same occurrence,
/// and the root is nobody's child
pub proof fn lemma_unique_occurrence(u: Unit, i1: int, j1: int, i2: int, j2: int)
    requires wf_tree(u), 0 <= i1 < u.ents().len(), 0 <= i2 < u.ents().len(),
        0 <= j1 < u.ents()[i1].kids().len(), 0 <= j2 < u.ents()[i2].kids().len(),
        u.ents()[i1].kids()[j1] == u.ents()[i2].kids()[j2],
    ensures i1 == i2 && j1 == j2, // [C11:tree-wf]
        u.ents()[i1].kids()[j1].ix() != u.root_ix(), // [C11:tree-wf]
{
    assert(tree_entry_ok(u, i1)); assert(tree_entry_ok(u, i2));
    assert(tree_kid_ok(u, i1, j1)); assert(tree_kid_ok(u, i2, j2));
}

/// the id was handed out (reserve) but the entry was not yet added: not materialised, or a blank non-root entry
pub open spec fn is_unadded(u: Unit, c: UnitEntryId) -> bool {
    c.base() == u.ubase() && c.ix() < u.nreserved() && c.ix() != u.root_ix()
    && (c.ix() < u.ents().len() ==> u.ents()[c.ix() as int].eparent() is None && u.ents()[c.ix() as int].etag().0 == 0)
}

/// a materialised entry of this unit
pub open spec fn is_entry(u: Unit, p: UnitEntryId) -> bool {
    p.base() == u.ubase() && p.ix() < u.ents().len()
}

/// what `new_reserved(id)` builds: no parent, DW_TAG_null, no sibling flag, no attributes, no children
pub open spec fn is_blank(e: DebuggingInformationEntry, id: UnitEntryId) -> bool {
    e.eid() == id && e.eparent() is None && e.etag().0 == 0 && !e.esibling() && e.eattrs().len() == 0 && e.kids().len() == 0
}

/// entries differ at most in the children list
pub open spec fn same_but_kids(a: DebuggingInformationEntry, b: DebuggingInformationEntry) -> bool {
    a.eid() == b.eid() && a.eparent() == b.eparent() && a.etag() == b.etag() && a.esibling() == b.esibling() && a.eattrs() == b.eattrs()
}

// ---- permutation by counting: number of occurrences of x in s
pub open spec fn cnt(s: Seq<UnitEntryId>, x: UnitEntryId) -> nat
    decreases s.len()
{
    if s.len() == 0 { 0 } else { cnt(s.drop_last(), x) + (if s.last() == x { 1nat } else { 0nat }) }
}

/// `a` is a permutation of `b`: every id occurs equally often (nothing dropped, nothing duplicated)
pub open spec fn is_perm(a: Seq<UnitEntryId>, b: Seq<UnitEntryId>) -> bool {
    a.len() == b.len() && forall|x: UnitEntryId| cnt(a, x) == cnt(b, x)
}

pub proof fn lemma_cnt_push(s: Seq<UnitEntryId>, y: UnitEntryId, x: UnitEntryId)
    ensures cnt(s.push(y), x) == cnt(s, x) + (if y == x { 1nat } else { 0nat })
{
    assert(s.push(y).drop_last() =~= s);
}

pub proof fn lemma_cnt_add(a: Seq<UnitEntryId>, b: Seq<UnitEntryId>, x: UnitEntryId)
    ensures cnt(a + b, x) == cnt(a, x) + cnt(b, x)
    decreases b.len()
{
    if b.len() == 0 {
        assert(a + b =~= a);
    } else {
        assert((a + b).drop_last() =~= a + b.drop_last());
        lemma_cnt_add(a, b.drop_last(), x);
    }
}

/// the stable partition (wunit's filter_by) of s[..n] by p / not p has the length and the occurrence counts of s[..n]
pub proof fn lemma_partition_perm(s: Seq<UnitEntryId>, p: spec_fn(UnitEntryId) -> bool, np: spec_fn(UnitEntryId) -> bool, n: int, x: UnitEntryId)
    requires 0 <= n <= s.len(), forall|c: UnitEntryId| np(c) == !#[trigger] p(c)
    ensures cnt(filter_by(s, p, n), x) + cnt(filter_by(s, np, n), x) == cnt(s.take(n), x),
        filter_by(s, p, n).len() + filter_by(s, np, n).len() == n,
    decreases n
{
    if n > 0 {
        lemma_partition_perm(s, p, np, n - 1, x);
        assert(s.take(n).drop_last() =~= s.take(n - 1));
        assert(s.take(n).last() == s[n - 1]);
        lemma_cnt_push(filter_by(s, p, n - 1), s[n - 1], x);
        lemma_cnt_push(filter_by(s, np, n - 1), s[n - 1], x);
        assert(np(s[n - 1]) == !p(s[n - 1]));
    } else {
        assert(s.take(0).len() == 0);
    }
}

/// every element of the stable partition is an element of s (used to carry tree_kid_ok over a reorder)
pub proof fn lemma_filter_elems(s: Seq<UnitEntryId>, p: spec_fn(UnitEntryId) -> bool, n: int)
    requires 0 <= n <= s.len()
    ensures forall|j: int| 0 <= j < filter_by(s, p, n).len() ==> exists|k: int| 0 <= k < n && s[k] == #[trigger] filter_by(s, p, n)[j],
    decreases n
{
    if n > 0 {
        lemma_filter_elems(s, p, n - 1);
        let f = filter_by(s, p, n);
        assert forall|j: int| 0 <= j < f.len() implies exists|k: int| 0 <= k < n && s[k] == #[trigger] f[j] by {
            if p(s[n - 1]) && j == f.len() - 1 {
                assert(s[n - 1] == f[j]);
            } else {
                let k = choose|k: int| 0 <= k < n - 1 && s[k] == filter_by(s, p, n - 1)[j];
                assert(s[k] == f[j]);
            }
        }
    }
}

/// attribute lists: at most one attribute per name
pub open spec fn attrs_unique(a: Seq<Attribute>) -> bool {
    forall|i: int, j: int| 0 <= i < j < a.len() ==> a[i].aname() != a[j].aname()
}

// ---- no_dup <==> every count <= 1 (carries "listed at most once" over a permutation)
pub proof fn lemma_cnt_zero(s: Seq<UnitEntryId>, x: UnitEntryId)
    requires forall|k: int| 0 <= k < s.len() ==> s[k] != x
    ensures cnt(s, x) == 0
    decreases s.len()
{
    if s.len() > 0 {
        assert forall|k: int| 0 <= k < s.drop_last().len() implies s.drop_last()[k] != x by { assert(s.drop_last()[k] == s[k]); }
        lemma_cnt_zero(s.drop_last(), x);
    }
}

pub proof fn lemma_cnt_pos(s: Seq<UnitEntryId>, k: int)
    requires 0 <= k < s.len()
    ensures cnt(s, s[k]) >= 1
    decreases s.len()
{
    if k < s.len() - 1 {
        assert(s.drop_last()[k] == s[k]);
        lemma_cnt_pos(s.drop_last(), k);
    }
}

pub proof fn lemma_nodup_cnt(s: Seq<UnitEntryId>, x: UnitEntryId)
    requires no_dup(s)
    ensures cnt(s, x) <= 1
    decreases s.len()
{
    if s.len() > 0 {
        let t = s.drop_last();
        assert forall|a: int, b: int| 0 <= a < b < t.len() implies t[a] != t[b] by { assert(t[a] == s[a] && t[b] == s[b]); }
        lemma_nodup_cnt(t, x);
        if s.last() == x {
            assert forall|k: int| 0 <= k < t.len() implies t[k] != x by { assert(t[k] == s[k]); }
            lemma_cnt_zero(t, x);
        }
    }
}

pub proof fn lemma_dup_cnt(s: Seq<UnitEntryId>, a: int, b: int)
    requires 0 <= a < b < s.len(), s[a] == s[b]
    ensures cnt(s, s[a]) >= 2
    decreases s.len()
{
    let t = s.drop_last();
    assert(t[a] == s[a]);
    if b == s.len() - 1 {
        lemma_cnt_pos(t, a);
    } else {
        assert(t[b] == s[b]);
        lemma_dup_cnt(t, a, b);
    }
}

/// a permutation of a duplicate-free list is duplicate-free
pub proof fn lemma_perm_nodup(a: Seq<UnitEntryId>, b: Seq<UnitEntryId>)
    requires is_perm(a, b), no_dup(b)
    ensures no_dup(a)
{
    assert forall|i: int, j: int| 0 <= i < j < a.len() implies a[i] != a[j] by {
        if a[i] == a[j] {
            lemma_dup_cnt(a, i, j);
            lemma_nodup_cnt(b, a[i]);
        }
    }
}
