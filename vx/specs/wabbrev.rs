// ---- the .debug_abbrev section as the WRITER must lay it out; written from DWARF 5 section 7.5.3 ("Abbreviations
// Tables"), NOT from write/abbrev.rs.  Ghost code only.  The per-field functions marked GENERATED are produced by
// vx/batches/wabbrev.py from its layout tables (ASPEC_FIELDS / DECL_FIELDS), which are cross-checked at build time against
// the READER's layout of the same section (vx/specs/units.rs aspec_at / decl_*; units.py [C02:abbrev-decl], [C02:aspec-*]).
//
//   table        := declaration*  0                                  "The abbreviations for a given compilation unit end with an
//                                                                      entry consisting of a 0 byte for the abbreviation code."
//   declaration  := ULEB128 code (!= 0)  ULEB128 tag  u8 children  attribute-spec*  (0, 0)
//                                                                     "begins with an unsigned LEB128 number representing the
//                                                                      abbreviation code itself ... followed by another unsigned
//                                                                      LEB128 number that encodes the entry's tag ... Following the
//                                                                      tag encoding is a 1-byte value that determines whether a
//                                                                      debugging information entry using this abbreviation has
//                                                                      child entries" (DW_CHILDREN_no 0x00 / DW_CHILDREN_yes 0x01)
//   attribute-spec := ULEB128 name  ULEB128 form  [SLEB128 value  iff form == DW_FORM_implicit_const (0x21)]
//                                                                     "The series of attribute specifications ends with an entry
//                                                                      containing 0 for the name and 0 for the form."
//                                                                     "DW_FORM_implicit_const ... the attribute specification
//                                                                      contains a third part, which is a signed LEB128 number."
//   The unsigned LEB128 encoding of 0 is the single byte 0x00 (7.6): the three terminators are logged as the ONE-BYTE field
//   `wu(0, 1)` (the field log of wcore distinguishes field kinds, not bytes).

/// one attribute specification as the writer holds it (name / form codes, operand of DW_FORM_implicit_const)
pub ghost struct WASpec { pub name: u16, pub form: u16, pub ic: i64 }

/// one abbreviation declaration without its code (the code is its 1-based position in the table)
pub ghost struct WADecl { pub tag: u16, pub has_children: bool, pub specs: Seq<WASpec> }

/// the zero byte that terminates the attribute list (twice: name 0, form 0) and the table (code 0)
pub open spec fn zero_byte() -> WOp { wu(0, 1) }

/*GENERATED*/

/// the fields of the first n attribute specifications, in order
pub open spec fn attr_specs_ops(specs: Seq<WASpec>, n: int) -> Seq<WOp>
    decreases n
{
    if n <= 0 { Seq::empty() } else { attr_specs_ops(specs, n - 1) + attr_spec_ops(specs[n - 1]) }
}
/// their encoded size / their number of fields
pub open spec fn attr_specs_size(specs: Seq<WASpec>, n: int) -> nat
    decreases n
{
    if n <= 0 { 0 } else { attr_specs_size(specs, n - 1) + attr_spec_size(specs[n - 1]) }
}
pub open spec fn attr_specs_nops(specs: Seq<WASpec>, n: int) -> nat
    decreases n
{
    if n <= 0 { 0 } else { attr_specs_nops(specs, n - 1) + attr_spec_nops(specs[n - 1]) }
}

/// a declaration after its code, with only the first n attribute specifications and without the (0, 0) terminator
pub open spec fn abbrev_decl_head_ops(tag: u16, has_children: bool, specs: Seq<WASpec>, n: int) -> Seq<WOp> {
    decl_fixed_ops(tag, has_children) + attr_specs_ops(specs, n)
}
/// a declaration after its code: tag, children flag, every attribute specification, the (0, 0) terminator
pub open spec fn abbrev_decl_body_ops(tag: u16, has_children: bool, specs: Seq<WASpec>) -> Seq<WOp> {
    abbrev_decl_head_ops(tag, has_children, specs, specs.len() as int) + decl_end_ops()
}
/// THE declaration (DWARF 5 7.5.3): code, tag, children flag, attribute specifications, (0, 0)
pub open spec fn abbrev_decl_ops(code: u64, tag: u16, has_children: bool, specs: Seq<WASpec>) -> Seq<WOp> {
    decl_code_ops(code) + abbrev_decl_body_ops(tag, has_children, specs)
}
pub open spec fn abbrev_decl_body_size(tag: u16, has_children: bool, specs: Seq<WASpec>) -> nat {
    decl_fixed_size(tag) + attr_specs_size(specs, specs.len() as int) + 2
}

/// the first n declarations of a table; the i-th (0-based) declaration carries the code i + 1: codes are non-zero, unique,
/// and the code of a declaration is the number `AbbreviationTable::add` handed out for it (index + 1), which is the code
/// the entries of .debug_info are written with
pub open spec fn abbrev_table_decls_ops(decls: Seq<WADecl>, n: int) -> Seq<WOp>
    decreases n
{
    if n <= 0 { Seq::empty() }
    else { abbrev_table_decls_ops(decls, n - 1) + abbrev_decl_ops(n as u64, decls[n - 1].tag, decls[n - 1].has_children, decls[n - 1].specs) }
}
pub open spec fn abbrev_table_decls_size(decls: Seq<WADecl>, n: int) -> nat
    decreases n
{
    if n <= 0 { 0 }
    else { abbrev_table_decls_size(decls, n - 1) + uleb_size(n as nat) + abbrev_decl_body_size(decls[n - 1].tag, decls[n - 1].has_children, decls[n - 1].specs) }
}
/// THE table: every declaration under its code, then the null code
pub open spec fn abbrev_table_ops(decls: Seq<WADecl>) -> Seq<WOp> {
    abbrev_table_decls_ops(decls, decls.len() as int) + table_end_ops()
}

/// `new` is `old` after writing exactly the fields `s` (wspec::wrote with EXTENSIONAL sequence equality, so that the
/// solver proves it from chains of `emitted` / `wrote_ext` facts without sequence-algebra hints; equivalent to `wrote`)
pub open spec fn wrote_ext(old: WView, new: WView, s: Seq<WOp>) -> bool {
    new.ops =~= old.ops + s && old.len <= new.len && new.be == old.be
}
pub proof fn lemma_wrote_ext(old: WView, new: WView, s: Seq<WOp>)
    ensures wrote_ext(old, new, s) == wrote(old, new, s)
{
}
