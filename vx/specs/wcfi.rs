use vstd::std_specs::ops::DivSpec;
// ---- write-side call frame information (DESIGN.md 6 C14); ghost code only, emitted into module `crate::write::cfi`.
// Written from DWARF 5 section 6.4.1 (CIE/FDE layout), 6.4.2 (instruction operands), 7.24 / table 7.29 (opcode values) and
// the LSB ".eh_frame" chapter (augmentation 'z' 'L' 'P' 'R' 'S', CIE id 0, CIE pointer relative to its own field).

/// the view after writing exactly one more field
pub open spec fn after(w: WView, op: WOp) -> WView {
    WView { len: w.len + op_len(op, w.len), ops: w.ops.push(op), be: w.be }
}
pub proof fn lemma_after(a: WView, b: WView, op: WOp)
    ensures emitted(a, b, op) <==> b == after(a, op)
{
}

/// one byte
pub open spec fn b1(v: int) -> WOp { wu(v as nat, 1) }

// ---- factoring (6.4.2: "factored" operands are multiplied by the CIE's alignment factor when read back)
/// `x` can be expressed with the factor `f`: some integer n has n * f == x.
/// (A zero factor expresses only x == 0, degenerately: every operand n reads back as n * 0 == 0.)
pub open spec fn expressible(x: int, f: int) -> bool {
    if f == 0 { x == 0 } else { x % f == 0 }
}
/// the factored operand: the n with n * f == x (unique for f != 0; defined for expressible x)
pub open spec fn factored(x: int, f: int) -> int {
    if f == 0 { 0 } else { x / f }
}
pub proof fn lemma_factored(x: int, f: int)
    requires expressible(x, f)
    ensures factored(x, f) * f == x
{
    if f != 0 {
        vstd::arithmetic::div_mod::lemma_fundamental_div_mod(x, f);
        assert(f * (x / f) == (x / f) * f) by (nonlinear_arith);
    }
}
/// uniqueness: the only n with n * f == x is factored(x, f)
pub proof fn lemma_factored_unique(n: int, x: int, f: int)
    requires f != 0, n * f == x
    ensures expressible(x, f), factored(x, f) == n
{
    if f > 0 {
        vstd::arithmetic::div_mod::lemma_fundamental_div_mod_converse(x, f, n, 0);
    } else {
        // x == f * (x / f) + x % f with 0 <= x % f < -f, hence f * (n - x / f) == x % f, which forces n == x / f
        vstd::arithmetic::div_mod::lemma_fundamental_div_mod(x, f);
        let q = x / f;
        let r = x % f;
        assert(0 <= r < -f);
        assert(f * (n - q) == r) by (nonlinear_arith) requires n * f == x, x == f * q + r;
        assert(n == q) by (nonlinear_arith) requires f * (n - q) == r, 0 <= r < -f, f < 0;
    }
}

/// a non-zero delta that is n * f: f != 0, n > 0 and n is the factored delta (helper of write_advance_loc)
pub proof fn lemma_factored_delta(n: int, x: int, f: int)
    requires n * f == x, x > 0, n >= 0, f >= 0
    ensures f != 0, n > 0, expressible(x, f), factored(x, f) == n, factored(x, f) * f == x
{
    assert(f != 0 && n > 0) by (nonlinear_arith) requires n * f == x, x > 0, n >= 0, f >= 0;
    lemma_factored_unique(n, x, f);
}
/// Euclidean quotient of a positive dividend: sign and size (helper for lemma_rust_div_i32)
pub proof fn lemma_euc_pos(x: int, b: int)
    requires x > 0, b != 0
    ensures ({
        let q = x / b;
        let r = x % b;
        x == b * q + r && 0 <= r && (b > 0 ==> r < b && 0 <= q <= x) && (b < 0 ==> r < -b && -x <= q <= 0 && (b < -1 ==> q > -x))
    })
{
    vstd::arithmetic::div_mod::lemma_fundamental_div_mod(x, b);
    let q = x / b;
    let r = x % b;
    if b > 0 {
        vstd::arithmetic::div_mod::lemma_mod_bound(x, b);
        assert(0 <= q <= x) by (nonlinear_arith) requires x == b * q + r, 0 <= r < b, b > 0, x > 0;
    } else {
        assert(0 <= r < -b);
        assert(-x <= q <= 0) by (nonlinear_arith) requires x == b * q + r, 0 <= r < -b, b < 0, x > 0;
        if b < -1 {
            assert(q > -x) by (nonlinear_arith) requires x == b * q + r, 0 <= r < -b, b < -1, x > 0, -x <= q <= 0;
        }
    }
}
/// Rust's truncating `i32 / i32` (vstd `DivSpec for i32`): the quotient times the divisor gives the dividend back exactly
/// when the dividend is expressible, and the product never leaves the i32 range
pub proof fn lemma_rust_div_i32(a: i32, b: i32)
    requires b != 0, !(a == i32::MIN && b == -1)
    ensures ({
        let q = a.div_spec(b) as int;
        (q * b == a as int <==> expressible(a as int, b as int)) && i32::MIN <= q * b <= i32::MAX
    })
{
    let ai = a as int;
    let bi = b as int;
    if a == 0 {
        vstd::arithmetic::div_mod::lemma_fundamental_div_mod(0, bi);
        lemma_factored_unique(0, 0, bi);
        assert(0 * bi == 0);
    } else if a > 0 {
        lemma_euc_pos(ai, bi);
        let q = ai / bi;
        assert(a.div_spec(b) as int == q);
        assert(q * bi == bi * q) by (nonlinear_arith);
    } else {
        let x = -ai;
        lemma_euc_pos(x, bi);
        let q0 = x / bi;
        let r0 = x % bi;
        assert(a.div_spec(b) as int == -q0);
        assert((-q0) * bi == -(bi * q0)) by (nonlinear_arith);
        if r0 == 0 {
            assert((-q0) * bi == ai);
            lemma_factored_unique(-q0, ai, bi);
        }
        if ai % bi == 0 {
            vstd::arithmetic::div_mod::lemma_fundamental_div_mod(ai, bi);
            let k = ai / bi;
            assert((-k) * bi == x) by (nonlinear_arith) requires ai == bi * k + 0, x == -ai;
            lemma_factored_unique(-k, x, bi);
        }
    }
}

// ---- DW_CFA_advance_loc* (6.4.2.1): the four ways to encode a factored delta d
///   DW_CFA_advance_loc   high 2 bits 0x1, delta in the low 6 bits      (d < 0x40)
///   DW_CFA_advance_loc1  0x02, 1-byte delta;  _loc2  0x03, 2-byte delta;  _loc4  0x04, 4-byte delta
/// `w1` is `w0` followed by one advance instruction, of ANY form wide enough, whose operand is d
pub open spec fn advance_legal(w0: WView, w1: WView, d: nat) -> bool {
    (d < 0x40 && w1 == after(w0, b1(0x40 + d as int)))
    || (d < 0x100 && w1 == after(after(w0, b1(0x02)), wu(d, 1)))
    || (d < 0x1_0000 && w1 == after(after(w0, b1(0x03)), wu(d, 2)))
    || (d < 0x1_0000_0000 && w1 == after(after(w0, b1(0x04)), wu(d, 4)))
}
/// ... of the SMALLEST form that holds d
pub open spec fn advance_minimal(w0: WView, w1: WView, d: nat) -> bool {
    if d < 0x40 { w1 == after(w0, b1(0x40 + d as int)) }
    else if d < 0x100 { w1 == after(after(w0, b1(0x02)), wu(d, 1)) }
    else if d < 0x1_0000 { w1 == after(after(w0, b1(0x03)), wu(d, 2)) }
    else { w1 == after(after(w0, b1(0x04)), wu(d, 4)) }
}

/// the bit trick of write_nop: `(!len + 1) & (align - 1)` is the distance from len to the next multiple of align
pub proof fn lemma_pad(len: usize, align: u8)
    requires len > 0, pad_align_ok(align)
    ensures
        !len < usize::MAX,
        ({ let t = ((!len + 1) as usize) & ((align as usize - 1) as usize); t < align && (len + t) % (align as int) == 0 }),
        align & ((align - 1) as u8) == 0,
{
    assert(!len == 0xffff_ffff_ffff_ffffusize - len) by (bit_vector);
    let m = (!len + 1) as usize;
    assert(m as int == 0x1_0000_0000_0000_0000 - len);
    if align == 1 {
        assert(m & 0usize == 0usize) by (bit_vector);
        assert(1u8 & 0u8 == 0u8) by (bit_vector);
    } else if align == 2 {
        assert(m & 1usize == m % 2usize) by (bit_vector);
        assert(2u8 & 1u8 == 0u8) by (bit_vector);
    } else if align == 4 {
        assert(m & 3usize == m % 4usize) by (bit_vector);
        assert(4u8 & 3u8 == 0u8) by (bit_vector);
    } else {
        assert(m & 7usize == m % 8usize) by (bit_vector);
        assert(8u8 & 7u8 == 0u8) by (bit_vector);
    }
}

// ---- padding (6.4.1: "DW_CFA_nop instructions to make up the size of this entry")
/// n DW_CFA_nop bytes
pub open spec fn nops(n: nat) -> Seq<WOp> { Seq::new(n, |i: int| b1(0)) }
/// sizes an entry is padded to: the address sizes DWARF defines (7.5.1 / gimli read side: 1, 2, 4, 8)
pub open spec fn pad_align_ok(align: u8) -> bool { align == 1 || align == 2 || align == 4 || align == 8 }

// ---- entries (6.4.1; .eh_frame: LSB "Exception Frames")
/// the initial length field (7.2.2 / 7.4): 32-bit format one 4-byte word, 64-bit format 0xffff_ffff then an 8-byte word;
/// written as 0 and patched when the entry is complete
pub open spec fn after_initial_length(w: WView, format: Format) -> WView {
    match format {
        Format::Dwarf32 => after(w, wu(0, 4)),
        Format::Dwarf64 => after(after(w, wu(0xffff_ffff, 4)), wu(0, 8)),
    }
}
/// section offset of the length word that is patched
pub open spec fn length_word_offset(w: WView, format: Format) -> nat {
    match format { Format::Dwarf32 => w.len, Format::Dwarf64 => w.len + 4 }
}
/// size of the whole initial length field
pub open spec fn initial_length_size(format: Format) -> nat {
    match format { Format::Dwarf32 => 4, Format::Dwarf64 => 12 }
}
/// CIE_id (6.4.1 field 2): all-ones of the offset size in .debug_frame; 4 zero bytes in .eh_frame
pub open spec fn cie_id_op(eh_frame: bool, format: Format) -> WOp {
    if eh_frame { wu(0, 4) } else {
        match format { Format::Dwarf32 => wu(0xffff_ffff, 4), Format::Dwarf64 => wu(0xffff_ffff_ffff_ffff, 8) }
    }
}
/// CFI versions the writer may emit: .debug_frame 1 (DWARF 2), 3 (DWARF 3), 4 (DWARF 4/5); .eh_frame 1
pub open spec fn cfi_version_ok(eh_frame: bool, version: u16) -> bool {
    if eh_frame { version == 1 } else { version == 1 || version == 3 || version == 4 }
}

/// length, CIE id, version
pub open spec fn after_cie_start(w: WView, eh_frame: bool, e: Encoding) -> WView {
    after(after(after_initial_length(w, e.format), cie_id_op(eh_frame, e.format)), b1(e.version as int))
}

impl CommonInformationEntry {
    /// an augmentation string is needed (.eh_frame data present)
    pub closed spec fn has_aug(&self) -> bool {
        self.personality is Some || self.lsda_encoding is Some || self.signal_trampoline || self.fde_address_encoding != constants::DW_EH_PE_absptr
    }
    /// the augmentation string: "z" then 'L' (LSDA encoding), 'P' (personality), 'R' (FDE pointer encoding), 'S' (signal frame),
    /// each only if present, then the terminating NUL; the letters' data follow in the SAME order in the augmentation data
    #[verifier::opaque]
    pub closed spec fn after_aug_string(&self, w: WView) -> WView {
        let v0 = if self.has_aug() {
            let a = after(w, b1(0x7a));
            let b = if self.lsda_encoding is Some { after(a, b1(0x4c)) } else { a };
            let c = if self.personality is Some { after(b, b1(0x50)) } else { b };
            let d = if self.fde_address_encoding != constants::DW_EH_PE_absptr { after(c, b1(0x52)) } else { c };
            if self.signal_trampoline { after(d, b1(0x53)) } else { d }
        } else { w };
        after(v0, b1(0))
    }
    /// return address register: a single byte in version 1 of .debug_frame, ULEB128 otherwise (6.4.1 field 8; LSB for .eh_frame)
    pub closed spec fn ra_op(&self, eh_frame: bool) -> WOp {
        if !eh_frame && self.encoding.version == 1 { b1(self.return_address_register.0 as int) } else { WOp::Uleb(self.return_address_register.0 as u64) }
    }
    /// the view before the augmentation data: length, id, version, augmentation string, [address size, segment selector size
    /// (version 4)], code alignment factor (ULEB128), data alignment factor (SLEB128), return address register
    #[verifier::opaque]
    pub closed spec fn after_fixed_header(&self, w: WView, eh_frame: bool) -> WView {
        let e = self.encoding;
        let v1 = after_cie_start(w, eh_frame, e);
        let v2 = self.after_aug_string(v1);
        let v3 = if e.version >= 4 { after(after(v2, b1(e.address_size as int)), b1(0)) } else { v2 };
        after(after(after(v3, WOp::Uleb(self.code_alignment_factor as u64)), WOp::Sleb(self.data_alignment_factor as i64)), self.ra_op(eh_frame))
    }
    /// the augmentation data before its length is patched: a 1-byte length placeholder, then per letter: 'L' the LSDA pointer
    /// encoding byte, 'P' the personality encoding byte and the encoded personality pointer, 'R' the FDE pointer encoding byte
    #[verifier::opaque]
    pub closed spec fn after_aug_data(&self, v: WView) -> WView {
        let a0 = after(v, b1(0));
        let a1 = match self.lsda_encoding { Some(e) => after(a0, b1(e.0 as int)), None => a0 };
        let a2 = match self.personality {
            Some(p) => after(after(a1, b1(p.0.0 as int)), WOp::EhPointer { address: p.1, eh_pe: p.0, size: self.encoding.address_size }),
            None => a1,
        };
        if self.fde_address_encoding != constants::DW_EH_PE_absptr { after(a2, b1(self.fde_address_encoding.0 as int)) } else { a2 }
    }
    /// the complete header: the augmentation length (ULEB128, here always one byte) is patched to the size of the data after it
    pub closed spec fn after_header(&self, w: WView, eh_frame: bool) -> WView {
        let v = self.after_fixed_header(w, eh_frame);
        if self.has_aug() {
            let a = self.after_aug_data(v);
            after(a, WOp::PatchU { offset: v.len, val: (a.len - v.len - 1) as nat, size: 1 })
        } else { v }
    }
}

impl CommonInformationEntry {
    // every stage only appends fields (proved stage by stage so that no proof sees more than a handful of conditionals)
    pub proof fn lemma_aug_string_grew(&self, w: WView)
        ensures grew(w, self.after_aug_string(w))
    {
        reveal(CommonInformationEntry::after_aug_string);
    }
    pub proof fn lemma_fixed_header_grew(&self, w: WView, eh_frame: bool)
        ensures grew(w, self.after_fixed_header(w, eh_frame))
    {
        reveal(CommonInformationEntry::after_fixed_header);
        let v1 = after_cie_start(w, eh_frame, self.encoding);
        assert(grew(w, v1));
        self.lemma_aug_string_grew(v1);
        let v2 = self.after_aug_string(v1);
        assert(grew(w, v2));
    }
    pub proof fn lemma_aug_data_grew(&self, v: WView)
        ensures grew(v, self.after_aug_data(v)), self.after_aug_data(v).len >= v.len + 1
    {
        reveal(CommonInformationEntry::after_aug_data);
    }
    pub proof fn lemma_header_grew(&self, w: WView, eh_frame: bool)
        ensures grew(w, self.after_header(w, eh_frame))
    {
        self.lemma_fixed_header_grew(w, eh_frame);
        let v = self.after_fixed_header(w, eh_frame);
        self.lemma_aug_data_grew(v);
        let a = self.after_aug_data(v);
        assert(grew(w, a));
    }
}

impl FrameDescriptionEntry {
    /// the FDE header: length, CIE pointer (.debug_frame: section offset of the CIE, relocatable; .eh_frame: distance from
    /// the CIE pointer field back to the CIE, 4 bytes), initial location and address range (encoded per the CIE's 'R'
    /// encoding, or plain address-size words), then the augmentation data (length byte, LSDA pointer if the CIE has 'L')
    pub closed spec fn after_fde_fixed(&self, w: WView, eh_frame: bool, cie_offset: usize, cie: &CommonInformationEntry) -> WView {
        let e = cie.encoding;
        let v1 = after_initial_length(w, e.format);
        let v2 = if eh_frame { after(v1, wu((v1.len - cie_offset) as nat, 4)) }
                 else { after(v1, WOp::Offset { val: cie_offset, section: SectionId::DebugFrame, size: word_size(e.format) as u8 }) };
        if cie.fde_address_encoding != constants::DW_EH_PE_absptr {
            match eh_data_op(self.length as u64, constants::DwEhPe(eh_format(cie.fde_address_encoding)), e.address_size) {
                Some(op) => after(after(v2, WOp::EhPointer { address: self.address, eh_pe: cie.fde_address_encoding, size: e.address_size }), op),
                None => v2,
            }
        } else {
            after(after(v2, WOp::Address { address: self.address, size: e.address_size }), wu(self.length as nat, e.address_size as nat))
        }
    }
    pub closed spec fn after_fde_header(&self, w: WView, eh_frame: bool, cie_offset: usize, cie: &CommonInformationEntry) -> WView {
        let v = self.after_fde_fixed(w, eh_frame, cie_offset, cie);
        if cie.has_aug() {
            let a0 = after(v, b1(0));
            let a1 = match (self.lsda, cie.lsda_encoding) {
                (Some(l), Some(e)) => after(a0, WOp::EhPointer { address: l, eh_pe: e, size: cie.encoding.address_size }),
                _ => a0,
            };
            after(a1, WOp::PatchU { offset: v.len, val: (a1.len - v.len - 1) as nat, size: 1 })
        } else { v }
    }
}

/// CHECKPOINT obligation of CommonInformationEntry::write: when the instruction loop starts, the section (`actual`) is exactly
/// the old section followed by the header fields (`spec` = after_header(old view)).  A proof fn so that the clause has its own
/// tagged line (a failed call is reported at this `requires`).
pub proof fn checkpoint_cie_header(actual: WView, spec: WView)
    requires
        actual == spec, // [C14:cie-header]
{
}

/// the same for FrameDescriptionEntry::write (`spec` = after_fde_header(old view, ..))
pub proof fn checkpoint_fde_header(actual: WView, spec: WView)
    requires
        actual == spec, // [C14:fde-header]
{
}

/// the end of an entry: `w1` ends with the patch of the length word (at `length_word_offset` of the entry start `w0`) to the
/// number of bytes after the initial length field
pub open spec fn entry_closed(w0: WView, w1: WView, format: Format) -> bool {
    w1.ops.len() > 0 && w1.len >= w0.len + initial_length_size(format)
    && w1.ops.last() == (WOp::PatchU { offset: length_word_offset(w0, format), val: (w1.len - w0.len - initial_length_size(format)) as nat, size: word_size(format) })
}
