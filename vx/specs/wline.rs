// ---- write side of the DWARF 5 line number machine (C13; C12 "line program re-generation").  Ghost code only.
// Built ON TOP OF vx/specs/line.rs (module crate::vspec_line, owned by batch `line`, loaded unchanged): the writer is
// specified against the very `line_step` the reader (C04) is proved against.  Added here because line.rs has no
// multi-instruction run: `line_run` (fold of `line_step` over a sequence of instructions, collecting the rows),
// the writer's row (`WRow`, plain integers), and the arithmetic lemmas of the opcode selection.
use crate::vspec_line::*;
use vstd::arithmetic::div_mod::*;
use vstd::arithmetic::mul::*;

// ---------------------------------------------------------------------------------------------------------------
// running a sequence of instructions
// ---------------------------------------------------------------------------------------------------------------

/// result of running a sequence of instructions: the rows appended to the matrix, in order
pub ghost struct LineRun {
    /// the reader reported Error::AddressOverflow at some instruction (the run stops there)
    pub err: bool,
    pub rows: Seq<LineRegs>,
    /// registers before the next instruction
    pub next: LineRegs,
}

/// `p` continued by one more instruction (one `line_step`)
pub open spec fn run_snoc(h: LineHdr, p: LineRun, op: LineOp) -> LineRun {
    if p.err {
        p
    } else {
        let s = line_step(h, p.next, op);
        LineRun { err: s.err, rows: match s.row { Some(x) => p.rows.push(x), None => p.rows }, next: s.next }
    }
}

/// the machine started in registers `r` and run over `ops` (6.2.5: "the line number program is executed ... one
/// instruction at a time")
pub open spec fn line_run(h: LineHdr, r: LineRegs, ops: Seq<LineOp>) -> LineRun
    decreases ops.len()
{
    if ops.len() == 0 {
        LineRun { err: false, rows: Seq::empty(), next: r }
    } else {
        run_snoc(h, line_run(h, r, ops.drop_last()), ops.last())
    }
}

/// every instruction satisfies what the reader's decoder establishes (special opcodes in opcode_base..=255, operands in range)
#[verifier::opaque]
pub open spec fn line_ops_wf(h: LineHdr, ops: Seq<LineOp>) -> bool {
    forall|i: int| 0 <= i < ops.len() ==> line_op_wf(h, #[trigger] ops[i])
}

pub proof fn lemma_run_empty(h: LineHdr, r: LineRegs)
    ensures line_run(h, r, Seq::<LineOp>::empty()) == (LineRun { err: false, rows: Seq::empty(), next: r })
{
}

/// pushing one instruction == one more step
pub proof fn lemma_run_push(h: LineHdr, r: LineRegs, ops: Seq<LineOp>, op: LineOp)
    ensures line_run(h, r, ops.push(op)) == run_snoc(h, line_run(h, r, ops), op)
{
    assert(ops.push(op).drop_last() =~= ops);
}

/// runs compose: the rows of `a + b` are the rows of `a` followed by the rows of `b` started where `a` stopped.
/// (This is what turns the per-call contracts of generate_row / end_sequence / set_address into a statement about the
/// whole instruction list of a program, by induction over the calls.)
pub proof fn lemma_run_concat(h: LineHdr, r: LineRegs, a: Seq<LineOp>, b: Seq<LineOp>)
    ensures ({
        let p = line_run(h, r, a);
        let q = line_run(h, p.next, b);
        line_run(h, r, a + b) == (if p.err { p } else { LineRun { err: q.err, rows: p.rows + q.rows, next: q.next } })
    })
    decreases b.len()
{
    let p = line_run(h, r, a);
    if b.len() == 0 {
        assert(a + b =~= a);
        assert(p.rows + Seq::<LineRegs>::empty() =~= p.rows);
    } else {
        lemma_run_concat(h, r, a, b.drop_last());
        assert((a + b).drop_last() =~= a + b.drop_last());
        assert((a + b).last() == b.last());
        let q0 = line_run(h, p.next, b.drop_last());
        if !p.err && !q0.err {
            let s = line_step(h, q0.next, b.last());
            match s.row {
                Some(x) => { assert((p.rows + q0.rows).push(x) =~= p.rows + q0.rows.push(x)); },
                None => {},
            }
        }
    }
}

// ---------------------------------------------------------------------------------------------------------------
// the writer's row
// ---------------------------------------------------------------------------------------------------------------

/// a row as the writer holds it: the address is an OFFSET from the sequence's base address; `file` is the value of
/// the file register (FileId::raw: 1-based for version <= 4)
pub ghost struct WRow {
    pub address_offset: int,
    pub op_index: int,
    pub file: int,
    pub line: int,
    pub column: int,
    pub discriminator: int,
    pub is_stmt: bool,
    pub basic_block: bool,
    pub prologue_end: bool,
    pub epilogue_begin: bool,
    pub isa: int,
}

/// the registers that describe row `w` of a sequence whose base address is `base`
pub open spec fn wl_regs(base: int, w: WRow) -> LineRegs {
    LineRegs {
        address: base + w.address_offset, op_index: w.op_index, file: w.file, line: w.line, column: w.column,
        is_stmt: w.is_stmt, basic_block: w.basic_block, end_sequence: false, prologue_end: w.prologue_end,
        epilogue_begin: w.epilogue_begin, isa: w.isa, discriminator: w.discriminator, tombstone: false,
    }
}

/// the writer's copy of "basic_block, prologue_end, epilogue_begin := false, discriminator := 0" after a row
pub open spec fn wl_after(w: WRow) -> WRow {
    WRow { discriminator: 0, basic_block: false, prologue_end: false, epilogue_begin: false, ..w }
}

/// the writer's initial row (table 6.4; offset 0)
pub open spec fn wl_initial(h: LineHdr) -> WRow {
    WRow {
        address_offset: 0, op_index: 0, file: 1, line: 1, column: 0, discriminator: 0, is_stmt: h.default_is_stmt,
        basic_block: false, prologue_end: false, epilogue_begin: false, isa: 0,
    }
}

/// the address offset is a multiple of minimum_instruction_length (only such addresses are reachable by operation advances)
#[verifier::opaque]
pub open spec fn wl_aligned(h: LineHdr, address_offset: int) -> bool {
    address_offset % h.min_inst_len == 0
}

/// all fields are 64-bit unsigned, op_index < maximum_operations_per_instruction (6.2.2), and the address offset is a
/// multiple of minimum_instruction_length (only such addresses are reachable by operation advances)
pub open spec fn wl_row_wf(h: LineHdr, w: WRow) -> bool {
    &&& 0 <= w.address_offset <= 0xffff_ffff_ffff_ffff
    &&& 0 <= w.op_index < h.max_ops
    &&& 0 <= w.file <= 0xffff_ffff_ffff_ffff
    &&& 0 <= w.line <= 0xffff_ffff_ffff_ffff
    &&& 0 <= w.column <= 0xffff_ffff_ffff_ffff
    &&& 0 <= w.isa <= 0xffff_ffff_ffff_ffff
    &&& 0 <= w.discriminator <= 0xffff_ffff_ffff_ffff
    &&& wl_aligned(h, w.address_offset)
}

/// the row the writer remembers as "previous": a row after the per-row reset
pub open spec fn wl_prev_wf(h: LineHdr, w: WRow) -> bool {
    wl_row_wf(h, w) && w.discriminator == 0 && !w.basic_block && !w.prologue_end && !w.epilogue_begin
}

/// what `write::LineProgram::new` documents: "Panics if line_base > 0. Panics if line_base + line_range <= 0."
/// (a special opcode must exist for a line advance of 0), on top of a header a reader accepts
pub open spec fn wl_hdr_ok(h: LineHdr) -> bool {
    valid_line_hdr(h) && h.line_base <= 0 < h.line_base + h.line_range
}

/// (address, op_index) does not go backwards (6.2.5: within a sequence addresses only increase)
pub open spec fn wl_ordered(prev: WRow, row: WRow) -> bool {
    prev.address_offset < row.address_offset || (prev.address_offset == row.address_offset && prev.op_index <= row.op_index)
}

/// THE operation advance that takes the machine from `prev` to `row` (inverse of 6.2.5.1:
/// address += min_inst_len * ((op_index + adv) / max_ops), op_index = (op_index + adv) % max_ops)
#[verifier::opaque]
pub open spec fn wl_op_advance(h: LineHdr, prev: WRow, row: WRow) -> int {
    ((row.address_offset - prev.address_offset) / h.min_inst_len) * h.max_ops + row.op_index - prev.op_index
}

/// the line register can be taken from `from` to `to` by ONE signed advance (DW_LNS_advance_line has a SLEB128 operand,
/// gimli: i64)
pub open spec fn wl_line_delta_fits(from: int, to: int) -> bool {
    -0x8000_0000_0000_0000 <= to - from <= 0x7fff_ffff_ffff_ffff
}

/// C13 for one generated row.  `pushed` are the instructions one call appended.  For every base address of the sequence
/// for which the row's address exists on the target, the machine started in the previous row's registers and run over
/// exactly `pushed` appends exactly one row, the requested one, and continues in the state the writer remembers.
#[verifier::opaque]
pub open spec fn wl_generates(h: LineHdr, base: int, prev: WRow, row: WRow, pushed: Seq<LineOp>) -> bool {
    wl_cond(h, base, prev, row.address_offset) ==> {
        let run = line_run(h, wl_regs(base, prev), pushed);
        &&& !run.err
        &&& run.rows == seq![wl_regs(base, row)]
        &&& run.next == wl_regs(base, wl_after(row))
    }
}

/// C13 for end_sequence: one row with end_sequence set at (address_offset, op_index), every other register as in the
/// previous row; then the machine is back in its initial state
#[verifier::opaque]
pub open spec fn wl_ends(h: LineHdr, base: int, prev: WRow, address_offset: int, op_index: int, pushed: Seq<LineOp>) -> bool {
    wl_cond(h, base, prev, address_offset) ==> {
        let run = line_run(h, wl_regs(base, prev), pushed);
        &&& !run.err
        &&& run.rows == seq![LineRegs { address: base + address_offset, op_index: op_index, end_sequence: true, ..wl_regs(base, prev) }]
        &&& run.next == line_initial(h)
    }
}

// ---------------------------------------------------------------------------------------------------------------
// proof bookkeeping for a writer call that appends instructions one at a time
// ---------------------------------------------------------------------------------------------------------------

/// the base addresses a statement about a call quantifies over: the previous row's address exists (>= 0) and the
/// address `base + limit` the call has to reach exists on the target
pub open spec fn wl_cond(h: LineHdr, base: int, prev: WRow, limit: int) -> bool {
    0 <= base + prev.address_offset && base + limit <= addr_max(h)
}

/// for every admissible base: run from `prev` over `ops`, no row was appended and the machine stands at (relative) row `w`
pub open spec fn wl_at(h: LineHdr, prev: WRow, limit: int, ops: Seq<LineOp>, w: WRow) -> bool {
    forall|base: int| wl_cond(h, base, prev, limit) ==>
        #[trigger] line_run(h, wl_regs(base, prev), ops) == (LineRun { err: false, rows: Seq::empty(), next: wl_regs(base, w) })
}

pub proof fn lemma_wl_at_start(h: LineHdr, prev: WRow, limit: int)
    ensures wl_at(h, prev, limit, Seq::<LineOp>::empty(), prev)
{
}

pub proof fn lemma_wl_at_push(h: LineHdr, prev: WRow, limit: int, ops: Seq<LineOp>, w: WRow, op: LineOp, w2: WRow)
    requires
        wl_at(h, prev, limit, ops, w),
        forall|base: int| wl_cond(h, base, prev, limit) ==> #[trigger] line_step(h, wl_regs(base, w), op) == (LineStep { err: false, row: None, next: wl_regs(base, w2) }),
    ensures wl_at(h, prev, limit, ops.push(op), w2)
{
    assert forall|base: int| wl_cond(h, base, prev, limit) implies
        #[trigger] line_run(h, wl_regs(base, prev), ops.push(op)) == (LineRun { err: false, rows: Seq::empty(), next: wl_regs(base, w2) }) by {
        lemma_run_push(h, wl_regs(base, prev), ops, op);
        let p = line_run(h, wl_regs(base, prev), ops);
        let s = line_step(h, wl_regs(base, w), op);
        assert(p.next == wl_regs(base, w));
    }
}

pub proof fn lemma_wl_at_row(h: LineHdr, prev: WRow, ops: Seq<LineOp>, w: WRow, op: LineOp, row: WRow)
    requires
        wl_at(h, prev, row.address_offset, ops, w),
        forall|base: int| wl_cond(h, base, prev, row.address_offset) ==> #[trigger] line_step(h, wl_regs(base, w), op)
            == (LineStep { err: false, row: Some(wl_regs(base, row)), next: wl_regs(base, wl_after(row)) }),
    ensures forall|base: int| #[trigger] wl_generates(h, base, prev, row, ops.push(op))
{
    reveal(wl_generates);
    assert forall|base: int| #[trigger] wl_generates(h, base, prev, row, ops.push(op)) by {
        if wl_cond(h, base, prev, row.address_offset) {
            lemma_run_push(h, wl_regs(base, prev), ops, op);
            let p = line_run(h, wl_regs(base, prev), ops);
            let s = line_step(h, wl_regs(base, w), op);
            assert(p.next == wl_regs(base, w));
            assert(Seq::<LineRegs>::empty().push(wl_regs(base, row)) =~= seq![wl_regs(base, row)]);
        }
    }
}

pub proof fn lemma_wl_at_end(h: LineHdr, prev: WRow, ops: Seq<LineOp>, w: WRow, op: LineOp, address_offset: int, op_index: int)
    requires
        wl_at(h, prev, address_offset, ops, w),
        forall|base: int| wl_cond(h, base, prev, address_offset) ==> #[trigger] line_step(h, wl_regs(base, w), op)
            == (LineStep { err: false, row: Some(LineRegs { address: base + address_offset, op_index: op_index, end_sequence: true, ..wl_regs(base, prev) }), next: line_initial(h) }),
    ensures forall|base: int| #[trigger] wl_ends(h, base, prev, address_offset, op_index, ops.push(op))
{
    reveal(wl_ends);
    assert forall|base: int| #[trigger] wl_ends(h, base, prev, address_offset, op_index, ops.push(op)) by {
        if wl_cond(h, base, prev, address_offset) {
            lemma_run_push(h, wl_regs(base, prev), ops, op);
            let p = line_run(h, wl_regs(base, prev), ops);
            let s = line_step(h, wl_regs(base, w), op);
            assert(p.next == wl_regs(base, w));
            let r = LineRegs { address: base + address_offset, op_index: op_index, end_sequence: true, ..wl_regs(base, prev) };
            assert(Seq::<LineRegs>::empty().push(r) =~= seq![r]);
        }
    }
}

pub proof fn lemma_ops_wf_push(h: LineHdr, ops: Seq<LineOp>, op: LineOp)
    requires line_ops_wf(h, ops), line_op_wf(h, op)
    ensures line_ops_wf(h, ops.push(op))
{
    reveal(line_ops_wf);
}

// ---------------------------------------------------------------------------------------------------------------
// arithmetic of the opcode selection
// ---------------------------------------------------------------------------------------------------------------

/// x == q * d + r with 0 <= r < d  ==>  x / d == q, x % d == r
pub proof fn lemma_wl_divmod(x: int, d: int, q: int, r: int)
    requires d > 0, 0 <= r < d, x == q * d + r
    ensures x / d == q, x % d == r
{
    lemma_fundamental_div_mod_converse(x, d, q, r);
}

/// an exact multiple divides back
pub proof fn lemma_wl_exact_div(a: int, d: int)
    requires d > 0, a >= 0, a % d == 0
    ensures a == d * (a / d), a / d >= 0, a / d <= a
{
    lemma_fundamental_div_mod(a, d);
    lemma_line_divmod(a, d);
}

/// the difference of two multiples is a multiple
pub proof fn lemma_wl_diff_multiple(a: int, b: int, d: int)
    requires d > 0, 0 <= a <= b, a % d == 0, b % d == 0
    ensures (b - a) % d == 0, (b - a) / d == b / d - a / d, b / d >= a / d
{
    lemma_wl_exact_div(a, d);
    lemma_wl_exact_div(b, d);
    assert(b - a == (b / d - a / d) * d + 0) by (nonlinear_arith)
        requires a == d * (a / d), b == d * (b / d);
    if b / d < a / d {
        assert(d * (b / d) < d * (a / d)) by (nonlinear_arith) requires d > 0, b / d < a / d;
    }
    lemma_wl_divmod(b - a, d, b / d - a / d, 0);
}

/// the operation advance computed by the writer is the one that lands on the target: advancing by
/// `wl_op_advance(h, prev, row)` from prev's (address, op_index) gives exactly row's
pub proof fn lemma_wl_advance_lands(h: LineHdr, base: int, prev: WRow, row: WRow, r: LineRegs)
    requires
        valid_line_hdr(h), wl_row_wf(h, prev), wl_row_wf(h, row), wl_ordered(prev, row),
        r.address == base + prev.address_offset, r.op_index == prev.op_index, !r.tombstone,
    ensures
        wl_op_advance(h, prev, row) >= 0,
        line_advance(h, r, wl_op_advance(h, prev, row)).regs == (LineRegs { address: base + row.address_offset, op_index: row.op_index, ..r }),
        line_advance(h, r, wl_op_advance(h, prev, row)).err == (base + row.address_offset > addr_max(h)),
        wl_op_advance(h, prev, row) == 0 <==> (prev.address_offset == row.address_offset && prev.op_index == row.op_index),
{
    reveal(wl_op_advance);
    reveal(wl_aligned);
    reveal(line_advance);
    let d = h.min_inst_len;
    let m = h.max_ops;
    let q = (row.address_offset - prev.address_offset) / d;
    lemma_wl_diff_multiple(prev.address_offset, row.address_offset, d);
    lemma_wl_exact_div(row.address_offset - prev.address_offset, d);
    let adv = wl_op_advance(h, prev, row);
    let t = r.op_index + adv;
    assert(q >= 0);
    assert(d * q == row.address_offset - prev.address_offset);
    assert(t == q * m + row.op_index);
    if q == 0 {
        assert(q * m == 0) by (nonlinear_arith) requires q == 0;
        assert(d * q == 0) by (nonlinear_arith) requires q == 0;
    } else {
        assert(q * m >= m) by (nonlinear_arith) requires q >= 1, m >= 1;
        assert(d * q >= 1) by (nonlinear_arith) requires q >= 1, d >= 1;
    }
    lemma_wl_divmod(t, m, q, row.op_index);
}

/// two operation advances in a row are one advance by the sum (DW_LNS_const_add_pc followed by a special opcode)
pub proof fn lemma_wl_advance_compose(h: LineHdr, r: LineRegs, a: int, b: int)
    requires valid_line_hdr(h), 0 <= r.op_index < h.max_ops, 0 <= a, 0 <= b, !r.tombstone
    ensures ({
        let e1 = line_advance(h, r, a);
        let e2 = line_advance(h, e1.regs, b);
        let e = line_advance(h, r, a + b);
        e2.regs == e.regs && e1.regs.address <= e.regs.address && r.address <= e1.regs.address && !e1.regs.tombstone
        && 0 <= e1.regs.op_index < h.max_ops
    })
{
    reveal(line_advance);
    let m = h.max_ops;
    let d = h.min_inst_len;
    let t1 = r.op_index + a;
    lemma_line_divmod(t1, m);
    let q1 = t1 / m;
    let r1 = t1 % m;
    let t2 = r1 + b;
    lemma_line_divmod(t2, m);
    let t = r.op_index + a + b;
    assert(t == (q1 + t2 / m) * m + t2 % m) by (nonlinear_arith)
        requires t == t1 + b, t1 == m * q1 + r1, t2 == r1 + b, t2 == m * (t2 / m) + t2 % m;
    lemma_wl_divmod(t, m, q1 + t2 / m, t2 % m);
    assert(d * (q1 + t2 / m) == d * q1 + d * (t2 / m)) by (nonlinear_arith);
    assert(d * (t2 / m) >= 0) by (nonlinear_arith) requires d >= 1, t2 / m >= 0;
    assert(d * q1 >= 0) by (nonlinear_arith) requires d >= 1, q1 >= 0;
}

/// a special opcode `opcode_base + sl + k * line_range` with 0 <= sl < line_range adds `line_base + sl` to the line
/// and advances by `k` operations (6.2.5.1)
pub proof fn lemma_wl_special_decomp(h: LineHdr, sl: int, k: int)
    requires valid_line_hdr(h), 0 <= sl < h.line_range, 0 <= k
    ensures ({
        let adj = sl + k * h.line_range;
        adj % h.line_range == sl && adj / h.line_range == k
    })
{
    lemma_wl_divmod(sl + k * h.line_range, h.line_range, k, sl);
}

/// the operation advance of DW_LNS_const_add_pc ("special opcode 255") and its basic bounds
pub open spec fn wl_const_add_pc_advance(h: LineHdr) -> int {
    (255 - h.opcode_base) / h.line_range
}

pub proof fn lemma_wl_op_range(h: LineHdr)
    requires valid_line_hdr(h)
    ensures 0 <= wl_const_add_pc_advance(h) <= 255 - h.opcode_base,
            wl_const_add_pc_advance(h) * h.line_range <= 255 - h.opcode_base,
            (wl_const_add_pc_advance(h) + 1) * h.line_range > 255 - h.opcode_base,
{
    let x = 255 - h.opcode_base;
    lemma_line_divmod(x, h.line_range);
    assert((x / h.line_range + 1) * h.line_range == h.line_range * (x / h.line_range) + h.line_range) by (nonlinear_arith);
    assert((x / h.line_range) * h.line_range == h.line_range * (x / h.line_range)) by (nonlinear_arith);
}

/// the `else` branch of the selection never underflows: if `s + adv * line_range > 255` for a special base
/// `opcode_base <= s < opcode_base + line_range`, then adv >= (255 - opcode_base) / line_range
pub proof fn lemma_wl_no_underflow(h: LineHdr, s: int, adv: int)
    requires valid_line_hdr(h), h.opcode_base <= s < h.opcode_base + h.line_range, 0 <= adv, s + adv * h.line_range > 255
    ensures adv >= wl_const_add_pc_advance(h)
{
    lemma_wl_op_range(h);
    let k = wl_const_add_pc_advance(h);
    if adv < k {
        assert((adv + 1) * h.line_range <= k * h.line_range) by (nonlinear_arith) requires adv + 1 <= k, h.line_range >= 1;
        assert((adv + 1) * h.line_range == adv * h.line_range + h.line_range) by (nonlinear_arith);
    }
}

/// `line_add` of the reader's machine (specs/line.rs) behind an opaque name: its `% 2^64` stays out of the writer's
/// verification conditions; only the lemmas below look inside
#[verifier::opaque]
pub open spec fn wl_line_add(line: int, inc: int) -> int {
    line_add(line, inc)
}

pub proof fn lemma_wl_line_add_range(line: int, inc: int)
    requires 0 <= line <= 0xffff_ffff_ffff_ffff
    ensures 0 <= wl_line_add(line, inc) <= 0xffff_ffff_ffff_ffff
{
    reveal(wl_line_add);
}

pub proof fn lemma_wl_line_add_zero(line: int)
    requires 0 <= line <= 0xffff_ffff_ffff_ffff
    ensures wl_line_add(line, 0) == line
{
    reveal(wl_line_add);
}

/// line_add with the exact signed difference reaches the target line
pub proof fn lemma_wl_line_add(from: int, to: int)
    requires 0 <= from <= 0xffff_ffff_ffff_ffff, 0 <= to <= 0xffff_ffff_ffff_ffff
    ensures line_add(from, to - from) == to, wl_line_add(from, to - from) == to
{
    reveal(wl_line_add);
    if to - from >= 0 {
        lemma_small_mod(to as nat, 0x1_0000_0000_0000_0000);
    }
}

// ---------------------------------------------------------------------------------------------------------------
// single steps of the machine as the writer uses them (per base address)
// ---------------------------------------------------------------------------------------------------------------

/// `w` already agrees with `row` in every register except (address, op_index, line)
pub open spec fn wl_rest_done(w: WRow, row: WRow) -> bool {
    w == (WRow { address_offset: w.address_offset, op_index: w.op_index, line: w.line, ..row })
}

/// where DW_LNS_const_add_pc takes the (relative) row `w`
#[verifier::opaque]
pub open spec fn wl_mid(h: LineHdr, w: WRow) -> WRow {
    let t = w.op_index + wl_const_add_pc_advance(h);
    WRow { address_offset: w.address_offset + h.min_inst_len * (t / h.max_ops), op_index: t % h.max_ops, ..w }
}

/// DW_LNS_advance_pc with the computed operation advance lands on the target (address, op_index)
pub proof fn lemma_wl_step_advance_pc(h: LineHdr, base: int, w: WRow, row: WRow)
    requires valid_line_hdr(h), wl_row_wf(h, w), wl_row_wf(h, row), wl_ordered(w, row), base + row.address_offset <= addr_max(h)
    ensures
        line_step(h, wl_regs(base, w), LineOp::AdvancePc(wl_op_advance(h, w, row)))
            == (LineStep { err: false, row: None, next: wl_regs(base, WRow { address_offset: row.address_offset, op_index: row.op_index, ..w }) }),
{
    lemma_wl_advance_lands(h, base, w, row, wl_regs(base, w));
}

/// base-independent facts about the row reached by DW_LNS_const_add_pc when the remaining advance is at least its own
pub proof fn lemma_wl_mid(h: LineHdr, w: WRow, row: WRow)
    requires
        valid_line_hdr(h), wl_row_wf(h, w), wl_row_wf(h, row), wl_ordered(w, row),
        wl_op_advance(h, w, row) >= wl_const_add_pc_advance(h),
    ensures
        wl_row_wf(h, wl_mid(h, w)), wl_ordered(wl_mid(h, w), row),
        wl_op_advance(h, wl_mid(h, w), row) == wl_op_advance(h, w, row) - wl_const_add_pc_advance(h),
        w.address_offset <= wl_mid(h, w).address_offset <= row.address_offset,
        wl_mid(h, w) == (WRow { address_offset: wl_mid(h, w).address_offset, op_index: wl_mid(h, w).op_index, ..w }),
{
    reveal(wl_op_advance);
    reveal(wl_aligned);
    reveal(wl_mid);
    let d = h.min_inst_len;
    let m = h.max_ops;
    let rr = wl_const_add_pc_advance(h);
    lemma_wl_op_range(h);
    let t1 = w.op_index + rr;
    lemma_line_divmod(t1, m);
    let q1 = t1 / m;
    let r1 = t1 % m;
    let big = (row.address_offset - w.address_offset) / d;
    lemma_wl_diff_multiple(w.address_offset, row.address_offset, d);
    lemma_wl_exact_div(row.address_offset - w.address_offset, d);
    assert(d * big == row.address_offset - w.address_offset);
    // big * m + row.op >= q1 * m + r1 with row.op < m, r1 >= 0  ==>  big >= q1
    assert(big * m + row.op_index >= q1 * m + r1) by (nonlinear_arith)
        requires big * m + row.op_index - w.op_index >= rr, t1 == w.op_index + rr, t1 == m * q1 + r1;
    if big < q1 {
        assert(big * m + m <= q1 * m) by (nonlinear_arith) requires big + 1 <= q1, m >= 1;
    }
    assert(big >= q1);
    let mid = wl_mid(h, w);
    assert(d * q1 >= 0) by (nonlinear_arith) requires d >= 1, q1 >= 0;
    assert(d * (big - q1) == d * big - d * q1) by (nonlinear_arith);
    assert(d * (big - q1) >= 0) by (nonlinear_arith) requires d >= 1, big - q1 >= 0;
    assert(row.address_offset - mid.address_offset == (big - q1) * d + 0) by (nonlinear_arith)
        requires row.address_offset - mid.address_offset == d * big - d * q1;
    lemma_wl_divmod(row.address_offset - mid.address_offset, d, big - q1, 0);
    // mid.address_offset is a multiple of d
    lemma_wl_exact_div(w.address_offset, d);
    assert(mid.address_offset == (w.address_offset / d + q1) * d + 0) by (nonlinear_arith)
        requires mid.address_offset == w.address_offset + d * q1, w.address_offset == d * (w.address_offset / d);
    lemma_wl_divmod(mid.address_offset, d, w.address_offset / d + q1, 0);
    assert((big - q1) * m == big * m - q1 * m) by (nonlinear_arith);
    if big == q1 {
        assert(big * m == q1 * m);
    }
}

/// DW_LNS_const_add_pc from `w` when the remaining advance to `row` is at least its own
pub proof fn lemma_wl_step_const_add_pc(h: LineHdr, base: int, w: WRow, row: WRow)
    requires
        valid_line_hdr(h), wl_row_wf(h, w), wl_row_wf(h, row), wl_ordered(w, row),
        wl_op_advance(h, w, row) >= wl_const_add_pc_advance(h), base + row.address_offset <= addr_max(h),
    ensures
        line_step(h, wl_regs(base, w), LineOp::ConstAddPc) == (LineStep { err: false, row: None, next: wl_regs(base, wl_mid(h, w)) }),
{
    reveal(wl_mid);
    lemma_wl_mid(h, w, row);
    reveal(line_advance);
}

/// the special opcode `opcode_base + sl + k * line_range` from `w`: line += line_base + sl, advance by k, append the row
pub proof fn lemma_wl_step_special(h: LineHdr, base: int, w: WRow, row: WRow, sl: int, k: int)
    requires
        valid_line_hdr(h), wl_row_wf(h, w), wl_row_wf(h, row), wl_ordered(w, row), wl_rest_done(w, row),
        k == wl_op_advance(h, w, row), 0 <= sl < h.line_range, h.opcode_base + sl + k * h.line_range <= 255,
        wl_line_add(w.line, h.line_base + sl) == row.line, base + row.address_offset <= addr_max(h),
    ensures
        line_step(h, wl_regs(base, w), LineOp::Special(h.opcode_base + sl + k * h.line_range))
            == (LineStep { err: false, row: Some(wl_regs(base, row)), next: wl_regs(base, wl_after(row)) }),
        k >= 0,
{
    reveal(wl_line_add);
    let r1 = LineRegs { line: row.line, ..wl_regs(base, w) };
    lemma_wl_advance_lands(h, base, w, row, r1);
    lemma_wl_special_decomp(h, sl, k);
}

/// DW_LNS_copy from a state that already is the row
pub proof fn lemma_wl_step_copy(h: LineHdr, base: int, w: WRow, row: WRow)
    requires
        valid_line_hdr(h), wl_row_wf(h, w), wl_row_wf(h, row), wl_ordered(w, row), wl_rest_done(w, row),
        wl_op_advance(h, w, row) == 0, w.line == row.line,
    ensures
        line_step(h, wl_regs(base, w), LineOp::Copy) == (LineStep { err: false, row: Some(wl_regs(base, row)), next: wl_regs(base, wl_after(row)) }),
        w == row,
{
    lemma_wl_advance_lands(h, base, w, row, wl_regs(base, w));
}

/// a special opcode that advances nothing but is not the default one cannot be confused with it:
/// opcode_base + sl + k * line_range == opcode_base - line_base  ==>  k == 0 && line_base + sl == 0
pub proof fn lemma_wl_default_special(h: LineHdr, sl: int, k: int)
    requires wl_hdr_ok(h), 0 <= sl < h.line_range, 0 <= k, sl + k * h.line_range == -h.line_base
    ensures k == 0, h.line_base + sl == 0
{
    if k >= 1 {
        assert(k * h.line_range >= h.line_range) by (nonlinear_arith) requires k >= 1, h.line_range >= 1;
    }
    assert(k * h.line_range == 0) by (nonlinear_arith) requires k == 0;
}

/// effect of an instruction that only sets one register (6.2.5.2, 6.2.5.3) on the writer's relative row
pub open spec fn wl_sets(op: LineOp, w: WRow, w2: WRow) -> bool {
    match op {
        LineOp::SetDiscriminator(d) => w2 == (WRow { discriminator: d, ..w }),
        LineOp::SetBasicBlock => w2 == (WRow { basic_block: true, ..w }),
        LineOp::SetPrologueEnd => w2 == (WRow { prologue_end: true, ..w }),
        LineOp::SetEpilogueBegin => w2 == (WRow { epilogue_begin: true, ..w }),
        LineOp::NegateStmt => w2 == (WRow { is_stmt: !w.is_stmt, ..w }),
        LineOp::SetFile(f) => w2 == (WRow { file: f, ..w }),
        LineOp::SetColumn(c) => w2 == (WRow { column: c, ..w }),
        LineOp::SetIsa(i) => w2 == (WRow { isa: i, ..w }),
        LineOp::AdvanceLine(s) => w2 == (WRow { line: wl_line_add(w.line, s), ..w }),
        _ => false,
    }
}

pub proof fn lemma_wl_sets_step(h: LineHdr, base: int, op: LineOp, w: WRow, w2: WRow)
    requires wl_sets(op, w, w2)
    ensures line_step(h, wl_regs(base, w), op) == (LineStep { err: false, row: None, next: wl_regs(base, w2) })
{
    reveal(wl_line_add);
}

/// the operation advance depends on the two positions only
pub proof fn lemma_wl_op_advance_cong(h: LineHdr, a: WRow, b: WRow, a2: WRow, b2: WRow)
    requires a.address_offset == a2.address_offset, a.op_index == a2.op_index, b.address_offset == b2.address_offset, b.op_index == b2.op_index
    ensures wl_op_advance(h, a, b) == wl_op_advance(h, a2, b2)
{
    reveal(wl_op_advance);
}

pub proof fn lemma_ops_wf_empty(h: LineHdr)
    ensures line_ops_wf(h, Seq::<LineOp>::empty())
{
    reveal(line_ops_wf);
}

/// offset 0 is on an instruction boundary
pub proof fn lemma_wl_aligned_zero(h: LineHdr)
    requires h.min_inst_len >= 1
    ensures wl_aligned(h, 0)
{
    reveal(wl_aligned);
}
