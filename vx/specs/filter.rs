// ---- ghost specs + trusted std models for batch `filter` (property C19)           module crate::fspec
//
// TRUSTED part (everything else in this file is spec definitions and *proved* lemmas):
//   ax::axiom_uso_key         derive(Hash, PartialEq, Eq) on the newtype `UnitSectionOffset(usize)` is a lawful hash key
//   ax::axiom_uso_ord         derive(Ord) on `UnitSectionOffset(usize)` orders by the wrapped integer
//   HashMap::get_mut          std/hashbrown model (vstd has none): returns the slot of the key; the rest of the map is untouched
//   <[T]>::sort_unstable      std model: result is an `Ord`-sorted permutation of the input
//   (R-MAP: `hashbrown::HashMap<_, _, FnvBuildHasher>` is replaced by `std::collections::HashMap`, whose vstd model
//    (`insert`, `remove`, `view`) is what `FilterDependencies` is verified against.)

pub type K = UnitSectionOffset;
pub type G = Map<K, Vec<K>>;
pub type SliceOf<T> = [T];

pub uninterp spec fn ord_le<T>(a: T, b: T) -> bool;
pub open spec fn ord_sorted<T>(s: Seq<T>) -> bool { forall|i: int, j: int| 0 <= i <= j < s.len() ==> ord_le(s[i], s[j]) }

pub mod ax {
    use vstd::prelude::*;
    use super::*;
    #[verifier::external_body]
    pub broadcast proof fn axiom_uso_ord(a: K, b: K) ensures #[trigger] ord_le(a, b) == (a.0 <= b.0) {}
    #[verifier::external_body]
    pub broadcast proof fn axiom_uso_key() ensures #[trigger] vstd::std_specs::hash::obeys_key_model::<K>() {}
}

pub assume_specification<'a, K1, V, S, A, Q>[std::collections::HashMap::<K1, V, S, A>::get_mut](m: &'a mut HashMap<K1, V, S, A>, k: &Q) -> (r: Option<&'a mut V>)
    where A: std::alloc::Allocator, K1: core::cmp::Eq + core::hash::Hash + core::borrow::Borrow<Q>, Q: core::hash::Hash + core::cmp::Eq + ?Sized, S: core::hash::BuildHasher
    ensures
        obeys_key_model::<K1>() && builds_valid_hashers::<S>() ==> match r {
            Some(v) => maps_borrowed_key_to_value(old(m)@, k, *v) && maps_borrowed_key_to_value(final(m)@, k, *final(v))
                 && (forall|m1: Map<K1, V>| #![trigger borrowed_key_removed(old(m)@, m1, k)] borrowed_key_removed(old(m)@, m1, k) ==> borrowed_key_removed(final(m)@, m1, k)),
            None => !contains_borrowed_key(old(m)@, k) && final(m)@ == old(m)@,
        };

pub assume_specification<T>[SliceOf::<T>::sort_unstable](s: &mut [T])
    where T: core::cmp::Ord
    ensures final(s)@.to_multiset() == old(s)@.to_multiset(), ord_sorted(final(s)@);

// ------------------------------------------------------------------------------------------------ C19 graph specs
// g: registered entries (dom) and their recorded dependency lists; "valid(e)" == g.contains_key(e)

/// s is closed under the edges of g that lead to registered entries
pub open spec fn closed(g: G, s: ISet<K>) -> bool {
    forall|e: K, i: int| #![trigger g[e]@[i], s.contains(e)]
        s.contains(e) && g.contains_key(e) && 0 <= i < g[e]@.len() && g.contains_key(g[e]@[i]) ==> s.contains(g[e]@[i])
}
/// every registered element of v is in s
pub open spec fn vsub(v: Seq<K>, g: G, s: ISet<K>) -> bool {
    forall|i: int| #![trigger v[i]] 0 <= i < v.len() && g.contains_key(v[i]) ==> s.contains(v[i])
}
// ---- the four clauses of "R is the reachability closure of required ∩ valid in g"
pub open spec fn reach_valid(g: G, r: Seq<K>) -> bool { forall|i: int| 0 <= i < r.len() ==> g.contains_key(#[trigger] r[i]) }
pub open spec fn reach_required(g: G, req: Seq<K>, r: Seq<K>) -> bool {
    forall|i: int| #![trigger req[i]] 0 <= i < req.len() && g.contains_key(req[i]) ==> r.contains(req[i])
}
pub open spec fn reach_closed(g: G, r: Seq<K>) -> bool {
    forall|e: K, i: int| #![trigger g[e]@[i], r.contains(e)]
        r.contains(e) && g.contains_key(e) && 0 <= i < g[e]@.len() && g.contains_key(g[e]@[i]) ==> r.contains(g[e]@[i])
}
/// r lies inside EVERY (finite or infinite) closed set that contains the registered required entries
pub open spec fn reach_minimal(g: G, req: Seq<K>, r: Seq<K>) -> bool {
    forall|s: ISet<K>| #![trigger closed(g, s)] closed(g, s) && vsub(req, g, s) ==> (forall|i: int| 0 <= i < r.len() ==> s.contains(#[trigger] r[i]))
}
pub open spec fn sorted_by_offset(r: Seq<K>) -> bool { forall|i: int, j: int| 0 <= i <= j < r.len() ==> r[i].0 <= r[j].0 }

// ---- loop invariants of the worklist
pub open spec fn qhas(q: Seq<Vec<K>>, x: K) -> bool { exists|j: int| 0 <= j < q.len() && (#[trigger] q[j])@.contains(x) }
pub open spec fn pending(q: Seq<Vec<K>>, rest: Seq<K>, x: K) -> bool { qhas(q, x) || rest.contains(x) }
pub open spec fn qsub(q: Seq<Vec<K>>, g: G, s: ISet<K>) -> bool { forall|j: int| #![trigger q[j]] 0 <= j < q.len() ==> vsub(q[j]@, g, s) }
/// cur is the not-yet-visited part of g
pub open spec fn inv_part(g: G, cur: G, vis: Seq<K>) -> bool {
    &&& forall|k: K| #![trigger cur.contains_key(k)] cur.contains_key(k) ==> g.contains_key(k) && cur[k] == g[k]
    &&& forall|k: K| #![trigger vis.contains(k)] g.contains_key(k) ==> (cur.contains_key(k) <==> !vis.contains(k))
    &&& forall|i: int| 0 <= i < vis.len() ==> g.contains_key(#[trigger] vis[i])
    &&& vis.no_duplicates()
}
/// every registered dependency of a visited entry, and every registered required entry, is visited or pending
pub open spec fn inv_closed(g: G, req: Seq<K>, vis: Seq<K>, q: Seq<Vec<K>>, rest: Seq<K>) -> bool {
    &&& forall|e: K, i: int| #![trigger g[e]@[i], vis.contains(e)]
            vis.contains(e) && 0 <= i < g[e]@.len() && g.contains_key(g[e]@[i]) ==> vis.contains(g[e]@[i]) || pending(q, rest, g[e]@[i])
    &&& forall|i: int| #![trigger req[i]] 0 <= i < req.len() && g.contains_key(req[i]) ==> vis.contains(req[i]) || pending(q, rest, req[i])
}
/// visited and pending entries lie inside every closed superset of the registered required entries
pub open spec fn inv_min(g: G, req: Seq<K>, vis: Seq<K>, q: Seq<Vec<K>>, rest: Seq<K>) -> bool {
    forall|s: ISet<K>| #![trigger closed(g, s)] closed(g, s) && vsub(req, g, s) ==> vsub(vis, g, s) && qsub(q, g, s) && vsub(rest, g, s)
}

pub proof fn lemma_push_contains(v: Seq<K>, x: K)
    ensures forall|k: K| #![trigger v.push(x).contains(k)] v.push(x).contains(k) <==> (v.contains(k) || k == x)
{
    assert forall|k: K| #![trigger v.push(x).contains(k)] v.push(x).contains(k) <==> (v.contains(k) || k == x) by {
        if v.contains(k) { let i = choose|i: int| 0 <= i < v.len() && v[i] == k; assert(v.push(x)[i] == k); }
        if k == x { assert(v.push(x)[v.len() as int] == k); }
        if v.push(x).contains(k) { let i = choose|i: int| 0 <= i < v.push(x).len() && v.push(x)[i] == k; if i < v.len() { assert(v[i] == k); } }
    }
}
pub proof fn lemma_qhas_push(q: Seq<Vec<K>>, d: Vec<K>)
    ensures forall|k: K| #![trigger qhas(q.push(d), k)] qhas(q.push(d), k) <==> (qhas(q, k) || d@.contains(k))
{
    assert forall|k: K| #![trigger qhas(q.push(d), k)] qhas(q.push(d), k) <==> (qhas(q, k) || d@.contains(k)) by {
        let q2 = q.push(d);
        if qhas(q, k) { let j = choose|j: int| 0 <= j < q.len() && (#[trigger] q[j])@.contains(k); assert(q2[j] == q[j]); }
        if d@.contains(k) { assert(q2[q.len() as int] == d); }
        if qhas(q2, k) { let j = choose|j: int| 0 <= j < q2.len() && (#[trigger] q2[j])@.contains(k); if j < q.len() { assert(q2[j] == q[j]); } else { assert(q2[j] == d); } }
    }
}
pub proof fn lemma_skip_contains(v: Seq<K>, idx: int)
    requires 0 <= idx < v.len()
    ensures forall|k: K| #![trigger v.skip(idx).contains(k)] v.skip(idx).contains(k) <==> (k == v[idx] || v.skip(idx + 1).contains(k))
{
    assert forall|k: K| #![trigger v.skip(idx).contains(k)] v.skip(idx).contains(k) <==> (k == v[idx] || v.skip(idx + 1).contains(k)) by {
        let a = v.skip(idx); let b = v.skip(idx + 1);
        if a.contains(k) { let i = choose|i: int| 0 <= i < a.len() && a[i] == k; if i > 0 { assert(b[i - 1] == k); } }
        if k == v[idx] { assert(a[0] == k); }
        if b.contains(k) { let i = choose|i: int| 0 <= i < b.len() && b[i] == k; assert(a[i + 1] == k); }
    }
}
/// initial state of the worklist
pub proof fn lemma_init(g: G, req: Vec<K>, q: Seq<Vec<K>>)
    requires q.len() == 1, q[0] == req,
    ensures inv_part(g, g, Seq::empty()), inv_closed(g, req@, Seq::empty(), q, Seq::empty()), inv_min(g, req@, Seq::empty(), q, Seq::empty()),
{
    let vis = Seq::<K>::empty();
    assert forall|x: K| !vis.contains(x) by {}
    assert forall|i: int| #![trigger req@[i]] 0 <= i < req@.len() implies qhas(q, req@[i]) by { assert(q[0]@.contains(req@[i])); }
}
/// `entries` popped off the queue
pub proof fn lemma_start(g: G, req: Seq<K>, vis: Seq<K>, q0: Seq<Vec<K>>, entries: Vec<K>, q1: Seq<Vec<K>>)
    requires q0.len() > 0, entries == q0.last(), q1 == q0.drop_last(),
        inv_closed(g, req, vis, q0, Seq::empty()), inv_min(g, req, vis, q0, Seq::empty()),
    ensures inv_closed(g, req, vis, q1, entries@.skip(0)), inv_min(g, req, vis, q1, entries@),
{
    assert(entries@.skip(0) =~= entries@);
    assert(q0 =~= q1.push(entries));
    lemma_qhas_push(q1, entries);
    assert forall|x: K| pending(q0, Seq::empty(), x) implies pending(q1, entries@, x) by {
        assert(!Seq::<K>::empty().contains(x));
    }
    assert forall|s: ISet<K>| #![trigger closed(g, s)] closed(g, s) && vsub(req, g, s) implies vsub(vis, g, s) && qsub(q1, g, s) && vsub(entries@, g, s) by {
        assert(qsub(q0, g, s));
        assert(q0[q0.len() - 1] == entries);
        assert forall|j: int| #![trigger q1[j]] 0 <= j < q1.len() implies vsub(q1[j]@, g, s) by { assert(q1[j] == q0[j]); }
    }
}
/// entries[idx] is still unvisited: it is visited now and its dependency list becomes pending
pub proof fn lemma_step_some(g: G, req: Seq<K>, cur0: G, vis0: Seq<K>, q0: Seq<Vec<K>>, entries: Seq<K>, idx: int)
    requires 0 <= idx < entries.len(), inv_part(g, cur0, vis0), cur0.contains_key(entries[idx]),
        inv_closed(g, req, vis0, q0, entries.skip(idx)), inv_min(g, req, vis0, q0, entries),
    ensures ({ let entry = entries[idx]; let vis = vis0.push(entry); let q = q0.push(cur0[entry]);
        inv_part(g, cur0.remove(entry), vis) && inv_closed(g, req, vis, q, entries.skip(idx + 1)) && inv_min(g, req, vis, q, entries) }),
{
    let entry = entries[idx]; let deps = cur0[entry]; let vis = vis0.push(entry); let q = q0.push(deps); let rest0 = entries.skip(idx); let rest = entries.skip(idx + 1);
    lemma_push_contains(vis0, entry);
    lemma_qhas_push(q0, deps);
    lemma_skip_contains(entries, idx);
    assert(g.contains_key(entry) && deps == g[entry]);
    assert(!vis0.contains(entry));
    assert(vis.no_duplicates()) by {
        assert forall|i: int, j: int| 0 <= i < vis.len() && 0 <= j < vis.len() && i != j implies vis[i] != vis[j] by {
            if i < vis0.len() && j < vis0.len() {} else if i < vis0.len() { assert(vis0.contains(vis0[i])); } else if j < vis0.len() { assert(vis0.contains(vis0[j])); }
        }
    }
    assert(inv_part(g, cur0.remove(entry), vis));
    assert forall|x: K| pending(q0, rest0, x) implies vis.contains(x) || pending(q, rest, x) by {}
    assert forall|e: K, i: int| #![trigger g[e]@[i], vis.contains(e)]
            vis.contains(e) && 0 <= i < g[e]@.len() && g.contains_key(g[e]@[i]) implies vis.contains(g[e]@[i]) || pending(q, rest, g[e]@[i]) by {
        let d = g[e]@[i];
        if e == entry { assert(deps@.contains(d)); } else { assert(vis0.contains(e)); assert(vis0.contains(d) || pending(q0, rest0, d)); }
    }
    assert forall|i: int| #![trigger req[i]] 0 <= i < req.len() && g.contains_key(req[i]) implies vis.contains(req[i]) || pending(q, rest, req[i]) by {
        assert(vis0.contains(req[i]) || pending(q0, rest0, req[i]));
    }
    assert forall|s: ISet<K>| #![trigger closed(g, s)] closed(g, s) && vsub(req, g, s) implies vsub(vis, g, s) && qsub(q, g, s) && vsub(entries, g, s) by {
        assert(vsub(entries, g, s));
        assert(s.contains(entry));
        assert(vsub(vis0, g, s));
        assert forall|i: int| #![trigger vis[i]] 0 <= i < vis.len() && g.contains_key(vis[i]) implies s.contains(vis[i]) by {
            if i < vis0.len() { assert(vis[i] == vis0[i]); }
        }
        assert(vsub(deps@, g, s)) by {
            assert forall|i: int| #![trigger deps@[i]] 0 <= i < deps@.len() && g.contains_key(deps@[i]) implies s.contains(deps@[i]) by {
                assert(g[entry]@[i] == deps@[i]);
            }
        }
        assert(qsub(q0, g, s));
        assert forall|j: int| #![trigger q[j]] 0 <= j < q.len() implies vsub(q[j]@, g, s) by {
            if j < q0.len() { assert(q[j] == q0[j]); } else { assert(q[j] == deps); }
        }
    }
}
/// entries[idx] is unregistered or already visited: it is skipped
pub proof fn lemma_step_none(g: G, req: Seq<K>, cur0: G, vis0: Seq<K>, q0: Seq<Vec<K>>, entries: Seq<K>, idx: int)
    requires 0 <= idx < entries.len(), inv_part(g, cur0, vis0), !cur0.contains_key(entries[idx]),
        inv_closed(g, req, vis0, q0, entries.skip(idx)),
    ensures inv_closed(g, req, vis0, q0, entries.skip(idx + 1)),
{
    let entry = entries[idx]; let rest0 = entries.skip(idx); let rest = entries.skip(idx + 1);
    lemma_skip_contains(entries, idx);
    assert forall|x: K| g.contains_key(x) && pending(q0, rest0, x) implies vis0.contains(x) || pending(q0, rest, x) by {}
    assert forall|e: K, i: int| #![trigger g[e]@[i], vis0.contains(e)]
            vis0.contains(e) && 0 <= i < g[e]@.len() && g.contains_key(g[e]@[i]) implies vis0.contains(g[e]@[i]) || pending(q0, rest, g[e]@[i]) by {
        let d = g[e]@[i];
        assert(vis0.contains(d) || pending(q0, rest0, d));
    }
    assert forall|i: int| #![trigger req[i]] 0 <= i < req.len() && g.contains_key(req[i]) implies vis0.contains(req[i]) || pending(q0, rest, req[i]) by {
        assert(vis0.contains(req[i]) || pending(q0, rest0, req[i]));
    }
}
/// the worklist is empty; r is the sorted permutation of the visited list
pub proof fn lemma_finish(g: G, req: Seq<K>, cur: G, vis: Seq<K>, r: Seq<K>)
    requires inv_part(g, cur, vis), inv_closed(g, req, vis, Seq::empty(), Seq::empty()), inv_min(g, req, vis, Seq::empty(), Seq::empty()),
        r.to_multiset() == vis.to_multiset(), ord_sorted(r),
    ensures reach_valid(g, r), reach_required(g, req, r), reach_closed(g, r), reach_minimal(g, req, r), sorted_by_offset(r), r.no_duplicates(),
{
    broadcast use ax::axiom_uso_ord;
    r.to_multiset_ensures(); vis.to_multiset_ensures();
    assert forall|x: K| r.contains(x) <==> vis.contains(x) by {
        assert(r.to_multiset().count(x) == vis.to_multiset().count(x));
        assert(r.contains(x) <==> r.to_multiset().count(x) > 0);
        assert(vis.contains(x) <==> vis.to_multiset().count(x) > 0);
    }
    vis.lemma_multiset_has_no_duplicates();
    r.lemma_multiset_has_no_duplicates_conv();
    assert forall|x: K| !pending(Seq::<Vec<K>>::empty(), Seq::<K>::empty(), x) by { assert(!Seq::<K>::empty().contains(x)); }
    assert forall|i: int| 0 <= i < r.len() implies g.contains_key(#[trigger] r[i]) by {
        assert(r.contains(r[i])); let k = choose|k: int| 0 <= k < vis.len() && vis[k] == r[i];
    }
    assert forall|s: ISet<K>| #![trigger closed(g, s)] closed(g, s) && vsub(req, g, s) implies (forall|i: int| 0 <= i < r.len() ==> s.contains(#[trigger] r[i])) by {
        assert forall|i: int| 0 <= i < r.len() implies s.contains(#[trigger] r[i]) by {
            assert(r.contains(r[i])); let k = choose|k: int| 0 <= k < vis.len() && vis[k] == r[i];
            assert(vsub(vis, g, s));
        }
    }
    assert forall|i: int, j: int| 0 <= i <= j < r.len() implies r[i].0 <= r[j].0 by { assert(ord_le(r[i], r[j])); }
}
